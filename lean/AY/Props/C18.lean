/-
  AY.Props.C18 — dump then parse gives a tree that merges and evaluates the same.

  Property text: "Writing any parsed document with the library's dump and parsing the text back
  yields a document that is interchangeable with the original: substituted at any position of a
  merge sequence it produces the same merged config, it evaluates to the same value, and it carries
  the same user metadata. Dumping the re-parsed document produces the same text again."

  Model: AY.Model.Dump (`represent` = `_node_representer` with the `dumper.metadata` stack, flag
  elision against the stack and the type defaults, the single-tag shortcut, node-kind tags) composed
  with AY.Model.Construct (`construct` = the loader). The model starts and ends at the representation
  tree (`Raw`); YAML text emission and scanning is PyYAML and is exercised by harness/props/c18.py.

  PARTIAL. What is proved:
    * C18_roundtrip_partial / C18_dump_fixpoint_partial: for every TAG-FREE document (mappings,
      lists, scalars of every type, null; any nesting, repeated keys, any source flags) dump ∘ parse
      is the identity on the node tree — every attribute, raw and effective, of every node is
      preserved, so the re-parsed document is interchangeable with the original in every merge
      sequence and evaluation (it is the same value of type `Node`), and the second dump equals the first.
    * the property is FALSE of the faithful model (and of the code) on the tagged vocabulary; each
      mechanism is proved on a concrete witness (replayed on the implementation by the harness):
      C18_explicit_default_delete_counterexample (D17a), C18_default_under_parent_counterexample
      (D17g), C18_clear_not_dumpable (D17c), C18_path_noref_not_reparseable (D17d),
      C18_fstr_becomes_eval (D17h), C18_append_with_metadata_not_reparseable (D17i).
  Not proved: the round trip "up to elided-but-ineffective attributes" for the merge-control
  vocabulary under the hypotheses that exclude D17a/D17g (no explicit flag equal to its type default);
  it is covered by the correspondence check (model = code on 3 000+ generated documents per run of the
  thorough tier) and by the implementation-only oracle.
  Attributes preserved exactly by dump ∘ parse in general (by construction of `represent`): node
  kinds, keys and order, scalar content, user metadata; preserved only EFFECTIVELY: priority,
  delete, allow_new, safe (an explicit value equal to the value inherited from an enclosing dumped
  node is dropped and re-inherited); NOT preserved: explicit values equal to the type default
  (D17a, D17g), the source file of `!path`, `idx`.
  Only property theorems live here; lemmas are in AY.Lemmas.C18Lemmas.
-/
import AY.Lemmas.C18Lemmas
import AY.Model.Build
namespace AY

/-! ### Concrete documents used by the examples -/

/-- `{a: {x: 1, y: [true, ~, "s", 1.5]}, 3: [], b: }` (tag-free) -/
def c18ExPlain : Raw :=
  .map .none {} [
    (.str "a", .map .none {} [(.str "x", .scalar .none {} (.lit (.int 1))),
      (.str "y", .seq .none {} [.scalar .none {} (.lit (.bool true)), .scalar .none {} (.lit .null),
        .scalar .none {} (.lit (.str "s")), .scalar .none {} (.lit (.float "1.5"))])]),
    (.int 3, .seq .none {} []),
    (.str "b", .scalar .none {} .empty)]

/-- `a: !del []` -/
def c18ExDel : Raw := .map .none {} [(.str "a", .seq .plain { del := some true } [])]
/-- `a: [1]` -/
def c18ExBase : Raw := .map .none {} [(.str "a", .seq .none {} [.scalar .none {} (.lit (.int 1))])]
/-- `x: !del {a: !merge {p: 1}}` -/
def c18ExUnder : Raw :=
  .map .none {} [(.str "x", .map .plain { del := some true } [
    (.str "a", .map .plain { del := some false } [(.str "p", .scalar .none {} (.lit (.int 1)))])])]

def okOr (x : Except Err Node) : Node :=
  match x with
  | .ok n => n
  | .error _ => .leaf {} .required

def dumpOr (x : Except DumpErr Raw) : Raw :=
  match x with
  | .ok r => r
  | .error _ => .scalar .none {} .empty

/-- parse, dump, parse again -/
def reparsed (r : Raw) : Node := okOr (construct {} (dumpOr (represent (okOr (construct {} r)))))

/-! ### the tag-free vocabulary: dump ∘ parse is the identity -/

/- "Writing any parsed document with the library's dump and parsing the text back yields a document
   that is interchangeable with the original" — for every tag-free document the re-parsed tree IS the
   original tree (equal as a value, all raw and effective attributes of all nodes), hence it merges,
   evaluates and carries metadata identically wherever it is substituted. -/
theorem C18_roundtrip_partial (env : Env) (r : Raw) (n : Node) (hu : Untagged r = true)
    (h : construct env r = .ok n) :
    ∃ r', represent n = .ok r' ∧ construct env r' = .ok n :=
  (td_rt env none r n hu h).1

example : Untagged c18ExPlain = true := by decide
example : ∃ r', represent (okOr (construct {} c18ExPlain)) = .ok r' ∧ construct {} r' = .ok (okOr (construct {} c18ExPlain)) :=
  C18_roundtrip_partial {} c18ExPlain _ (by decide) rfl

/- "Dumping the re-parsed document produces the same text again." -/
theorem C18_dump_fixpoint_partial (env : Env) (r : Raw) (n : Node) (hu : Untagged r = true)
    (h : construct env r = .ok n) :
    ∃ r', represent n = .ok r' ∧ ∀ n', construct env r' = .ok n' → represent n' = .ok r' := by
  obtain ⟨r', h1, h2⟩ := C18_roundtrip_partial env r n hu h
  refine ⟨r', h1, fun n' h' => ?_⟩
  rw [h2] at h'
  cases h'
  exact h1

/-! ### the tagged vocabulary: where the property fails (each replayed on the implementation) -/

/- D17a. An explicit `!del` equal to the type default (`a: !del []`) is elided; the re-parsed node has
   no explicit delete, and the remove-this-key idiom is lost: merged onto `a: [1]` the original
   removes the key `a`, the re-parsed document leaves `a: []`. -/
theorem C18_explicit_default_delete_counterexample :
    (getNode (okOr (construct {} c18ExDel)) [.str "a"]).map (fun n => n.flags.del) = some (some true) ∧
    (getNode (reparsed c18ExDel) [.str "a"]).map (fun n => n.flags.del) = some none ∧
    (flatten [okOr (construct {} c18ExBase), okOr (construct {} c18ExDel)]).toOption.map
        (fun m => hasChild (.str "a") m.children) = some false ∧
    (flatten [okOr (construct {} c18ExBase), reparsed c18ExDel]).toOption.map
        (fun m => hasChild (.str "a") m.children) = some true := by
  refine ⟨by decide, by decide, by decide, by decide⟩

/- D17g. A flag equal to the type default is elided even when the enclosing node imposes the opposite:
   in `x: !del {a: !merge {p: 1}}` the node `a` merges; in the re-parsed dump (`x: !del {a: {p: 1}}`) it deletes. -/
theorem C18_default_under_parent_counterexample :
    (getNode (okOr (construct {} c18ExUnder)) [.str "x", .str "a"]).map eDel = some false ∧
    (getNode (reparsed c18ExUnder) [.str "x", .str "a"]).map eDel = some true := by
  refine ⟨by decide, by decide⟩

/- D17c. A tree that contains `!clear` cannot be dumped. -/
theorem C18_clear_not_dumpable (f g : Flags) (key : Key) :
    represent (.comp f .dict [(key, .leaf g .clear)]) = .error .clearCrash := by
  simp [represent, representWith, representMap, representLeaf, CompKind.isDictFam]

/- D17d. `!path` without reference point (and without metadata) does not re-parse to itself. -/
theorem C18_path_noref_not_reparseable (f : Flags) (cs : List (Key × Node)) (items : List Raw)
    (h : representSeq (pushStack {} true (nodeInfo {} (.comp f (.path "") cs))) cs = .ok items)
    (hkw : (nodeInfo {} (.comp f (.path "") cs)).isEmpty = true) :
    represent (.comp f (.path "") cs) = .error .pathNoRef := by
  simp [represent, representWith, CompKind.isDictFam, CompKind.tagged, h, representComp, hkw]

example : represent (.comp {} (.path "") [(.int 0, .leaf {} (.scalar (.str "x")))]) = .error .pathNoRef := rfl

/- D17h. An f-string node is dumped with the `!eval` tag. -/
theorem C18_fstr_becomes_eval (f : Flags) (c : String) :
    representWith {} (.leaf f (.fstr c)) = .ok (.scalar .eval (nodeInfo {} (.leaf f (.fstr c))) (.text c)) := by
  simp [representWith, representLeaf]

/- D17i. `!append` with metadata (e.g. a priority inherited from a `!force` ancestor) is written with a
   tag that has no constructor. -/
theorem C18_append_with_metadata_not_reparseable :
    represent (okOr (construct {} (.map .plain { prio := some 1 } [(.str "a", .seq .append {} [.scalar .none {} (.lit (.int 1))])])))
      = .error .noMetadataForm := rfl

end AY
