/-
  AY.Props.C18 — dump then parse gives a tree that merges and evaluates the same.

  Property text: "Writing any parsed document with the library's dump and parsing the text back
  yields a document that is interchangeable with the original: substituted at any position of a
  merge sequence it produces the same merged config, it evaluates to the same value, and it carries
  the same user metadata. Dumping the re-parsed document produces the same text again."

  Model: AY.Model.Dump (`represent` = `_node_representer` with the `dumper.metadata` stack, flag
  elision against the stack and the type defaults, the single-tag shortcut, node-kind tags) composed
  with AY.Model.Construct (`construct` = the loader). The model starts and ends at the representation
  tree (`Raw`); YAML text emission and scanning is PyYAML and is exercised by harness/props/c18.py.

  PARTIAL. What is proved:
    * C18_roundtrip_partial / C18_dump_fixpoint_partial: for every TAG-FREE document (mappings,
      lists, scalars of every type, null; any nesting, repeated keys, any source flags) dump ∘ parse
      is the identity on the node tree — every attribute, raw and effective, of every node is
      preserved, so the re-parsed document is interchangeable with the original in every merge
      sequence and evaluation (it is the same value of type `Node`), and the second dump equals the first.
    * the property is FALSE of the faithful model (and of the code) on the tagged vocabulary; each
      mechanism is proved on a concrete witness (replayed on the implementation by the harness):
      C18_explicit_default_delete_counterexample (D17a), C18_default_under_parent_counterexample
      (D17g), C18_append_with_metadata_not_reparseable and C18_fstr_with_metadata_not_reparseable
      (D17i); the shortcut-tag mechanism D17k is in AY/Props/C18_Effective.lean.
    * after the repairs of D17c, D17d, D17h, D17j the corresponding node kinds round-trip exactly:
      C18_clear_roundtrip, C18_fstr_roundtrip, C18_safe_tag_roundtrip, C18_path_noref_reparse
      (+ C18_path_source_carried) — the former negations are gone.
  Not proved: the round trip "up to elided-but-ineffective attributes" for the merge-control
  vocabulary under the hypotheses that exclude D17a/D17g (no explicit flag equal to its type default);
  it is covered by the correspondence check (model = code on 3 000+ generated documents per run of the
  thorough tier) and by the implementation-only oracle.
  Attributes preserved exactly by dump ∘ parse in general (by construction of `represent`): node
  kinds, keys and order, scalar content, user metadata; preserved only EFFECTIVELY: priority,
  delete, allow_new, safe (an explicit value equal to the value inherited from an enclosing dumped
  node is dropped and re-inherited); NOT preserved: explicit values equal to the type default
  (D17a, D17g), the source file of `!path`, `idx`.
  Only property theorems live here; lemmas are in AY.Lemmas.C18Lemmas.
-/
import AY.Lemmas.C18Lemmas
import AY.Model.Build
namespace AY

/-! ### Concrete documents used by the examples -/

/-- `{a: {x: 1, y: [true, ~, "s", 1.5]}, 3: [], b: }` (tag-free) -/
def c18ExPlain : Raw :=
  .map .none {} [
    (.str "a", .map .none {} [(.str "x", .scalar .none {} (.lit (.int 1))),
      (.str "y", .seq .none {} [.scalar .none {} (.lit (.bool true)), .scalar .none {} (.lit .null),
        .scalar .none {} (.lit (.str "s")), .scalar .none {} (.lit (.float "1.5"))])]),
    (.int 3, .seq .none {} []),
    (.str "b", .scalar .none {} .empty)]

/-- `a: !del []` -/
def c18ExDel : Raw := .map .none {} [(.str "a", .seq .plain { del := some true } [])]
/-- `a: [1]` -/
def c18ExBase : Raw := .map .none {} [(.str "a", .seq .none {} [.scalar .none {} (.lit (.int 1))])]
/-- `x: !del {a: !merge {p: 1}}` -/
def c18ExUnder : Raw :=
  .map .none {} [(.str "x", .map .plain { del := some true } [
    (.str "a", .map .plain { del := some false } [(.str "p", .scalar .none {} (.lit (.int 1)))])])]

def okOr (x : Except Err Node) : Node :=
  match x with
  | .ok n => n
  | .error _ => .leaf {} .required

def dumpOr (x : Except DumpErr Raw) : Raw :=
  match x with
  | .ok r => r
  | .error _ => .scalar .none {} .empty

/-- parse, dump, parse again -/
def reparsed (r : Raw) : Node := okOr (construct {} (dumpOr (represent (okOr (construct {} r)))))

/-! ### the tag-free vocabulary: dump ∘ parse is the identity -/

/- "Writing any parsed document with the library's dump and parsing the text back yields a document
   that is interchangeable with the original" — for every tag-free document the re-parsed tree IS the
   original tree (equal as a value, all raw and effective attributes of all nodes), hence it merges,
   evaluates and carries metadata identically wherever it is substituted. -/
theorem C18_roundtrip_partial (env : Env) (r : Raw) (n : Node) (hu : Untagged r = true)
    (h : construct env r = .ok n) :
    ∃ r', represent n = .ok r' ∧ construct env r' = .ok n :=
  (td_rt env none r n hu h).1

example : Untagged c18ExPlain = true := by decide
example : ∃ r', represent (okOr (construct {} c18ExPlain)) = .ok r' ∧ construct {} r' = .ok (okOr (construct {} c18ExPlain)) :=
  C18_roundtrip_partial {} c18ExPlain _ (by decide) rfl

/- "Dumping the re-parsed document produces the same text again." -/
theorem C18_dump_fixpoint_partial (env : Env) (r : Raw) (n : Node) (hu : Untagged r = true)
    (h : construct env r = .ok n) :
    ∃ r', represent n = .ok r' ∧ ∀ n', construct env r' = .ok n' → represent n' = .ok r' := by
  obtain ⟨r', h1, h2⟩ := C18_roundtrip_partial env r n hu h
  refine ⟨r', h1, fun n' h' => ?_⟩
  rw [h2] at h'
  cases h'
  exact h1

/-! ### the tagged vocabulary: where the property fails (each replayed on the implementation) -/

/- D17a. An explicit `!del` equal to the type default (`a: !del []`) is elided; the re-parsed node has
   no explicit delete, and the remove-this-key idiom is lost: merged onto `a: [1]` the original
   removes the key `a`, the re-parsed document leaves `a: []`. -/
theorem C18_explicit_default_delete_counterexample :
    (getNode (okOr (construct {} c18ExDel)) [.str "a"]).map (fun n => n.flags.del) = some (some true) ∧
    (getNode (reparsed c18ExDel) [.str "a"]).map (fun n => n.flags.del) = some none ∧
    (flatten [okOr (construct {} c18ExBase), okOr (construct {} c18ExDel)]).toOption.map
        (fun m => hasChild (.str "a") m.children) = some false ∧
    (flatten [okOr (construct {} c18ExBase), reparsed c18ExDel]).toOption.map
        (fun m => hasChild (.str "a") m.children) = some true := by
  refine ⟨by decide, by decide, by decide, by decide⟩

/- D17g. A flag equal to the type default is elided even when the enclosing node imposes the opposite:
   in `x: !del {a: !merge {p: 1}}` the node `a` merges; in the re-parsed dump (`x: !del {a: {p: 1}}`) it deletes. -/
theorem C18_default_under_parent_counterexample :
    (getNode (okOr (construct {} c18ExUnder)) [.str "x", .str "a"]).map eDel = some false ∧
    (getNode (reparsed c18ExUnder) [.str "x", .str "a"]).map eDel = some true := by
  refine ⟨by decide, by decide⟩

/-! ### repaired node kinds: exact round trips (D17c, D17h, D17j, D17d) -/

/- D17c (repaired). `!clear` with any keywords that the dumper keeps (none repeats a default:
   `noDefaultKw`) is dumped as `!clear[:metadata]` with exactly these keywords, so parsing the dump
   rebuilds the same node: kind, explicit priority / delete / allow_new / safe, user metadata,
   source-level flag and file are all equal. -/
theorem C18_clear_roundtrip (env : Env) (kw : CtorKw) (n : Node) (hk : noDefaultKw env kw = true)
    (h : construct env (.scalar .clear kw .empty) = .ok n) :
    represent n = .ok (.scalar .clear kw .empty) ∧
      ∃ r', represent n = .ok r' ∧ construct env r' = .ok n := by
  have hn : n = .leaf (mkFlags env kw) .clear := by
    simp only [construct, constructTD, wrapScalar, adoptBy] at h; cases h; rfl
  have hr : represent n = .ok (.scalar .clear kw .empty) := by
    subst hn
    simp only [represent, representWith, representLeaf, nodeInfo_leaf_top env kw _ hk]
  exact ⟨hr, _, hr, h⟩

example : noDefaultKw {} { prio := some 1, md := [("m", .int 1)] } = true := by decide
example : ∃ n, construct {} (.scalar .clear { prio := some 1, md := [("m", .int 1)] } .empty) = .ok n ∧
    represent n = .ok (.scalar .clear { prio := some 1, md := [("m", .int 1)] } .empty) :=
  ⟨_, rfl, (C18_clear_roundtrip {} _ _ (by decide) rfl).1⟩

/- D17h (repaired). An f-string node is dumped with its own tag `!fstr` and parsed back as the same
   node (kind, code, all flags). -/
theorem C18_fstr_roundtrip (env : Env) (c : String) (n : Node)
    (h : construct env (.scalar .fstr {} (.text c)) = .ok n) :
    represent n = .ok (.scalar .fstr {} (.text c)) ∧
      ∃ r', represent n = .ok r' ∧ construct env r' = .ok n := by
  have hn : n = .leaf (mkFlags env {}) (.fstr c) := by
    simp only [construct, constructTD, wrapScalar, adoptBy] at h; cases h; rfl
  have hi : nodeInfo {} (.leaf (mkFlags env {}) (.fstr c)) = {} :=
    nodeInfo_free _ _ ⟨rfl, rfl, rfl, rfl, rfl⟩
  have hr : represent n = .ok (.scalar .fstr {} (.text c)) := by
    subst hn
    simp [represent, representWith, representLeaf, hi, CtorKw.isEmpty, CtorKw.flagCount]
  exact ⟨hr, _, hr, h⟩

example : represent (okOr (construct {} (.scalar .fstr {} (.text "f'{b}'")))) = .ok (.scalar .fstr {} (.text "f'{b}'")) :=
  (C18_fstr_roundtrip {} _ _ rfl).1

/- D17j (repaired). In a source loaded with `safe=False` an explicit `safe=True` on a scalar is written
   as the simple tag `!safe`, which the loader reads back as the keyword `safe=True`: same node. -/
theorem C18_safe_tag_roundtrip (env : Env) (v : Scalar) (n : Node) (hv : v ≠ .null) (hs : env.dSafe = false)
    (h : construct env (.scalar .plain { safe := some true } (.lit v)) = .ok n) :
    represent n = .ok (.scalar .plain { safe := some true } (.lit v)) ∧
      ∃ r', represent n = .ok r' ∧ construct env r' = .ok n := by
  have hk : noDefaultKw env { safe := some true } = true := by simp [noDefaultKw, hs]
  have hn : n = .leaf (mkFlags env { safe := some true }) (.scalar v) := by
    cases v <;> first
      | exact absurd rfl hv
      | (simp only [construct, constructTD, wrapScalar, adoptBy, RVal.toScalar] at h; cases h; rfl)
  have hr : represent n = .ok (.scalar .plain { safe := some true } (.lit v)) := by
    subst hn
    cases v <;> first
      | exact absurd rfl hv
      | simp [represent, representWith, representLeaf, nodeInfo_leaf_top env _ _ hk, plainTag, CtorKw.isEmpty,
          CtorKw.flagCount]
  exact ⟨hr, _, hr, h⟩

example : ∃ n, construct { dSafe := false } (.scalar .plain { safe := some true } (.lit (.int 5))) = .ok n ∧
    represent n = .ok (.scalar .plain { safe := some true } (.lit (.int 5))) :=
  ⟨_, rfl, (C18_safe_tag_roundtrip { dSafe := false } _ _ (by decide) rfl rfl).1⟩

/- D17d (repaired). A `!path` without reference point is written as the mapping
   `{values, ref_point: '', source_file}`; the `!path` constructor now takes it as keyword arguments,
   i.e. the re-parse sees the short `!path` over the dumped components. Metadata on such a node
   (only reachable by inheritance, e.g. a priority from a `!force` ancestor: the tag becomes
   `!path:<hex>`) is dropped by the constructor and re-inherited from the ancestor. -/
theorem C18_path_noref_reparse (kw : CtorKw) (items : List Raw) :
    representComp (.path "") kw items [] = .ok (.seq (.path "") {} items) := by
  simp [representComp]

/-- `a: !path [x, y]` -/
def c18ExPath : Raw :=
  .map .none {} [(.str "a", .seq (.path "") {} [.scalar .none {} (.lit (.str "x")), .scalar .none {} (.lit (.str "y"))])]
/-- `!force {a: !path [x]}` -/
def c18ExPathForce : Raw :=
  .map .plain { prio := some 1 } [(.str "a", .seq (.path "") {} [.scalar .none {} (.lit (.str "x"))])]

-- the whole documents round-trip exactly (every attribute of every node), also below `!force`
example : construct {} (dumpOr (represent (okOr (construct {} c18ExPath)))) = construct {} c18ExPath := rfl
example : construct { src := some "/cfg/m.yaml" } (dumpOr (represent (okOr (construct { src := some "/cfg/m.yaml" } c18ExPath))))
    = construct { src := some "/cfg/m.yaml" } c18ExPath := rfl
example : construct {} (dumpOr (represent (okOr (construct {} c18ExPathForce)))) = construct {} c18ExPathForce := rfl
example : represent (okOr (construct {} c18ExPath)) = .ok c18ExPath := rfl

/- The dumped mapping of every `!path` node carries the file the node was written in; parsed from
   another file (`env`) the node keeps the original one (the file-relative reference points `file`,
   `parent(n)` keep denoting the same location). The `Raw` tree has no slot for this keyword, so the
   rule is stated on its own; the harness checks it on the implementation (`moved`). -/
theorem C18_path_source_carried (env : Env) (f : Flags) (s : String) (h : f.src = some s) :
    pathSourceOnReparse env f = some s := by
  simp [pathSourceOnReparse, h]

/- D17i. `!append` with metadata (e.g. a priority inherited from a `!force` ancestor) is written with a
   tag that has no constructor. -/
theorem C18_append_with_metadata_not_reparseable :
    represent (okOr (construct {} (.map .plain { prio := some 1 } [(.str "a", .seq .append {} [.scalar .none {} (.lit (.int 1))])])))
      = .error .noMetadataForm := rfl

/- D17i, new facet after the repair of D17h: `!fstr` has no `:metadata` form either, so an f-string
   below a `!force` ancestor is written as `!fstr:<hex>`, which has no constructor (before the repair
   it was written as `!eval:<hex>`, which parsed — as an EvalNode). -/
theorem C18_fstr_with_metadata_not_reparseable :
    represent (okOr (construct {} (.map .plain { prio := some 1 } [(.str "a", .scalar .fstr {} (.text "f'{b}'"))])))
      = .error .noMetadataForm := rfl

end AY
