/-
  AY.Props.C07_Built — property C07 for every tree a Builder produces: the hypothesis `uniqueKeys root`
  of the whole-build theorems of AY.Props.C07 ("every tree the library builds") is discharged for
  `root = Builder.flatten(stages)` with stages parsed from documents without duplicate sibling keys
  (`KI.rawKeyed`, full tag vocabulary).  Lemmas: AY/Lemmas/KeyInv*.lean, AY/Lemmas/KeyInvariants.lean.
-/
import AY.Props.C07
import AY.Lemmas.KeyInvariants
namespace AY

/-- `{m: !import os, c: !call:f {a: !xref m}}` and a second stage `{b: !bind:f {a: !xref c}}` -/
def c07BuiltDoc1 : Raw :=
  .map .none {} [
    (.str "m", .scalar .imp {} (.text "os")),
    (.str "c", .map (.call "f") {} [(.str "a", .scalar .xref {} (.text "m"))])]
def c07BuiltDoc2 : Raw :=
  .map .none {} [(.str "b", .map (.bind "f") {} [(.str "a", .scalar .xref {} (.text "c"))])]
/-- a third stage `{d: [!call:f{{safe: false}} {a: 1}]}`: an `!unsafe` call inside a list -/
def c07BuiltDoc3 : Raw :=
  .map .none {} [(.str "d", .seq .none {} [.map (.call "f") { safe := some false }
    [(.str "a", .scalar .none {} (.lit (.int 1)))]])]
def c07BuiltStage (r : Raw) : Node := match construct {} r with | .ok n => n | .error _ => .leaf {} .required
def c07BuiltStages : List Node := [c07BuiltStage c07BuiltDoc1, c07BuiltStage c07BuiltDoc2]
def c07BuiltStagesU : List Node := [c07BuiltStage c07BuiltDoc1, c07BuiltStage c07BuiltDoc2, c07BuiltStage c07BuiltDoc3]
def c07BuiltRoot : Node := match flatten c07BuiltStages with | .ok r => r | .error _ => .leaf {} .required
def c07BuiltRootU : Node := match flatten c07BuiltStagesU with | .ok r => r | .error _ => .leaf {} .required

/- "No function is called, no module imported, no expression evaluated unless the node is safe", for a
   real build: `root` is what `Builder.flatten` returns for stages the loader built from documents
   without duplicate sibling keys; every entry of the log of a successful evaluation was written for
   the node `get_node` finds at the logged path, that node is safe and is a `!call` / `!bind` / `!eval`
   / `!import` node with the logged label.  No hypothesis on the shape of `root` is left. -/
theorem C07_evaluate_only_safe_built (w : World) (stages : List Node) (root : Node) (v : Val) (st : EvSt)
    (hs : ∀ s, s ∈ stages → ∃ env raw, KI.rawKeyed raw = true ∧ construct env raw = .ok s)
    (hf : flatten stages = .ok root) (h : evaluate w root = .ok (v, st)) :
    ∀ e, e ∈ st.log → ∃ m, getNode root e.path = some m ∧ eSafe m.flags = true ∧ dynWhat m = some e.what :=
  C07_evaluate_only_safe_getNode w root v st (built_uniqueKeys hs hf) h

/- example data: both stage lists flatten (kernel evaluation) -/
theorem c07Built_flatten : flatten c07BuiltStages = .ok c07BuiltRoot ∧
    flatten c07BuiltStagesU = .ok c07BuiltRootU := by
  have h : (match flatten c07BuiltStages with | .ok _ => true | .error _ => false) = true := by decide +kernel
  have hu : (match flatten c07BuiltStagesU with | .ok _ => true | .error _ => false) = true := by decide +kernel
  unfold c07BuiltRoot c07BuiltRootU
  split at h
  · rename_i r hr
    split at hu
    · rename_i ru hru; rw [hr, hru]; exact ⟨rfl, rfl⟩
    · cases hu
  · cases h
example : ∃ v st, evaluate c07ExWorld c07BuiltRoot = .ok (v, st) ∧
    st.log.map (·.what) = ["import:os", "call:f", "bind:f"] := by
  refine ⟨_, _, rfl, ?_⟩; rfl
example : ∀ v st, evaluate c07ExWorld c07BuiltRoot = .ok (v, st) →
    ∀ e, e ∈ st.log → ∃ m, getNode c07BuiltRoot e.path = some m ∧ eSafe m.flags = true ∧ dynWhat m = some e.what :=
  fun v st h => C07_evaluate_only_safe_built c07ExWorld c07BuiltStages c07BuiltRoot v st
    (fun s hm => by
      rcases List.mem_cons.1 hm with e | hm
      · exact ⟨{}, c07BuiltDoc1, by decide, e ▸ rfl⟩
      · rcases List.mem_cons.1 hm with e | hm
        · exact ⟨{}, c07BuiltDoc2, by decide, e ▸ rfl⟩
        · cases hm)
    c07Built_flatten.1 h

/- "… the build fails with UnsafeError instead", for a real build: if the flattened tree contains an
   unsafe `!call` / `!bind` / `!eval` / `!import` node ANYWHERE, the evaluation does not succeed. -/
theorem C07_unsafe_dynamic_node_never_builds_built (w : World) (stages : List Node) (root : Node)
    (hs : ∀ s, s ∈ stages → ∃ env raw, KI.rawKeyed raw = true ∧ construct env raw = .ok s)
    (hf : flatten stages = .ok root)
    (p : Path) (m : Node) (what : String) (hm : getNode root p = some m) (hd : dynWhat m = some what)
    (hsf : eSafe m.flags = false) : ∀ v st, evaluate w root ≠ .ok (v, st) :=
  C07_unsafe_dynamic_node_never_builds w root (built_uniqueKeys hs hf) p m what hm hd hsf

example : ∃ m, getNode c07BuiltRootU [.str "d", .int 0] = some m ∧ dynWhat m = some "call:f" ∧
    eSafe m.flags = false := ⟨_, rfl, rfl, rfl⟩
example : (match evaluate c07ExWorld c07BuiltRootU with | .error .unsafeE => true | _ => false) = true := by
  decide +kernel
example : ∀ v st, evaluate c07ExWorld c07BuiltRootU ≠ .ok (v, st) :=
  C07_unsafe_dynamic_node_never_builds_built c07ExWorld c07BuiltStagesU c07BuiltRootU
    (fun s hm => by
      rcases List.mem_cons.1 hm with e | hm
      · exact ⟨{}, c07BuiltDoc1, by decide, e ▸ rfl⟩
      · rcases List.mem_cons.1 hm with e | hm
        · exact ⟨{}, c07BuiltDoc2, by decide, e ▸ rfl⟩
        · rcases List.mem_cons.1 hm with e | hm
          · exact ⟨{}, c07BuiltDoc3, by decide, e ▸ rfl⟩
          · cases hm)
    c07Built_flatten.2 [.str "d", .int 0] _ "call:f" rfl rfl rfl

/- "no value originating from unsafe content is ever passed to a call or resolved as a name", for a
   real build: an untainted memoised value of the flattened tree belongs to a safe node, the values of
   all its children are untainted, and a reference ends in an untainted node holding the same value;
   hence nothing unsafe or tainted lies anywhere below it. -/
theorem C07_untainted_closed_built (w : World) (stages : List Node) (root : Node) (v : Val) (st : EvSt)
    (hs : ∀ s, s ∈ stages → ∃ env raw, KI.rawKeyed raw = true ∧ construct env raw = .ok s)
    (hf : flatten stages = .ok root) (h : evaluate w root = .ok (v, st))
    (p : Path) (m : Node) (hm : getNode root p = some m) (hnt : p ∉ st.tainted) :
    eSafe m.flags = true ∧
    (∀ key c, (key, c) ∈ m.children → p ++ [key] ∉ st.tainted) ∧
    (∀ f t, m = .leaf f (.xref t) → ∃ a fuel tp, xrefResolve root fuel t = some tp ∧
      plookup p st.cache = some a ∧ plookup tp st.cache = some a ∧ tp ∉ st.tainted) :=
  C07_untainted_closed w root v st (built_uniqueKeys hs hf) h p m hm hnt

theorem C07_untainted_subtree_built (w : World) (stages : List Node) (root : Node) (v : Val) (st : EvSt)
    (hs : ∀ s, s ∈ stages → ∃ env raw, KI.rawKeyed raw = true ∧ construct env raw = .ok s)
    (hf : flatten stages = .ok root) (h : evaluate w root = .ok (v, st)) :
    ∀ (q p : Path) (m m' : Node), getNode root p = some m → p ∉ st.tainted → getNode m q = some m' →
      p ++ q ∉ st.tainted ∧ eSafe m'.flags = true :=
  C07_untainted_subtree w root v st (built_uniqueKeys hs hf) h

example : ∃ v st m, evaluate c07ExWorld c07BuiltRoot = .ok (v, st) ∧
    getNode c07BuiltRoot [.str "c"] = some m ∧ [Key.str "c"] ∉ st.tainted := by
  refine ⟨_, _, _, rfl, rfl, ?_⟩; decide

end AY
