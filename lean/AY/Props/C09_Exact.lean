/-
  AY.Props.C09_Exact — exactness of the reference errors: a build of a tree made of plain data and
  references fails exactly when a reference does not resolve or the dependency graph (reference →
  target, container → child) has a cycle. Nothing else is an error.

  Property text (C09): "A !xref node evaluates to the very same object as the node at the referenced
  path - not a copy - wherever the target is defined (earlier, later, in another file, inside lists,
  mappings or call arguments) and through chains of references of any length. A reference to a
  missing path, to itself, or a cycle of references is reported as an evaluation error; evaluation
  never hangs."

  Definitions (all executable, AY.Lemmas.RefExactDefs): `refTree`, `resolves`, `deps` / `Dep` /
  `DepPlus`, `depthOk`, `acyclicDeps`, `chainEnd`. The proofs go through the strict denotation `sden`
  and soundness / completeness of the evaluator w.r.t. it (AY.Lemmas.OutcomeSound, OutcomeComplete).
-/
import AY.Props.C09
import AY.Lemmas.RefExact
namespace AY

/-! ### inputs of the examples -/

/-- `{a: !xref b, b: !xref c, c: !xref "l[1]", l: [1, {x: 2}]}`: a chain of length 3 into a list
    element -/
def c09ExactChain : Node :=
  .comp {} .dict [
    (.str "a", .leaf {} (.xref "b")),
    (.str "b", .leaf {} (.xref "c")),
    (.str "c", .leaf {} (.xref "l[1]")),
    (.str "l", .comp {} .list [(.int 0, .leaf {} (.scalar (.int 1))),
      (.int 1, .comp {} .dict [(.str "x", .leaf {} (.scalar (.int 2)))])])]

/-- a lasso: `{a: !xref b, b: !xref c, c: !xref b}` -/
def c09ExactLasso : Node :=
  .comp {} .dict [
    (.str "a", .leaf {} (.xref "b")),
    (.str "b", .leaf {} (.xref "c")),
    (.str "c", .leaf {} (.xref "b"))]

/-- a cycle through containment: `{a: {b: !xref a}}` -/
def c09ExactContain : Node :=
  .comp {} .dict [(.str "a", .comp {} .dict [(.str "b", .leaf {} (.xref "a"))])]

/-- a key whose text looks like a path: `{a: {b: 1}, "a.b": !xref a.b}` — the reference names the
    nested node, and `{"a.b": !xref a.b}` alone refers to a missing path -/
def c09ExactAmbig : Node :=
  .comp {} .dict [
    (.str "a", .comp {} .dict [(.str "b", .leaf {} (.scalar (.int 1)))]),
    (.str "a.b", .leaf {} (.xref "a.b"))]
def c09ExactAmbigMissing : Node := .comp {} .dict [(.str "a.b", .leaf {} (.xref "a.b"))]

/-! ### Exactly the broken reference graphs are errors -/

/- "A reference to a missing path, to itself, or a cycle of references is reported as an evaluation
   error" — and nothing else is: a tree made of scalars, references, mappings and lists (pairwise
   distinct keys; any `safe` marks) builds iff the text of every reference parses to a path naming a
   node of the tree (`resolves`) and no dependency walk from the root — a reference depends on its
   target, a container on each child — visits more nodes than the tree has (`acyclicDeps`; by
   `C09_acyclic_iff_no_cycle` below: no node reaches itself). In particular the fuel of the
   evaluator and of the reference loop, the memo table and the in-progress set never make such a
   build fail. -/
theorem C09_reference_errors_exact (w : World) (t : Node) (hr : refTree t = true)
    (huk : uniqueKeys t = true) :
    (∃ v st, evaluate w t = .ok (v, st)) ↔ (resolves t = true ∧ acyclicDeps t = true) := by
  constructor
  · rintro ⟨v, st, h⟩
    refine ⟨?_, acyclicDeps_of_noCycle (noCycle_of_evaluate huk h)⟩
    exact resolvesIn_of_all t t huk (fun q fl text hg => xref_resolves_of_evaluate huk h hg)
  · rintro ⟨hres, hac⟩
    obtain ⟨v, hv⟩ := sden_of_depthOk t w huk hr hres (noCycle_of_acyclicDeps hac) (t.size + 1) t [] rfl hac
    obtain ⟨st, h⟩ := evaluate_complete huk hv
    exact ⟨v, st, h⟩

/- the chain of length 3 into a list element builds -/
example : refTree c09ExactChain = true ∧ uniqueKeys c09ExactChain = true ∧
    resolves c09ExactChain = true ∧ acyclicDeps c09ExactChain = true ∧
    ∃ v st, evaluate {} c09ExactChain = .ok (v, st) := ⟨rfl, rfl, rfl, rfl, _, _, rfl⟩

/- the lasso and the containment cycle resolve but are cyclic; the key that looks like a path -/
example : refTree c09ExactLasso = true ∧ resolves c09ExactLasso = true ∧ acyclicDeps c09ExactLasso = false ∧
    evaluate {} c09ExactLasso = .error .eval := ⟨rfl, rfl, rfl, rfl⟩
example : refTree c09ExactContain = true ∧ resolves c09ExactContain = true ∧
    acyclicDeps c09ExactContain = false ∧ evaluate {} c09ExactContain = .error .recursion :=
  ⟨rfl, rfl, rfl, rfl⟩
example : refTree c09ExactAmbig = true ∧ resolves c09ExactAmbig = true ∧ acyclicDeps c09ExactAmbig = true ∧
    (∃ v st, evaluate {} c09ExactAmbig = .ok (v, st)) ∧
    resolves c09ExactAmbigMissing = false ∧ evaluate {} c09ExactAmbigMissing = .error .eval :=
  ⟨rfl, rfl, rfl, ⟨_, _, rfl⟩, rfl, rfl⟩

/- `acyclicDeps` is acyclicity of the dependency graph: no node of the tree reaches itself in one or
   more dependency steps (`Dep t p q`: the node at `p` is a reference whose text names `q`, or a
   container with the child `q`). -/
theorem C09_acyclic_iff_no_cycle (t : Node) : acyclicDeps t = true ↔ ∀ p, ¬ DepPlus t p p :=
  acyclicDeps_iff t

/- the cycles of the two examples: `b → c → b`, and `a → a.b → a` -/
example : DepPlus c09ExactLasso [.str "b"] [.str "b"] :=
  .tail (.single (Dep.xref (fl := {}) (text := "c") rfl rfl)) (Dep.xref (fl := {}) (text := "b") rfl rfl)
example : DepPlus c09ExactContain [.str "a"] [.str "a"] :=
  .tail (.single (Dep.child (t := c09ExactContain) (p := [.str "a"]) (f := {}) (k := .dict)
      (cs := [(.str "b", .leaf {} (.xref "a"))]) (key := .str "b") rfl List.mem_cons_self))
    (Dep.xref (fl := {}) (text := "a") rfl rfl)

/-! ### The two failure modes, for every tree -/

/- "A reference to a missing path … is reported as an evaluation error": in *any* tree (pairwise
   distinct keys; calls, evals, … allowed) with a reference whose text does not parse or parses to a
   path that names no node, the build fails. -/
theorem C09_missing_is_error (w : World) (t : Node) (huk : uniqueKeys t = true) (q : Path) (fl : Flags)
    (text : String) (hg : getNode t q = some (.leaf fl (.xref text)))
    (hmiss : ∀ tp, splitPath text = some tp → getNode t tp = none) :
    ∃ e, evaluate w t = .error e := by
  cases h : evaluate w t with
  | error e => exact ⟨e, rfl⟩
  | ok r =>
    obtain ⟨tp, m, htp, hm⟩ := xref_resolves_of_evaluate huk (v := r.1) (st := r.2) h hg
    rw [hmiss tp htp] at hm; cases hm

example : getNode c09ExactAmbigMissing [.str "a.b"] = some (.leaf {} (.xref "a.b")) ∧
    splitPath "a.b" = some [.str "a", .str "b"] ∧
    getNode c09ExactAmbigMissing [.str "a", .str "b"] = none := ⟨rfl, rfl, rfl⟩

/- "… to itself, or a cycle of references is reported as an evaluation error": in *any* tree
   (pairwise distinct keys) in which a node reaches itself through references and containment — a
   reference to itself, a cycle of references, a lasso, a reference to a container it lies in — the
   build fails. -/
theorem C09_cycle_is_error (w : World) (t : Node) (huk : uniqueKeys t = true) (p : Path)
    (hc : DepPlus t p p) : ∃ e, evaluate w t = .error e := by
  cases h : evaluate w t with
  | error e => exact ⟨e, rfl⟩
  | ok r => exact absurd hc (noCycle_of_evaluate huk (v := r.1) (st := r.2) h p)

/- a reference to itself -/
example : DepPlus (.comp {} .dict [(.str "a", .leaf {} (.xref "a"))]) [.str "a"] [.str "a"] :=
  .single (Dep.xref (fl := {}) (text := "a") rfl rfl)

/-! ### What a reference holds -/

/- "A !xref node evaluates to the very same object as the node at the referenced path - not a copy -
   … through chains of references of any length", closed form: after a successful build of a tree
   with pairwise distinct keys every reference node — at any path `p` — holds exactly the value `a`
   memoised for the node `m` at `chainEnd t text`: the path reached by following the references
   through the tree for at most `t.size` steps. `m` is not a reference; if it is a mapping or a list
   the value carries the object id `tp` of `m` (the same object, not a copy), if it is a scalar the
   value is that scalar. -/
theorem C09_refTree_value (w : World) (t : Node) (v : Val) (st : EvSt) (huk : uniqueKeys t = true)
    (h : evaluate w t = .ok (v, st)) (p : Path) (fl : Flags) (text : String)
    (hg : getNode t p = some (.leaf fl (.xref text))) :
    ∃ tp m a, chainEnd t text = some tp ∧ getNode t tp = some m ∧
      (∀ f' t', m ≠ .leaf f' (.xref t')) ∧
      plookup p st.cache = some a ∧ plookup tp st.cache = some a ∧
      (∀ f cs, m = .comp f .dict cs → ∃ items, a = .dict tp items) ∧
      (∀ f cs, m = .comp f .list cs → ∃ l, a = .list tp l) ∧
      (∀ f s, m = .leaf f (.scalar s) → a = .scalar s) := by
  obtain ⟨a, fuel, tp, m, hpa, hres, hm, hnx, hta⟩ := evaluate_xref_alias huk h hg
  obtain ⟨m', hm', g, hd⟩ := (evaluate_den huk h).2 tp a hta
  rw [hm] at hm'; cases hm'
  obtain ⟨g', rfl⟩ := den_pos hd
  refine ⟨tp, m, a, xrefResolve_size hg hres, hm, hnx, hpa, hta, ?_, ?_, ?_⟩
  · rintro f cs rfl
    simp only [den, denImpl] at hd
    split at hd
    · cases hd
    · rename_i items _
      simp only [denFinish, Option.some.injEq] at hd
      exact ⟨items, hd.symm⟩
  · rintro f cs rfl
    simp only [den, denImpl] at hd
    split at hd
    · cases hd
    · rename_i items _
      simp only [denFinish, Option.some.injEq] at hd
      exact ⟨_, hd.symm⟩
  · rintro f s rfl
    simp only [den, denImpl, Option.some.injEq] at hd
    exact hd.symm

/- the chain `a → b → c → l[1]` (length 3, into a list element): `a` holds the mapping object
   `l[1]` -/
example : chainEnd c09ExactChain "b" = some [.str "l", .int 1] ∧
    ∃ v st, evaluate {} c09ExactChain = .ok (v, st) ∧
      plookup [.str "a"] st.cache = some (.dict [.str "l", .int 1] [(.str "x", .scalar (.int 2))]) ∧
      plookup [.str "l", .int 1] st.cache = some (.dict [.str "l", .int 1] [(.str "x", .scalar (.int 2))]) :=
  ⟨rfl, _, _, rfl, rfl, rfl⟩

end AY
