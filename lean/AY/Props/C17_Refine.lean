/-
  AY.Props.C17_Refine — the container classes behave like the builtins they subclass.

  Property text: "A mapping or list node is at once a Python dict/list and a tree of child nodes
  addressable by path; after any sequence of public operations (item/attribute assignment and
  deletion, append, insert, extend, remove, pop, update, setdefault, clear, set/remove/rename
  child) both views contain the same entries in the same order, …"

  Props/C17.lean proves the *invariant* (the two views agree after every operation).  This file
  proves the *refinement*: what the operations do to the builtin storage, and what they return or
  raise, is what a plain Python `list` / `dict` does (`AY.Builtin.specStep`, Spec/Builtin.lean,
  written from the Python documentation: one store, no child map, no nodes, no shifting loop).

    abs     the storage view of the model state, entry by entry, with the `node` flag forgotten
            (wrapping a value into a node keeps identity and `==`-class, `toNode`)
    outAbs  the outcome: the returned object likewise, the exception class unchanged

  For a `ConfigList` the refinement holds for every operation (`C17_refines_builtin_list_step`).
  For a `ConfigDict` it is FALSE for the operations that store under a key which is the name of a
  method or attribute of the class (`d['keys'] = 1` raises ValueError, a dict stores it):
  `C17_setItem_deviates_counterexample` and its companions; the step theorem is therefore
  `C17_refines_builtin_step_partial`, with the hypothesis `builtinLike s op` that excludes exactly
  these: `setItem`, `setChild`, `setAttr` (public name), `setdefault`, `update` with a key in
  `Container.reservedNames`, on a dict.

  Only property theorems live here; lemmas are in AY.Lemmas.C17Refine (namespace `AY.C17R`).
-/
import AY.Lemmas.C17Refine
namespace AY
open Container Builtin C17R

/-! ### Concrete inputs of the non-vacuity examples -/

/-- `ConfigList([x1, x2, x3])`, `x1 == x3` -/
def c17rList : CState := initList [⟨1, 1, false⟩, ⟨2, 2, false⟩, ⟨3, 1, false⟩]

/-- `ConfigDict({'a': x1, 2: x2, '_w': x3})` -/
def c17rDict : CState := initDict [(.str "a", ⟨1, 1, false⟩), (.int 2, ⟨2, 2, false⟩), (.str "_w", ⟨3, 3, false⟩)]

/-- insert at the front, a pop past the end (IndexError), a pop, a store through a negative index of
    a node already in the list, remove by value, a clipped set_child, a non-integer index
    (TypeError), extend with a fresh value and a stored node, a dict method (AttributeError),
    remove of a missing value (ValueError) -/
def c17rListOps : List (Op Val) :=
  [.insert (.int 0) (.raw 9 9), .pop (some (.int 7)) false, .pop none false, .setItem (.int (-1)) (.ref 0 10 10),
   .remove (.raw 11 1), .setChild (.int 99) (.raw 12 4), .delItem (.str "x"), .extend [.raw 13 1, .ref 1 14 1],
   .update [(.int 0, .raw 15 1)], .remove (.raw 16 77), .insert (.int (-1)) (.raw 17 5), .delItem (.int (-7))]

/-- rename, a missing key (KeyError), attribute syntax, an unset underscore attribute
    (AttributeError), update in order, setdefault on a present and on a new key, pop with default,
    pop without a key (TypeError), a list method (AttributeError) -/
def c17rDictOps : List (Op Val) :=
  [.renameChild (.str "a") (.str "z"), .pop (some (.str "q")) false, .setAttr "b" (.ref 1 10 10), .delAttr "_p",
   .update [(.int 2, .raw 11 1), (.str "n", .raw 13 1), (.int 2, .raw 18 3)], .setdefault (.str "z") (.raw 14 1),
   .setdefault (.str "y") (.raw 15 1), .delItem (.int 5), .pop (some (.str "q")) true, .pop none false,
   .append (.raw 16 1), .renameChild (.str "n") (.str "z"), .delAttr "b", .removeChild (.int 2)]

/-! ### One operation -/

/- "after any sequence of public operations …" — one step, against the builtin.  From any
   consistent state, every operation on a list, and every operation on a dict that does not store
   under a method/attribute name of the class, leaves the storage as the builtin `list` / `dict`
   would (same objects, same order) and returns the same object or raises the same exception class.
   Arguments: any key (in range, out of range, negative, non-integer), any value (fresh, or a node
   already stored). -/
theorem C17_refines_builtin_step_partial (s : CState) (op : Op Val) (h : Inv s)
    (hr : builtinLike s op = true) :
    Builtin.abs (step s op).1 = (specStep (Builtin.abs s) op).1
      ∧ outAbs (step s op).2 = (specStep (Builtin.abs s) op).2 := by
  have := step_refines s op ((Inv_iff_inv s).1 h) hr
  exact ⟨congrArg Prod.fst this, congrArg Prod.snd this⟩

example : Inv c17rDict ∧ builtinLike c17rDict (.update [(.int 2, .raw 11 1), (.str "n", .raw 13 1)] : Op Val) = true := by
  decide
-- a succeeding and a failing step, on the specification side
example : specStep (Builtin.abs c17rDict) (.setdefault (.str "y") (.raw 15 1))
    = (.dict [(.str "a", ⟨1, 1⟩), (.int 2, ⟨2, 2⟩), (.str "_w", ⟨3, 3⟩), (.str "y", ⟨15, 1⟩)] [], .ok (some ⟨15, 1⟩)) := by
  decide
example : (specStep (Builtin.abs c17rDict) (.delItem (.int 5))).2 = .exc .keyError := by decide

/- The same for a `ConfigList`, where nothing is excluded: every operation of `Op`. -/
theorem C17_refines_builtin_list_step (l : LSt) (attrs : List String) (op : Op Val) (h : Inv (.list l attrs)) :
    Builtin.abs (step (.list l attrs) op).1 = (specStep (Builtin.abs (.list l attrs)) op).1
      ∧ outAbs (step (.list l attrs) op).2 = (specStep (Builtin.abs (.list l attrs)) op).2 :=
  C17_refines_builtin_step_partial _ op h rfl

example : Inv c17rList := by decide
example : specStep (Builtin.abs c17rList) (.pop (some (.int (-3))) false)
    = (.list [⟨2, 2⟩, ⟨3, 1⟩] [], .ok (some ⟨1, 1⟩)) := by decide
example : (specStep (Builtin.abs c17rList) (.pop (some (.int 3)) false)).2 = .exc .indexError := by decide

/-! ### Where a `ConfigDict` is not a `dict` -/

/- The hypothesis of the step theorem cannot be dropped: `d['keys'] = x` raises ValueError and
   stores nothing, a dict stores the pair.  (Replayed on the implementation: the report of
   the refinement work, and `harness/props/c17.py` checks it on every generated case.) -/
theorem C17_setItem_deviates_counterexample :
    ∃ (s : CState) (op : Op Val), Inv s ∧
      ¬ (Builtin.abs (step s op).1 = (specStep (Builtin.abs s) op).1
          ∧ outAbs (step s op).2 = (specStep (Builtin.abs s) op).2) :=
  ⟨c17rDict, .setItem (.str "keys") (.raw 9 9), by decide, by decide⟩

example : (step c17rDict (.setItem (.str "keys") (.raw 9 9))).2 = .exc .valueError
    ∧ (specStep (Builtin.abs c17rDict) (.setItem (.str "keys") (.raw 9 9))).2 = .ok none := by decide

/- `update` stops at the offending pair: the pairs before it are stored, the ones after are not;
   a dict stores all of them. -/
theorem C17_update_deviates_counterexample :
    Builtin.abs (step c17rDict (.update [(.str "b", .raw 9 9), (.str "pop", .raw 10 1), (.str "c", .raw 11 1)])).1
        = .dict [(.str "a", ⟨1, 1⟩), (.int 2, ⟨2, 2⟩), (.str "_w", ⟨3, 3⟩), (.str "b", ⟨9, 9⟩)] []
      ∧ (step c17rDict (.update [(.str "b", .raw 9 9), (.str "pop", .raw 10 1), (.str "c", .raw 11 1)])).2
        = .exc .valueError
      ∧ specStep (Builtin.abs c17rDict) (.update [(.str "b", .raw 9 9), (.str "pop", .raw 10 1), (.str "c", .raw 11 1)])
        = (.dict [(.str "a", ⟨1, 1⟩), (.int 2, ⟨2, 2⟩), (.str "_w", ⟨3, 3⟩), (.str "b", ⟨9, 9⟩), (.str "pop", ⟨10, 1⟩),
                  (.str "c", ⟨11, 1⟩)] [], .ok none) := by
  decide

theorem C17_setdefault_deviates_counterexample :
    (step c17rDict (.setdefault (.str "items") (.raw 9 9))).2 = .exc .valueError
      ∧ (specStep (Builtin.abs c17rDict) (.setdefault (.str "items") (.raw 9 9))).2 = .ok (some ⟨9, 9⟩) := by
  decide

/- The deviation in general: on a dict, storing under a refused name raises ValueError and
   changes nothing, whereas the builtin never refuses a key.  Together with the step theorem this
   describes every operation of a `ConfigDict` on every key. -/
theorem C17_shadowing_key_deviates (d : DSt) (attrs : List String) (k : Key) (v : Val)
    (hk : isReserved k = true) :
    step (.dict d attrs) (.setItem k v) = (.dict d attrs, .exc .valueError)
      ∧ (specStep (Builtin.abs (.dict d attrs)) (.setItem k v)).2 = .ok none := by
  constructor
  · simp only [step, stepE, Op.resolve, stepDict, dictSet, hk, if_true]
    rfl
  · rfl

example : isReserved (.str "keys") = true ∧ isReserved (.str "ayns") = true ∧ isReserved (.str "k9") = false := by
  decide

/-! ### Any finite sequence of operations -/

/- "after any sequence of public operations …": the whole history.  The abstract state and the
   outcome after EVERY operation of the sequence are those of the builtin run, and so is the final
   state; exceptions do not end the sequence.  `trace` is what the driver op "c17" reports,
   `specTrace` what the driver op "c17spec" reports. -/
theorem C17_refines_builtin_partial (s : CState) (ops : List (Op Val)) (h : Inv s)
    (hr : ∀ op ∈ ops, builtinLike s op = true) :
    (trace s ops).map (fun r => (Builtin.abs r.1, outAbs r.2)) = specTrace (Builtin.abs s) ops
      ∧ Builtin.abs (run s ops) = specRun (Builtin.abs s) ops :=
  ⟨trace_refines ops s ((Inv_iff_inv s).1 h) hr, run_refines ops s ((Inv_iff_inv s).1 h) hr⟩

example : ∀ op ∈ c17rDictOps, builtinLike c17rDict op = true := by decide
example : (specTrace (Builtin.abs c17rDict) c17rDictOps).map (·.2) =
    [.ok (some ⟨1, 1⟩), .exc .keyError, .ok none, .exc .attributeError, .ok none, .ok (some ⟨1, 1⟩), .ok (some ⟨15, 1⟩),
     .exc .keyError, .ok none, .exc .typeError, .exc .attributeError, .exc .valueError, .ok none, .ok (some ⟨18, 3⟩)] := by
  decide
example : specRun (Builtin.abs c17rDict) c17rDictOps
    = .dict [(.str "_w", ⟨3, 3⟩), (.str "z", ⟨1, 1⟩), (.str "n", ⟨13, 1⟩), (.str "y", ⟨15, 1⟩)] [] := by decide
example : Builtin.abs (run c17rDict c17rDictOps) = specRun (Builtin.abs c17rDict) c17rDictOps :=
  (C17_refines_builtin_partial _ _ (by decide) (by decide)).2

/- A `ConfigList`: no hypothesis on the operations. -/
theorem C17_refines_builtin_list (l : LSt) (attrs : List String) (ops : List (Op Val)) (h : Inv (.list l attrs)) :
    (trace (.list l attrs) ops).map (fun r => (Builtin.abs r.1, outAbs r.2)) = specTrace (Builtin.abs (.list l attrs)) ops
      ∧ Builtin.abs (run (.list l attrs) ops) = specRun (Builtin.abs (.list l attrs)) ops :=
  C17_refines_builtin_partial _ ops h (fun _ _ => rfl)

example : (specTrace (Builtin.abs c17rList) c17rListOps).map (·.2) =
    [.ok none, .exc .indexError, .ok (some ⟨3, 1⟩), .ok none, .ok none, .ok none, .exc .typeError, .ok none,
     .exc .attributeError, .exc .valueError, .ok none, .exc .indexError] := by decide
example : specRun (Builtin.abs c17rList) c17rListOps
    = .list [⟨9, 9⟩, ⟨9, 9⟩, ⟨12, 4⟩, ⟨13, 1⟩, ⟨17, 5⟩, ⟨9, 9⟩] [] := by decide

/-! ### From the constructors -/

/- "starting from any tree": `ConfigList(values)` is `list(values)` and `ConfigDict(pairs)` is
   `dict(pairs)` (also with repeated keys), and every history from there is the builtin's.  For the
   list nothing is assumed. -/
theorem C17_refines_builtin_from_init_list (values : List Entry) (ops : List (Op Val)) :
    Builtin.abs (initList values) = specInitList (values.map objOf)
      ∧ (trace (initList values) ops).map (fun r => (Builtin.abs r.1, outAbs r.2))
          = specTrace (specInitList (values.map objOf)) ops
      ∧ Builtin.abs (run (initList values) ops) = specRun (specInitList (values.map objOf)) ops := by
  have hi : Inv (initList values) := (Inv_iff_inv _).2 (initList_inv values)
  have hr : ∀ op ∈ ops, builtinLike (initList values) op = true := fun _ _ => rfl
  have := C17_refines_builtin_partial _ ops hi hr
  rw [abs_initList] at this
  exact ⟨abs_initList values, this.1, this.2⟩

example : Builtin.abs (run c17rList c17rListOps) = specRun (specInitList [⟨1, 1⟩, ⟨2, 2⟩, ⟨3, 1⟩]) c17rListOps :=
  (C17_refines_builtin_from_init_list _ _).2.2

theorem C17_refines_builtin_from_init_partial (pairs : List (Key × Entry)) (ops : List (Op Val))
    (hr : ∀ op ∈ ops, shadowFree op = true) :
    Builtin.abs (initDict pairs) = specInitDict (pairs.map (fun kv => (kv.1, objOf kv.2)))
      ∧ (trace (initDict pairs) ops).map (fun r => (Builtin.abs r.1, outAbs r.2))
          = specTrace (specInitDict (pairs.map (fun kv => (kv.1, objOf kv.2)))) ops
      ∧ Builtin.abs (run (initDict pairs) ops) = specRun (specInitDict (pairs.map (fun kv => (kv.1, objOf kv.2)))) ops := by
  have hi : Inv (initDict pairs) := (Inv_iff_inv _).2 (initDict_inv pairs)
  have := C17_refines_builtin_partial _ ops hi hr
  rw [abs_initDict] at this
  exact ⟨abs_initDict pairs, this.1, this.2⟩

-- a repeated key in the constructor argument: first position, last value, as `dict(pairs)`
example : specInitDict [(.str "a", ⟨1, 1⟩), (.int 2, ⟨2, 2⟩), (.str "a", ⟨3, 3⟩)]
    = .dict [(.str "a", ⟨3, 3⟩), (.int 2, ⟨2, 2⟩)] [] := by decide
example : ∀ op ∈ c17rDictOps, shadowFree op = true := by decide
example : Builtin.abs (run c17rDict c17rDictOps)
    = specRun (specInitDict [(.str "a", ⟨1, 1⟩), (.int 2, ⟨2, 2⟩), (.str "_w", ⟨3, 3⟩)]) c17rDictOps :=
  (C17_refines_builtin_from_init_partial _ _ (by decide)).2.2

end AY
