/-
  C08 — command-line overrides, the STRING step.

  Statement (properties.jsonl): "A command-line override 'a.b[i].c=value' sets exactly that path to
  the value and changes nothing else; a mistyped path is an error rather than a new entry."

  AY/Props/C08.lean (group 4) starts from the override DOCUMENT `!notnew {a: {b: {i: {c: value}}}}`.
  This module covers what `Config.process_cmdline` does with the option STRING before that
  (AY.Model.Cmdline: `optionType` = `determine_option_type`, `tokens` = the inline branch:
  split at the first '=', strip, split the key on '.', strip, peel trailing `[int]` subscripts with
  `rfind('[')` and `int(...)`; `emitText` = the YAML text written) and ties it to group 4:

    1. which options are overrides at all (`determine_option_type`);
    2. the canonical spelling `a.b[i][j].c=value` of a path is read back as exactly that path and
       the stripped value text (`renderOverride`, `groups`, `tokensToPath`); the spelling is
       `NodePath.join_path(path) + '=' + value`;
    3. the document emitted for tokens (`emitDoc`: one single-key mapping per name and per index,
       `!notnew` on the root only) is `c08_rawDoc (tokensToPath tokens)`, so that the theorems of
       group 4 apply to override STRINGS (`C08_cmdline_string_sets_path`,
       `C08_cmdline_string_mistyped_path_error`);
    4. what cannot be addressed / negative results: names containing '.' or '='; a numeral used as
       a name is an index; subscripts count only at the very end of a part.

  Between `emitText` (characters) and `emitDoc` (representation tree) sits PyYAML's scanner, parser
  and resolver — trusted base, compared at run time by the correspondence check (harness/props/c08.py:
  text equality with the real `process_cmdline`, nesting of the text as PyYAML parses it).
  Definitions and proofs: AY/Lemmas/C08Tokens.lean.
-/
import AY.Lemmas.C08Tokens
import AY.Props.C08
namespace AY
open Container

/-! ### Concrete inputs used by the non-vacuity examples -/

/-- `a.c[-1]`: exists in `c08Base` -/
def c08CmdPath : Path := [.str "a", .str "c", .int (-1)]

theorem c08CmdPath_ok : CmdPath c08CmdPath := by
  refine ⟨⟨_, _, rfl⟩, ?_, ?_⟩
  · intro k hk
    simp only [c08CmdPath, List.mem_cons, List.mem_nil_iff, or_false] at hk
    rcases hk with h | h | h <;> rw [h] <;> decide
  · intro i hi
    simp only [c08CmdPath, List.mem_cons, Key.int.injEq, List.mem_nil_iff, or_false, reduceCtorEq, false_or] at hi
    subst hi
    unfold SmallInt pyMaxStrDigits
    decide

theorem c08CmdPath_str : StrPath c08CmdPath := by
  intro s hs
  simp only [c08CmdPath, List.mem_cons, Key.str.injEq, List.mem_nil_iff, or_false, reduceCtorEq] at hs
  rcases hs with h | h <;> subst h <;> rfl

/-! ### 1. Which options are overrides -/

/- `determine_option_type`: an option is an inline override exactly when — after `strip()` — it has
   no line break, is not brace-delimited (`{…}`: raw YAML) and contains '='.  (An option with a
   line break or in braces is passed on as raw YAML text, anything else without '=' is a file name.)
   For ALL strings. -/
theorem C08_cmdline_inline_detection (opt : String) :
    optionType opt = .inline ↔
      '\n' ∉ (strip opt).toList ∧
      ¬ (startsWithChar '{' (strip opt).toList = true ∧ endsWithChar '}' (strip opt).toList = true) ∧
      '=' ∈ opt.toList := by
  have he : pyIsSpace '=' = false := by decide
  have hn : '\n' ∉ pyStrip opt.toList ↔ hasChar '\n' (pyStrip opt.toList) = false :=
    (c08_hasChar_false _ _).symm
  have hq : '=' ∈ opt.toList ↔ hasChar '=' (pyStrip opt.toList) = true := by
    rw [← c08_mem_strip_iff opt.toList '=' he, c08_hasChar_iff]
  unfold optionType optionTypeC isRawOpt strip
  rw [String.toList_ofList, hn, hq]
  cases hasChar '\n' (pyStrip opt.toList) <;> cases startsWithChar '{' (pyStrip opt.toList) <;>
    cases endsWithChar '}' (pyStrip opt.toList) <;> cases hasChar '=' (pyStrip opt.toList) <;> simp

example : optionType " a.b[0] = {x: 1} " = .inline ∧ optionType "{a: 1}" = .raw ∧
    optionType "a=1\nb=2" = .raw ∧ optionType " conf.yaml " = .file ∧ optionType "{a=1" = .inline := by
  decide +kernel
-- a trailing line break is stripped first and does not make the option raw
example : optionType "a=1\n" = .inline := by decide +kernel

/-! ### 2. The canonical spelling is read back -/

/- "A command-line override 'a.b[i].c=value'": for a path that starts with a name, whose names are
   non-empty words over `[A-Za-z0-9_]` and whose indices are arbitrary integers (any sign; `str(i)`
   within `sys.int_max_str_digits`, beyond which Python's own `int()` refuses) — `CmdPath` — and for
   ANY value text without an inner line break (`'\n' ∉ rstrip value`; no other condition: the value
   may contain '=', '.', brackets, braces, blanks), `process_cmdline` classifies the canonical
   spelling `renderOverride path value` as inline and takes it apart into: no explicit tag (so the
   default `!notnew` is added), exactly the names of the path each with its indices, and the
   stripped value text.  `none` would be "not inline" or an exception. -/
theorem C08_cmdline_tokens_roundtrip (path : Path) (value : String) (hp : CmdPath path)
    (hv : '\n' ∉ pyRStrip value.toList) :
    tokens (renderOverride path value) = some (false, groups path, strip value) :=
  c08_tokens_render path value hp hv

example : renderOverride c08CmdPath " 7 " = "a.c[-1]= 7 " := by decide +kernel
example : groups c08CmdPath = [("a", []), ("c", [-1])] := rfl
example : tokens "a.c[-1]= 7 " = some (false, [("a", []), ("c", [-1])], "7") := by decide +kernel
example := C08_cmdline_tokens_roundtrip c08CmdPath " 7 " c08CmdPath_ok (by decide +kernel)
-- the value may itself look like an override
example : tokens (renderOverride [.str "k", .int 0, .int 12, .str "x_1"] "a.b[0]=c") =
    some (false, [("k", [0, 12]), ("x_1", [])], "a.b[0]=c") := by decide +kernel
-- why the condition on the value: with an inner line break the option is raw YAML, not an override
example : optionType (renderOverride c08CmdPath "1\n2") = .raw ∧ tokens (renderOverride c08CmdPath "1\n2") = none := by
  decide +kernel

/- The tokens denote the path: names become string components, each followed by its indices as
   integer components (`tokensToPath`), and grouping a path and flattening it again is the identity. -/
theorem C08_cmdline_path_of_tokens (path : Path) (hp : CmdPath path) :
    tokensToPath (groups path) = path :=
  c08_tokensToPath_groups path hp

example : tokensToPath (groups c08CmdPath) = c08CmdPath := rfl
-- why "starts with a name": `[0].a=v` has an empty first name, no tokens spell a path that begins with an index
example : groups [.int 0, .str "a"] = [] ∧
    tokens "[0].a=v" = some (false, [("", [0]), ("a", [])], "v") := by decide +kernel

/- Both steps together, on the string: the path read from the canonical spelling of `path` is `path`. -/
theorem C08_cmdline_string_roundtrip (path : Path) (value : String) (hp : CmdPath path)
    (hv : '\n' ∉ pyRStrip value.toList) :
    (tokens (renderOverride path value)).map (fun t => (t.1, tokensToPath t.2.1, t.2.2)) =
      some (false, path, strip value) := by
  rw [C08_cmdline_tokens_roundtrip path value hp hv]
  simp [C08_cmdline_path_of_tokens path hp]

example := C08_cmdline_string_roundtrip c08CmdPath "7" c08CmdPath_ok (by decide +kernel)

/- The canonical spelling is the one `NodePath.join_path` prints (AY.Model.NodePath, property C17),
   followed by '=' and the value — the spelling the check generator uses (`render_cmd_path`). -/
theorem C08_cmdline_render_is_join_path (path : Path) (value : String) (hp : CmdPath path) :
    renderOverride path value = joinPath path ++ "=" ++ value := by
  apply String.toList_inj.1
  simp only [renderOverride, renderOverrideC, String.toList_ofList, String.toList_append, joinPath,
    c08_renderKeyC_joinPath path hp]
  simp

example : joinPath c08CmdPath ++ "=" ++ "7" = "a.c[-1]=7" := by decide +kernel

/-! ### 3. From the tokens to the override document -/

/- "sets exactly that path": the text `process_cmdline` writes for untagged tokens,
   `!notnew { name: { i: { j:  { name: … value }}}}`, opens one single-key mapping per name and per
   index and tags only the root; `emitDoc` is its representation tree, with every name resolved to
   the mapping key the YAML loader makes of it (`yamlNameKey`).  For names that YAML keeps as
   strings (`StrNames`: start with a letter or '_', not one of the bool / null words) it is the
   override document of AY/Props/C08.lean for the path the tokens denote. -/
theorem C08_cmdline_emitDoc_is_rawDoc (gs : List (String × List Int)) (v : Scalar) (h : StrNames gs) :
    emitDoc gs v = some (c08_rawDoc (tokensToPath gs) v) :=
  c08_emitDoc_rawDoc gs v h

example : emitDoc [("a", []), ("c", [-1])] (.int 7) =
    some (.map .plain { new := some false }
      [(.str "a", .map .none {} [(.str "c", .map .none {} [(.int (-1), .scalar .none {} (.lit (.int 7)))])])]) := rfl
example : emitText false [("a", []), ("c", [-1])] "7" = "!notnew { a:  { c: { -1: 7 }}}" := by decide +kernel

/- The same for a path: the document emitted for the tokens of the canonical spelling of `path`
   is `c08_rawDoc path v` (`StrPath`: every name of the path is kept as a string by YAML). -/
theorem C08_cmdline_emitDoc_of_path (path : Path) (v : Scalar) (hp : CmdPath path) (hs : StrPath path) :
    emitDoc (groups path) v = some (c08_rawDoc path v) := by
  rw [C08_cmdline_emitDoc_is_rawDoc _ v (c08_groups_strNames path hp hs), C08_cmdline_path_of_tokens path hp]

example := C08_cmdline_emitDoc_of_path c08CmdPath (.int 7) c08CmdPath_ok c08CmdPath_str

/- "A command-line override 'a.b[i].c=value' sets exactly that path to the value and changes
   nothing else" — from the STRING (PARTIAL as `C08_cmdline_sets_path_lists_partial`: tag-free
   config, scalar value): let `path = k :: ks` be addressable (`CmdPath`, `StrPath`) and exist in the
   tag-free config `a` through mapping keys and list indices, let `txt` be a value text (no inner
   line break) that YAML reads as the scalar `v`.  Then the option `renderOverride path txt`
   * is taken apart into the tokens `gs` of `path` (untagged, value `strip txt`),
   * the document emitted for them is `doc = c08_rawDoc path v`, which the loader builds into
     `nestDoc env path v`,
   * and merging it onto `a` succeeds with exactly the value at `path` replaced
     (`c08_setPlainAtL`), the result being tag-free again. -/
theorem C08_cmdline_string_sets_path (env : Env) (a : Node) (k : Key) (ks : List Key) (txt : String)
    (v : Scalar) (t : Plain) (hp : CmdPath (k :: ks)) (hs : StrPath (k :: ks))
    (hv : '\n' ∉ pyRStrip txt.toList) (ha : plainT a = true)
    (hg : c08_getPlainAtL (native a) (k :: ks) = some t) :
    ∃ gs doc r, tokens (renderOverride (k :: ks) txt) = some (false, gs, strip txt) ∧
      tokensToPath gs = k :: ks ∧ emitDoc gs v = some doc ∧
      construct env doc = .ok (nestDoc env (k :: ks) v) ∧
      merge a (nestDoc env (k :: ks) v) = .ok r ∧ plainT r = true ∧
      native r = c08_setPlainAtL (native a) (k :: ks) (.scalar v) := by
  obtain ⟨r, h1, h2, h3⟩ := C08_cmdline_sets_path_lists_partial env a k ks v t ha hg
  exact ⟨groups (k :: ks), c08_rawDoc (k :: ks) v, r, C08_cmdline_tokens_roundtrip _ txt hp hv,
    C08_cmdline_path_of_tokens _ hp, C08_cmdline_emitDoc_of_path _ v hp hs,
    C08_cmdline_doc_is_loaded env k ks v, h1, h2, h3⟩

example := C08_cmdline_string_sets_path c08Env c08Base (.str "a") [.str "c", .int (-1)] "7" (.int 7) _
  c08CmdPath_ok c08CmdPath_str (by decide +kernel) (by decide) rfl
example : renderOverride c08CmdPath "7" = "a.c[-1]=7" ∧
    c08_setPlainAtL (native c08Base) c08CmdPath (.scalar (.int 7)) =
      .dict [(.str "a", .dict [(.str "b", .scalar (.int 5)), (.str "c", .list [.scalar (.int 7)])]),
             (.str "z", .scalar (.int 0))] := ⟨by decide +kernel, rfl⟩

/- "a mistyped path is an error rather than a new entry" — from the STRING: if the addressable path
   is `pre ++ k :: post`, `pre` exists in the tag-free, mapping-rooted config through mappings and
   ends at a node that cannot be entered with `k` (a mapping without that key, or a scalar), then
   the option is still a well-formed override — the same tokens, the same document — and merging it
   fails with the MergeError naming `pre ++ [k]`; nothing is created. -/
theorem C08_cmdline_string_mistyped_path_error (env : Env) (a : Node) (pre : List Key) (k : Key)
    (post : List Key) (txt : String) (v : Scalar) (t : Plain) (hp : CmdPath (pre ++ k :: post))
    (hs : StrPath (pre ++ k :: post)) (hv : '\n' ∉ pyRStrip txt.toList) (ha : plainT a = true)
    (hroot : ∃ items, native a = .dict items)
    (hg : getPlainAt (native a) pre = some t) (hm : c08_missingAt t k = true) :
    ∃ gs, tokens (renderOverride (pre ++ k :: post) txt) = some (false, gs, strip txt) ∧
      tokensToPath gs = pre ++ k :: post ∧
      emitDoc gs v = some (c08_rawDoc (pre ++ k :: post) v) ∧
      (∀ k0 ks0, pre ++ k :: post = k0 :: ks0 →
        construct env (c08_rawDoc (pre ++ k :: post) v) = .ok (nestDoc env (pre ++ k :: post) v)) ∧
      merge a (nestDoc env (pre ++ k :: post) v) = .error (.notnew (pre ++ [k])) := by
  refine ⟨groups (pre ++ k :: post), C08_cmdline_tokens_roundtrip _ txt hp hv,
    C08_cmdline_path_of_tokens _ hp, C08_cmdline_emitDoc_of_path _ v hp hs, ?_,
    C08_cmdline_mistyped_path_error env a pre k post v t ha hroot hg hm⟩
  intro k0 ks0 e
  rw [e]
  exact C08_cmdline_doc_is_loaded env k0 ks0 v

example : renderOverride [.str "a", .str "typo", .str "x"] "1" = "a.typo.x=1" := by decide +kernel
example : merge c08Base (nestDoc c08Env [.str "a", .str "typo", .str "x"] (.int 1)) =
    .error (.notnew [.str "a", .str "typo"]) := rfl

/-! ### 4. What an override string cannot address -/

/- Whatever the option string (any spelling, any characters): no name among its tokens contains
   '.' or '=' — the key ends at the FIRST '=' and is cut at EVERY '.'.  A mapping key containing
   either character (`{"a.b": 1}`, `{"x=y": 1}`) cannot be overridden from the command line. -/
theorem C08_cmdline_names_have_no_dot_or_eq (opt : String) (tagged : Bool)
    (gs : List (String × List Int)) (v : String) (h : tokens opt = some (tagged, gs, v)) :
    ∀ g ∈ gs, '.' ∉ g.1.toList ∧ '=' ∉ g.1.toList := by
  unfold tokens at h
  cases ht : tokensC opt.toList with
  | none => simp [ht] at h
  | some r =>
    obtain ⟨t0, gs0, v0⟩ := r
    simp only [ht, Option.some.injEq, Prod.mk.injEq] at h
    have hE : tokensE opt.toList = .ok (t0, gs0, v0) := by
      unfold tokensC at ht
      split at ht
      · cases hte : tokensE opt.toList with
        | error e => simp [hte] at ht
        | ok x => simp only [hte, Option.some.injEq] at ht; rw [ht]
      · cases ht
    intro g hg
    rw [← h.2.1] at hg
    obtain ⟨g0, hg0, rfl⟩ := List.mem_map.1 hg
    have := c08_tokensE_names opt.toList t0 gs0 v0 hE g0 hg0
    simpa [groupStr, String.toList_ofList] using this

example : tokens "a.b=1" = some (false, [("a", []), ("b", [])], "1") := by decide +kernel
example : tokens "x=y=1" = some (false, [("x", [])], "y=1") := by decide +kernel

/- A numeral used as a NAME is an index: PyYAML resolves the plain scalar `0` to the integer 0, so
   `a.0=v` and `a[0]=v` emit the same document (for every value), although their tokens differ.
   (The check generator therefore spells integer components as subscripts only.) -/
theorem C08_cmdline_numeric_name_is_index (v : Scalar) :
    emitDoc [("a", []), ("0", [])] v = emitDoc [("a", [0])] v ∧
    emitDoc [("a", [0])] v = some (c08_rawDoc [.str "a", .int 0] v) ∧
    tokensToPath [("a", []), ("0", [])] ≠ tokensToPath [("a", [0])] :=
  ⟨rfl, rfl, by decide⟩

example : tokens "a.0=5" = some (false, [("a", []), ("0", [])], "5") ∧
    tokens "a[0]=5" = some (false, [("a", [0])], "5") := ⟨by decide +kernel, by decide +kernel⟩
-- bool / null words as names are outside the model (the real loader rejects such a mapping key)
example : emitDoc [("a", []), ("true", [])] (.int 1) = none := rfl

-- Subscripts count only at the very END of a part: `a[0]b` is one name without index; blanks
-- around '.', around '=' and inside the brackets are ignored, a blank BEFORE a subscript stays in
-- the name (YAML trims it from the key later), a blank BETWEEN two subscripts ends the peeling;
-- `int()` spellings `+1`, `1_0`, `007` and other decimal digits are accepted; a subscript that is
-- not an integer (ValueError) or an empty key (IndexError) make `process_cmdline` raise.
example : tokens "a[0]b=1" = some (false, [("a[0]b", [])], "1") := by decide +kernel
example : tokens " a . b [ 0 ][-1] = x=y.z " = some (false, [("a", []), ("b ", [0, -1])], "x=y.z") := by
  decide +kernel
example : tokens "a[0] [1]=v" = some (false, [("a[0] ", [1])], "v") := by decide +kernel
example : tokens "a[+1][1_0][007][٣]=v" = some (false, [("a", [1, 10, 7, 3])], "v") := by decide +kernel
example : tokens "12]=v" = some (false, [("12", [12])], "v") := by decide +kernel
example : cmdErrOf (tokensE "a[x]=1".toList) = some .value ∧ cmdErrOf (tokensE "a[]=1".toList) = some .value ∧
    cmdErrOf (tokensE "a[1e3]=1".toList) = some .value ∧ cmdErrOf (tokensE "=1".toList) = some .index :=
  ⟨by decide +kernel, by decide +kernel, by decide +kernel, by decide +kernel⟩
-- the key is cut at every '.', also inside brackets
example : tokens "a[1.0]=1" = some (false, [("a[1", []), ("0", [0])], "1") := by decide +kernel
-- an explicit tag in front of the key switches the default `!notnew` off
example : tokens "!new a.b=1" = some (true, [("!new a", []), ("b", [])], "1") ∧
    emitText true [("!new a", []), ("b", [])] "1" = "{ !new a:  { b: 1 }}" := by decide +kernel

end AY
