/-
  AY.Props.C11_Built — property C11 for every tree a Builder produces: the hypothesis `uniqueKeys root`
  of the whole-build theorems `C11_plain_eval_is_native` / `C11_no_node_in_result` is discharged for
  `root = Builder.flatten(stages)` with stages parsed from documents without duplicate sibling keys
  (`KI.rawKeyed`).  Lemmas: AY/Lemmas/KeyInv*.lean, AY/Lemmas/KeyInvariants.lean.
-/
import AY.Props.C11
import AY.Lemmas.KeyInvariants
namespace AY

/-- `{a: 1, b: [x, {c: ~}]}` and a second stage `{b: !append [2.5], e: {}}` -/
def c11BuiltDoc1 : Raw :=
  .map .none {} [
    (.str "a", .scalar .none {} (.lit (.int 1))),
    (.str "b", .seq .none {} [.scalar .none {} (.lit (.str "x")),
      .map .none {} [(.str "c", .scalar .none {} (.lit .null))]])]
def c11BuiltDoc2 : Raw :=
  .map .none {} [
    (.str "b", .seq .append {} [.scalar .none {} (.lit (.float "2.5"))]),
    (.str "e", .map .none {} [])]
def c11BuiltStages : List Node :=
  [match construct {} c11BuiltDoc1 with | .ok n => n | .error _ => .leaf {} .required,
   match construct {} c11BuiltDoc2 with | .ok n => n | .error _ => .leaf {} .required]
def c11BuiltRoot : Node := match flatten c11BuiltStages with | .ok r => r | .error _ => .leaf {} .required

/- "lists become lists, scalars their exact Python type, and the structure mirrors the merged tree",
   for a real build: when the tree `Builder.flatten` returns (stages built by the loader from documents
   without duplicate sibling keys) consists of plain containers and scalars, its evaluation succeeds
   and the result, read back as plain data, is exactly `native root`.  The hypothesis on the keys of
   `root` is gone. -/
theorem C11_plain_eval_is_native_built (w : World) (stages : List Node) (root : Node)
    (hs : ∀ s, s ∈ stages → ∃ env raw, KI.rawKeyed raw = true ∧ construct env raw = .ok s)
    (hf : flatten stages = .ok root) (hpl : plainTree root = true) :
    ∃ v st, evaluate w root = .ok (v, st) ∧ v.toPlain? = some (native root) :=
  C11_plain_eval_is_native w root hpl (built_uniqueKeys hs hf)

/- "The object returned by a build contains no awesomeyaml node anywhere", same setting -/
theorem C11_no_node_in_result_built (w : World) (stages : List Node) (root : Node)
    (hs : ∀ s, s ∈ stages → ∃ env raw, KI.rawKeyed raw = true ∧ construct env raw = .ok s)
    (hf : flatten stages = .ok root) (hpl : plainTree root = true) :
    ∃ v st, evaluate w root = .ok (v, st) ∧ (v.toPlain?).isSome = true :=
  C11_no_node_in_result w root hpl (built_uniqueKeys hs hf)

example : flatten c11BuiltStages = .ok c11BuiltRoot ∧ plainTree c11BuiltRoot = true := by
  refine ⟨?_, by decide +kernel⟩
  have h : (match flatten c11BuiltStages with | .ok _ => true | .error _ => false) = true := by decide +kernel
  unfold c11BuiltRoot
  split at h
  · rename_i r hr; rw [hr]
  · cases h
example : (match evaluate {} c11BuiltRoot with | .ok (v, _) => v.toPlain?.isSome | .error _ => false) = true := by
  decide +kernel

end AY
