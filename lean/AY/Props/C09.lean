/-
  AY.Props.C09 — cross-references alias their target, in any order, and always terminate.

  Property text: "A !xref (or !ref) node evaluates to the very same object as the node at the
  referenced path - not a copy - wherever the target is defined (earlier, later, in another file,
  inside lists, mappings or call arguments) and through chains of references of any length. A
  reference to a missing path, to itself, or a cycle of references is reported as an evaluation
  error; evaluation never hangs."

  The statements are about `xrefLoop` (XRefNode.on_evaluate_impl), `ctxGetNode` (ctx.get_node),
  `evalImpl`, `evalNodeF`, `evaluate`, `config` of AY.Model.Eval. Object identity is `Val` equality:
  containers and execution results carry the path of the node that produced them (`oid`), so equal
  `Val`s are the same object. Only property theorems live here; lemmas are in
  AY.Lemmas.XrefLemmas (`xrefStep`, `xrefTexts`, `xrefTarget`), AY.Lemmas.EvalLemmas and
  AY.Lemmas.OnceLemmas (`xrefResolve`, `Cov`, `evaluate_xref_alias`).
-/
import AY.Lemmas.OnceLemmas
namespace AY

/-! ### Termination -/

/- "evaluation never hangs": `evaluate` and `config` are total Lean functions (structural recursion
   on an explicit fuel), so every input has a result; this is trivial in Lean and is only as good
   as the claim that the fuel is never the reason for an answer. For the reference loop that claim
   is `C09_xref_chain_bounded` below. (`evalNodeF` itself reports fuel exhaustion as
   `Err.unsupported`, an error class that is never compared with the library.) -/
theorem C09_total (w : World) (root : Node) :
    (∃ r, evaluate w root = r) ∧ (∃ r, config w root = r) := ⟨⟨_, rfl⟩, ⟨_, rfl⟩⟩

/-- `{a: !xref b, b: !xref c, c: [1, !xref "c[0]"], d: !xref a}` -/
def c09ExChain : Node :=
  .comp {} .dict [
    (.str "a", .leaf {} (.xref "b")),
    (.str "b", .leaf {} (.xref "c")),
    (.str "c", .comp {} .list [(.int 0, .leaf {} (.scalar (.int 1))), (.int 1, .leaf {} (.xref "c[0]"))]),
    (.str "d", .leaf {} (.xref "a"))]

example : ∃ v st, evaluate {} c09ExChain = .ok (v, st) := ⟨_, _, rfl⟩

/- The loop makes at most `fuel` iterations (it recurses on `fuel`). `evalImpl` starts it with
   `root.size + 1`. Running out of fuel is indistinguishable from an evaluation error in the result,
   so "fuel exhaustion cannot happen" is stated as: any additional fuel gives the same result.
   Reason: every iteration that continues appends a text not yet in the chain, and all texts but
   the first are texts of `!xref` nodes of `root`, of which there are at most `root.size` (fewer for
   a composed root). -/
theorem C09_xref_chain_bounded (rec : Rec) (f : Flags) (k : CompKind) (cs : List (Key × Node))
    (rs : Bool) (self : Path) (target : String) (st : EvSt) (extra : Nat) :
    xrefLoop rec (.comp f k cs) rs self ((Node.comp f k cs).size + 1 + extra) target [] st =
      xrefLoop rec (.comp f k cs) rs self ((Node.comp f k cs).size + 1) target [] st := by
  apply xrefLoop_fuel_irrelevant rec (.comp f k cs) rs self (target :: xrefTexts (.comp f k cs))
    (fun t ht => List.mem_cons_of_mem _ ht) extra
  · exact List.nodup_nil
  · intro t ht; simp at ht; subst ht; exact List.mem_cons_self
  · have := xrefTexts_length_lt_comp f k cs
    simp only [List.length_cons, List.length_nil]; omega

example : xrefLoop (evalNodeF c09ExChain {} 20) c09ExChain false [.str "d"] (c09ExChain.size + 1 + 100) "a" [] {} =
    xrefLoop (evalNodeF c09ExChain {} 20) c09ExChain false [.str "d"] (c09ExChain.size + 1) "a" [] {} :=
  C09_xref_chain_bounded _ _ _ _ _ _ _ _ _

/- the same for any root (also a root that is a single leaf) when the reference node itself is a
   node of the tree — which is the case for every reference `evaluate` meets -/
theorem C09_xref_chain_bounded_placed (rec : Rec) (root : Node) (rs : Bool) (f : Flags) (self : Path)
    (target : String) (st : EvSt) (extra : Nat) (hp : Placed root (.leaf f (.xref target)) self) :
    xrefLoop rec root rs self (root.size + 1 + extra) target [] st =
      xrefLoop rec root rs self (root.size + 1) target [] st := by
  apply xrefLoop_fuel_irrelevant rec root rs self (xrefTexts root) (fun t ht => ht) extra
  · exact List.nodup_nil
  · intro t ht; simp at ht; subst ht; exact hp.xref_mem
  · have := xrefTexts_length_le root
    simp only [List.length_nil]; omega

example : Placed c09ExChain (.leaf {} (.xref "a")) [.str "d"] :=
  Placed.of_getNode (root := c09ExChain) rfl

/- the chain of texts the loop has seen never contains a text twice (the general fact behind the
   bound): a continuing iteration met a text that was not in the chain, whose path is not memoised,
   is not the path of the reference itself, and holds another reference; it goes on in the same
   state if that reference is safe, and with the counter of unsafe content bumped if it is unsafe
   (non-strict mode only: in strict mode an unsafe reference ends the loop with `UnsafeError`) -/
theorem C09_xref_step (rec : Rec) (root : Node) (rs : Bool) (self : Path) (fuel : Nat) (cur : String)
    (chain : List String) (st : EvSt) :
    (∃ r, xrefStep rec root rs self cur chain st = .done r ∧
      xrefLoop rec root rs self (fuel + 1) cur chain st = r) ∨
    (∃ next st1 tp f, xrefStep rec root rs self cur chain st = .next next st1 ∧
      xrefLoop rec root rs self (fuel + 1) cur chain st = xrefLoop rec root rs self fuel next (chain ++ [cur]) st1 ∧
      cur ∉ chain ∧ splitPath cur = some tp ∧ tp ≠ self ∧ plookup tp st.cache = none ∧
      getNode root tp = some (.leaf f (.xref next)) ∧
      ((eSafe f = true ∧ st1 = st) ∨ (eSafe f = false ∧ rs = false ∧ st1 = seeTaint st))) := by
  rw [xrefLoop_succ]
  cases h : xrefStep rec root rs self cur chain st with
  | done r => exact .inl ⟨r, rfl, rfl⟩
  | next t s1 =>
    obtain ⟨h1, tp, f, h2, h3, h4, h5⟩ := xrefStep_next h
    obtain ⟨tp', f', h2', h5', h6⟩ := xrefStep_next_state h
    rw [h2] at h2'; cases h2'
    rw [h5] at h5'; cases h5'
    exact .inr ⟨t, s1, tp, f, rfl, rfl, h1, h2, h3, h4, h5, h6⟩

example : xrefStep (evalNodeF c09ExChain {} 20) c09ExChain false [.str "d"] "a" [] {} = .next "b" {} := rfl

/-! ### Errors -/

/- "A reference to a missing path, to itself … is reported as an evaluation error": for every
   recursive evaluator, state and mode, a reference whose text is not a path, or names a path that is
   neither memoised nor in the tree, or names the path of the reference itself (not memoised: the
   reference is being evaluated), is `EvalError` -/
theorem C09_self_and_missing_are_errors (rec : Rec) (root : Node) (w : World) (rs : Bool) (f : Flags)
    (t : String) (path : Path) (st : EvSt) :
    (splitPath t = none → evalImpl rec root w rs (.leaf f (.xref t)) path st = .error .eval) ∧
    (∀ tp, splitPath t = some tp → plookup tp st.cache = none → getNode root tp = none →
      evalImpl rec root w rs (.leaf f (.xref t)) path st = .error .eval) ∧
    (splitPath t = some path → plookup path st.cache = none →
      evalImpl rec root w rs (.leaf f (.xref t)) path st = .error .eval) := by
  refine ⟨?_, ?_, ?_⟩
  · intro h
    simp [evalImpl, xrefLoop, h]
  · intro tp h hc hg
    simp [evalImpl, xrefLoop, h, ctxGetNode, hc, hg]
  · intro h hc
    simp only [evalImpl, xrefLoop, h, ctxGetNode, hc]
    cases getNode root path <;> simp

/-- `{a: !xref "a b", b: !xref nope, c: !xref c}` : not a path, missing, itself -/
def c09ExBad : Node :=
  .comp {} .dict [
    (.str "a", .leaf {} (.xref "a b")), (.str "b", .leaf {} (.xref "nope")), (.str "c", .leaf {} (.xref "c"))]

example : splitPath "a b" = none ∧
    (splitPath "nope" = some [.str "nope"] ∧ getNode c09ExBad [.str "nope"] = none) ∧
    splitPath "c" = some [.str "c"] := by decide

example : evaluate {} c09ExBad = .error .eval ∧
    evaluate {} (.comp {} .dict [(.str "b", .leaf {} (.xref "nope"))]) = .error .eval ∧
    evaluate {} (.comp {} .dict [(.str "c", .leaf {} (.xref "c"))]) = .error .eval := ⟨rfl, rfl, rfl⟩

/- at the level of `evaluate_node`: a reference to its own path never evaluates freshly — the only
   way `evalNodeF` can succeed on it is a memo hit (which is impossible from `evaluate`, where a
   path is memoised only after its node was evaluated) -/
theorem C09_self_reference_never_fresh (root : Node) (w : World) (fuel : Nat) (rs : Bool) (f : Flags)
    (t : String) (path : Path) (st st' : EvSt) (v : Val) (ht : splitPath t = some path)
    (h : evalNodeF root w fuel rs (.leaf f (.xref t)) path st = .ok (v, st')) :
    plookup path st.cache = some v := by
  cases fuel with
  | zero => simp [evalNodeF] at h
  | succ fuel =>
    obtain ⟨_, hcase⟩ := evalNodeF_ok_inv h
    rcases hcase with ⟨hv, _, _⟩ | ⟨hnone, _, st2, himpl, _⟩
    · exact hv
    · rw [(C09_self_and_missing_are_errors _ root w rs f t path _).2.2 ht (by simpa using hnone)] at himpl
      cases himpl

example : splitPath "c" = some [.str "c"] ∧
    evalNodeF c09ExBad {} 5 false (.leaf {} (.xref "c")) [.str "c"] {} = .error .eval := ⟨by decide, rfl⟩

/- "… or a cycle of references is reported as an evaluation error": as soon as the loop meets a text
   it has already followed, the result is an error (EvalError; UnsafeError only when the repeated
   text names a tainted memoised value in strict mode) -/
theorem C09_repeated_text_is_error (rec : Rec) (root : Node) (rs : Bool) (self : Path) (fuel : Nat)
    (cur : String) (chain : List String) (st : EvSt) (hc : cur ∈ chain) :
    ∃ e, xrefLoop rec root rs self fuel cur chain st = .error e ∧ (e = .eval ∨ e = .unsafeE) := by
  cases fuel with
  | zero => exact ⟨.eval, rfl, .inl rfl⟩
  | succ fuel =>
    obtain ⟨e, he, hcl⟩ := xrefStep_repeat (rec := rec) (root := root) (rs := rs) (self := self) (st := st) hc
    exact ⟨e, by rw [xrefLoop_succ, he], hcl⟩

example : xrefLoop (evalNodeF c09ExChain {} 20) c09ExChain false [.str "d"] 7 "a" ["a", "b"] {} = .error .eval := rfl

/- a chain that never reaches a memoised path or a node that is not a reference (`xrefTarget`
   finds nothing) cannot succeed, whatever the fuel: every cycle is an error -/
theorem C09_no_target_is_error (root : Node) (w : World) (f : Nat) (rs : Bool) (self : Path)
    (fuel : Nat) (cur : String) (chain : List String) (st : EvSt)
    (h : xrefTarget root st.cache fuel cur = none) :
    ∃ e, xrefLoop (evalNodeF root w f) root rs self fuel cur chain st = .error e := by
  cases hr : xrefLoop (evalNodeF root w f) root rs self fuel cur chain st with
  | error e => exact ⟨e, rfl⟩
  | ok r =>
    obtain ⟨v, st'⟩ := r
    obtain ⟨tp, htp, _⟩ := xrefLoop_alias fuel cur chain st v st' hr
    rw [h] at htp; cases htp

/-- the 2-cycle `a: !xref b, b: !xref a` -/
def c09ExCycle2 : Node := .comp {} .dict [(.str "a", .leaf {} (.xref "b")), (.str "b", .leaf {} (.xref "a"))]
/-- a cycle entered from outside: `x: !xref a, a: !xref b, b: !xref c, c: !xref a` -/
def c09ExCycle3 : Node :=
  .comp {} .dict [(.str "x", .leaf {} (.xref "a")), (.str "a", .leaf {} (.xref "b")),
    (.str "b", .leaf {} (.xref "c")), (.str "c", .leaf {} (.xref "a"))]

example : evaluate {} c09ExCycle2 = .error .eval := rfl
example : config {} c09ExCycle2 = .error .eval := rfl
example : evaluate {} c09ExCycle3 = .error .eval := rfl
example : xrefTarget c09ExCycle3 [] (c09ExCycle3.size + 1) "a" = none := by decide

/-! ### Aliasing -/

/- "A !xref node evaluates to the very same object as the node at the referenced path … through
   chains of references of any length": if the loop succeeds with `(v, st')`, then `v` is the value
   memoised in `st'` for the path `tp` the chain ends in (`xrefTarget`: the first memoised path or the
   first node that is not a reference) -/
theorem C09_alias (root : Node) (w : World) (f : Nat) (rs : Bool) (self : Path) (fuel : Nat)
    (cur : String) (chain : List String) (st st' : EvSt) (v : Val)
    (h : xrefLoop (evalNodeF root w f) root rs self fuel cur chain st = .ok (v, st')) :
    ∃ tp, xrefTarget root st.cache fuel cur = some tp ∧ plookup tp st'.cache = some v :=
  xrefLoop_alias fuel cur chain st v st' h

example : ∃ v st', xrefLoop (evalNodeF c09ExChain {} 20) c09ExChain false [.str "d"] 6 "a" [] {} = .ok (v, st') ∧
    plookup [.str "c"] st'.cache = some v := by
  refine ⟨_, _, rfl, ?_⟩; rfl

/- the same for a reference node evaluated through `evaluate_node`: after a fresh successful
   evaluation the reference's own path and the target path are memoised with the same value -/
theorem C09_alias_node (root : Node) (w : World) (fuel : Nat) (rs : Bool) (fl : Flags) (t : String)
    (path : Path) (st st' : EvSt) (v : Val) (hfresh : plookup path st.cache = none)
    (h : evalNodeF root w (fuel + 1) rs (.leaf fl (.xref t)) path st = .ok (v, st')) :
    plookup path st'.cache = some v ∧
    ∃ tp, xrefTarget root st.cache (root.size + 1) t = some tp ∧ plookup tp st'.cache = some v := by
  refine ⟨evalNodeF_cached h, ?_⟩
  obtain ⟨_, hcase⟩ := evalNodeF_ok_inv h
  rcases hcase with ⟨hv, _, _⟩ | ⟨_, _, st2, himpl, rfl⟩
  · rw [hfresh] at hv; cases hv
  · simp only [evalImpl] at himpl
    obtain ⟨tp, htp, hv⟩ := xrefLoop_alias _ _ _ _ _ _ himpl
    refine ⟨tp, by simpa using htp, ?_⟩
    simp only [finish_cache, plookup_cons]
    split
    · rfl
    · exact hv

example : ∃ v st', evalNodeF c09ExChain {} 20 false (.leaf {} (.xref "a")) [.str "d"] {} = .ok (v, st') ∧
    plookup [.str "d"] st'.cache = some v ∧ plookup [.str "c"] st'.cache = some v := by
  refine ⟨_, _, rfl, ?_, ?_⟩ <;> rfl

/- in `evaluate_node` a memo hit returns exactly the memoised value: whoever evaluates the target
   path afterwards — the containing mapping, another reference, a call argument — gets the same
   `Val` (same `oid`) the reference got, whatever node and mode it is asked with -/
theorem C09_cache_hit_same_object (root : Node) (w : World) (fuel : Nat) (rs : Bool) (n : Node)
    (path : Path) (st st' : EvSt) (v v' : Val) (hc : plookup path st.cache = some v)
    (h : evalNodeF root w fuel rs n path st = .ok (v', st')) : v' = v := by
  cases fuel with
  | zero => simp [evalNodeF] at h
  | succ fuel =>
    obtain ⟨_, hcase⟩ := evalNodeF_ok_inv h
    rcases hcase with ⟨hv, _, _⟩ | ⟨hnone, _⟩
    · rw [hc] at hv; cases hv; rfl
    · rw [hc] at hnone; cases hnone

example : ∃ st', evalNodeF c09ExChain {} 3 true (.leaf {} (.scalar .null)) [.str "c"]
    { cache := [([.str "c"], .list [.str "c"] [])] } = .ok (.list [.str "c"] [], st') := ⟨_, rfl⟩

/- … "wherever the target is defined (earlier, later …)": and the memoised value of the target
   never changes during the rest of the evaluation (`WF`/`Ext`: state invariant and extension order
   of AY.Lemmas.EvalLemmas, preserved by every successful `evalNodeF`) -/
theorem C09_alias_stable (root : Node) (w : World) (fuel : Nat) (rs : Bool) (n : Node) (path tp : Path)
    (st st' : EvSt) (v a : Val) (hwf : WF st) (htp : plookup tp st.cache = some a)
    (h : evalNodeF root w fuel rs n path st = .ok (v, st')) : plookup tp st'.cache = some a :=
  (evalNodeF_wf root w fuel rs n path st v st' hwf h).2.cache tp a htp

example : WF ({} : EvSt) ∧ ∃ v st', evalNodeF c09ExChain {} 20 false c09ExChain [] {} = .ok (v, st') :=
  ⟨WF.init, _, _, rfl⟩

/- The whole-build statement. For a tree whose containers have pairwise distinct keys (every tree
   the library builds), after a successful build *every* reference node of the tree — at any path
   `p`, defined before or after its target, inside lists, mappings or call arguments, evaluated in
   whatever order — holds the very value `a` that is memoised for the node `m` at the path `tp` its
   chain of references ends in (`xrefResolve`: follow the references through the tree, any length),
   and `m` is not a reference. Since containers and execution results carry their `oid`, this is
   object identity. -/
theorem C09_alias_evaluate (w : World) (root : Node) (v : Val) (st : EvSt)
    (huk : uniqueKeys root = true) (h : evaluate w root = .ok (v, st))
    (p : Path) (f : Flags) (t : String) (hm : getNode root p = some (.leaf f (.xref t))) :
    ∃ a fuel tp m, plookup p st.cache = some a ∧ xrefResolve root fuel t = some tp ∧
      getNode root tp = some m ∧ (∀ f' t', m ≠ .leaf f' (.xref t')) ∧ plookup tp st.cache = some a :=
  evaluate_xref_alias huk h hm

example : uniqueKeys c09ExChain = true ∧ getNode c09ExChain [.str "d"] = some (.leaf {} (.xref "a")) ∧
    xrefResolve c09ExChain 4 "a" = some [.str "c"] := ⟨rfl, rfl, rfl⟩

/- forward, backward and chained references; a reference to a list element; the referenced
   container `c` is one object (`oid = [c]`) under `a`, `b`, `c` and `d` -/
example : ∃ st, evaluate {} c09ExChain = .ok
    (.dict [] [
      (.str "a", .list [.str "c"] [.scalar (.int 1), .scalar (.int 1)]),
      (.str "b", .list [.str "c"] [.scalar (.int 1), .scalar (.int 1)]),
      (.str "c", .list [.str "c"] [.scalar (.int 1), .scalar (.int 1)]),
      (.str "d", .list [.str "c"] [.scalar (.int 1), .scalar (.int 1)])], st) := ⟨_, rfl⟩

example : xrefTarget c09ExChain [] (c09ExChain.size + 1) "a" = some [.str "c"] := by decide

end AY
