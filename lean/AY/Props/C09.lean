import AY.Spec.Plain
namespace AY
theorem C09_placeholder : foldUpd [] = .error .value := rfl
end AY
