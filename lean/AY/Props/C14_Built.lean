/-
  AY.Props.C14_Built — property C14 for every tree a Builder produces: the hypothesis `distinctKeys t`
  of `C14_lists_all` / `C14_requiredPaths_complete` ("true of every tree the builder produces") is
  discharged for `t = Builder.flatten(stages)` with stages parsed from documents without duplicate
  sibling keys (`KI.rawKeyed`, full tag vocabulary).  Lemmas: AY/Lemmas/KeyInv*.lean,
  AY/Lemmas/KeyInvariants.lean.
-/
import AY.Props.C14
import AY.Lemmas.KeyInvariants
namespace AY

/-- `{a: !required, b: {x: 1, y: !required}, c: [1, !required]}` and a second stage
    `{d: !call:rec.f [!required], b: {x: 2}}` -/
def c14BuiltDoc1 : Raw :=
  .map .none {} [
    (.str "a", .scalar .required {} .empty),
    (.str "b", .map .none {} [(.str "x", .scalar .none {} (.lit (.int 1))), (.str "y", .scalar .required {} .empty)]),
    (.str "c", .seq .none {} [.scalar .none {} (.lit (.int 1)), .scalar .required {} .empty])]
def c14BuiltDoc2 : Raw :=
  .map .none {} [
    (.str "d", .seq (.call "rec.f") {} [.scalar .required {} .empty]),
    (.str "b", .map .none {} [(.str "x", .scalar .none {} (.lit (.int 2)))])]
def c14BuiltStages : List Node :=
  [match construct {} c14BuiltDoc1 with | .ok n => n | .error _ => .leaf {} .required,
   match construct {} c14BuiltDoc2 with | .ok n => n | .error _ => .leaf {} .required]
def c14BuiltRoot : Node := match flatten c14BuiltStages with | .ok r => r | .error _ => .leaf {} .required

/- "... and the error lists the path of every such node", for a real build: `t` is what
   `Builder.flatten` returns for stages the loader built from documents without duplicate sibling
   keys; when `Config` construction fails with the class `required`, the listed paths are exactly the
   paths at which `get_node` finds a placeholder — none missing, none spurious, none listed twice.
   No hypothesis on the shape of `t` is left. -/
theorem C14_lists_all_built (w : World) (stages : List Node) (t : Node) (ps : List Path)
    (hs : ∀ s, s ∈ stages → ∃ env raw, KI.rawKeyed raw = true ∧ construct env raw = .ok s)
    (hf : flatten stages = .ok t) (h : config w t = .error (.required ps)) :
    (∀ p, p ∈ ps ↔ RequiredAt t p) ∧ ps.Nodup ∧ ps = requiredPaths [] t :=
  C14_lists_all w t ps (built_distinctKeys hs hf) h

/- the same for the path list itself -/
theorem C14_requiredPaths_complete_built (stages : List Node) (t : Node)
    (hs : ∀ s, s ∈ stages → ∃ env raw, KI.rawKeyed raw = true ∧ construct env raw = .ok s)
    (hf : flatten stages = .ok t) :
    (∀ p, p ∈ requiredPaths [] t ↔ RequiredAt t p) ∧ (requiredPaths [] t).Nodup :=
  C14_requiredPaths_complete t (built_distinctKeys hs hf)

example : flatten c14BuiltStages = .ok c14BuiltRoot := rfl
example : config {} c14BuiltRoot = .error (.required
    [[.str "a"], [.str "b", .str "y"], [.str "c", .int 1], [.str "d", .int 0]]) := rfl
example : (∀ p, p ∈ [[Key.str "a"], [.str "b", .str "y"], [.str "c", .int 1], [.str "d", .int 0]] ↔
    RequiredAt c14BuiltRoot p) :=
  (C14_lists_all_built {} c14BuiltStages c14BuiltRoot _
    (fun s hm => by
      rcases List.mem_cons.1 hm with e | hm
      · exact ⟨{}, c14BuiltDoc1, by decide, e ▸ rfl⟩
      · rcases List.mem_cons.1 hm with e | hm
        · exact ⟨{}, c14BuiltDoc2, by decide, e ▸ rfl⟩
        · cases hm)
    rfl rfl).1

end AY
