/-
  C13 — `!call` / `!bind`: argument passing and the merge table of function nodes.

  "A !call node returns target(args) and a !bind node a functools.partial of it, where an integer
   key i supplies the target's i-th positional parameter, a string key the parameter of that name,
   list arguments are positions 0..n-1 and a scalar argument is position 0; gaps in positions are
   bound by parameter name and an index beyond the signature is an error. Merging onto a function
   node follows the documented table: a mapping updates the arguments key-wise, a list supplies new
   positional arguments, a different target name (as a string or another function node) replaces
   the target and drops the old arguments unless told to merge, and a function node with the same
   target replaces the arguments by default."

  Binding theorems quantify over EVERY signature `sig` (any mix of positional-or-keyword,
  `*args`, keyword-only, `**kwargs` parameters, with or without defaults) and EVERY evaluated
  argument list `args` (keys in any order; the values are arbitrary `Val`s, i.e. also results of
  dynamic nodes). `resolveArgs` is `FunctionNode._resolve_args`, `bindPy sig pos kw` is Python's
  `target(*pos, **kw)`; a call node evaluates to `.app path f b.named b.varargs b.varkw` for the
  binding `b` (free-symbol model of `target(args)`), a bind node to `.part path f pos kw`
  (`functools.partial(target, *pos, **kw)`).

  Merge-table theorems are about `funcMerge rec …` (`FunctionNode.ayns.on_merge_impl`) for an
  ARBITRARY recursive merge `rec` (hence for `mergeF (fuel+1)` at every fuel), arbitrary flags and
  argument lists on both sides.
-/
import AY.Lemmas.C13Lemmas
namespace AY

/-! ## Argument passing -/

/- "an integer key i supplies the target's i-th positional parameter": if the integer keys of the
   arguments are exactly 0..n-1 (in any order in the list, mixed with any string keys) and the
   target has at least n positional-or-keyword parameters before any `*args`, then `_resolve_args`
   passes the values under 0..n-1 positionally, in index order, nothing by position-name, the
   string keys as keywords; and whenever the call binds at all, the i-th parameter is bound to the
   value stored under key i. (Parameter names are pairwise distinct in Python.) -/
theorem C13_int_key_is_ith_param (sig : Sig) (args : List (Key × Val)) (n : Nat)
    (hkeys : ∀ i : Int, (ilookup i (intArgs args)).isSome = true ↔ (0 ≤ i ∧ i < n))
    (hfloat : hasFloatKey args = false)
    (hpos : n ≤ (posParams sig).length)
    (hnd : ((posParams sig).map (·.name)).Nodup) :
    ∃ vs : List Val, vs.length = n ∧
      (∀ i : Nat, i < n → vs[i]? = ilookup (i : Int) (intArgs args)) ∧
      resolveArgs sig args = some (vs, [], strArgs args) ∧
      ∀ b, bindPy sig vs ([] ++ strArgs args) = some b →
        ∀ i (hi : i < n), ((posParams sig)[i]'(by omega)) ∈ sig ∧
          slookup ((posParams sig)[i]'(by omega)).name b.named = vs[i]? := by
  let pos := intArgs args
  have hlen : (unpackPrefix pos pos.length 0).length = n := unpackPrefix_length_exact pos n hkeys
  refine ⟨unpackPrefix pos pos.length 0, hlen, ?_, ?_, ?_⟩
  · intro i hi
    have hi' : i < (unpackPrefix pos pos.length 0).length := by omega
    have := unpackPrefix_get pos pos.length 0 i _ (List.getElem?_eq_getElem hi')
    simp only [Nat.zero_add] at this
    rw [this, List.getElem?_eq_getElem hi']
  · simp only [resolveArgs, hfloat]
    by_cases he : (intArgs args).isEmpty = true
    · rw [if_pos he]
      have hnil : intArgs args = [] := by simpa using he
      have : unpackPrefix pos pos.length 0 = [] := by
        show unpackPrefix (intArgs args) (intArgs args).length 0 = []
        rw [hnil]; rfl
      rw [this]; rfl
    · rw [if_neg he]
      simp only [Bool.false_eq_true, if_false]
      rw [kwFromPositions_all_prefix (idxToName sig) _ (intArgs args) (by
        intro iv hiv
        have := (hkeys iv.1).1 (ilookup_isSome_of_mem (v := iv.2) hiv)
        show 0 ≤ iv.1 ∧ iv.1.toNat < (unpackPrefix pos pos.length 0).length
        rw [hlen]; omega)]
  · intro b hb i hi
    obtain ⟨b', hb', hfill, _, _, _⟩ := bindPy_some sig _ _ b hb
    have hfit := bindPositional_fits (posParams sig) (unpackPrefix pos pos.length 0) (by omega)
    have hmem := posParams_mem sig ((posParams sig)[i]'(by omega)) (List.getElem_mem _)
    refine ⟨hmem.1, ?_⟩
    have hi' : i < (unpackPrefix pos pos.length 0).length := by omega
    rw [List.getElem?_eq_getElem hi']
    apply fillDefaults_keeps _ _ sig b'.named b.named
      ⟨_, hmem.1, rfl, Or.inl hmem.2⟩ _ hfill
    apply bindKeywords_keeps sig _ _ _ _ b' _ hb'
    simp only
    rw [hfit.2]
    exact slookup_zipWith (posParams sig) _ hnd i (by omega) hi'

/-- `def f2(a, b='B', *rest, k='K', **kw)` called with `{1: y, 'k': z, 0: x}` -/
example :
    let sig : Sig := [⟨"a", .posOrKw, none⟩, ⟨"b", .posOrKw, some (.str "B")⟩, ⟨"rest", .varPos, none⟩,
                      ⟨"k", .kwOnly, some (.str "K")⟩, ⟨"kw", .varKw, none⟩]
    let args : List (Key × Val) := [(.int 1, .scalar (.int 11)), (.str "k", .scalar (.int 5)), (.int 0, .scalar (.int 10))]
    (∀ i : Int, (ilookup i (intArgs args)).isSome = true ↔ (0 ≤ i ∧ i < (2 : Nat))) ∧
    hasFloatKey args = false ∧ 2 ≤ (posParams sig).length ∧ ((posParams sig).map (·.name)).Nodup ∧
    (bindPy sig [.scalar (.int 10), .scalar (.int 11)] ([] ++ strArgs args)).isSome = true := by
  refine ⟨?_, rfl, by decide, by decide, rfl⟩
  intro i
  simp only [intArgs, ilookup]
  constructor
  · intro h
    by_cases h1 : (1 : Int) = i
    · omega
    · rw [if_neg h1] at h
      by_cases h0 : (0 : Int) = i
      · omega
      · rw [if_neg h0] at h; cases h
  · intro h
    by_cases h1 : (1 : Int) = i
    · simp [h1]
    · rw [if_neg h1]
      have h0 : (0 : Int) = i := by omega
      simp [h0]

/- "a string key [supplies] the parameter of that name": a string key naming a positional-or-keyword
   or keyword-only parameter is passed as a keyword, and whenever the call binds, that parameter is
   bound to the value stored under the key. -/
theorem C13_str_key_binds_name (sig : Sig) (args : List (Key × Val)) (s : String) (v : Val)
    (hmem : (Key.str s, v) ∈ args) (hs : isNamedParam sig s = true)
    (pos : List Val) (kwp kw : List (String × Val))
    (hres : resolveArgs sig args = some (pos, kwp, kw)) :
    (s, v) ∈ kw ∧ ∀ b, bindPy sig pos (kwp ++ kw) = some b → slookup s b.named = some v := by
  have hkw := (resolveArgs_some sig args pos kwp kw hres).1
  have hm : (s, v) ∈ kw := hkw ▸ mem_strArgs hmem
  refine ⟨hm, ?_⟩
  intro b hb
  obtain ⟨b', hb', hfill, _, _, _⟩ := bindPy_some sig _ _ b hb
  exact fillDefaults_keeps s v sig b'.named b.named ((isNamedParam_iff sig s).1 hs)
    (bindKeywords_binds sig s v hs _ _ b' (List.mem_append_right _ hm) hb') hfill

example :
    let sig : Sig := [⟨"x", .posOrKw, none⟩, ⟨"y", .kwOnly, none⟩]
    let args : List (Key × Val) := [(.int 0, .scalar (.int 1)), (.str "y", .scalar (.int 2))]
    (Key.str "y", Val.scalar (.int 2)) ∈ args ∧ isNamedParam sig "y" = true ∧
    resolveArgs sig args = some ([.scalar (.int 1)], [], [("y", .scalar (.int 2))]) ∧
    (bindPy sig [.scalar (.int 1)] ([] ++ [("y", .scalar (.int 2))])).isSome = true := by
  refine ⟨by simp, rfl, rfl, rfl⟩

/- "gaps in positions are bound by parameter name": if key i is present, some smaller position j
   is absent, and i is smaller than the number of parameter names before `*args`, then the value
   under i is NOT passed positionally (the positional part stops at or before j) but as a keyword
   under the name of the i-th parameter; whenever the call binds and that parameter is
   positional-or-keyword or keyword-only, the parameter is bound to that value. -/
theorem C13_gap_bound_by_name (sig : Sig) (args : List (Key × Val)) (i j : Nat) (v : Val)
    (hmem : (Key.int i, v) ∈ args) (hji : j < i)
    (hgap : ilookup (j : Int) (intArgs args) = none)
    (pos : List Val) (kwp kw : List (String × Val))
    (hres : resolveArgs sig args = some (pos, kwp, kw)) :
    pos.length ≤ j ∧ i < (idxToName sig).length ∧
    ∃ nm, (idxToName sig)[i]? = some nm ∧ (nm, v) ∈ kwp ∧
      ∀ b, isNamedParam sig nm = true → bindPy sig pos (kwp ++ kw) = some b →
        slookup nm b.named = some v := by
  obtain ⟨_, hpos, _, hkwp⟩ := resolveArgs_some sig args pos kwp kw hres
  have hm := mem_intArgs hmem
  have hne : (intArgs args).isEmpty = false := by
    cases h : intArgs args with
    | nil => rw [h] at hm; cases hm
    | cons a b => rfl
  have hlen : pos.length ≤ j := by
    rw [hpos]; exact unpackPrefix_length_le_of_absent _ _ j hgap
  obtain ⟨nm, h1, h2, h3⟩ := kwFromPositions_gap _ _ _ kwp (hkwp hne) (i : Int) v hm
    (by simp only [Int.toNat_natCast]; omega) (Int.natCast_nonneg i)
  simp only [Int.toNat_natCast] at h1
  refine ⟨hlen, by omega, nm, h1, h2, ?_⟩
  intro b hs hb
  obtain ⟨b', hb', hfill, _, _, _⟩ := bindPy_some sig _ _ b hb
  exact fillDefaults_keeps nm v sig b'.named b.named ((isNamedParam_iff sig nm).1 hs)
    (bindKeywords_binds sig nm v hs _ _ b' (List.mem_append_left _ h2) hb') hfill

/-- `def f1(a=0, b=0)` with `{1: v}`: position 0 is a gap, `b=v` is passed by name -/
example :
    let sig : Sig := [⟨"a", .posOrKw, some (.int 0)⟩, ⟨"b", .posOrKw, some (.int 0)⟩]
    let args : List (Key × Val) := [(.int 1, .scalar (.int 7))]
    (Key.int (1 : Nat), Val.scalar (.int 7)) ∈ args ∧ ilookup ((0 : Nat) : Int) (intArgs args) = none ∧
    resolveArgs sig args = some ([], [("b", .scalar (.int 7))], []) ∧
    isNamedParam sig "b" = true ∧ (bindPy sig [] ([("b", .scalar (.int 7))] ++ [])).isSome = true := by
  refine ⟨by simp, rfl, rfl, rfl, rfl⟩

/- "an index beyond the signature is an error": an integer key that is not part of the contiguous
   prefix 0,1,2,… (some smaller position is absent) and is not smaller than the number of parameter
   names before `*args` makes `_resolve_args` raise. (Inside the contiguous prefix an index beyond
   the signature is passed positionally and is then Python's own TypeError unless `*args` takes it.) -/
theorem C13_index_beyond_signature_errors (sig : Sig) (args : List (Key × Val)) (i j : Nat) (v : Val)
    (hmem : (Key.int i, v) ∈ args) (hji : j < i)
    (hgap : ilookup (j : Int) (intArgs args) = none)
    (hbeyond : (idxToName sig).length ≤ i) :
    resolveArgs sig args = none := by
  cases hres : resolveArgs sig args with
  | none => rfl
  | some r =>
    obtain ⟨pos, kwp, kw⟩ := r
    obtain ⟨_, hpos, _, hkwp⟩ := resolveArgs_some sig args pos kwp kw hres
    have hm := mem_intArgs hmem
    have hne : (intArgs args).isEmpty = false := by
      cases h : intArgs args with
      | nil => rw [h] at hm; cases hm
      | cons a b => rfl
    have hlen : pos.length ≤ j := by
      rw [hpos]; exact unpackPrefix_length_le_of_absent _ _ j hgap
    have := kwFromPositions_beyond (idxToName sig) pos.length (intArgs args) (i : Int) v hm
      (by simp only [Int.toNat_natCast]; omega) (by omega)
    rw [hkwp hne] at this; cases this

example :
    let sig : Sig := [⟨"a", .posOrKw, some (.int 0)⟩, ⟨"b", .posOrKw, some (.int 0)⟩]
    let args : List (Key × Val) := [(.int 0, .scalar (.int 1)), (.int 2, .scalar (.int 7))]
    (Key.int (2 : Nat), Val.scalar (.int 7)) ∈ args ∧ ilookup ((1 : Nat) : Int) (intArgs args) = none ∧
    (idxToName sig).length ≤ 2 := by
  refine ⟨by simp, rfl, by decide⟩

/- "list arguments are positions 0..n-1": the loader turns `!call:f [x0, …, x(n-1)]` (likewise
   `!bind:f`) into a function node with target `f` whose i-th child is stored under the integer
   key i and is the construction of the i-th list item (with the node's flags inherited). -/
theorem C13_list_args_are_positions (env : Env) (f : String) (kw : CtorKw) (items : List Raw)
    (isCall : Bool) (n : Node)
    (h : constructDeep env (.seq (if isCall then .call f else .bind f) kw items) = .ok n) :
    ∃ fl cs cs0, n = .comp fl (if isCall then .call f else .bind f) cs ∧
      constructDeepList env 0 items = .ok cs0 ∧
      cs0.map (·.1) = (List.range items.length).map (fun i => Key.int (i : Nat)) ∧
      cs = initChildren fl (if isCall then .call f else .bind f) kw.prio cs0 ∧
      cs.map (·.1) = (List.range items.length).map (fun i => Key.int (i : Nat)) := by
  have hkeys : ∀ (items : List Raw) (s : Nat) (cs0 : List (Key × Node)),
      constructDeepList env s items = .ok cs0 →
      cs0.map (·.1) = (List.range' s items.length).map (fun i => Key.int (i : Nat)) := by
    intro items
    induction items with
    | nil => intro s cs0 h; simp only [constructDeepList, Except.ok.injEq] at h; subst h; rfl
    | cons r rest ih =>
      intro s cs0 h
      simp only [constructDeepList] at h
      split at h
      · cases h
      · split at h
        · cases h
        · rename_i ns hns
          simp only [Except.ok.injEq] at h
          subst h
          simp [List.range'_succ, ih (s + 1) ns hns]
  simp only [constructDeep] at h
  cases hc : constructDeepList env 0 items with
  | error e => rw [hc] at h; cases isCall <;> cases h
  | ok cs0 =>
    rw [hc] at h
    have hk0 := hkeys items 0 cs0 hc
    rw [← List.range_eq_range'] at hk0
    cases isCall with
    | true =>
      simp only [if_true, wrapSeq] at h ⊢
      split at h
      · cases h
      · simp only [Except.ok.injEq] at h
        exact ⟨_, _, cs0, h.symm, rfl, hk0, rfl, by simp [initChildren, List.map_map, Function.comp_def, ← hk0]⟩
    | false =>
      simp only [Bool.false_eq_true, if_false, wrapSeq] at h ⊢
      split at h
      · cases h
      · simp only [Except.ok.injEq] at h
        exact ⟨_, _, cs0, h.symm, rfl, hk0, rfl, by simp [initChildren, List.map_map, Function.comp_def, ← hk0]⟩

example : ∃ n, constructDeep {} (.seq (.call "m.f") {} [.scalar .none {} (.lit (.int 5)), .scalar .none {} (.lit (.str "p"))]) = .ok n :=
  ⟨_, rfl⟩

/- "a scalar argument is position 0": `!call:f x` (likewise `!bind:f x`) is the function node with
   the single argument `x` under the integer key 0; `!call:f` with no value has no arguments. -/
theorem C13_scalar_arg_is_position0 (env : Env) (f : String) (kw : CtorKw) (v : RVal) (isCall : Bool)
    (hf : f ≠ "") :
    ∃ fl, wrapScalar env (if isCall then .call f else .bind f) kw v =
      .ok (.comp fl (if isCall then .call f else .bind f)
        (match v with
         | .empty => []
         | _ => [(Key.int 0, inheritInto kw.prio (childKw fl (if isCall then .call f else .bind f))
                    (rawChild env v.toScalar))])) := by
  cases isCall <;> cases v <;>
    simp [wrapScalar, wrapMap, hf, scalarAsItems, initChildren, RVal.toScalar]

example : wrapScalar {} (.call "m.f") {} (.lit (.int 3)) =
    .ok (.comp { del := some true } (.call "m.f")
      [(Key.int 0, .leaf { iDel := some true } (.scalar (.int 3)))]) := rfl

/- "A !call node returns target(args)": evaluating a (safe) call node whose target `fn` has
   signature `sig` and whose arguments evaluate (under require-all-safe) to `items` yields the
   application term of `fn` to the binding that Python computes for
   `fn(*pos, **kw_positional, **kw)` with `(pos, kw_positional, kw) = _resolve_args(fn, items)`,
   and logs exactly one execution; if `_resolve_args` raises or the call does not bind, it is an
   evaluation error and nothing is logged. -/
theorem C13_call_returns_app (rec : Rec) (root : Node) (w : World) (rs : Bool) (f : Flags)
    (fn : String) (cs : List (Key × Node)) (path : Path) (st st1 : EvSt) (sig : Sig)
    (items : List (Key × Val))
    (hsafe : eSafe f = true) (hsig : lookupSig w fn = some sig)
    (hitems : evalItems rec true path cs st = .ok (items, st1)) :
    evalImpl rec root w rs (.comp f (.call fn) cs) path st =
      match resolveArgs sig items with
      | none => .error .eval
      | some (pos, kwp, kw) =>
        match bindPy sig pos (kwp ++ kw) with
        | none => .error .eval
        | some b => .ok (.app path fn b.named b.varargs b.varkw,
                         { st1 with log := st1.log ++ [{ path := path, what := "call:" ++ fn }] }) := by
  simp only [evalImpl, hsafe, hsig, hitems, Bool.not_true, Bool.false_eq_true, if_false]
  cases resolveArgs sig items with
  | none => rfl
  | some r =>
    obtain ⟨pos, kwp, kw⟩ := r
    simp only
    cases bindPy sig pos (kwp ++ kw) <;> rfl

/-- `r: !call:sig.f3 {0: 1, y: 2}` with `def f3(x, *, y)` evaluates to `f3(x=1, y=2)`, one execution -/
example :
    let w : World := { sigs := [("sig.f3", [⟨"x", .posOrKw, none⟩, ⟨"y", .kwOnly, none⟩])] }
    let nd : Node := .comp { del := some true } (.call "sig.f3")
      [(.int 0, .leaf {} (.scalar (.int 1))), (.str "y", .leaf {} (.scalar (.int 2)))]
    (match evaluate w (.comp {} .dict [(.str "r", nd)]) with
     | .ok (v, st) => some (v, st.log.map (·.what))
     | .error _ => none) =
    some (.dict [] [(.str "r", .app [.str "r"] "sig.f3" [("x", .scalar (.int 1)), ("y", .scalar (.int 2))] [] [])],
          ["call:sig.f3"]) := rfl

/- "... and a !bind node a functools.partial of it": same for a bind node; the result is the
   partial application term carrying the positional part and the keywords (a keyword given twice —
   once through a position, once by name — is the TypeError of `partial(f, **a, **b)`). -/
theorem C13_bind_returns_partial (rec : Rec) (root : Node) (w : World) (rs : Bool) (f : Flags)
    (fn : String) (cs : List (Key × Node)) (path : Path) (st st1 : EvSt) (sig : Sig)
    (items : List (Key × Val))
    (hsafe : eSafe f = true) (hsig : lookupSig w fn = some sig)
    (hitems : evalItems rec true path cs st = .ok (items, st1)) :
    evalImpl rec root w rs (.comp f (.bind fn) cs) path st =
      match resolveArgs sig items with
      | none => .error .eval
      | some (pos, kwp, kw) =>
        if dupKeys (kwp ++ kw) then .error .eval
        else .ok (.part path fn pos (kwp ++ kw),
                  { st1 with log := st1.log ++ [{ path := path, what := "bind:" ++ fn }] }) := by
  simp only [evalImpl, hsafe, hsig, hitems, Bool.not_true, Bool.false_eq_true, if_false]
  cases resolveArgs sig items with
  | none => rfl
  | some r =>
    obtain ⟨pos, kwp, kw⟩ := r
    rfl

/-- `r: !bind:sig.f1 {1: 7, a: 3}` with `def f1(a=0, b=0)` evaluates to `partial(f1, b=7, a=3)` -/
example :
    let w : World := { sigs := [("sig.f1", [⟨"a", .posOrKw, some (.int 0)⟩, ⟨"b", .posOrKw, some (.int 0)⟩])] }
    let nd : Node := .comp { del := some true } (.bind "sig.f1")
      [(.int 1, .leaf {} (.scalar (.int 7))), (.str "a", .leaf {} (.scalar (.int 3)))]
    (match evaluate w (.comp {} .dict [(.str "r", nd)]) with
     | .ok (v, st) => some (v, st.log.map (·.what))
     | .error _ => none) =
    some (.dict [] [(.str "r", .part [.str "r"] "sig.f1" [] [("b", .scalar (.int 7)), ("a", .scalar (.int 3))])],
          ["bind:sig.f1"]) := rfl

/-! ## The merge table (`Call <- …`, `Bind <- …`)

  `self = .comp sf sk scs` with `sk = call f` or `sk = bind f` (hypothesis `sk.func? = some f`). -/

/- the dispatcher: merging anything onto a function node IS `FunctionNode.on_merge_impl`, at every
   fuel; so every theorem below (stated for an arbitrary recursive merge `rec`) holds for
   `mergeF (fuel+1)` with `rec := mergeF fuel`, and for any sequence of merges by iterating it -/
theorem C13_mergeF_is_funcMerge (fuel : Nat) (sf : Flags) (sk : CompKind) (f : String)
    (scs : List (Key × Node)) (o : Node) (hsk : sk.func? = some f) :
    mergeF (fuel + 1) (.comp sf sk scs) o = funcMerge (mergeF fuel) sf sk f scs o := by
  rcases func?_cases hsk with rfl | rfl <;> rfl

example : (CompKind.bind "m.f").func? = some "m.f" := rfl

/- "Call <- str: if str is different than the current target function's name, update the name and
   remove all children, otherwise no effect" — same name: target and arguments are unchanged
   (the node is the same object; its class, target, argument keys and argument data are those of
   `self`; only merge-control flags/metadata are combined). -/
theorem C13_str_same_name_noop (rec : Node → Node → Except Err (Node × Bool)) (sf : Flags)
    (sk : CompKind) (f : String) (scs : List (Key × Node)) (of : Flags) (lk : LeafKind)
    (hstr : lk.isStr = true) (hsame : lk.strVal = f) :
    ∃ fl cs, funcMerge rec sf sk f scs (.leaf of lk) = .ok (.comp fl sk cs, true) ∧
      cs.map (·.1) = scs.map (·.1) ∧
      native (.comp fl sk cs) = native (.comp sf sk scs) := by
  simp only [funcMerge, hstr, if_true, hsame, bne_self_eq_false, Bool.false_eq_true, if_false]
  by_cases hp : hasPrio of sf true = true
  · rw [if_pos hp]
    obtain ⟨cs', h1, h2⟩ := propagate_kind (replaceSelfFlags sf of) sk scs
    refine ⟨_, cs', by rw [h1], h2, ?_⟩
    rw [← h1, native_propagate]
    simp [native]
  · rw [if_neg hp]
    obtain ⟨cs', h1, h2, h3⟩ := propagate_shape (replaceOtherFlags sf of) sf sk scs
    exact ⟨_, cs', by rw [h1], h2, h3⟩

example : funcMerge (mergeF 0) { del := some true } (.call "m.f") "m.f"
    [(.str "a", .leaf { iDel := some true } (.scalar (.int 1)))] (.leaf {} (.scalar (.str "m.f"))) =
    .ok (.comp {} (.call "m.f") [(.str "a", .leaf { iDel := some true } (.scalar (.int 1)))], true) := rfl

/- "... a different target name (as a string …) replaces the target and drops the old arguments":
   a string with another name, not outranked by the function node. -/
theorem C13_str_other_name_replaces (rec : Node → Node → Except Err (Node × Bool)) (sf : Flags)
    (sk : CompKind) (f : String) (scs : List (Key × Node)) (of : Flags) (lk : LeafKind)
    (hstr : lk.isStr = true) (hdiff : lk.strVal ≠ f) (hp : hasPrio of sf true = true) :
    funcMerge rec sf sk f scs (.leaf of lk) =
      .ok (.comp (replaceSelfFlags sf of) (sk.setFunc lk.strVal) [], true) := by
  simp only [funcMerge, hstr, if_true, hp]
  rw [if_pos (by simpa using hdiff), propagate_nil]

example : funcMerge (mergeF 0) { del := some true } (.call "m.f") "m.f"
    [(.str "a", .leaf { iDel := some true } (.scalar (.int 1)))] (.leaf {} (.scalar (.str "m.g"))) =
    .ok (.comp {} (.call "m.g") [], true) := rfl

/- an outranked string (the function node has the higher priority) changes neither target nor
   arguments, whatever its name: the result is `self` with the flags `_replace_other`, its inherited
   flags handed down to the arguments again (`propagate`) — same class and target, same flags of
   the node, same argument keys in order, same data -/
theorem C13_str_outranked_noop (rec : Node → Node → Except Err (Node × Bool)) (sf : Flags)
    (sk : CompKind) (f : String) (scs : List (Key × Node)) (of : Flags) (lk : LeafKind)
    (hstr : lk.isStr = true) (hp : hasPrio of sf true = false) :
    funcMerge rec sf sk f scs (.leaf of lk) =
      .ok (propagate (.comp (replaceOtherFlags sf of) sk scs), true) ∧
    ∃ cs, propagate (.comp (replaceOtherFlags sf of) sk scs) = .comp (replaceOtherFlags sf of) sk cs ∧
      cs.map (·.1) = scs.map (·.1) ∧
      native (.comp (replaceOtherFlags sf of) sk cs) = native (.comp sf sk scs) :=
  ⟨by simp [funcMerge, hstr, hp], propagate_shape _ _ _ _⟩

-- (the argument now carries the `delete` the surviving node hands down: `_replace_other` re-propagates)
example : funcMerge (mergeF 0) { prio := some 1, del := some true } (.call "m.f") "m.f"
    [(.str "a", .leaf {} (.scalar (.int 1)))] (.leaf {} (.scalar (.str "m.g"))) =
    .ok (.comp { prio := some 1, del := some true } (.call "m.f")
      [(.str "a", .leaf { iDel := some true } (.scalar (.int 1)))], true) := rfl

/- "a different target name (… or another function node) replaces the target and drops the old
   arguments unless told to merge" — deleting other (the default: function nodes are constructed
   with delete=True), not outranked: the result has the other node's class and target and EXACTLY
   the other node's arguments (unless the other node refuses new keys below it: `_require_all_new`). -/
theorem C13_func_other_target_replaces (rec : Node → Node → Except Err (Node × Bool)) (sf : Flags)
    (sk : CompKind) (f g : String) (scs : List (Key × Node)) (of : Flags) (ok : CompKind)
    (ocs : List (Key × Node))
    (hsk : sk.func? = some f) (hok : ok.func? = some g) (hdiff : g ≠ f)
    (hp : hasPrio of sf true = true) (hdel : eDel (.comp of ok ocs) = true) :
    funcMerge rec sf sk f scs (.comp of ok ocs) =
      match reqNew [[]] [] (.comp of ok ocs) with
      | some p => .error (.notnew p)
      | none => .ok (propagate (.comp (replaceOtherFlags of sf) ok ocs), false) := by
  have hskf : sk.isFunc = true := isFunc_of_func? hsk
  have hokf : ok.isFunc = true := isFunc_of_func? hok
  have hsk' : (sk.setFunc g).isFunc = true := isFunc_of_func? (setFunc_func? g hsk)
  simp only [funcMerge, hok, hp]
  rw [if_pos (by simpa using hdiff)]
  simp only [Bool.not_true, Bool.false_eq_true, if_false, hdel, if_true]
  rw [compMerge_replaced rec sf _ [] of ok ocs hsk' hokf hdel hp (by rw [filterNode_nil]; rfl)]
  simp only [filterNode_nil]
  rfl

example : funcMerge (mergeF 0) { del := some true } (.call "m.f") "m.f"
    [(.str "a", .leaf { iDel := some true } (.scalar (.int 1)))]
    (.comp { del := some true } (.bind "m.g") [(.int 0, .leaf { iDel := some true } (.scalar (.int 2)))]) =
    .ok (.comp { del := some true } (.bind "m.g") [(.int 0, .leaf { iDel := some true } (.scalar (.int 2)))], false) := rfl

/- "... unless told to merge": a function node with a different target that is explicitly
   non-deleting (`!merge`, `eDel = false`), not outranked: the target is replaced, the class of
   `self` is kept, and the old arguments are kept and updated key-wise by the key loop
   (`mergeLoop`): arguments under keys the other node does not mention are untouched, and a key
   new to `self` gets the other node's (adopted) argument. -/
theorem C13_func_other_target_merge_keeps_args (rec : Node → Node → Except Err (Node × Bool))
    (sf : Flags) (sk : CompKind) (f g : String) (scs : List (Key × Node)) (of : Flags)
    (ok : CompKind) (ocs : List (Key × Node))
    (hsk : sk.func? = some f) (hok : ok.func? = some g) (hdiff : g ≠ f)
    (hp : hasPrio of sf true = true) (hdel : eDel (.comp of ok ocs) = false) :
    funcMerge rec sf sk f scs (.comp of ok ocs) =
      (match mergeLoop rec sf (sk.setFunc g) [] scs ocs with
       | .error e => .error e
       | .ok scs' => .ok (propagate (.comp (replaceSelfFlags sf of) (sk.setFunc g) scs'), true)) ∧
    ∀ scs', mergeLoop rec sf (sk.setFunc g) [] scs ocs = .ok scs' →
      (∀ k, (∀ kv ∈ ocs, kv.1 ≠ k) → alookup k scs' = alookup k scs) ∧
      (∀ k v pre post, ocs = pre ++ (k, v) :: post → (∀ kv ∈ pre, kv.1 ≠ k) →
        (∀ kv ∈ post, kv.1 ≠ k) → alookup k scs = none → alookup k scs' = some (adopt sf (sk.setFunc g) v)) := by
  have hokf : ok.isFunc = true := isFunc_of_func? hok
  have hsk' : (sk.setFunc g).isFunc = true := isFunc_of_func? (setFunc_func? g hsk)
  have hdf : (sk.setFunc g).isDictFam = true := isDictFam_of_func? (setFunc_func? g hsk)
  constructor
  · simp only [funcMerge, hok, hp]
    rw [if_pos (by simpa using hdiff)]
    simp only [Bool.not_true, Bool.false_eq_true, if_false, hdel, compMerge]
    cases mergeLoop rec sf (sk.setFunc g) [] scs ocs with
    | error e => rfl
    | ok scs' =>
      simp only [finishMerge, Node.flags, hp, if_true]
      rw [maybePromote_func_func _ _ _ _ _ _ hsk' hokf]
  · intro scs' h
    exact ⟨fun k hk => mergeLoop_untouched rec sf _ hdf k ocs scs scs' hk h,
      fun k v pre post he h1 h2 h3 => mergeLoop_new_key rec sf _ hdf k v pre post scs scs' h1 h2 h3 (he ▸ h)⟩

example : mergeF 2 (.comp { del := some true } (.call "m.f") [(.str "a", .leaf { iDel := some true } (.scalar (.int 1)))])
    (.comp { del := some false } (.call "m.g") [(.str "b", .leaf {} (.scalar (.int 2)))]) =
    .ok (.comp { del := some false } (.call "m.g")
      [(.str "a", .leaf { iDel := some false } (.scalar (.int 1))), (.str "b", .leaf { iDel := some false } (.scalar (.int 2)))], true) := rfl

/- a function node with a different target that is outranked by `self` changes neither the target
   nor the arguments (same shape of the result as in `C13_str_outranked_noop`) -/
theorem C13_func_other_target_outranked_noop (rec : Node → Node → Except Err (Node × Bool))
    (sf : Flags) (sk : CompKind) (f g : String) (scs : List (Key × Node)) (of : Flags)
    (ok : CompKind) (ocs : List (Key × Node))
    (hok : ok.func? = some g) (hdiff : g ≠ f) (hp : hasPrio of sf true = false) :
    funcMerge rec sf sk f scs (.comp of ok ocs) =
      .ok (propagate (.comp (replaceOtherFlags sf of) sk scs), true) ∧
    ∃ cs, propagate (.comp (replaceOtherFlags sf of) sk scs) = .comp (replaceOtherFlags sf of) sk cs ∧
      cs.map (·.1) = scs.map (·.1) ∧
      native (.comp (replaceOtherFlags sf of) sk cs) = native (.comp sf sk scs) := by
  refine ⟨?_, propagate_shape _ _ _ _⟩
  simp only [funcMerge, hok, hp]
  rw [if_pos (by simpa using hdiff)]
  simp

example : funcMerge (mergeF 0) { prio := some 1, del := some true } (.call "m.f") "m.f"
    [(.str "a", .leaf {} (.scalar (.int 1)))] (.comp { del := some true } (.call "m.g") []) =
    .ok (.comp { prio := some 1, del := some true } (.call "m.f")
      [(.str "a", .leaf { iDel := some true } (.scalar (.int 1)))], true) := rfl

/- "a function node with the same target replaces the arguments by default": same target, other
   deleting (the default) and not outranked, and no argument of `self` outranks the node of `other`
   it would meet (`ArgsYield`: the arguments are leaves and `maybe_keep` is false for each — e.g.
   whenever no priorities are involved): the result is the other node — its arguments, exactly
   (unless the other node refuses new keys: `_require_all_new`). -/
theorem C13_func_same_target_replaces_args (rec : Node → Node → Except Err (Node × Bool))
    (sf : Flags) (sk : CompKind) (f : String) (scs : List (Key × Node)) (of : Flags)
    (ok : CompKind) (ocs : List (Key × Node))
    (hsk : sk.func? = some f) (hok : ok.func? = some f)
    (hp : hasPrio of sf true = true) (hdel : eDel (.comp of ok ocs) = true)
    (hyield : ArgsYield scs (.comp of ok ocs)) :
    funcMerge rec sf sk f scs (.comp of ok ocs) =
      match reqNew ([] :: (filterNode (maybeKeep (.comp of ok ocs)) [] (.comp sf sk scs)).2) []
          (.comp of ok ocs) with
      | some p => .error (.notnew p)
      | none => .ok (propagate (.comp (replaceOtherFlags of sf) ok ocs), false) := by
  have hskf : sk.isFunc = true := isFunc_of_func? hsk
  have hokf : ok.isFunc = true := isFunc_of_func? hok
  simp only [funcMerge, hok, bne_self_eq_false, Bool.false_eq_true, if_false]
  exact compMerge_replaced rec sf sk scs of ok ocs hskf hokf hdel hp
    (filterNode_all_gone sf sk (isDictFam_of_func? hsk) scs _ hyield)

example : mergeF 2 (.comp { del := some true } (.call "m.f")
      [(.str "a", .leaf { iDel := some true } (.scalar (.int 1))), (.str "b", .leaf { iDel := some true } (.scalar (.int 2)))])
    (.comp { del := some true } (.call "m.f") [(.str "c", .leaf { iDel := some true } (.scalar (.int 3)))]) =
    .ok (.comp { del := some true } (.call "m.f") [(.str "c", .leaf { iDel := some true } (.scalar (.int 3)))], false) := rfl

example : ArgsYield [(.str "a", .leaf { iDel := some true } (.scalar (.int 1))), (.str "b", .leaf { iDel := some true } (.scalar (.int 2)))]
    (.comp { del := some true } (.call "m.f") [(.str "c", .leaf { iDel := some true } (.scalar (.int 3)))]) := by
  intro kc hkc
  simp only [List.mem_cons, List.not_mem_nil, or_false] at hkc
  rcases hkc with rfl | rfl <;> exact ⟨rfl, by decide⟩

/- a function node with the same target is otherwise merged like the underlying mappings
   ("otherwise dict1 <- dict2") -/
theorem C13_func_same_target_is_dict_merge (rec : Node → Node → Except Err (Node × Bool))
    (sf : Flags) (sk : CompKind) (f : String) (scs : List (Key × Node)) (of : Flags)
    (ok : CompKind) (ocs : List (Key × Node)) (hok : ok.func? = some f) :
    funcMerge rec sf sk f scs (.comp of ok ocs) = compMerge rec sf sk scs (.comp of ok ocs) := by
  simp [funcMerge, hok]

example : (CompKind.bind "m.f").func? = some "m.f" := rfl

/- "a mapping updates the arguments key-wise" (`Call <- dict: update Call's arguments without
   changing target function`): whatever the flags, a successful merge of a plain mapping leaves a
   node of the same class and target; for a non-deleting mapping (the default) the arguments are
   the result of the key loop: keys the mapping does not mention are untouched, new keys are added
   with the mapping's (adopted) value. -/
theorem C13_mapping_updates_args_keywise (rec : Node → Node → Except Err (Node × Bool))
    (sf : Flags) (sk : CompKind) (f : String) (scs : List (Key × Node)) (of : Flags)
    (ocs : List (Key × Node)) (hsk : sk.func? = some f) (r : Node) (same : Bool)
    (h : funcMerge rec sf sk f scs (.comp of .dict ocs) = .ok (r, same)) :
    (∃ fl cs, r = .comp fl sk cs) ∧
    (eDel (.comp of .dict ocs) = false →
      ∃ fl scs' cs, r = .comp fl sk cs ∧ mergeLoop rec sf sk [] scs ocs = .ok scs' ∧
        cs.map (·.1) = scs'.map (·.1) ∧ native r = native (.comp sf sk scs') ∧
        (∀ k, (∀ kv ∈ ocs, kv.1 ≠ k) → alookup k scs' = alookup k scs) ∧
        (∀ k v pre post, ocs = pre ++ (k, v) :: post → (∀ kv ∈ pre, kv.1 ≠ k) →
          (∀ kv ∈ post, kv.1 ≠ k) → alookup k scs = none → alookup k scs' = some (adopt sf sk v))) := by
  have hskf : sk.isFunc = true := isFunc_of_func? hsk
  have hdf : sk.isDictFam = true := isDictFam_of_func? hsk
  -- both shapes of a merged `self` have class `sk`, the keys and the data of `scs'`
  have hshape : ∀ scs' : List (Key × Node), ∃ fl cs,
      (if hasPrio of sf true then propagate (.comp (replaceSelfFlags sf of) sk scs')
       else propagate (.comp (replaceOtherFlags sf of) sk scs')) = .comp fl sk cs ∧
      cs.map (·.1) = scs'.map (·.1) ∧ native (.comp fl sk cs) = native (.comp sf sk scs') := by
    intro scs'
    by_cases hp : hasPrio of sf true = true
    · obtain ⟨cs', h1, h2⟩ := propagate_kind (replaceSelfFlags sf of) sk scs'
      refine ⟨_, cs', by rw [if_pos hp, h1], h2, ?_⟩
      rw [← h1, native_propagate]; simp [native]
    · obtain ⟨cs', h1, h2, h3⟩ := propagate_shape (replaceOtherFlags sf of) sf sk scs'
      exact ⟨_, cs', by rw [if_neg hp, h1], h2, h3⟩
  simp only [funcMerge, CompKind.func?] at h
  rw [compMerge_func_plain rec sf sk scs of .dict ocs hskf (Or.inl rfl)] at h
  constructor
  · split at h
    · simp only at h
      split at h
      · split at h
        · cases h
        · split at h
          · cases h
          · rename_i cs0 _
            simp only [Except.ok.injEq, Prod.mk.injEq] at h
            obtain ⟨cs', h1, _⟩ := propagate_kind (promotedFlags (replaceOtherFlags of sf) sf) sk cs0
            exact ⟨_, cs', by rw [← h.1, h1]⟩
      · split at h
        · cases h
        · rename_i scs' _
          simp only [Except.ok.injEq, Prod.mk.injEq] at h
          obtain ⟨fl, cs, h1, _⟩ := hshape scs'
          exact ⟨fl, cs, by rw [← h.1, h1]⟩
    · split at h
      · cases h
      · rename_i scs' _
        simp only [Except.ok.injEq, Prod.mk.injEq] at h
        obtain ⟨fl, cs, h1, _⟩ := hshape scs'
        exact ⟨fl, cs, by rw [← h.1, h1]⟩
  · intro hdel
    rw [if_neg (by simp [hdel])] at h
    split at h
    · cases h
    · rename_i scs' hl
      simp only [Except.ok.injEq, Prod.mk.injEq] at h
      obtain ⟨fl, cs, h1, h2, h3⟩ := hshape scs'
      have hr : r = .comp fl sk cs := by rw [← h.1, h1]
      exact ⟨fl, scs', cs, hr, hl, h2, by rw [hr]; exact h3,
        fun k hk => mergeLoop_untouched rec sf sk hdf k ocs scs scs' hk hl,
        fun k v pre post he p1 p2 p3 => mergeLoop_new_key rec sf sk hdf k v pre post scs scs' p1 p2 p3 (he ▸ hl)⟩

example : mergeF 2 (.comp { del := some true } (.bind "m.f")
      [(.str "a", .leaf { iDel := some true } (.scalar (.int 1))), (.str "b", .leaf { iDel := some true } (.scalar (.int 2)))])
    (.comp {} .dict [(.str "b", .leaf {} (.scalar (.int 5))), (.int 0, .leaf {} (.scalar (.int 7)))]) =
    .ok (.comp {} (.bind "m.f")
      [(.str "a", .leaf { iDel := some true } (.scalar (.int 1))), (.str "b", .leaf { iDel := some true } (.scalar (.int 5))),
       (.int 0, .leaf { iDel := some true } (.scalar (.int 7)))], true) := rfl

/- "a list supplies new positional arguments" (`Call <- list: update Call's arguments (analogical
   to dict <- list) without changing target function`): whatever the flags, a successful merge of a
   plain list leaves a node of the same class and target; and when the list deletes (the default
   for lists), is not outranked and no argument of `self` outranks it (`ArgsYield`), the new
   arguments are exactly the list's items, adopted by the function node (`adoptAll`: `set_child`
   for each of the list's children in order), under the list's keys 0..n-1. -/
theorem C13_list_supplies_positional_args (rec : Node → Node → Except Err (Node × Bool))
    (sf : Flags) (sk : CompKind) (f : String) (scs : List (Key × Node)) (of : Flags)
    (ocs : List (Key × Node)) (hsk : sk.func? = some f) (r : Node) (same : Bool)
    (h : funcMerge rec sf sk f scs (.comp of .list ocs) = .ok (r, same)) :
    (∃ fl cs, r = .comp fl sk cs) ∧
    (eDel (.comp of .list ocs) = true → hasPrio of sf true = true →
      ArgsYield scs (.comp of .list ocs) →
      ∃ cs, adoptAll sf sk ocs [] = .ok cs ∧
        r = propagate (.comp (promotedFlags (replaceOtherFlags of sf) sf) sk cs)) := by
  have hskf : sk.isFunc = true := isFunc_of_func? hsk
  have hshape : ∀ scs' : List (Key × Node), ∃ fl cs,
      (if hasPrio of sf true then propagate (.comp (replaceSelfFlags sf of) sk scs')
       else propagate (.comp (replaceOtherFlags sf of) sk scs')) = .comp fl sk cs := by
    intro scs'
    by_cases hp : hasPrio of sf true = true
    · obtain ⟨cs', h1, _⟩ := propagate_kind (replaceSelfFlags sf of) sk scs'
      exact ⟨_, cs', by rw [if_pos hp, h1]⟩
    · obtain ⟨cs', h1, _⟩ := propagate_kind (replaceOtherFlags sf of) sk scs'
      exact ⟨_, cs', by rw [if_neg hp, h1]⟩
  simp only [funcMerge, CompKind.func?] at h
  rw [compMerge_func_plain rec sf sk scs of .list ocs hskf (Or.inr rfl)] at h
  constructor
  · split at h
    · simp only at h
      split at h
      · split at h
        · cases h
        · split at h
          · cases h
          · rename_i cs0 _
            simp only [Except.ok.injEq, Prod.mk.injEq] at h
            obtain ⟨cs', h1, _⟩ := propagate_kind (promotedFlags (replaceOtherFlags of sf) sf) sk cs0
            exact ⟨_, cs', by rw [← h.1, h1]⟩
      · split at h
        · cases h
        · rename_i scs' _
          simp only [Except.ok.injEq, Prod.mk.injEq] at h
          obtain ⟨fl, cs, h1⟩ := hshape scs'
          exact ⟨fl, cs, by rw [← h.1, h1]⟩
    · split at h
      · cases h
      · rename_i scs' _
        simp only [Except.ok.injEq, Prod.mk.injEq] at h
        obtain ⟨fl, cs, h1⟩ := hshape scs'
        exact ⟨fl, cs, by rw [← h.1, h1]⟩
  · intro hdel hp hyield
    have hgone := filterNode_all_gone sf sk (isDictFam_of_func? hsk) scs _ hyield
    rw [if_pos hdel] at h
    simp only [hgone, List.isEmpty_nil, hp, Bool.and_self, if_true] at h
    split at h
    · cases h
    · split at h
      · cases h
      · rename_i cs hcs
        simp only [Except.ok.injEq, Prod.mk.injEq] at h
        exact ⟨cs, hcs, h.1.symm⟩

example : mergeF 2 (.comp { del := some true } (.call "m.f")
      [(.str "a", .leaf { iDel := some true } (.scalar (.int 1)))])
    (.comp {} .list [(.int 0, .leaf { iDel := some true } (.scalar (.int 5))), (.int 1, .leaf { iDel := some true } (.scalar (.int 6)))]) =
    .ok (.comp {} (.call "m.f")
      [(.int 0, .leaf { iDel := some true } (.scalar (.int 5))), (.int 1, .leaf { iDel := some true } (.scalar (.int 6)))], true) := rfl

end AY
