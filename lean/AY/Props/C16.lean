import AY.Spec.Plain
namespace AY
theorem C16_placeholder : foldUpd [] = .error .value := rfl
end AY
