/-
  C16 — "!append / !extend / !prev move and grow existing content without loss".

  Statement (properties.jsonl): 'p: !append L' makes the value at p the previous list followed by
  the elements of L (and fails if there is no previous list), '!extend' does the same but silently
  becomes a plain list when there is nothing to extend, and 'q: !prev p' places the entire previous
  subtree of p at q and removes it from p. In all cases every other path keeps its value, and
  elements keep their order and identity of content.
  Quantifier: every base config, every target path (top level or nested, existing or missing, list
  or non-list), every appended list and every sequence of several such operators.

  The theorems are about `premergeF` / `premergeChildren` / `removeNode` / `extendList` /
  `newPlainList` of AY.Model.Build for ALL nodes (any class, any flags).  `premergeF (fuel+1) n
  path into` is `n.ayns.on_premerge(path, into)`: it returns the node that takes the place of `n`
  in the stage, whether it is the same object, and the accumulated tree `into` after the operator
  detached what it needs.  The stage is merged afterwards by the ordinary merge (C01/C02/C05).
  Auxiliary definitions and proofs: AY/Lemmas/C16Build.lean (data of `extendList`, `newPlainList`),
  C16Remove.lean (`removeNode` = `removeChild` on the parent + `setNodeAt`), C16Frame.lean (frame),
  C16Ops.lean (`c16_numbered`, `getNode` ⇒ `removeNode`, the loop), C16Commute.lean, C16Stage.lean,
  C16Numbered.lean.
-/
import AY.Lemmas.C16Ops
import AY.Lemmas.C16Commute
import AY.Lemmas.C16Stage
import AY.Lemmas.C16Numbered
namespace AY

/-! ### Concrete nodes used by the non-vacuity examples -/

def c16Leaf (i : Int) : Node := .leaf {} (.scalar (.int i))

/-- `[1, 2, 3]` -/
def c16List : Node := .comp {} .list [(.int 0, c16Leaf 1), (.int 1, c16Leaf 2), (.int 2, c16Leaf 3)]

/-- `{a: {l: [1, 2, 3], x: 5}, b: 7}` -/
def c16Root : Node :=
  .comp {} .dict
    [(.str "a", .comp {} .dict [(.str "l", c16List), (.str "x", c16Leaf 5)]), (.str "b", c16Leaf 7)]

/-- `{a: {x: 5}, b: 7}` : `c16Root` without `a.l` -/
def c16RootNoL : Node :=
  .comp {} .dict [(.str "a", .comp {} .dict [(.str "x", c16Leaf 5)]), (.str "b", c16Leaf 7)]

/-- the children of `!append [8, 9]` / `!extend [8, 9]` -/
def c16New : List (Key × Node) := [(.int 0, c16Leaf 8), (.int 1, c16Leaf 9)]

/-- `{l: [1, 2, 3]}` -/
def c16RootL : Node := .comp {} .dict [(.str "l", c16List)]

/-- the stage `{a: !prev l[0], b: !prev l[1]}` -/
def c16StageAB : Node :=
  .comp {} .dict [(.str "a", .leaf {} (.prev "l[0]")), (.str "b", .leaf {} (.prev "l[1]"))]

/-- the same stage with the two keys written in the other order: `{b: !prev l[1], a: !prev l[0]}` -/
def c16StageBA : Node :=
  .comp {} .dict [(.str "b", .leaf {} (.prev "l[1]")), (.str "a", .leaf {} (.prev "l[0]"))]

/-! ### `!append` -/

/- "'p: !append L' makes the value at p the previous list followed by the elements of L":
   when the accumulated tree `root` has a list-family node `comp tf tk tcs` at the path `path` of
   the `!append` node (`remove_node` detaches it, leaving `root'`), the `!append` node is replaced
   (`false`: by another object) by that very node — same flags `tf`, same class `tk` — whose
   children are the old children followed by the adopted elements of `L` (`extendList`), and the
   accumulated tree continues as `root'` (the old list no longer sits at `path`, so the following
   merge simply inserts the grown list). -/
theorem C16_append (fuel : Nat) (f : Flags) (cs : List (Key × Node)) (path : Path)
    (root root' : Node) (tf : Flags) (tk : CompKind) (tcs : List (Key × Node))
    (hr : removeNode root path = some (.comp tf tk tcs, root')) (hk : tk.isListFam = true) :
    premergeF (fuel + 1) (.comp f .append cs) path (some root) =
      .ok (.comp tf tk (extendList tf tk tcs (cs.map (·.2))), false, some root') := by
  simp [premergeF, hr, hk]

example : removeNode c16Root [.str "a", .str "l"] = some (c16List, c16RootNoL) := rfl
example : premergeF 1 (.comp {} .append c16New) [.str "a", .str "l"] (some c16Root) =
    .ok (.comp {} .list (extendList {} .list c16List.children [c16Leaf 8, c16Leaf 9]), false,
      some c16RootNoL) :=
  C16_append 0 {} c16New _ c16Root c16RootNoL {} .list _ rfl rfl

/- "… the previous list followed by the elements of L … elements keep their order and identity of
   content": the data (`nativeVals`) of the extended children is the data of the old children
   followed by the data of the new elements, in order; the old children themselves (keys and nodes,
   with all their flags) are an untouched prefix of the new children; a list numbered `0 … n-1`
   stays numbered. -/
theorem C16_extendList_native (tf : Flags) (tk : CompKind) (tcs : List (Key × Node)) (vs : List Node) :
    nativeVals (extendList tf tk tcs vs) = nativeVals tcs ++ vs.map native ∧
    tcs <+: extendList tf tk tcs vs ∧
    (extendList tf tk tcs vs).length = tcs.length + vs.length ∧
    (listKeys 0 tcs = true → listKeys 0 (extendList tf tk tcs vs) = true) :=
  ⟨c16_nativeVals_extendList tf tk vs tcs, c16_extendList_prefix tf tk vs tcs,
    c16_length_extendList tf tk vs tcs, c16_listKeys_extendList tf tk vs tcs⟩

example : nativeVals (extendList {} .list c16List.children [c16Leaf 8, c16Leaf 9]) =
    [.scalar (.int 1), .scalar (.int 2), .scalar (.int 3), .scalar (.int 8), .scalar (.int 9)] := rfl

/- The same at the level of the operator: under the hypotheses of `C16_append` the data of the
   node that replaces `!append L` is the list `old ++ L` where `old` is the data of the detached
   list (`native (comp tf tk tcs) = list (nativeVals tcs)`). -/
theorem C16_append_native (fuel : Nat) (f : Flags) (cs : List (Key × Node)) (path : Path)
    (root root' : Node) (tf : Flags) (tk : CompKind) (tcs : List (Key × Node))
    (hr : removeNode root path = some (.comp tf tk tcs, root')) (hk : tk.isListFam = true) :
    native (.comp tf tk tcs) = .list (nativeVals tcs) ∧
    (premergeF (fuel + 1) (.comp f .append cs) path (some root)).map (fun r => native r.1) =
      .ok (.list (nativeVals tcs ++ cs.map (fun kv => native kv.2))) := by
  have hd : tk.isDictFam = false := by simpa [CompKind.isListFam] using hk
  rw [C16_append fuel f cs path root root' tf tk tcs hr hk]
  simp [Except.map, native, hd, c16_nativeVals_extendList, List.map_map, Function.comp_def]

example : (premergeF 1 (.comp {} .append c16New) [.str "a", .str "l"] (some c16Root)).map
    (fun r => native r.1) =
    .ok (.list [.scalar (.int 1), .scalar (.int 2), .scalar (.int 3), .scalar (.int 8), .scalar (.int 9)]) := rfl

/- "(and fails if there is no previous list)", case 1: nothing can be detached at `path`
   (`remove_node` raises) — in particular whenever `get_node` finds nothing there
   (`C16_removeNode_none`) — then `!append` raises a PremergeError. -/
theorem C16_append_missing (fuel : Nat) (f : Flags) (cs : List (Key × Node)) (path : Path)
    (root : Node) (hr : removeNode root path = none) :
    premergeF (fuel + 1) (.comp f .append cs) path (some root) = .error .premerge := by
  simp [premergeF, hr]

example : removeNode c16Root [.str "a", .str "nolist"] = none := rfl
example : premergeF 1 (.comp {} .append c16New) [.str "a", .str "nolist"] (some c16Root) = .error .premerge := rfl

/- "(and fails if there is no previous list)", case 2: the detached node is not a list (a leaf, or
   a container of the mapping family) — PremergeError. -/
theorem C16_append_not_list (fuel : Nat) (f : Flags) (cs : List (Key × Node)) (path : Path)
    (root root' d : Node) (hr : removeNode root path = some (d, root'))
    (hd : ∀ tf tk tcs, d = .comp tf tk tcs → tk.isListFam = false) :
    premergeF (fuel + 1) (.comp f .append cs) path (some root) = .error .premerge := by
  cases d with
  | leaf lf lk => simp [premergeF, hr]
  | comp tf tk tcs => simp [premergeF, hr, hd tf tk tcs rfl]

-- a scalar (`b: 7`) and a mapping (`a: {…}`)
example : (removeNode c16Root [.str "b"]).map (fun r => r.1.isComp) = some false := rfl
example : (removeNode c16Root [.str "a"]).map (fun r => r.1.isDict) = some true := rfl
example : premergeF 1 (.comp {} .append c16New) [.str "b"] (some c16Root) = .error .premerge := rfl
example : premergeF 1 (.comp {} .append c16New) [.str "a"] (some c16Root) = .error .premerge := rfl

/- First stage (there is no accumulated tree, `into = None`): `!append L` is built as the plain
   list `ConfigList(L)`, whose data is `L`. -/
theorem C16_append_first_stage (fuel : Nat) (f : Flags) (cs : List (Key × Node)) (path : Path) :
    premergeF (fuel + 1) (.comp f .append cs) path none =
      .ok (newPlainList f (cs.map (·.2)), false, none) ∧
    native (newPlainList f (cs.map (·.2))) = .list (cs.map (fun kv => native kv.2)) := by
  refine ⟨by simp [premergeF], ?_⟩
  rw [c16_native_newPlainList]; simp [List.map_map, Function.comp_def]

example : native (newPlainList {} (c16New.map (·.2))) = .list [.scalar (.int 8), .scalar (.int 9)] := rfl

/-! ### `!extend` -/

/- "'!extend' does the same [as !append]": when `get_node` finds a list-family node at `path` and
   `remove_node` detaches it, the result is that node extended by `L`, exactly as for `!append`
   (data: `C16_extendList_native`). -/
theorem C16_extend (fuel : Nat) (f : Flags) (cs : List (Key × Node)) (path : Path)
    (root root' : Node) (tf : Flags) (tk : CompKind) (tcs : List (Key × Node))
    (hr : removeNode root path = some (.comp tf tk tcs, root')) (hk : tk.isListFam = true) :
    premergeF (fuel + 1) (.comp f .extend cs) path (some root) =
      .ok (.comp tf tk (extendList tf tk tcs (cs.map (·.2))), false, some root') ∧
    premergeF (fuel + 1) (.comp f .extend cs) path (some root) =
      premergeF (fuel + 1) (.comp f .append cs) path (some root) := by
  have hg := c16_removeNode_getNode hr
  rw [C16_append fuel f cs path root root' tf tk tcs hr hk]
  simp [premergeF, hg, hr, hk]

example : premergeF 1 (.comp {} .extend c16New) [.str "a", .str "l"] (some c16Root) =
    .ok (.comp {} .list (extendList {} .list c16List.children [c16Leaf 8, c16Leaf 9]), false,
      some c16RootNoL) :=
  (C16_extend 0 {} c16New _ c16Root c16RootNoL {} .list _ rfl rfl).1

/- The success case stated from `get_node` alone: in a tree whose lists are numbered `0 … n-1`
   (`c16_numbered`, the representation invariant of `ConfigList`), whenever `get_node` finds a
   list-family node at a non-root path, `remove_node` detaches that same node, and `!extend`
   (and `!append`) succeed with it. -/
theorem C16_extend_of_getNode (fuel : Nat) (f : Flags) (cs : List (Key × Node)) (path : Path)
    (root : Node) (tf : Flags) (tk : CompKind) (tcs : List (Key × Node))
    (hn : c16_numbered root = true) (hne : path ≠ [])
    (hg : getNode root path = some (.comp tf tk tcs)) (hk : tk.isListFam = true) :
    ∃ root', removeNode root path = some (.comp tf tk tcs, root') ∧
      premergeF (fuel + 1) (.comp f .extend cs) path (some root) =
        .ok (.comp tf tk (extendList tf tk tcs (cs.map (·.2))), false, some root') := by
  obtain ⟨root', hr⟩ := c16_removeNode_of_numbered hn hne hg
  exact ⟨root', hr, (C16_extend fuel f cs path root root' tf tk tcs hr hk).1⟩

example : c16_numbered c16Root = true ∧ getNode c16Root [.str "a", .str "l"] = some c16List :=
  ⟨by decide, rfl⟩
example := C16_extend_of_getNode 0 {} c16New [.str "a", .str "l"] c16Root {} .list _ (by decide)
  (by simp) rfl rfl

/- "but silently becomes a plain list when there is nothing to extend": if `get_node` finds no
   list-family container at `path` — the path is missing, or holds a leaf, or holds a container
   of the mapping family — `!extend L` becomes the plain list `ConfigList(L)` and the accumulated
   tree is returned untouched (the very same `root`). -/
theorem C16_extend_fallback (fuel : Nat) (f : Flags) (cs : List (Key × Node)) (path : Path)
    (root : Node)
    (hg : ∀ tf tk tcs, getNode root path = some (.comp tf tk tcs) → tk.isListFam = false) :
    premergeF (fuel + 1) (.comp f .extend cs) path (some root) =
      .ok (newPlainList f (cs.map (·.2)), false, some root) := by
  simp only [premergeF]
  cases hn : getNode root path with
  | none => rfl
  | some n =>
    cases n with
    | leaf lf lk => rfl
    | comp tf tk tcs => simp [hg tf tk tcs hn]

-- missing path, scalar, mapping
example : getNode c16Root [.str "fresh"] = none := rfl
example : premergeF 1 (.comp {} .extend c16New) [.str "fresh"] (some c16Root) =
    .ok (newPlainList {} (c16New.map (·.2)), false, some c16Root) := rfl
example : premergeF 1 (.comp {} .extend c16New) [.str "b"] (some c16Root) =
    .ok (newPlainList {} (c16New.map (·.2)), false, some c16Root) := rfl
example : premergeF 1 (.comp {} .extend c16New) [.str "a"] (some c16Root) =
    .ok (newPlainList {} (c16New.map (·.2)), false, some c16Root) := rfl

/- First stage (`into = None`): as for `!append`, the plain list `L`. -/
theorem C16_extend_first_stage (fuel : Nat) (f : Flags) (cs : List (Key × Node)) (path : Path) :
    premergeF (fuel + 1) (.comp f .extend cs) path none =
      .ok (newPlainList f (cs.map (·.2)), false, none) := by
  simp [premergeF]

example : (premergeF 1 (.comp {} .extend c16New) [.str "z"] none).map (fun r => native r.1) =
    .ok (.list [.scalar (.int 8), .scalar (.int 9)]) := rfl

/- The data of the fallback value: `ConfigList(L)` holds exactly the elements of `L`, in order
   (for any list of nodes, whatever their flags). -/
theorem C16_newPlainList_native (f : Flags) (vs : List Node) : native (newPlainList f vs) = .list (vs.map native) :=
  c16_native_newPlainList f vs

example : native (newPlainList { safe := some false } [c16List, c16Leaf 4]) =
    .list [.list [.scalar (.int 1), .scalar (.int 2), .scalar (.int 3)], .scalar (.int 4)] := rfl

/-! ### `!prev` -/

/- "'q: !prev p' places the entire previous subtree of p at q and removes it from p": for a valid
   path string `p` (`split_path`) whose node `d` can be detached from the accumulated tree, the
   `!prev` node is replaced by `d` itself — the whole subtree, all flags included — and the tree
   continues as `root'`, i.e. without `d` (`C16_removeNode_removed`, `C16_removeNode_frame`).
   The result does not depend on where (`path`) the `!prev` node stands. -/
theorem C16_prev_moves (fuel : Nat) (f : Flags) (p : String) (path tp : Path) (root root' d : Node)
    (hs : splitPath p = some tp) (hr : removeNode root tp = some (d, root')) :
    premergeF (fuel + 1) (.leaf f (.prev p)) path (some root) = .ok (d, false, some root') := by
  simp [premergeF, hs, hr]

example : splitPath "a.l" = some [.str "a", .str "l"] := by decide
example : premergeF 1 (.leaf {} (.prev "a.l")) [.str "q"] (some c16Root) =
    .ok (c16List, false, some c16RootNoL) :=
  C16_prev_moves 0 {} "a.l" _ [.str "a", .str "l"] c16Root c16RootNoL c16List (by decide) rfl

/- `!prev` fails with a PremergeError when there is no previous tree (first stage), when the path
   string is not a valid node path, or when nothing can be detached at that path. -/
theorem C16_prev_errors (fuel : Nat) (f : Flags) (p : String) (path : Path) :
    premergeF (fuel + 1) (.leaf f (.prev p)) path none = .error .premerge ∧
    (∀ root, splitPath p = none →
      premergeF (fuel + 1) (.leaf f (.prev p)) path (some root) = .error .premerge) ∧
    (∀ root tp, splitPath p = some tp → removeNode root tp = none →
      premergeF (fuel + 1) (.leaf f (.prev p)) path (some root) = .error .premerge) := by
  refine ⟨by simp [premergeF], ?_, ?_⟩
  · intro root hs; simp [premergeF, hs]
  · intro root tp hs hr; simp [premergeF, hs, hr]

example : splitPath "a b" = none := by decide
example : splitPath "nope" = some [.str "nope"] ∧ removeNode c16Root [.str "nope"] = none :=
  ⟨by decide, rfl⟩
example : premergeF 1 (.leaf {} (.prev "nope")) [.str "q"] (some c16Root) = .error .premerge := rfl

/-! ### `remove_node` -/

/- What `into.ayns.remove_node(tp)` does, exactly: `tp = pp ++ [key]`, the parent container
   `comp pf pk pcs` exists at `pp`, the detached node `d` is its child `key`, the parent's
   `remove_child(key)` yields the children `pcs'`, and the new tree is the old one with the parent
   replaced by `comp pf pk pcs'` (same flags, same class) — nothing else is rebuilt. Conversely
   these conditions make `remove_node` succeed with that result. -/
theorem C16_removeNode_char (root : Node) (tp : Path) (d root' : Node) :
    removeNode root tp = some (d, root') ↔
    ∃ pp key pf pk pcs pcs', tp = pp ++ [key] ∧ getNode root pp = some (.comp pf pk pcs) ∧
      alookup key pcs = some d ∧ removeChild pf pk key pcs = some pcs' ∧
      root' = setNodeAt root pp (.comp pf pk pcs') := by
  constructor
  · exact c16_removeNode_char tp root d root'
  · rintro ⟨pp, key, pf, pk, pcs, pcs', rfl, e2, e3, e4, rfl⟩
    exact c16_removeNode_of_parent pp key root d pf pk pcs pcs' e2 e3 e4

example : ∃ d root', removeNode c16Root [.str "a", .str "l", .int 1] = some (d, root') := ⟨_, _, rfl⟩

/- "removes it from p", part 1: the detached node is the node `get_node` finds at that path;
   hence a path `get_node` does not find cannot be removed. -/
theorem C16_removeNode_spec (root : Node) (tp : Path) (d root' : Node)
    (h : removeNode root tp = some (d, root')) : getNode root tp = some d :=
  c16_removeNode_getNode h

example : getNode c16Root [.str "a", .str "l"] = some c16List := rfl

/- "fails if there is no previous list" / `!prev` of a missing path: a path `get_node` does not
   find cannot be detached (contrapositive of `C16_removeNode_spec`), so `C16_append_missing` and
   the third case of `C16_prev_errors` apply to every missing path. -/
theorem C16_removeNode_none (root : Node) (tp : Path) (h : getNode root tp = none) :
    removeNode root tp = none :=
  c16_removeNode_none_of_getNode h

example : getNode c16Root [.str "a", .str "l", .int 3] = none := rfl

/- The converse, "what exists can be removed": below a mapping, or below a list whose elements
   are numbered `0 … n-1`, an existing child is detached (and the result is the one described by
   `C16_removeNode_char`).  [A list parent addressed through a key that `get_node` finds although
   `_validate_index` rejects it cannot occur when lists are numbered.] -/
theorem C16_removeNode_of_getNode (root : Node) (pp : Path) (key : Key) (n : Node) (pf : Flags)
    (pk : CompKind) (pcs : List (Key × Node)) (hg : getNode root (pp ++ [key]) = some n)
    (hp : getNode root pp = some (.comp pf pk pcs))
    (hk : pk.isDictFam = true ∨ listKeys 0 pcs = true) :
    ∃ pcs', removeChild pf pk key pcs = some pcs' ∧
      removeNode root (pp ++ [key]) = some (n, setNodeAt root pp (.comp pf pk pcs')) :=
  c16_removeNode_of_getNode hg hp hk

example : getNode c16Root ([.str "a"] ++ [.str "l"]) = some c16List ∧
    (getNode c16Root [.str "a"]).map Node.isDict = some true := ⟨rfl, rfl⟩

/- "removes it from p", part 2 (mapping parent): when the parent container is of the mapping
   family and its keys are distinct, nothing is found at the removed path afterwards.
   (Under a list parent the next element moves into the freed slot: `C16_removeNode_list_parent`.) -/
theorem C16_removeNode_removed (root : Node) (pp : Path) (key : Key) (d root' : Node) (pf : Flags)
    (pk : CompKind) (pcs : List (Key × Node))
    (h : removeNode root (pp ++ [key]) = some (d, root'))
    (hp : getNode root pp = some (.comp pf pk pcs)) (hk : pk.isDictFam = true)
    (hnd : keysNodup pcs = true) : getNode root' (pp ++ [key]) = none :=
  c16_removed_dict h hp hk hnd

example : getNode c16RootNoL [.str "a", .str "l"] = none := rfl

/- "In all cases every other path keeps its value" (mapping parent): every path `q` that is neither
   at/below the removed path nor above it (not a prefix of it) resolves to the very same node —
   same data, same flags — before and after. No hypothesis on key distinctness is needed. -/
theorem C16_removeNode_frame (root : Node) (pp : Path) (key : Key) (d root' : Node) (pf : Flags)
    (pk : CompKind) (pcs : List (Key × Node))
    (h : removeNode root (pp ++ [key]) = some (d, root'))
    (hp : getNode root pp = some (.comp pf pk pcs)) (hk : pk.isDictFam = true) (q : Path)
    (h1 : ¬ (pp ++ [key]) <+: q) (h2 : ¬ q <+: (pp ++ [key])) :
    getNode root' q = getNode root q :=
  c16_frame_dict h hp hk q h1 h2

example : ¬ ([Key.str "a"] ++ [Key.str "l"]) <+: [.str "a", .str "x"] ∧
    ¬ [Key.str "a", .str "x"] <+: ([Key.str "a"] ++ [Key.str "l"]) := by decide
example : getNode c16RootNoL [.str "a", .str "x"] = getNode c16Root [.str "a", .str "x"] := rfl

/- "every other path keeps its value" (any parent, list or mapping): every path that leaves the
   path `pp` of the parent container (neither at/below `pp` nor above it) is untouched. -/
theorem C16_removeNode_frame_outside_parent (root : Node) (pp : Path) (key : Key) (d root' : Node)
    (h : removeNode root (pp ++ [key]) = some (d, root')) (q : Path)
    (h1 : ¬ pp <+: q) (h2 : ¬ q <+: pp) : getNode root' q = getNode root q :=
  c16_frame_outside_parent h q h1 h2

example : ∃ d root', removeNode c16Root ([.str "a", .str "l"] ++ [.int 0]) = some (d, root') ∧
    getNode root' [.str "a", .str "x"] = getNode c16Root [.str "a", .str "x"] := ⟨_, _, rfl, rfl⟩

/- The paths above the removed one (strict prefixes `q` of `q ++ r`): the container found there
   is still a container with the same flags and the same class; unless it is the parent itself
   (`r` of length 1) it even has the same keys — only a descendant changed. -/
theorem C16_removeNode_ancestor (root : Node) (q r : Path) (d root' : Node) (f : Flags)
    (k : CompKind) (cs : List (Key × Node)) (h : removeNode root (q ++ r) = some (d, root'))
    (hq : getNode root q = some (.comp f k cs)) (hr : r ≠ []) :
    ∃ cs', getNode root' q = some (.comp f k cs') ∧ (r.length ≠ 1 → akeys cs' = akeys cs) :=
  c16_ancestor h hq hr

example : removeNode c16Root ([.str "a"] ++ [.str "l"]) = some (c16List, c16RootNoL) ∧
    (getNode c16Root [.str "a"]).map Node.isDict = some true := ⟨rfl, rfl⟩
example := C16_removeNode_ancestor c16Root [] [.str "a", .str "l"] c16List c16RootNoL {} .dict _ rfl rfl
  (by simp)

/- List parent: `remove_child` is `_del(i)` for the validated index `i` of the key: the children
   become `listDelAt pf pk i pcs` — the elements before `i`
   unchanged, those after `i` moved one slot down and re-adopted — so on the data the element `i`
   is erased and all others keep their order; the list is one shorter and numbered `0 … n-2`;
   for a numbered list and the key `j ≥ 0` the erased index is `j` itself and the detached node
   is the `j`-th element. -/
theorem C16_removeNode_list_parent (root : Node) (pp : Path) (key : Key) (d root' : Node)
    (pf : Flags) (pk : CompKind) (pcs : List (Key × Node))
    (h : removeNode root (pp ++ [key]) = some (d, root'))
    (hp : getNode root pp = some (.comp pf pk pcs)) (hk : pk.isListFam = true) :
    ∃ i, validateIndex pcs.length true key = some i ∧ i < pcs.length ∧
      getNode root' pp = some (.comp pf pk (listDelAt pf pk i pcs)) ∧
      nativeVals (listDelAt pf pk i pcs) = (nativeVals pcs).eraseIdx i ∧
      (listDelAt pf pk i pcs).length = pcs.length - 1 ∧
      listKeys 0 (listDelAt pf pk i pcs) = true ∧
      (listKeys 0 pcs = true → key = .int (i : Int) ∧ (pcs.map (·.2))[i]? = some d) := by
  obtain ⟨pcs', e3, e4, e5⟩ := c16_removeNode_parent h hp
  obtain ⟨i, hv, hi, rfl⟩ := c16_removeChild_list hk e4
  refine ⟨i, hv, hi, ?_, c16_nativeVals_listDelAt pf pk i pcs, c16_length_listDelAt pf pk i pcs hi,
    c16_listKeys_listDelAt pf pk i pcs, ?_⟩
  · rw [e5]; exact c16_getNode_setNodeAt_self pp root _ _ hp
  · intro hl
    obtain ⟨j, e1, e2, e6⟩ := c16_alookup_listKeys 0 pcs key d hl e3
    have : validateIndex pcs.length true key = some j := by
      rw [e1]; simpa using c16_validateIndex_nonneg e2
    rw [hv] at this
    injection this with this
    subst this
    exact ⟨by simpa using e1, e6⟩

example : (removeNode c16Root ([.str "a", .str "l"] ++ [.int 0])).map
    (fun r => (native r.1, (getNode r.2 [.str "a", .str "l"]).map native)) =
    some (.scalar (.int 1), some (.list [.scalar (.int 2), .scalar (.int 3)])) := rfl
-- a negative index is not a key of `_children`: `remove_node` finds nothing to detach
example : (removeNode c16Root ([.str "a", .str "l"] ++ [.int (-1)])) = none := rfl
example : (removeNode c16List ([] ++ [.int 1])).map (fun r => native r.2) =
    some (.list [.scalar (.int 1), .scalar (.int 3)]) := rfl

/- Without the mapping-parent hypothesis `C16_removeNode_removed` and `C16_removeNode_frame` are
   FALSE: removing element 0 of `[1, 2, 3]` leaves `[2, 3]`, so the removed path `[0]` now finds the
   former element 1, and the sibling path `[1]` (disjoint from `[0]`) finds `3` instead of `2`. -/
theorem C16_removeNode_list_counterexample :
    (removeNode c16List [.int 0]).map (fun r => (getNode r.2 [.int 0]).map native) =
      some (some (.scalar (.int 2))) ∧
    (removeNode c16List [.int 0]).map (fun r => (getNode r.2 [.int 1]).map native) =
      some (some (.scalar (.int 3))) ∧
    (getNode c16List [.int 1]).map native = some (.scalar (.int 2)) ∧
    ¬ [Key.int 0] <+: [Key.int 1] ∧ ¬ [Key.int 1] <+: [Key.int 0] :=
  ⟨rfl, rfl, rfl, by decide, by decide⟩

example : (removeNode c16List [.int 0]).map (fun r => native r.2) =
    some (.list [.scalar (.int 2), .scalar (.int 3)]) := rfl

/-! ### Several operators in one stage -/

/- "every sequence of several such operators": the loop over the children of a stage mapping
   (`map_nodes` in `ComposedNode.on_premerge_impl`) runs the pre-merge of the first child on the
   current accumulated tree and the rest of the loop on the tree the first child leaves behind
   (document order); a child that returns another object is recorded as a re-set. -/
theorem C16_premerge_sequential (rec : Node → Path → Option Node → PM) (path : Path) (name : Key)
    (c : Node) (rest : List (Key × Node)) (into : Option Node) :
    premergeChildren rec path ((name, c) :: rest) into =
      match rec c (path ++ [name]) into with
      | .error e => .error e
      | .ok (c', same, into') =>
        match premergeChildren rec path rest into' with
        | .error e => .error e
        | .ok (cs', resets, into'') =>
          if same then .ok ((name, c') :: cs', resets, into'')
          else .ok ((name, c) :: cs', (name, c') :: resets, into'') :=
  c16_premergeChildren_cons rec path name c rest into

example : (premergeChildren (premergeF 1) [] c16StageAB.children (some c16RootL)).map
    (fun r => (nativeList r.2.1, r.2.2.map native)) =
    .ok ([(.str "a", .scalar (.int 1)), (.str "b", .scalar (.int 3))],
      some (.dict [(.str "l", .list [.scalar (.int 2)])])) := rfl

/- The accumulated tree alone: `into` after the loop = `into` after the rest of the loop started
   from what the first child left. -/
theorem C16_premerge_sequential_into (rec : Node → Path → Option Node → PM) (path : Path)
    (name : Key) (c : Node) (rest : List (Key × Node)) (into : Option Node) :
    (premergeChildren rec path ((name, c) :: rest) into).map (fun r => r.2.2) =
      match rec c (path ++ [name]) into with
      | .error e => .error e
      | .ok (_, _, into') => (premergeChildren rec path rest into').map (fun r => r.2.2) :=
  c16_premergeChildren_into rec path name c rest into

example : ((premergeChildren (premergeF 1) [] c16StageAB.children (some c16RootL)).map
    (fun r => r.2.2)).toBool = true := rfl

/- Is the result independent of the order in which two operators at different paths are written?
   NO when they address elements of the same list: on the tree `{l: [1, 2, 3]}` the stage
   `{a: !prev l[0], b: !prev l[1]}` takes `1` and then — the list having shifted — `3`, leaving
   `l: [2]`, whereas `{b: !prev l[1], a: !prev l[0]}` takes `2` and `1`, leaving `l: [3]`. -/
theorem C16_premerge_order_counterexample :
    (premergeF 2 c16StageAB [] (some c16RootL)).map (fun r => (native r.1, r.2.2.map native)) =
      .ok (.dict [(.str "a", .scalar (.int 1)), (.str "b", .scalar (.int 3))],
        some (.dict [(.str "l", .list [.scalar (.int 2)])])) ∧
    (premergeF 2 c16StageBA [] (some c16RootL)).map (fun r => (native r.1, r.2.2.map native)) =
      .ok (.dict [(.str "b", .scalar (.int 2)), (.str "a", .scalar (.int 1))],
        some (.dict [(.str "l", .list [.scalar (.int 3)])])) ∧
    (premergeF 2 c16StageAB [] (some c16RootL)).map (fun r => r.2.2.map native) ≠
      (premergeF 2 c16StageBA [] (some c16RootL)).map (fun r => r.2.2.map native) := by
  refine ⟨rfl, rfl, ?_⟩
  have h1 : (premergeF 2 c16StageAB [] (some c16RootL)).map (fun r => r.2.2.map native) =
      .ok (some (.dict [(.str "l", .list [.scalar (.int 2)])])) := rfl
  have h2 : (premergeF 2 c16StageBA [] (some c16RootL)).map (fun r => r.2.2.map native) =
      .ok (some (.dict [(.str "l", .list [.scalar (.int 3)])])) := rfl
  rw [h1, h2]
  simp

example : splitPath "l[0]" = some [.str "l", .int 0] ∧ splitPath "l[1]" = some [.str "l", .int 1] := by
  decide

/- The positive answer: two `remove_node` calls at disjoint paths (neither a prefix of the other)
   whose parent containers are mappings commute — the same two nodes are detached and the final
   tree is the same, whichever is removed first. (The counterexample above has a list parent.) -/
theorem C16_removeNode_commute (root : Node) (pp1 pp2 : Path) (k1 k2 : Key) (d1 r1 d2 r12 : Node)
    (f1 f2 : Flags) (pk1 pk2 : CompKind) (cs1 cs2 : List (Key × Node))
    (hg1 : getNode root pp1 = some (.comp f1 pk1 cs1)) (hk1 : pk1.isDictFam = true)
    (hg2 : getNode root pp2 = some (.comp f2 pk2 cs2)) (hk2 : pk2.isDictFam = true)
    (hp1 : ¬ (pp1 ++ [k1]) <+: (pp2 ++ [k2])) (hp2 : ¬ (pp2 ++ [k2]) <+: (pp1 ++ [k1]))
    (h1 : removeNode root (pp1 ++ [k1]) = some (d1, r1))
    (h2 : removeNode r1 (pp2 ++ [k2]) = some (d2, r12)) :
    ∃ r2, removeNode root (pp2 ++ [k2]) = some (d2, r2) ∧
      removeNode r2 (pp1 ++ [k1]) = some (d1, r12) :=
  c16_removeNode_comm _ _ root d1 r1 d2 r12 hp1 hp2
    (c16_dictParent_of_getNode pp1 k1 root f1 pk1 cs1 hg1 hk1)
    (c16_dictParent_of_getNode pp2 k2 root f2 pk2 cs2 hg2 hk2) h1 h2

example : ∃ r1 r12, removeNode c16Root ([.str "a"] ++ [.str "l"]) = some (c16List, r1) ∧
    removeNode r1 ([] ++ [.str "b"]) = some (c16Leaf 7, r12) ∧
    ¬ ([Key.str "a"] ++ [Key.str "l"]) <+: ([] ++ [Key.str "b"]) ∧
    ¬ ([] ++ [Key.str "b"]) <+: ([Key.str "a"] ++ [Key.str "l"]) :=
  ⟨_, _, rfl, rfl, by decide, by decide⟩

/- The same for two `!prev` operators of one stage: if `{n1: !prev s1, n2: !prev s2}` succeeds and
   the two target paths are disjoint with mapping parents, then the stage with the two entries
   written in the other order succeeds as well, the two keys receive the same subtrees and the
   accumulated tree ends up the same. -/
theorem C16_prev_commute (fuel : Nat) (path : Path) (root : Node) (n1 n2 : Key) (fl1 fl2 : Flags)
    (s1 s2 : String) (pp1 pp2 : Path) (k1 k2 : Key) (d1 r1 d2 r12 : Node)
    (f1 f2 : Flags) (pk1 pk2 : CompKind) (cs1 cs2 : List (Key × Node))
    (hs1 : splitPath s1 = some (pp1 ++ [k1])) (hs2 : splitPath s2 = some (pp2 ++ [k2]))
    (hg1 : getNode root pp1 = some (.comp f1 pk1 cs1)) (hk1 : pk1.isDictFam = true)
    (hg2 : getNode root pp2 = some (.comp f2 pk2 cs2)) (hk2 : pk2.isDictFam = true)
    (hp1 : ¬ (pp1 ++ [k1]) <+: (pp2 ++ [k2])) (hp2 : ¬ (pp2 ++ [k2]) <+: (pp1 ++ [k1]))
    (h1 : removeNode root (pp1 ++ [k1]) = some (d1, r1))
    (h2 : removeNode r1 (pp2 ++ [k2]) = some (d2, r12)) :
    premergeChildren (premergeF (fuel + 1)) path
        [(n1, .leaf fl1 (.prev s1)), (n2, .leaf fl2 (.prev s2))] (some root) =
      .ok ([(n1, .leaf fl1 (.prev s1)), (n2, .leaf fl2 (.prev s2))], [(n1, d1), (n2, d2)], some r12) ∧
    premergeChildren (premergeF (fuel + 1)) path
        [(n2, .leaf fl2 (.prev s2)), (n1, .leaf fl1 (.prev s1))] (some root) =
      .ok ([(n2, .leaf fl2 (.prev s2)), (n1, .leaf fl1 (.prev s1))], [(n2, d2), (n1, d1)], some r12) := by
  obtain ⟨r2, e1, e2⟩ := C16_removeNode_commute root pp1 pp2 k1 k2 d1 r1 d2 r12 f1 f2 pk1 pk2 cs1 cs2
    hg1 hk1 hg2 hk2 hp1 hp2 h1 h2
  constructor
  · simp [premergeChildren, premergeF, hs1, hs2, h1, h2]
  · simp [premergeChildren, premergeF, hs1, hs2, e1, e2]

example : splitPath "a.l" = some ([.str "a"] ++ [.str "l"]) ∧ splitPath "b" = some ([] ++ [.str "b"]) := by
  decide
example : (premergeChildren (premergeF 1) []
      [(.str "q", .leaf {} (.prev "a.l")), (.str "r", .leaf {} (.prev "b"))] (some c16Root)).map
      (fun r => (nativeList r.2.1, r.2.2.map native)) =
    .ok ([(.str "q", .list [.scalar (.int 1), .scalar (.int 2), .scalar (.int 3)]), (.str "r", .scalar (.int 7))],
      some (.dict [(.str "a", .dict [(.str "x", .scalar (.int 5))])])) := rfl

/-! ### The operators change the accumulated tree only through `remove_node` -/

/- "In all cases every other path keeps its value": whenever one of the three operators succeeds
   on an accumulated tree `root`, the tree it leaves behind is either `root` itself or the result
   `root'` of one `remove_node` — at the operator's own path for `!append` / `!extend`, at the
   target path for `!prev` — so the frame theorems `C16_removeNode_frame`,
   `C16_removeNode_frame_outside_parent`, `C16_removeNode_ancestor` describe everything that
   changes in the accumulated tree. -/
theorem C16_operator_into (fuel : Nat) (n : Node) (f : Flags) (cs : List (Key × Node)) (p : String)
    (path : Path) (root r : Node) (s : Bool) (into' : Option Node)
    (hn : n = .comp f .append cs ∨ n = .comp f .extend cs ∨ n = .leaf f (.prev p))
    (h : premergeF (fuel + 1) n path (some root) = .ok (r, s, into')) :
    s = false ∧ (into' = some root ∨
      ∃ tp d root', into' = some root' ∧ removeNode root tp = some (d, root') ∧
        (tp = path ∨ splitPath p = some tp)) := by
  rcases hn with rfl | rfl | rfl
  · simp only [premergeF] at h
    cases hr : removeNode root path with
    | none => simp [hr] at h
    | some res =>
      obtain ⟨d, root'⟩ := res
      cases d with
      | leaf lf lk => simp [hr] at h
      | comp tf tk tcs =>
        simp only [hr] at h
        split at h
        · simp only [Except.ok.injEq, Prod.mk.injEq] at h
          exact ⟨h.2.1.symm, .inr ⟨path, _, root', h.2.2.symm, hr, .inl rfl⟩⟩
        · cases h
  · simp only [premergeF] at h
    cases hg : getNode root path with
    | none =>
      simp only [hg, Except.ok.injEq, Prod.mk.injEq] at h
      exact ⟨h.2.1.symm, .inl h.2.2.symm⟩
    | some m =>
      cases m with
      | leaf lf lk =>
        simp only [hg, Except.ok.injEq, Prod.mk.injEq] at h
        exact ⟨h.2.1.symm, .inl h.2.2.symm⟩
      | comp tf tk tcs =>
        simp only [hg] at h
        split at h
        · cases hr : removeNode root path with
          | none => simp [hr] at h
          | some res =>
            obtain ⟨d, root'⟩ := res
            simp only [hr, Except.ok.injEq, Prod.mk.injEq] at h
            exact ⟨h.2.1.symm, .inr ⟨path, d, root', h.2.2.symm, hr, .inl rfl⟩⟩
        · simp only [Except.ok.injEq, Prod.mk.injEq] at h
          exact ⟨h.2.1.symm, .inl h.2.2.symm⟩
  · simp only [premergeF] at h
    cases hs : splitPath p with
    | none => simp [hs] at h
    | some tp =>
      cases hr : removeNode root tp with
      | none => simp [hs, hr] at h
      | some res =>
        obtain ⟨d, root'⟩ := res
        simp only [hs, hr, Except.ok.injEq, Prod.mk.injEq] at h
        exact ⟨h.2.1.symm, .inr ⟨tp, d, root', h.2.2.symm, hr, .inr rfl⟩⟩

example : ∃ r s into', premergeF 1 (.comp {} .extend c16New) [.str "a", .str "l"] (some c16Root) =
    .ok (r, s, into') := ⟨_, _, _, rfl⟩

/-! ### One whole builder step (pre-merge, then merge) at a top-level key -/

/- "'p: !append L' makes the value at p the previous list followed by the elements of L … every
   other path keeps its value", end to end for a top-level key: one step of `Builder.flatten`
   (`flattenLoop`: pre-merge of the stage against the accumulated mapping, then `merge`) with the
   stage `{k: !append L}` on an accumulated mapping with distinct keys that holds a list-family
   node under `k` succeeds; the data of the result is the old mapping without `k` (all other keys
   with their data, in their order) followed by `k: old ++ L`  (a moved key is re-inserted at the
   end).  Side conditions: the stage mapping is not deleting (`hdel`, the default) and `allow_new`
   does not forbid the new key (`hnew`, the default). -/
theorem C16_append_stage (fuel : Nat) (rf sf f : Flags) (rcs cs : List (Key × Node)) (k : Key)
    (tf : Flags) (tk : CompKind) (tcs : List (Key × Node))
    (hl : alookup k rcs = some (.comp tf tk tcs)) (hk : tk.isListFam = true)
    (hnd : keysNodup rcs = true) (hdel : eDel (.comp sf .dict []) = false)
    (hnew : reqNew [] [] (adopt sf .dict (.comp tf tk (extendList tf tk tcs (cs.map (·.2))))) = none) :
    ∃ r, flattenLoop (premergeF (fuel + 2)) (.comp rf .dict rcs)
        [.comp sf .dict [(k, .comp f .append cs)]] = .ok r ∧
      native r = .dict (nativeList (aerase k rcs) ++
        [(k, .list (nativeVals tcs ++ cs.map (fun kv => native kv.2)))]) := by
  have hr : removeNode (.comp rf .dict rcs) [k] =
      some (.comp tf tk tcs, .comp rf .dict (aerase k rcs)) := by
    rw [c16_removeNode_single_dict rf .dict rcs k rfl, hl]
  have hpm := C16_append fuel f cs [k] _ _ tf tk tcs hr hk
  obtain ⟨r, h1, h2⟩ := c16_stage_one fuel rf sf rcs (aerase k rcs) k _ _
    (c16_alookup_aerase_self k rcs hnd) hpm hdel hnew
  refine ⟨r, h1, ?_⟩
  have hd : tk.isDictFam = false := by simpa [CompKind.isListFam] using hk
  rw [h2]
  simp [native, hd, c16_nativeVals_extendList, List.map_map, Function.comp_def]

example : alookup (.str "l") c16RootL.children = some c16List ∧ keysNodup c16RootL.children = true ∧
    eDel (.comp {} .dict []) = false := ⟨rfl, by decide, by decide⟩
example : reqNew [] [] (adopt {} .dict (.comp {} .list
    (extendList {} .list c16List.children (c16New.map (·.2))))) = none := by decide
example : (flattenLoop (premergeF 2) c16RootL [.comp {} .dict [(.str "l", .comp {} .append c16New)]]).map
    native = .ok (.dict [(.str "l", .list [.scalar (.int 1), .scalar (.int 2), .scalar (.int 3),
      .scalar (.int 8), .scalar (.int 9)])]) := rfl

/- "'q: !prev p' places the entire previous subtree of p at q and removes it from p", end to end
   for a top-level `p` and a key `q` that is new (or `p` itself): the result is the old mapping
   without `p`, followed by `q` holding the data of the whole old subtree. -/
theorem C16_prev_stage (fuel : Nat) (rf sf f : Flags) (rcs : List (Key × Node)) (p : String)
    (k q : Key) (d : Node) (hs : splitPath p = some [k]) (hl : alookup k rcs = some d)
    (hq : alookup q rcs = none ∨ q = k) (hnd : keysNodup rcs = true)
    (hdel : eDel (.comp sf .dict []) = false) (hnew : reqNew [] [] (adopt sf .dict d) = none) :
    ∃ r, flattenLoop (premergeF (fuel + 2)) (.comp rf .dict rcs)
        [.comp sf .dict [(q, .leaf f (.prev p))]] = .ok r ∧
      native r = .dict (nativeList (aerase k rcs) ++ [(q, native d)]) := by
  have hr : removeNode (.comp rf .dict rcs) [k] = some (d, .comp rf .dict (aerase k rcs)) := by
    rw [c16_removeNode_single_dict rf .dict rcs k rfl, hl]
  have hpm := C16_prev_moves fuel f p [q] [k] _ _ d hs hr
  have hq' : alookup q (aerase k rcs) = none := by
    rcases hq with hq | rfl
    · by_cases e : k = q
      · subst e; exact c16_alookup_aerase_self k rcs hnd
      · rw [alookup_aerase q k e]; exact hq
    · exact c16_alookup_aerase_self q rcs hnd
  exact c16_stage_one fuel rf sf rcs (aerase k rcs) q _ _ hq' hpm hdel hnew

example : splitPath "l" = some [.str "l"] ∧ alookup (.str "moved") c16RootL.children = none ∧
    reqNew [] [] (adopt {} .dict c16List) = none := by decide
example : (flattenLoop (premergeF 2) c16Root [.comp {} .dict [(.str "moved", .leaf {} (.prev "a"))]]).map
    native = .ok (.dict [(.str "b", .scalar (.int 7)), (.str "moved", .dict [(.str "l",
      .list [.scalar (.int 1), .scalar (.int 2), .scalar (.int 3)]), (.str "x", .scalar (.int 5))])]) := rfl

/- "'!extend' … silently becomes a plain list when there is nothing to extend", end to end for a
   top-level key the accumulated mapping does not have: the old mapping keeps all its entries and
   gains `q: L`. -/
theorem C16_extend_stage_fallback (fuel : Nat) (rf sf f : Flags) (rcs cs : List (Key × Node)) (q : Key)
    (hq : alookup q rcs = none) (hdel : eDel (.comp sf .dict []) = false)
    (hnew : reqNew [] [] (adopt sf .dict (newPlainList f (cs.map (·.2)))) = none) :
    ∃ r, flattenLoop (premergeF (fuel + 2)) (.comp rf .dict rcs)
        [.comp sf .dict [(q, .comp f .extend cs)]] = .ok r ∧
      native r = .dict (nativeList rcs ++ [(q, .list (cs.map (fun kv => native kv.2)))]) := by
  have hpm := C16_extend_fallback fuel f cs [q] (.comp rf .dict rcs)
    (by intro tf tk tcs hg; simp [getNode, hq] at hg)
  obtain ⟨r, h1, h2⟩ := c16_stage_one fuel rf sf rcs rcs q _ _ hq hpm hdel hnew
  refine ⟨r, h1, ?_⟩
  rw [h2, c16_native_newPlainList]
  simp [List.map_map, Function.comp_def]

example : alookup (.str "z") c16Root.children = none ∧
    reqNew [] [] (adopt {} .dict (newPlainList {} (c16New.map (·.2)))) = none := by decide
example : (flattenLoop (premergeF 2) c16RootL [.comp {} .dict [(.str "z", .comp {} .extend c16New)]]).map
    native = .ok (.dict [(.str "l", .list [.scalar (.int 1), .scalar (.int 2), .scalar (.int 3)]),
      (.str "z", .list [.scalar (.int 8), .scalar (.int 9)])]) := rfl

/-! ### The representation invariant used above is maintained -/

/- `c16_numbered` ("every list-family container stores its elements under the keys 0 … n-1", the
   hypothesis of `C16_extend_of_getNode`) is an invariant of the three operators: if the
   accumulated tree and the elements of `L` satisfy it, so do the node that replaces the operator
   and the accumulated tree the operator leaves behind — hence the hypothesis is available again
   for the next operator of the sequence. -/
theorem C16_numbered_preserved (fuel : Nat) (n : Node) (f : Flags) (cs : List (Key × Node))
    (p : String) (path : Path) (root r root' : Node) (s : Bool)
    (hn : n = .comp f .append cs ∨ n = .comp f .extend cs ∨ n = .leaf f (.prev p))
    (hroot : c16_numbered root = true) (hcs : c16_numberedList cs = true)
    (h : premergeF (fuel + 1) n path (some root) = .ok (r, s, some root')) :
    c16_numbered r = true ∧ c16_numbered root' = true := by
  have hvs := c16_numbered_values hcs
  rcases hn with rfl | rfl | rfl
  · simp only [premergeF] at h
    cases hr : removeNode root path with
    | none => simp [hr] at h
    | some res =>
      obtain ⟨d, root1⟩ := res
      obtain ⟨hd, hr1⟩ := c16_numbered_removeNode hroot hr
      cases d with
      | leaf lf lk => simp [hr] at h
      | comp tf tk tcs =>
        simp only [hr] at h
        split at h
        · simp only [Except.ok.injEq, Prod.mk.injEq, Option.some.injEq] at h
          obtain ⟨rfl, _, rfl⟩ := h
          exact ⟨c16_numbered_extend hd hvs, hr1⟩
        · cases h
  · simp only [premergeF] at h
    cases hg : getNode root path with
    | none =>
      simp only [hg, Except.ok.injEq, Prod.mk.injEq, Option.some.injEq] at h
      obtain ⟨rfl, _, rfl⟩ := h
      exact ⟨c16_numbered_newPlainList _ hvs, hroot⟩
    | some m =>
      cases m with
      | leaf lf lk =>
        simp only [hg, Except.ok.injEq, Prod.mk.injEq, Option.some.injEq] at h
        obtain ⟨rfl, _, rfl⟩ := h
        exact ⟨c16_numbered_newPlainList _ hvs, hroot⟩
      | comp tf tk tcs =>
        simp only [hg] at h
        split at h
        · cases hr : removeNode root path with
          | none => simp [hr] at h
          | some res =>
            obtain ⟨d, root1⟩ := res
            simp only [hr, Except.ok.injEq, Prod.mk.injEq, Option.some.injEq] at h
            obtain ⟨rfl, _, rfl⟩ := h
            exact ⟨c16_numbered_extend (c16_numbered_getNode path root _ hroot hg) hvs,
              (c16_numbered_removeNode hroot hr).2⟩
        · simp only [Except.ok.injEq, Prod.mk.injEq, Option.some.injEq] at h
          obtain ⟨rfl, _, rfl⟩ := h
          exact ⟨c16_numbered_newPlainList _ hvs, hroot⟩
  · simp only [premergeF] at h
    cases hs : splitPath p with
    | none => simp [hs] at h
    | some tp =>
      cases hr : removeNode root tp with
      | none => simp [hs, hr] at h
      | some res =>
        obtain ⟨d, root1⟩ := res
        simp only [hs, hr, Except.ok.injEq, Prod.mk.injEq, Option.some.injEq] at h
        obtain ⟨rfl, _, rfl⟩ := h
        exact c16_numbered_removeNode hroot hr

example : c16_numbered c16Root = true ∧ c16_numberedList c16New = true := by decide
example : ∃ r s root', premergeF 1 (.comp {} .append c16New) [.str "a", .str "l"] (some c16Root) =
    .ok (r, s, some root') := ⟨_, _, _, rfl⟩

end AY
