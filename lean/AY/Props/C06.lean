/-
  AY.Props.C06 — "Streams are flattened in order: sources, multi-doc files and !include agree"

  Giving n documents as separate sources, as one multi-document source, as a top-level
  `!include [f1..fn]`, or as n top-level includes all build the same config, and `key: !include [..]`
  equals placing the merged content of those files under key. Included names resolve relative to the
  including file first and then the working directory, a file found nowhere fails the build with an
  error naming it, and a !path node with a file-relative reference point denotes a location relative to
  the file in which it was written, whichever way that file was reached.

  Model: AY/Model/Preprocess.lean (pure file system `FS`, `preprocessF`, `preprocessStagesF`, `build`),
  AY/Model/Build.lean (`premergeF`, stream case), AY/Model/Eval.lean (`evalPath`).
  Helper lemmas: AY/Lemmas/C06Lemmas.lean.  Level: PARTIAL in the sense of DESIGN.md (the file system is
  a pure map); within the model every theorem below is stated and proved at full strength, except where
  the name ends in `_partial`.
-/
import AY.Lemmas.C06Lemmas
namespace AY

/-! ### Clause 1: the four arrangements yield the same list of stages

  `segs` describes the files: for every file the name written in the include, the path under which the
  lookup rule finds that name from the including file (`fI.src`), its raw documents (a file may hold
  several, or none) and their parsed form.  Hypotheses: every name is found (`hfind`), every file parses
  (`hparse`, with the source-level safety the include hands down), the documents are include-free
  (`hfree`) and not deeper than the fuel (`hfuel`).  Then
    (a) every file given as its own source (under the found name, with the same safe flag),
    (b) every document given as its own raw source carrying the file name — i.e. a multi-document source
        is the same as its documents given one by one,
    (c) one stage `!include [f1..fn]`,
    (d) n stages `!include fi`
  all give the stage list `segDocs segs` = the parsed documents in order.  (c) needs at least one
  document in total and (d) at least one per file: an include that contributes nothing trips
  `assert _i != i` in `Builder.preprocess` (`.unsupported` in the model). -/
theorem C06_arrangements_agree (ctx : PCtx) (fuel : Nat) (fI : Flags) (segs : List Seg)
    (hfind : ∀ s ∈ segs, findFile ctx (lookupDirs fI.src ctx.cwd) s.name = some (s.file, s.raws))
    (hparse : ∀ s ∈ segs, parseAll (sourceEnv ctx (eSafe fI) (some s.file)) s.raws = .ok s.docs)
    (hfree : (segDocs segs).all Node.inclFree = true)
    (hfuel : (segDocs segs).all (fun n => decide (n.depth < fuel)) = true) :
    -- (a) n separate sources
    preprocessSources ctx (fuel + 1) (segs.map (fun s => .file s.file (some (eSafe fI)))) = .ok (segDocs segs) ∧
    -- (b) every document a source of its own (⇔ multi-document sources split up)
    preprocessSources ctx (fuel + 1)
        (segs.flatMap (fun s => s.raws.map (fun d => .raw [d] (some s.file) (some (eSafe fI))))) = .ok (segDocs segs) ∧
    -- (c) one top-level `!include [f1..fn]`
    (segDocs segs ≠ [] →
      preprocessStagesF ctx (fuel + 1) [.leaf fI (.incl (segs.map (·.name)))] = .ok (segDocs segs)) ∧
    -- (d) n top-level includes
    ((∀ s ∈ segs, s.docs ≠ []) →
      preprocessStagesF ctx (fuel + 1) (segs.map (fun s => .leaf fI (.incl [s.name]))) = .ok (segDocs segs)) := by
  have hf : ∀ n ∈ segDocs segs, n.inclFree = true := by simpa [List.all_eq_true] using hfree
  have hd : ∀ n ∈ segDocs segs, n.depth < fuel := by simpa [List.all_eq_true] using hfuel
  have hsrc := addSources_segs ctx (eSafe fI) (lookupDirs fI.src ctx.cwd) segs hfind hparse
  have hfix := preprocessStagesF_inclFree ctx (fuel + 1) (segDocs segs) hf (fun n hn => Nat.lt_succ_of_lt (hd n hn))
  refine ⟨?_, ?_, ?_, ?_⟩
  · simp only [preprocessSources, hsrc.1, hfix]
  · simp only [preprocessSources, hsrc.2, hfix]
  · intro hne; exact stages_inclist ctx fuel fI segs hfind hparse hf hd hne
  · intro hne; exact stages_inceach ctx fuel fI segs hfind hparse hf hd hne

/-- `!include [f1..fn]` as it is written in a file: a tagged sequence of plain strings -/
def inclRaw (names : List String) : Raw :=
  .seq .incl {} (names.map (fun s => .scalar .none {} (.lit (.str s))))

/-- the loader turns that document into an include leaf carrying the file's source-level defaults -/
theorem C06_include_document (env : Env) (names : List String) :
    construct env (inclRaw names) = .ok (.leaf (mkFlags env {}) (.incl names)) := by
  have hlist : ∀ (names : List String) (i : Nat),
      ∃ cs, constructDeepList env i (names.map (fun s => Raw.scalar .none {} (.lit (.str s)))) = .ok cs ∧
        allStrs cs = some names := by
    intro names
    induction names with
    | nil => intro i; exact ⟨[], by simp [constructDeepList], rfl⟩
    | cons s rest ih =>
      intro i
      obtain ⟨cs, h1, h2⟩ := ih (i + 1)
      refine ⟨(Key.int i, .leaf (bareFlags env) (.scalar (.str s))) :: cs, ?_, ?_⟩
      · simp [constructDeepList, constructDeep, wrapScalar, h1, RVal.toScalar]
      · simp [allStrs, nodeStr?, h2]
  obtain ⟨cs, h1, h2⟩ := hlist names 0
  simp [construct, inclRaw, constructTD, constructDeep, h1, h2, adoptBy]

/-- Hence the same build: whole `Builder.build()` runs of the arrangements — the files as separate
    sources, their documents as separate sources, and a main file (stored in the file system, given by
    name) that consists of the single document `!include [f1..fn]` — return the same result, namely the
    flattening of the documents in order. -/
theorem C06_arrangements_build (ctx : PCtx) (fuel : Nat) (mainFile : String) (safe : Bool) (segs : List Seg)
    (hmain : fsGet ctx mainFile = some [inclRaw (segs.map (·.name))])
    (hfind : ∀ s ∈ segs, findFile ctx (lookupDirs (some mainFile) ctx.cwd) s.name = some (s.file, s.raws))
    (hparse : ∀ s ∈ segs,
      parseAll (sourceEnv ctx (safe && ctx.defSafe) (some s.file)) s.raws = .ok s.docs)
    (hfree : (segDocs segs).all Node.inclFree = true)
    (hfuel : (segDocs segs).all (fun n => decide (n.depth < fuel)) = true)
    (hne : segDocs segs ≠ []) :
    let r := match flatten (segDocs segs) with
      | .error e => Except.error e
      | .ok t => .ok (some t)
    buildWith ctx (fuel + 1) (segs.map (fun s => .file s.file (some (safe && ctx.defSafe)))) = r ∧
    buildWith ctx (fuel + 1)
      (segs.flatMap (fun s => s.raws.map (fun d => .raw [d] (some s.file) (some (safe && ctx.defSafe))))) = r ∧
    buildWith ctx (fuel + 1) [.file mainFile (some safe)] = r := by
  intro r
  let fI : Flags := mkFlags (sourceEnv ctx safe (some mainFile)) {}
  have hsafe : eSafe fI = (safe && ctx.defSafe) := by
    simp [fI, eSafe, mkFlags, sourceEnv]
  have hsrc : fI.src = some mainFile := rfl
  have hf : ∀ n ∈ segDocs segs, n.inclFree = true := by simpa [List.all_eq_true] using hfree
  have hd : ∀ n ∈ segDocs segs, n.depth < fuel := by simpa [List.all_eq_true] using hfuel
  have hsrcs := addSources_segs ctx (safe && ctx.defSafe) _ segs hfind hparse
  have hfix := preprocessStagesF_inclFree ctx (fuel + 1) (segDocs segs) hf (fun n hn => Nat.lt_succ_of_lt (hd n hn))
  have hc := stages_inclist ctx fuel fI segs (by rw [hsrc]; exact hfind) (by rw [hsafe]; exact hparse) hf hd hne
  have hparseMain : parseAll (sourceEnv ctx safe (some mainFile)) [inclRaw (segs.map (·.name))]
      = .ok [.leaf fI (.incl (segs.map (·.name)))] := by
    simp [parseAll, C06_include_document, fI]
  have hmainSrc : addSources ctx [.file mainFile (some safe)] = .ok [.leaf fI (.incl (segs.map (·.name)))] := by
    simp [addSources, addTop, addSource, hmain, hparseMain]
  exact ⟨buildWith_eq ctx _ _ _ _ hsrcs.1 hne hfix, buildWith_eq ctx _ _ _ _ hsrcs.2 hne hfix,
    buildWith_eq ctx _ _ _ _ hmainSrc (by simp) hc⟩

/-! ### Clause 2: lookup order — the including file's directory first, then the working directory -/

theorem C06_lookup_order (ctx : PCtx) (name : String) :
    -- found next to the including file: resolved there, whatever the working directory holds
    (∀ (f : String) (docs : List Raw), fsGet ctx (joinNorm (dirname f) name) = some docs →
      findFile ctx (lookupDirs (some f) ctx.cwd) name = some (joinNorm (dirname f) name, docs)) ∧
    -- not there but in the working directory: resolved in the working directory
    (∀ (f : String) (docs : List Raw), fsGet ctx (joinNorm (dirname f) name) = none →
      fsGet ctx (joinNorm ctx.cwd name) = some docs →
      findFile ctx (lookupDirs (some f) ctx.cwd) name = some (joinNorm ctx.cwd name, docs)) ∧
    -- an include node without a source file is looked up in the working directory only
    (findFile ctx (lookupDirs none ctx.cwd) name =
      (fsGet ctx (joinNorm ctx.cwd name)).map (fun docs => (joinNorm ctx.cwd name, docs))) ∧
    -- found in neither place: not found
    (∀ (f : String), fsGet ctx (joinNorm (dirname f) name) = none → fsGet ctx (joinNorm ctx.cwd name) = none →
      findFile ctx (lookupDirs (some f) ctx.cwd) name = none) := by
  refine ⟨?_, ?_, ?_, ?_⟩
  · intro f docs h; simp [lookupDirs, findFile, h]
  · intro f docs h1 h2; simp [lookupDirs, findFile, h1, h2]
  · cases h : fsGet ctx (joinNorm ctx.cwd name) <;> simp [lookupDirs, findFile, h]
  · intro f h1 h2; simp [lookupDirs, findFile, h1, h2]

/-- the documents of an included file carry the path under which the file was found as their source
    file (`Env.src`), and the safety the include node hands down -/
theorem C06_included_source_file (ctx : PCtx) (fI : Flags) (s : Seg) (pp : List Node → Except Err (List Node))
    (hfind : findFile ctx (lookupDirs fI.src ctx.cwd) s.name = some (s.file, s.raws))
    (hparse : parseAll { dSafe := eSafe fI && ctx.defSafe, src := some s.file } s.raws = .ok s.docs) :
    includeNode ctx pp fI [s.name] = match pp s.docs with
      | .error e => .error (preErr e)
      | .ok stages => .ok (streamOf stages) := by
  have h := includeLoop_found ctx (lookupDirs fI.src ctx.cwd) (eSafe fI) [s] [] []
    (fun t ht => by simp at ht; simpa [ht] using hfind) (fun t ht => by simp at ht; simpa [ht, sourceEnv] using hparse)
  simp only [List.map_cons, List.map_nil, List.nil_append] at h
  simp only [includeNode, h, segDocs, List.flatMap_cons, List.flatMap_nil, List.append_nil]
  cases pp s.docs <;> rfl

/-! ### Clause 3: a file found nowhere fails the build with an error naming it

  If every file that *is* found parses (a parsing error in an earlier file is raised first, as
  `.preprocess []`) and at least one name is found in no lookup directory, preprocessing the include
  fails with `PreprocessError` carrying exactly the names found nowhere, in the order written —
  for the include node itself, for a top-level `!include` stage, and for the whole stage list (the
  stages before it being include-free). -/
theorem C06_missing_file_errors (ctx : PCtx) (fuel : Nat) (f : Flags) (names : List String)
    (hparse : ∀ nm ∈ names, ∀ file raws, findFile ctx (lookupDirs f.src ctx.cwd) nm = some (file, raws) →
        ∃ ns, parseAll (sourceEnv ctx (eSafe f) (some file)) raws = .ok ns)
    (hmiss : ∃ nm ∈ names, findFile ctx (lookupDirs f.src ctx.cwd) nm = none) :
    let ms := missingNames ctx (lookupDirs f.src ctx.cwd) names
    (∀ pp, includeNode ctx pp f names = .error (.preprocess ms)) ∧
    preprocessF ctx (fuel + 1) (.leaf f (.incl names)) = .error (.preprocess ms) ∧
    (∀ (before after : List Node), (∀ n ∈ before, n.inclFree = true ∧ n.depth < fuel + 1) →
      preprocessStagesF ctx (fuel + 1) (before ++ .leaf f (.incl names) :: after) = .error (.preprocess ms)) ∧
    ms ≠ [] ∧ (∀ nm, nm ∈ ms ↔ nm ∈ names ∧ findFile ctx (lookupDirs f.src ctx.cwd) nm = none) := by
  intro ms
  have hnode := fun pp => includeNode_missing ctx pp f names hparse hmiss
  have hleaf : preprocessF ctx (fuel + 1) (.leaf f (.incl names)) = .error (.preprocess ms) := by
    simp only [preprocessF]; exact hnode _
  refine ⟨hnode, hleaf, ?_, ?_, ?_⟩
  · intro before after hb
    induction before with
    | nil => simp [preprocessStagesF, preprocessStagesWith, hleaf]
    | cons b rest ih =>
      have hb0 := hb b (List.mem_cons_self ..)
      have ih' := ih (fun n hn => hb n (List.mem_cons_of_mem _ hn))
      simp only [preprocessStagesF] at ih'
      simp [preprocessStagesF, preprocessStagesWith, preprocessF_inclFree ctx (fuel + 1) b hb0.1 hb0.2,
        spliceStage_not_incl b b (inclFree_not_isIncl b hb0.1), ih']
  · obtain ⟨nm, hnm, hnone⟩ := hmiss
    intro h
    have : nm ∈ ms := by simp [ms, missingNames, List.mem_filter, hnm, hnone]
    rw [h] at this; cases this
  · intro nm
    simp [ms, missingNames, List.mem_filter]

/-! ### Clause 4: `key: !include fs` is a stream child, and a stream premerges to its flattening -/

/-- In a mapping stage, an include under `key` (the other entries include-free) is replaced in place
    by a stream node whose children are the preprocessed documents of the files, numbered from 0 and
    otherwise untouched: the parent's inherited flags are written into the stream node only. -/
theorem C06_nested_include_is_stream (ctx : PCtx) (fuel : Nat) (f : Flags) (k : CompKind) (kw : ChildKw)
    (key : Key) (fI : Flags) (segs : List Seg) (pre post : List (Key × Node))
    (hk : k.isDictFam = true) (hkw : childKw f k = some kw)
    (hfind : ∀ s ∈ segs, findFile ctx (lookupDirs fI.src ctx.cwd) s.name = some (s.file, s.raws))
    (hparse : ∀ s ∈ segs, parseAll (sourceEnv ctx (eSafe fI) (some s.file)) s.raws = .ok s.docs)
    (hfree : (segDocs segs).all Node.inclFree = true)
    (hfuel : (segDocs segs).all (fun n => decide (n.depth < fuel)) = true)
    (hpre : ∀ kv ∈ pre, kv.2.inclFree = true ∧ kv.2.depth < fuel + 1)
    (hpost : ∀ kv ∈ post, kv.2.inclFree = true ∧ kv.2.depth < fuel + 1)
    (hkey : ∀ kv ∈ pre, kv.1 ≠ key) :
    preprocessF ctx (fuel + 2) (.comp f k (pre ++ (key, .leaf fI (.incl (segs.map (·.name)))) :: post))
      = .ok (.comp f k (pre ++ (key, .comp (updFlags kw streamFlags) .stream (renum (segDocs segs))) :: post)) := by
  have hinc := preprocessF_incl ctx fuel fI segs hfind hparse
    (by simpa [List.all_eq_true] using hfree) (by simpa [List.all_eq_true] using hfuel)
  have h := preprocessF_nested ctx (fuel + 1) f k key fI _ _ pre post hk hinc hpre hpost hkey
  rw [h, streamOf, adopt_stream f k kw _ _ hkw]

/-- the general form: whatever the included files contain (further includes, nested streams), the child
    at `key` is the adoption of the stream built from the preprocessed documents -/
theorem C06_nested_include_general (ctx : PCtx) (fuel : Nat) (f : Flags) (k : CompKind) (key : Key)
    (fI : Flags) (names : List String) (st : Node) (pre post : List (Key × Node))
    (hk : k.isDictFam = true)
    (hinc : preprocessF ctx fuel (.leaf fI (.incl names)) = .ok st)
    (hpre : ∀ kv ∈ pre, kv.2.inclFree = true ∧ kv.2.depth < fuel)
    (hpost : ∀ kv ∈ post, kv.2.inclFree = true ∧ kv.2.depth < fuel)
    (hkey : ∀ kv ∈ pre, kv.1 ≠ key) :
    preprocessF ctx (fuel + 1) (.comp f k (pre ++ (key, .leaf fI (.incl names)) :: post))
      = .ok (.comp f k (pre ++ (key, adopt f k st) :: post)) :=
  preprocessF_nested ctx fuel f k key fI names st pre post hk hinc hpre hpost hkey

/-- the result of preprocessing an include is always a stream of the preprocessed documents -/
theorem C06_include_result_is_stream (ctx : PCtx) (fuel : Nat) (fI : Flags) (names : List String) (st : Node)
    (h : preprocessF ctx (fuel + 1) (.leaf fI (.incl names)) = .ok st) :
    ∃ docs stages, includeLoop ctx (lookupDirs fI.src ctx.cwd) (eSafe fI) names [] [] = .ok (docs, []) ∧
      preprocessStagesF ctx fuel docs = .ok stages ∧ st = .comp streamFlags .stream (renum stages) := by
  simp only [preprocessF, includeNode] at h
  split at h
  · cases h
  · next docs missing hl =>
    cases missing with
    | cons m ms => cases h
    | nil =>
      simp only at h
      split at h
      · cases h
      · next stages hs =>
        simp only [Except.ok.injEq] at h
        exact ⟨docs, stages, hl, hs, h.symm⟩

/-- premerging a stream node = flattening its documents, then premerging the result in its place
    (StreamNode.on_premerge_impl); the result never counts as "the same object" -/
theorem C06_stream_premerge (fuel : Nat) (sf : Flags) (cs : List (Key × Node)) (path : Path) (into : Option Node) :
    premergeF (fuel + 1) (.comp sf .stream cs) path into =
      match flattenWith (premergeF fuel) (cs.map (·.2)) with
      | .error .unsupported => .error .unsupported
      | .error _ => .error .premerge     -- whatever is raised while the nested stream flattens surfaces as PremergeError
      | .ok r =>
        match premergeF fuel r path into with
        | .error e => .error e
        | .ok (r', _, into') => .ok (r', false, into') := rfl

/-- `key: <stream of docs>` premerges to `key: <the flattening of docs>` merged in place: the stage
    keeps its own flags, the child at `key` becomes the (premerged) flatten result adopted by the stage,
    and the accumulated tree is threaded through. -/
theorem C06_nested_include_premerge (fuel : Nat) (f sf : Flags) (key : Key) (cs : List (Key × Node))
    (path : Path) (into into' : Option Node) (r r' : Node) (b : Bool)
    (hflat : flattenWith (premergeF fuel) (cs.map (·.2)) = .ok r)
    (hpm : premergeF fuel r (path ++ [key]) into = .ok (r', b, into')) :
    premergeF (fuel + 2) (.comp f .dict [(key, .comp sf .stream cs)]) path into
      = .ok (.comp f .dict [(key, adopt f .dict r')], true, into') := by
  have hs : premergeF (fuel + 1) (.comp sf .stream cs) (path ++ [key]) into = .ok (r', false, into') := by
    rw [C06_stream_premerge, hflat]; simp only [hpm]
  show ((match premergeChildren (premergeF (fuel + 1)) path [(key, Node.comp sf .stream cs)] into with
    | .error e => Except.error e
    | .ok (cs', resets, into') =>
      match applyResets f .dict resets cs' with
      | .error e => Except.error e
      | .ok cs'' => Except.ok (Node.comp f .dict cs'', true, into')) : PM) = _
  simp only [premergeChildren, hs]
  simp [applyResets, setChild, CompKind.isDictFam, aset]

/-! ### Clause 5: a file-relative `!path` depends on the file it was written in, nothing else -/

/-- For every reference point other than the implicit one and `cwd` — in particular `file`,
    `parent`, `parent(n)` — the evaluated path is a function of the node's source file and its
    components only: it does not depend on the world (working directory) in which it is evaluated. -/
theorem C06_path_relative_to_file (w1 w2 : World) (ref : String) (src : Option String) (args : List String)
    (h1 : ref ≠ "") (h2 : ref ≠ "cwd") : evalPath w1 ref src args = evalPath w2 ref src args := by
  simp [evalPath, h1, h2]

/-- ... and not on the include route: a `!path` node evaluates through `evalImpl` to `evalPath` of its own
    `src`, so two nodes with the same reference point, source file and children evaluate alike wherever
    they sit in whatever tree, in whatever world. -/
theorem C06_path_route_independent (rec : Rec) (root1 root2 : Node) (w1 w2 : World) (rs1 rs2 : Bool)
    (f1 f2 : Flags) (ref : String) (cs : List (Key × Node)) (p1 p2 : Path) (st1 st2 : EvSt)
    (items : List (Key × Val)) (st1' st2' : EvSt)
    (hsrc : f1.src = f2.src) (h1 : ref ≠ "") (h2 : ref ≠ "cwd")
    (he1 : evalItems rec rs1 p1 cs st1 = .ok (items, st1'))
    (he2 : evalItems rec rs2 p2 cs st2 = .ok (items, st2')) :
    (evalImpl rec root1 w1 rs1 (.comp f1 (.path ref) cs) p1 st1).map (·.1) =
    (evalImpl rec root2 w2 rs2 (.comp f2 (.path ref) cs) p2 st2).map (·.1) := by
  simp only [evalImpl, he1, he2, hsrc]
  cases allValStrs (items.map (·.2)) with
  | none => rfl
  | some args =>
    simp only [C06_path_relative_to_file w1 w2 ref f2.src args h1 h2]
    cases evalPath w2 ref f2.src args <;> rfl

/-- two include routes to the same file give its documents the same source file, hence (previous two
    theorems) the same `!path:file` / `!path:parent(n)` values: the documents are parsed with
    `src := the normalised path under which the file was found`, and that is all that depends on the route -/
theorem C06_path_same_file_same_docs (ctx : PCtx) (dirs1 dirs2 : List String) (safe : Bool)
    (name1 name2 file : String) (raws : List Raw)
    (h1 : findFile ctx dirs1 name1 = some (file, raws)) (h2 : findFile ctx dirs2 name2 = some (file, raws)) :
    includeLoop ctx dirs1 safe [name1] [] [] = includeLoop ctx dirs2 safe [name2] [] [] := by
  simp [includeLoop, h1, h2]


/-! ## Non-vacuity: a concrete file system on which every hypothesis holds

  /r/m/main.yaml  = `!include [f0.yaml, sub/f1.yaml]`       (working directory /r/w)
  /r/m/f0.yaml    = {a: [1,2,3], p: !path:parent [x]}        (also a decoy /r/w/f0.yaml)
  /r/w/sub/f1.yaml = {a: [9]} --- {b: !force 7}              (only in the working directory; two documents)
  /r/m/nested.yaml = {z: 0, k: !include [f0.yaml, sub/f1.yaml]} -/

def c06I (i : Int) : Raw := .scalar .none {} (.lit (.int i))
def c06S (s : String) : Raw := .scalar .none {} (.lit (.str s))
def c06DocA : Raw :=
  .map .none {} [(.str "a", .seq .none {} [c06I 1, c06I 2, c06I 3]), (.str "p", .seq (.path "parent") {} [c06S "x"])]
def c06DocB : Raw := .map .none {} [(.str "a", .seq .none {} [c06I 9])]
def c06DocC : Raw := .map .none {} [(.str "b", .scalar .plain { prio := some 1 } (.lit (.int 7)))]
def c06Decoy : Raw := .map .none {} [(.str "DECOY", c06I 0)]
def c06Names : List String := ["f0.yaml", "sub/f1.yaml"]

def c06FS : FS := [
  ("/r/m/main.yaml", [inclRaw c06Names]),
  ("/r/m/f0.yaml", [c06DocA]),
  ("/r/w/f0.yaml", [c06Decoy]),
  ("/r/w/sub/f1.yaml", [c06DocB, c06DocC]),
  ("/r/m/nested.yaml", [.map .none {} [(.str "z", c06I 0), (.str "k", inclRaw c06Names)]])]
def c06Ctx : PCtx := { fs := c06FS, cwd := "/r/w" }
def c06Env (file : String) : Env := { dSafe := true, src := some file }
/-- the include node of /r/m/main.yaml -/
def c06FI : Flags := mkFlags (c06Env "/r/m/main.yaml") {}

def c06OkOr {α : Type} (d : α) : Except Err α → α
  | .ok x => x
  | .error _ => d

def c06Segs : List Seg := [
  { name := "f0.yaml", file := "/r/m/f0.yaml", raws := [c06DocA],
    docs := c06OkOr [] (parseAll (c06Env "/r/m/f0.yaml") [c06DocA]) },
  { name := "sub/f1.yaml", file := "/r/w/sub/f1.yaml", raws := [c06DocB, c06DocC],
    docs := c06OkOr [] (parseAll (c06Env "/r/w/sub/f1.yaml") [c06DocB, c06DocC]) }]

theorem c06_hfind :
    ∀ s ∈ c06Segs, findFile c06Ctx (lookupDirs c06FI.src c06Ctx.cwd) s.name = some (s.file, s.raws) := by
  intro s hs
  simp only [c06Segs, List.mem_cons, List.not_mem_nil, or_false] at hs
  rcases hs with rfl | rfl <;> rfl

theorem c06_hparse :
    ∀ s ∈ c06Segs, parseAll (sourceEnv c06Ctx (eSafe c06FI) (some s.file)) s.raws = .ok s.docs := by
  intro s hs
  simp only [c06Segs, List.mem_cons, List.not_mem_nil, or_false] at hs
  rcases hs with rfl | rfl <;> rfl

-- three documents, found next to the including file (not the decoy) resp. in the working directory
example : (segDocs c06Segs).map (fun n => n.flags.src) =
    [some "/r/m/f0.yaml", some "/r/w/sub/f1.yaml", some "/r/w/sub/f1.yaml"] := by decide
example : c06Segs.map (·.name) = c06Names := rfl

-- C06_arrangements_agree applies, and all four conclusions are inhabited
example :
    preprocessSources c06Ctx 4 [.file "/r/m/f0.yaml" (some true), .file "/r/w/sub/f1.yaml" (some true)]
      = .ok (segDocs c06Segs) ∧
    preprocessSources c06Ctx 4 [.raw [c06DocA] (some "/r/m/f0.yaml") (some true),
        .raw [c06DocB] (some "/r/w/sub/f1.yaml") (some true), .raw [c06DocC] (some "/r/w/sub/f1.yaml") (some true)]
      = .ok (segDocs c06Segs) ∧
    preprocessStagesF c06Ctx 4 [.leaf c06FI (.incl c06Names)] = .ok (segDocs c06Segs) ∧
    preprocessStagesF c06Ctx 4 [.leaf c06FI (.incl ["f0.yaml"]), .leaf c06FI (.incl ["sub/f1.yaml"])]
      = .ok (segDocs c06Segs) := by
  have h := C06_arrangements_agree c06Ctx 3 c06FI c06Segs c06_hfind c06_hparse (by rfl) (by decide)
  exact ⟨h.1, h.2.1, h.2.2.1 (by decide), h.2.2.2 (by decide)⟩

-- the whole build through the main file stored in the file system, named relative to the working directory
example :
    buildWith c06Ctx 4 [.file "/r/m/main.yaml" (some true)] =
      buildWith c06Ctx 4 [.file "/r/m/f0.yaml" (some true), .file "/r/w/sub/f1.yaml" (some true)] := by
  have h := C06_arrangements_build c06Ctx 3 "/r/m/main.yaml" true c06Segs rfl c06_hfind c06_hparse (by rfl) (by decide) (by decide)
  exact h.2.2.trans h.1.symm
-- ... and the list [1,2,3] of f0.yaml is replaced by [9] of f1.yaml (one element), `b` arrives with its priority
example : (c06OkOr none (build c06Ctx [.file "../m/main.yaml" none])).map
      (fun t => ((getNode t [.str "a"]).map (fun n => n.children.length), (getNode t [.str "b"]).map (fun n => n.flags.prio)))
    = some (some 1, some (some 1)) := by decide

-- C06_lookup_order: f0.yaml exists in both places and is taken from /r/m; sub/f1.yaml only in /r/w
example : findFile c06Ctx (lookupDirs (some "/r/m/main.yaml") "/r/w") "f0.yaml" = some ("/r/m/f0.yaml", [c06DocA]) :=
  (C06_lookup_order c06Ctx "f0.yaml").1 "/r/m/main.yaml" [c06DocA] rfl
example : findFile c06Ctx (lookupDirs (some "/r/m/main.yaml") "/r/w") "sub/f1.yaml"
    = some ("/r/w/sub/f1.yaml", [c06DocB, c06DocC]) :=
  (C06_lookup_order c06Ctx "sub/f1.yaml").2.1 "/r/m/main.yaml" [c06DocB, c06DocC] rfl rfl
example : findFile c06Ctx (lookupDirs none "/r/w") "f0.yaml" = some ("/r/w/f0.yaml", [c06Decoy]) := rfl
-- a main file named relative to the working directory: the found name is relative as well
example : findFile c06Ctx (lookupDirs (some "../m/main.yaml") "/r/w") "f0.yaml" = some ("../m/f0.yaml", [c06DocA]) := rfl

-- C06_missing_file_errors: two of three names exist nowhere
def c06Missing : List String := ["nope.yaml", "f0.yaml", "sub/zz.yaml"]
example : missingNames c06Ctx (lookupDirs c06FI.src c06Ctx.cwd) c06Missing = ["nope.yaml", "sub/zz.yaml"] := by decide
example : preprocessStagesF c06Ctx 4 [.leaf c06FI (.incl c06Missing)] = .error (.preprocess ["nope.yaml", "sub/zz.yaml"]) := by
  have h := C06_missing_file_errors c06Ctx 3 c06FI c06Missing
    (by
      intro nm hnm file raws hf
      simp only [c06Missing, List.mem_cons, List.not_mem_nil, or_false] at hnm
      rcases hnm with rfl | rfl | rfl
      · have h0 : findFile c06Ctx (lookupDirs c06FI.src c06Ctx.cwd) "nope.yaml" = none := rfl
        rw [h0] at hf; cases hf
      · have : (file, raws) = ("/r/m/f0.yaml", [c06DocA]) := by
          have h0 : findFile c06Ctx (lookupDirs c06FI.src c06Ctx.cwd) "f0.yaml" = some ("/r/m/f0.yaml", [c06DocA]) := rfl
          rw [h0] at hf; exact (Option.some.inj hf).symm
        cases this
        exact ⟨_, c06_hparse _ (List.mem_cons_self ..)⟩
      · have h0 : findFile c06Ctx (lookupDirs c06FI.src c06Ctx.cwd) "sub/zz.yaml" = none := rfl
        rw [h0] at hf; cases hf)
    ⟨"nope.yaml", by decide, rfl⟩
  exact h.2.2.1 [] [] (by simp)

-- C06_nested_include_is_stream on /r/m/nested.yaml
example :
    preprocessF c06Ctx 5 (.comp (bareFlags (c06Env "/r/m/nested.yaml")) .dict
        ([(.str "z", .leaf (bareFlags (c06Env "/r/m/nested.yaml")) (.scalar (.int 0)))] ++
          (.str "k", .leaf c06FI (.incl c06Names)) :: []))
      = .ok (.comp (bareFlags (c06Env "/r/m/nested.yaml")) .dict
        ([(.str "z", .leaf (bareFlags (c06Env "/r/m/nested.yaml")) (.scalar (.int 0)))] ++
          (.str "k", .comp (updFlags ⟨none, none, none⟩ streamFlags) .stream (renum (segDocs c06Segs))) :: [])) :=
  C06_nested_include_is_stream c06Ctx 3 _ .dict ⟨none, none, none⟩ (.str "k") c06FI c06Segs _ [] rfl rfl
    c06_hfind c06_hparse (by rfl) (by decide)
    (by intro kv h; simp only [List.mem_singleton] at h; subst h; exact ⟨rfl, by decide⟩)
    (by intro kv h; cases h)
    (by intro kv h; simp only [List.mem_singleton] at h; subst h; decide)
-- the same through the loader: the stage read from the file has a stream of three documents under `k`
example : (c06OkOr [] (preprocessSources c06Ctx 6 [.file "/r/m/nested.yaml" none])).map
      (fun st => (getNode st [.str "k"]).map (fun n => (match n with | .comp _ .stream _ => true | _ => false, n.children.length)))
    = [some (true, 3)] := by decide
-- C06_stream_premerge / C06_nested_include_premerge: flattening puts the merged content under `k`
example : (c06OkOr none (buildWith c06Ctx 6 [.file "/r/m/nested.yaml" none])).map
      (fun t => ((getNode t [.str "k", .str "a"]).map (fun n => n.children.length),
                 (getNode t [.str "k"]).map (fun n => n.children.map (·.1))))
    = some (some 1, some [.str "a", .str "p", .str "b"]) := by decide +kernel

-- C06_path_relative_to_file: the hypotheses hold for `file`, `parent`, `parent(2)`; the worlds differ in cwd
example (src : Option String) (args : List String) :
    evalPath { cwd := "/r/w" } "file" src args = evalPath { cwd := "/elsewhere" } "file" src args ∧
    evalPath { cwd := "/r/w" } "parent" src args = evalPath { cwd := "/elsewhere" } "parent" src args ∧
    evalPath { cwd := "/r/w" } "parent(2)" src args = evalPath { cwd := "/elsewhere" } "parent(2)" src args :=
  ⟨C06_path_relative_to_file _ _ _ _ _ (by decide) (by decide), C06_path_relative_to_file _ _ _ _ _ (by decide) (by decide),
   C06_path_relative_to_file _ _ _ _ _ (by decide) (by decide)⟩
-- two routes to /r/w/sub/f1.yaml: from /r/m/main.yaml as `../w/sub/f1.yaml`, from /r/w/sub/other.yaml as `f1.yaml`
example : includeLoop c06Ctx (lookupDirs (some "/r/m/main.yaml") "/r/w") true ["../w/sub/f1.yaml"] [] [] =
    includeLoop c06Ctx (lookupDirs (some "/r/w/sub/other.yaml") "/r/w") true ["f1.yaml"] [] [] :=
  C06_path_same_file_same_docs c06Ctx _ _ true _ _ "/r/w/sub/f1.yaml" [c06DocB, c06DocC] rfl rfl
-- concrete path facts (character-list versions of os.path, decidable in the kernel)
example : joinNorm (dirname "/r/m/main.yaml") "../w/sub/f1.yaml" = "/r/w/sub/f1.yaml" := by decide
example : joinNorm (dirname "main.yaml") "f0.yaml" = "f0.yaml" := by decide
example : joinNorm "/r/m" "/abs/x.yaml" = "/abs/x.yaml" := by decide
example : joinNorm "/r/m" "sub/../../x.yaml" = "/r/x.yaml" := by decide
example : String.ofList (normChars "//a/./b/../../..".toList) = "//" := by decide
example : String.ofList (normChars "a/../..".toList) = ".." := by decide
example : dirname "/r/m/f0.yaml" = "/r/m" ∧ dirname (dirname "/r/m/f0.yaml") = "/r" ∧ dirname "/r" = "/" ∧ dirname "/" = "/" := by decide
example : dirname "../m/f0.yaml" = "../m" ∧ dirname "../m" = ".." ∧ dirname ".." = "" := by decide

/-- C06 (paths; the rule repaired by repo fix D25): `!path:parent(n)` is the folder of the file the node was written in, then
    `n` levels up, then the components — folded lexically by the final `normpath`, so it also climbs past a leading `..` of
    the name under which the file was reached. -/
theorem C06_parent_n_is_n_levels_up (w : World) (ref f : String) (n : Nat) (args : List String)
    (h1 : ref ≠ "") (h2 : ref ≠ "cwd") (h3 : ref ≠ "file") (h : parseParentRef ref = some n) :
    evalPath w ref (some f) args = .ok (.pathv (normpath (joinpath (pathParent f) (List.replicate n ".." ++ args)))) := by
  simp [evalPath, h1, h2, h3, h]

-- the hypotheses hold for `parent`; the former finding D25 (main file given as `../main.yaml`: `parent(1)` must be `../..`)
-- is a corpus case of the correspondence (string slicing does not reduce in the kernel)
example (w : World) (f : String) (args : List String) :
    evalPath w "parent" (some f) args = .ok (.pathv (normpath (joinpath (pathParent f) args))) := by
  have := C06_parent_n_is_n_levels_up w "parent" f 0 args (by decide) (by decide) (by decide) (by rfl)
  simpa using this

end AY
