/-
  AY.Props.C19 — deepcopy and pickle reproduce any node tree, independent of the original.

  Property text: "a deep copy or pickle round-trip of any node tree is a distinct tree of the same
  node kinds with equal content, priorities, safety, targets/reference points and metadata, which
  merges and evaluates exactly like the original; the copy shares no node with the original."

  Model: AY.Model.Copy (`reduceNode` = `__reduce__`, `reconstructCopy` = copy._reconstruct order
  (state, then items through `append`/`__setitem__`, i.e. re-adoption under the restored flags),
  `reconstructPickle` = pickle order (items through `extend`/`__setitem__` while the object has no
  `_delete` attribute, then BUILD)).  `Node` is a pure value, so "equal content, priorities, safety,
  targets, metadata" and "merges and evaluates exactly like the original" are all consequences of
  the equation `reconstruct… (reduceNode n) = n`; "shares no node" is object identity and is checked
  on the implementation (harness/props/c19.py: id-disjointness, mutate-one-compare-other).

  What is proved (PARTIAL with respect to the property text, see the end of the file):
    * C19_deepcopy_identity / C19_pickle_identity: the equation, for every tree whose inherited
      flags are consistent (`FlagsConsistent`) and whose child maps are well-keyed (`WellKeyed`, the
      C17 invariant);  C19_deepcopy_identity_iff: for deepcopy the hypothesis is also necessary;
    * C19_construct_consistent: every tree produced by the loader, over the FULL tag vocabulary of
      `Raw` (merge-control tags, metadata, every node kind), is `FlagsConsistent`;
    * C19_merge_consistent (with C19_leafRule_consistent, C19_finishMerge_consistent,
      C19_compMerge_consistent, C19_merge_root_consistent, C19_merged_copy_identity): merging
      preserves `FlagsConsistent`, for all trees, and so does `Builder.flatten` with all pre-merge
      operators (C19_flatten_consistent, C19_built_copy_identity) — since the repair of `_replace_other`; before it
      this was false (former `C19_merge_inconsistent_counterexample`, findings D27 / D27b).
  Only property theorems live here; lemmas are in AY.Lemmas.C19Lemmas,
  AY.Lemmas.C19Merge and AY.Lemmas.C19Flatten.
-/
import AY.Lemmas.C19Lemmas
import AY.Lemmas.C19Merge
import AY.Lemmas.C19Flatten
import AY.Model.Build
namespace AY

/-! ### Concrete trees used by the non-vacuity examples -/

/-- `a: !merge [[1], {x: [2]}]`, `b: !unsafe {c: !call:rec.f {z: 1}}` (the D13 witness plus an unsafe
    function node) as a representation tree -/
def c19ExRaw : Raw :=
  .map .none {} [
    (.str "a", .seq .plain { del := some false } [
      .seq .none {} [.scalar .none {} (.lit (.int 1))],
      .map .none {} [(.str "x", .seq .none {} [.scalar .none {} (.lit (.int 2))])]]),
    (.str "b", .map .plain { safe := some false } [
      (.str "c", .map (.call "rec.f") {} [(.str "z", .scalar .none {} (.lit (.int 1)))])])]

/-- the tree the loader builds from `c19ExRaw` -/
def c19ExTree : Node :=
  match construct {} c19ExRaw with
  | .ok n => n
  | .error _ => .leaf {} .required

/-- `a: !force {x: 1}` -/
def c19ExOlder : Raw :=
  .map .none {} [(.str "a", .map .plain { prio := some 1 } [(.str "x", .scalar .none {} (.lit (.int 1)))])]
/-- `a: !unsafe {}` -/
def c19ExNewer : Raw :=
  .map .none {} [(.str "a", .map .plain { safe := some false } [])]

/-- the merged tree of `a: !force {x: 1}` ← `a: !unsafe {}` -/
def c19ExMerged : Node :=
  match construct {} c19ExOlder, construct {} c19ExNewer with
  | .ok a, .ok b =>
    match merge a b with
    | .ok m => m
    | .error _ => .leaf {} .required
  | _, _ => .leaf {} .required

/-! ### deepcopy -/

/- "a deep copy … of any node tree is a … tree of the same node kinds with equal content,
   priorities, safety, targets/reference points and metadata": `copy.deepcopy` restores the state
   and then re-attaches every child through `append` / `__setitem__`, which re-derives the child's
   inherited flags from the restored parent. The result is the original exactly when those
   inherited flags were what the parent prescribes (`FlagsConsistent`; an inherited `safe=False`
   may be "sticky": `childFlagsOK`). Holds for trees of any shape, depth and node kinds. -/
theorem C19_deepcopy_identity (n : Node) (hc : FlagsConsistent n = true) (hw : WellKeyed n = true) :
    reconstructCopy (reduceNode n) = n :=
  copy_id n hc hw

example : FlagsConsistent c19ExTree = true ∧ WellKeyed c19ExTree = true := by decide
example : reconstructCopy (reduceNode c19ExTree) = c19ExTree := C19_deepcopy_identity _ (by decide) (by decide)

/- The hypothesis is exactly right: a deep copy is ALWAYS consistent, so the copy equals the
   original if and only if the original was. -/
theorem C19_deepcopy_consistent (n : Node) : FlagsConsistent (reconstructCopy (reduceNode n)) = true :=
  reconstructCopy_cons _

theorem C19_deepcopy_identity_iff (n : Node) (hw : WellKeyed n = true) :
    reconstructCopy (reduceNode n) = n ↔ FlagsConsistent n = true :=
  ⟨fun h => by have := C19_deepcopy_consistent n; rwa [h] at this, fun hc => copy_id n hc hw⟩

example : FlagsConsistent (reconstructCopy (reduceNode c19ExMerged)) = true := C19_deepcopy_consistent _

/-! ### pickle -/

/- "… or pickle round-trip …": pickle attaches the children BEFORE the state exists, so the parent
   writes nothing into them (`_get_child_kwargs() == {}`) — but `set_child` still runs
   `child._propagate_implicit_values()` on the (complete) child. Hence the root's children are
   taken as they are and only the levels below them must be consistent (`ConsistentBelow`).
   The theorem is stated with the weaker hypothesis; `FlagsConsistent` implies it. -/
theorem C19_pickle_identity_below (n : Node) (hc : ConsistentBelow n = true) (hw : WellKeyed n = true) :
    reconstructPickle (reduceNode n) = n :=
  pickle_id n hc hw

theorem C19_pickle_identity (n : Node) (hc : FlagsConsistent n = true) (hw : WellKeyed n = true) :
    reconstructPickle (reduceNode n) = n :=
  pickle_id n (consistentBelow_of_consistent hc) hw

example : reconstructPickle (reduceNode c19ExTree) = c19ExTree := C19_pickle_identity _ (by decide) (by decide)

/- copy and pickle agree with each other on consistent trees (and both with the original) -/
theorem C19_copy_eq_pickle (n : Node) (hc : FlagsConsistent n = true) (hw : WellKeyed n = true) :
    reconstructCopy (reduceNode n) = reconstructPickle (reduceNode n) := by
  rw [C19_deepcopy_identity n hc hw, C19_pickle_identity n hc hw]

/-! ### the loader establishes the hypothesis -/

/- Every tree built by `yaml.parse` is `FlagsConsistent`: for EVERY representation tree over the full
   tag vocabulary of `Raw` (the seven merge-control tags and `!metadata`, `!null`, `!xref`, `!prev`,
   `!eval`, `!fstr`, `!import`, `!required`, `!clear`, `!append`, `!extend`, `!call`, `!bind`, `!path`,
   `!include`), any nesting, both construction modes of the loader, any per-source defaults. -/
theorem C19_construct_consistent (env : Env) (r : Raw) (n : Node) (h : construct env r = .ok n) :
    FlagsConsistent n = true :=
  (constructTD_cons env none r n h).1

example : construct {} c19ExRaw = .ok c19ExTree := rfl
example : FlagsConsistent c19ExTree = true := C19_construct_consistent {} c19ExRaw _ rfl

/-! ### merging preserves the hypothesis -/

/- History: `C19_merge_consistent` used to be FALSE of the faithful model and of the code (former
   theorem `C19_merge_inconsistent_counterexample`, findings D27 / D27b): `_replace_other` copied the
   newer node's `safe=False` into the surviving node WITHOUT re-propagating it to the children
   (`_replace_self` did propagate), so for `a: !force {x: 1}` ← `a: !unsafe {}` the merged `a` was
   unsafe while `a.x` still counted as safe, and a deep copy (what `Config` evaluates) differed from
   the merged tree. The library was repaired ("flags merged into the surviving node were not handed
   down to its children": `_replace_other` ends with `_propagate_implicit_values` like
   `_replace_self`), the model follows, and the positive statement is proved below at full strength:
   every node shape and kind, every tag, promotions, the pruning pre-filter, list deletion with
   re-adoption, function-node merges, any depth. The old witness is now consistent: -/
example : FlagsConsistent c19ExMerged = true ∧ WellKeyed c19ExMerged = true := by decide
example : reconstructCopy (reduceNode c19ExMerged) = c19ExMerged := rfl
example : (getNode c19ExMerged [.str "a", .str "x"]).map (fun n => eSafe n.flags) = some false := by decide
example : (getNode (reconstructCopy (reduceNode c19ExMerged)) [.str "a", .str "x"]).map (fun n => eSafe n.flags)
    = some false := by decide

/-- the witness of the former finding D27b: `_u: !call:rec.f{{'delete': False}} {}` ← `_u: ["hello world"]`
    (the function node is promoted over the list) -/
def c19ExPromoted : Node :=
  match merge
      (.comp {} .dict [(.str "_u", .comp { del := some false, iSafe := none } (.call "rec.f") [])])
      (.comp {} .dict [(.str "_u", .comp {} .list [(.int 0, .leaf {} (.scalar (.str "hello world")))])]) with
  | .ok m => m
  | .error _ => .leaf {} .required

/- `ConfigNode.on_merge_impl` (`leafRule`, the rule for a scalar on either side): the winner takes
   over the loser's safety marks and re-propagates; consistent inputs give a consistent result. The
   inputs need only be consistent BELOW their roots — the propagation repairs the first level. -/
theorem C19_leafRule_consistent (s o : Node) (hs : ConsistentBelow s = true) (ho : ConsistentBelow o = true) :
    FlagsConsistent (leafRule s o).1 = true :=
  leafRule_cons hs ho

example : ConsistentBelow (.comp { prio := some 1 } .dict [(.str "x", .leaf {} (.scalar (.int 1)))]) = true ∧
    (leafRule (.comp { prio := some 1 } .dict [(.str "x", .leaf {} (.scalar (.int 1)))])
        (.leaf { safe := some false } (.scalar (.int 2)))).1
      = .comp { prio := some 1, safe := some false } .dict [(.str "x", .leaf { iSafe := some false } (.scalar (.int 1)))] :=
  ⟨rfl, rfl⟩

/- the tail of `ComposedNode.on_merge_impl` (`finishMerge`: `_replace_self` / `_replace_other` with
   promotions): whatever the loop left in the child map, if every child is a consistent tree the
   returned container is consistent — the root's flags change here and the final
   `_propagate_implicit_values` re-establishes the first level and recurses where something changed;
   a promoted node re-adopts the children first. -/
theorem C19_finishMerge_consistent {sf : Flags} {sk : CompKind} {scs : List (Key × Node)} {o r : Node} {b : Bool}
    (hscs : allConsistent scs = true) (h : finishMerge sf sk scs o = .ok (r, b)) : FlagsConsistent r = true :=
  finishMerge_cons hscs h

example : ∃ r b, finishMerge { prio := some 1 } .dict [(.str "x", .leaf {} (.scalar (.int 1)))]
      (.comp { safe := some false } .dict []) = .ok (r, b) ∧
    r = .comp { prio := some 1, safe := some false } .dict [(.str "x", .leaf { iSafe := some false } (.scalar (.int 1)))] :=
  ⟨_, _, rfl, rfl⟩

/- `ComposedNode.on_merge_impl` as a whole, for ANY recursive merge that keeps trees consistent:
   the leaf rule, the pruning (`filter_nodes`, list elements are re-adopted when they move down),
   the early exit, the key loop (`set_child` adopts, `remove_child`, in-place replacement) and the tail. -/
theorem C19_compMerge_consistent {rec : Node → Node → Except Err (Node × Bool)}
    (hrec : ∀ a b r s, FlagsConsistent a = true → FlagsConsistent b = true → rec a b = .ok (r, s) →
      FlagsConsistent r = true)
    {sf : Flags} {sk : CompKind} {scs : List (Key × Node)} {o r : Node} {b : Bool}
    (hscs : allConsistent scs = true) (ho : FlagsConsistent o = true)
    (h : compMerge rec sf sk scs o = .ok (r, b)) : FlagsConsistent r = true :=
  compMerge_cons hrec hscs ho h

example : ∃ r b, compMerge (mergeF 1) {} .dict [(.str "a", .leaf { prio := some 1 } (.scalar (.int 1)))]
    (.comp {} .dict [(.str "a", .leaf { safe := some false } (.scalar (.int 2)))]) = .ok (r, b) :=
  ⟨_, _, rfl⟩

/- "… merges … exactly like the original": `on_merge` (`mergeF`, every dispatch: scalars, mappings,
   lists and their subclasses, function nodes, streams) maps consistent trees to consistent trees,
   at every depth. No hypothesis on the keys is needed. -/
theorem C19_merge_consistent (fuel : Nat) (a b r : Node) (same : Bool)
    (ha : FlagsConsistent a = true) (hb : FlagsConsistent b = true)
    (h : mergeF fuel a b = .ok (r, same)) : FlagsConsistent r = true :=
  mergeF_cons fuel a b r same ha hb h

theorem C19_merge_root_consistent (a b m : Node) (ha : FlagsConsistent a = true) (hb : FlagsConsistent b = true)
    (h : merge a b = .ok m) : FlagsConsistent m = true :=
  merge_cons ha hb h

example : ∃ a b, construct {} c19ExOlder = .ok a ∧ construct {} c19ExNewer = .ok b ∧
    FlagsConsistent a = true ∧ FlagsConsistent b = true ∧ merge a b = .ok c19ExMerged :=
  ⟨_, _, rfl, rfl, by decide, by decide, rfl⟩
example : FlagsConsistent c19ExPromoted = true ∧ WellKeyed c19ExPromoted = true := by decide
/- the newer list wins, the function node is promoted and re-adopts the element; the final propagation
   gives `_u[0]` the inherited delete flag of the node it now lives in (it kept `False` before the repair) -/
example : c19ExPromoted = .comp {} .dict [(.str "_u", .comp {} (.call "rec.f")
    [(.int 0, .leaf { iDel := some true } (.scalar (.str "hello world")))])] := rfl

/- hence a deep copy / pickle round trip of a merged tree is the merged tree, whenever the inputs
   were consistent (every loader-built tree is: `C19_construct_consistent`) and the child maps of the
   result are well-keyed (the C17 invariant of `_children`) -/
theorem C19_merged_copy_identity (a b m : Node) (ha : FlagsConsistent a = true) (hb : FlagsConsistent b = true)
    (h : merge a b = .ok m) (hw : WellKeyed m = true) :
    reconstructCopy (reduceNode m) = m ∧ reconstructPickle (reduceNode m) = m :=
  have hc := merge_cons ha hb h
  ⟨copy_id m hc hw, pickle_id m (consistentBelow_of_consistent hc) hw⟩

example : reconstructPickle (reduceNode c19ExMerged) = c19ExMerged := rfl

/-! ### … and so does the whole of `Builder.flatten` -/

/-- `{a: [1], b: !unsafe {x: 2}}` and `{a: !append [3], c: !prev b}` -/
def c19ExDoc1 : Raw :=
  .map .none {} [(.str "a", .seq .none {} [.scalar .none {} (.lit (.int 1))]),
    (.str "b", .map .plain { safe := some false } [(.str "x", .scalar .none {} (.lit (.int 2)))])]
def c19ExDoc2 : Raw :=
  .map .none {} [(.str "a", .seq .append {} [.scalar .none {} (.lit (.int 3))]),
    (.str "c", .scalar .prev {} (.text "b"))]
def c19ExStage1 : Node := match construct {} c19ExDoc1 with | .ok n => n | .error _ => .leaf {} .required
def c19ExStage2 : Node := match construct {} c19ExDoc2 with | .ok n => n | .error _ => .leaf {} .required
def c19ExStages : List Node := [c19ExStage1, c19ExStage2]
/-- `a: [1, 3]`, `c: !unsafe {x: 2}` (moved by `!prev`) -/
def c19ExBuilt : Node :=
  .comp {} .dict [
    (.str "a", .comp {} .list [(.int 0, .leaf { iDel := some true } (.scalar (.int 1))),
      (.int 1, .leaf { iDel := some true } (.scalar (.int 3)))]),
    (.str "c", .comp { safe := some false } .dict [(.str "x", .leaf { iSafe := some false } (.scalar (.int 2)))])]

/- The tree a `Builder` hands to `Config` — `Builder.flatten`: the pre-merge pass over every stage
   (`!prev` detaches a node of the accumulated tree, `!clear` empties one, `!append` / `!extend`
   extend one or become plain lists, nested streams are flattened recursively, replaced children
   are re-set through `set_child`) followed by the merge into the accumulated tree — is consistent
   whenever the stages are. Any number of stages, any shapes and tags. -/
theorem C19_flatten_consistent (stages : List Node) (r : Node)
    (hs : ∀ s, s ∈ stages → FlagsConsistent s = true) (h : flatten stages = .ok r) :
    FlagsConsistent r = true :=
  flatten_cons stages r hs h

example : construct {} c19ExDoc1 = .ok c19ExStage1 ∧ construct {} c19ExDoc2 = .ok c19ExStage2 ∧
    flatten c19ExStages = .ok c19ExBuilt := ⟨rfl, rfl, rfl⟩
example : FlagsConsistent c19ExBuilt = true := C19_flatten_consistent c19ExStages _ (by decide) rfl

/- "a deep copy or pickle round-trip of any node tree is … equal …": for every tree a Builder can
   produce from parsed documents — the stages come from the loader (`C19_construct_consistent`), the
   result from `flatten` — copy and pickle are the identity, given that the child maps of the result
   are well-keyed (the C17 invariant of `_children`, not re-proved for merge results here). -/
theorem C19_built_copy_identity (stages : List Node) (r : Node)
    (hs : ∀ s, s ∈ stages → ∃ env raw, construct env raw = .ok s) (h : flatten stages = .ok r)
    (hw : WellKeyed r = true) :
    FlagsConsistent r = true ∧ reconstructCopy (reduceNode r) = r ∧ reconstructPickle (reduceNode r) = r :=
  have hc := flatten_cons stages r
    (fun s hm => by obtain ⟨env, raw, e⟩ := hs s hm; exact C19_construct_consistent env raw s e) h
  ⟨hc, copy_id r hc hw, pickle_id r (consistentBelow_of_consistent hc) hw⟩

example : (∀ s, s ∈ c19ExStages → ∃ env raw, construct env raw = .ok s) ∧ WellKeyed c19ExBuilt = true := by
  refine ⟨fun s hm => ?_, by decide⟩
  rcases List.mem_cons.1 hm with e | hm
  · exact ⟨{}, c19ExDoc1, e ▸ rfl⟩
  · rcases List.mem_cons.1 hm with e | hm
    · exact ⟨{}, c19ExDoc2, e ▸ rfl⟩
    · cases hm
example : reconstructCopy (reduceNode c19ExBuilt) = c19ExBuilt ∧
    reconstructPickle (reduceNode c19ExBuilt) = c19ExBuilt := ⟨rfl, rfl⟩

/-
  Not proved (PARTIAL): that merging / flattening also preserves `WellKeyed` (a hypothesis on the
  result in `C19_merged_copy_identity` and `C19_built_copy_identity`; it is the C17 invariant of
  `_children`).  Object identity ("shares no node") is outside the value model and is checked on the
  implementation only.
-/

end AY
