/-
  AY.Props.C19 — deepcopy and pickle reproduce any node tree, independent of the original.

  Property text: "a deep copy or pickle round-trip of any node tree is a distinct tree of the same
  node kinds with equal content, priorities, safety, targets/reference points and metadata, which
  merges and evaluates exactly like the original; the copy shares no node with the original."

  Model: AY.Model.Copy (`reduceNode` = `__reduce__`, `reconstructCopy` = copy._reconstruct order
  (state, then items through `append`/`__setitem__`, i.e. re-adoption under the restored flags),
  `reconstructPickle` = pickle order (items through `extend`/`__setitem__` while the object has no
  `_delete` attribute, then BUILD)).  `Node` is a pure value, so "equal content, priorities, safety,
  targets, metadata" and "merges and evaluates exactly like the original" are all consequences of
  the equation `reconstruct… (reduceNode n) = n`; "shares no node" is object identity and is checked
  on the implementation (harness/props/c19.py: id-disjointness, mutate-one-compare-other).

  What is proved (PARTIAL with respect to the property text, see the end of the file):
    * C19_deepcopy_identity / C19_pickle_identity: the equation, for every tree whose inherited
      flags are consistent (`FlagsConsistent`) and whose child maps are well-keyed (`WellKeyed`, the
      C17 invariant);  C19_deepcopy_identity_iff: for deepcopy the hypothesis is also necessary;
    * C19_construct_consistent: every tree produced by the loader, over the FULL tag vocabulary of
      `Raw` (merge-control tags, metadata, every node kind), is `FlagsConsistent`;
    * C19_merge_inconsistent_counterexample: merging does NOT preserve `FlagsConsistent` — the
      copy of a merged tree can differ from the merged tree (a finding, replayed on the code).
  Only property theorems live here; lemmas are in AY.Lemmas.C19Lemmas.
-/
import AY.Lemmas.C19Lemmas
import AY.Model.Build
namespace AY

/-! ### Concrete trees used by the non-vacuity examples -/

/-- `a: !merge [[1], {x: [2]}]`, `b: !unsafe {c: !call:rec.f {z: 1}}` (the D13 witness plus an unsafe
    function node) as a representation tree -/
def c19ExRaw : Raw :=
  .map .none {} [
    (.str "a", .seq .plain { del := some false } [
      .seq .none {} [.scalar .none {} (.lit (.int 1))],
      .map .none {} [(.str "x", .seq .none {} [.scalar .none {} (.lit (.int 2))])]]),
    (.str "b", .map .plain { safe := some false } [
      (.str "c", .map (.call "rec.f") {} [(.str "z", .scalar .none {} (.lit (.int 1)))])])]

/-- the tree the loader builds from `c19ExRaw` -/
def c19ExTree : Node :=
  match construct {} c19ExRaw with
  | .ok n => n
  | .error _ => .leaf {} .required

/-- `a: !force {x: 1}` -/
def c19ExOlder : Raw :=
  .map .none {} [(.str "a", .map .plain { prio := some 1 } [(.str "x", .scalar .none {} (.lit (.int 1)))])]
/-- `a: !unsafe {}` -/
def c19ExNewer : Raw :=
  .map .none {} [(.str "a", .map .plain { safe := some false } [])]

/-- the merged tree of `a: !force {x: 1}` ← `a: !unsafe {}` -/
def c19ExMerged : Node :=
  match construct {} c19ExOlder, construct {} c19ExNewer with
  | .ok a, .ok b =>
    match merge a b with
    | .ok m => m
    | .error _ => .leaf {} .required
  | _, _ => .leaf {} .required

/-! ### deepcopy -/

/- "a deep copy … of any node tree is a … tree of the same node kinds with equal content,
   priorities, safety, targets/reference points and metadata": `copy.deepcopy` restores the state
   and then re-attaches every child through `append` / `__setitem__`, which re-derives the child's
   inherited flags from the restored parent. The result is the original exactly when those
   inherited flags were what the parent prescribes (`FlagsConsistent`; an inherited `safe=False`
   may be "sticky": `childFlagsOK`). Holds for trees of any shape, depth and node kinds. -/
theorem C19_deepcopy_identity (n : Node) (hc : FlagsConsistent n = true) (hw : WellKeyed n = true) :
    reconstructCopy (reduceNode n) = n :=
  copy_id n hc hw

example : FlagsConsistent c19ExTree = true ∧ WellKeyed c19ExTree = true := by decide
example : reconstructCopy (reduceNode c19ExTree) = c19ExTree := C19_deepcopy_identity _ (by decide) (by decide)

/- The hypothesis is exactly right: a deep copy is ALWAYS consistent, so the copy equals the
   original if and only if the original was. -/
theorem C19_deepcopy_consistent (n : Node) : FlagsConsistent (reconstructCopy (reduceNode n)) = true :=
  reconstructCopy_cons _

theorem C19_deepcopy_identity_iff (n : Node) (hw : WellKeyed n = true) :
    reconstructCopy (reduceNode n) = n ↔ FlagsConsistent n = true :=
  ⟨fun h => by have := C19_deepcopy_consistent n; rwa [h] at this, fun hc => copy_id n hc hw⟩

example : FlagsConsistent (reconstructCopy (reduceNode c19ExMerged)) = true := C19_deepcopy_consistent _

/-! ### pickle -/

/- "… or pickle round-trip …": pickle attaches the children BEFORE the state exists, so the parent
   writes nothing into them (`_get_child_kwargs() == {}`) — but `set_child` still runs
   `child._propagate_implicit_values()` on the (complete) child. Hence the root's children are
   taken as they are and only the levels below them must be consistent (`ConsistentBelow`).
   The theorem is stated with the weaker hypothesis; `FlagsConsistent` implies it. -/
theorem C19_pickle_identity_below (n : Node) (hc : ConsistentBelow n = true) (hw : WellKeyed n = true) :
    reconstructPickle (reduceNode n) = n :=
  pickle_id n hc hw

theorem C19_pickle_identity (n : Node) (hc : FlagsConsistent n = true) (hw : WellKeyed n = true) :
    reconstructPickle (reduceNode n) = n :=
  pickle_id n (consistentBelow_of_consistent hc) hw

example : reconstructPickle (reduceNode c19ExTree) = c19ExTree := C19_pickle_identity _ (by decide) (by decide)

/- copy and pickle agree with each other on consistent trees (and both with the original) -/
theorem C19_copy_eq_pickle (n : Node) (hc : FlagsConsistent n = true) (hw : WellKeyed n = true) :
    reconstructCopy (reduceNode n) = reconstructPickle (reduceNode n) := by
  rw [C19_deepcopy_identity n hc hw, C19_pickle_identity n hc hw]

/-! ### the loader establishes the hypothesis -/

/- Every tree built by `yaml.parse` is `FlagsConsistent`: for EVERY representation tree over the full
   tag vocabulary of `Raw` (the seven merge-control tags and `!metadata`, `!null`, `!xref`, `!prev`,
   `!eval`, `!fstr`, `!import`, `!required`, `!clear`, `!append`, `!extend`, `!call`, `!bind`, `!path`,
   `!include`), any nesting, both construction modes of the loader, any per-source defaults. -/
theorem C19_construct_consistent (env : Env) (r : Raw) (n : Node) (h : construct env r = .ok n) :
    FlagsConsistent n = true :=
  (constructTD_cons env none r n h).1

example : construct {} c19ExRaw = .ok c19ExTree := rfl
example : FlagsConsistent c19ExTree = true := C19_construct_consistent {} c19ExRaw _ rfl

/-! ### merging does not (finding) -/

/- `C19_merge_consistent` ("the merge of consistent trees is consistent") is FALSE of the faithful
   model and of the code: when the older node outranks the newer one, `_replace_other` copies the
   newer node's `safe=False` into the surviving node WITHOUT re-propagating it to the children
   (`_replace_self` does propagate). Witness: `a: !force {x: 1}` ← `a: !unsafe {}` — in the merged
   tree `a` is unsafe while `a.x` still counts as safe; in a deep copy (what `Config` evaluates)
   `a.x` is unsafe. Both inputs are consistent, the output is not, and copy ≠ original. -/
theorem C19_merge_inconsistent_counterexample :
    ∃ a b m, FlagsConsistent a = true ∧ FlagsConsistent b = true ∧ WellKeyed m = true ∧
      merge a b = .ok m ∧ FlagsConsistent m = false ∧ reconstructCopy (reduceNode m) ≠ m := by
  refine ⟨(match construct {} c19ExOlder with | .ok a => a | .error _ => .leaf {} .required),
          (match construct {} c19ExNewer with | .ok b => b | .error _ => .leaf {} .required),
          c19ExMerged, by decide, by decide, by decide, rfl, by decide, fun h => ?_⟩
  have hc := C19_deepcopy_consistent c19ExMerged
  rw [h] at hc
  exact absurd hc (by decide)

/- what differs: the effective safety of `a.x` (true in the merged original, false in its copy) -/
example : (getNode c19ExMerged [.str "a", .str "x"]).map (fun n => eSafe n.flags) = some true := by decide
example : (getNode (reconstructCopy (reduceNode c19ExMerged)) [.str "a", .str "x"]).map (fun n => eSafe n.flags)
    = some false := by decide

/-
  Not proved (PARTIAL): `C19_merge_consistent` for the sub-domain without safety marks (no `!unsafe`,
  all sources safe) — on 30 000 generated merge sequences the implementation's merged trees are
  copy-invariant whenever the mechanism above is absent, but the invariant proof through `mergeF`
  (pre-filter, pruning, promotion, re-adoption on list deletion) is not done.  Object identity
  ("shares no node") is outside the value model and is checked on the implementation only.
-/

end AY
