/-
  AY.Props.C09_Built — property C09 for every tree a Builder produces: the hypothesis `uniqueKeys root`
  of the whole-build theorem `C09_alias_evaluate` is discharged for `root = Builder.flatten(stages)`
  with stages parsed from documents without duplicate sibling keys (`KI.rawKeyed`, full tag
  vocabulary).  Lemmas: AY/Lemmas/KeyInv*.lean, AY/Lemmas/KeyInvariants.lean.
-/
import AY.Props.C09
import AY.Lemmas.KeyInvariants
namespace AY

/-- `{a: !xref b, b: !xref c, c: [1, !xref "c[0]"]}` and a second stage `{d: !xref a, c: !append [2]}` -/
def c09BuiltDoc1 : Raw :=
  .map .none {} [
    (.str "a", .scalar .xref {} (.text "b")),
    (.str "b", .scalar .xref {} (.text "c")),
    (.str "c", .seq .none {} [.scalar .none {} (.lit (.int 1)), .scalar .xref {} (.text "c[0]")])]
def c09BuiltDoc2 : Raw :=
  .map .none {} [(.str "d", .scalar .xref {} (.text "a")),
    (.str "c", .seq .append {} [.scalar .none {} (.lit (.int 2))])]
def c09BuiltStages : List Node :=
  [match construct {} c09BuiltDoc1 with | .ok n => n | .error _ => .leaf {} .required,
   match construct {} c09BuiltDoc2 with | .ok n => n | .error _ => .leaf {} .required]
def c09BuiltRoot : Node := match flatten c09BuiltStages with | .ok r => r | .error _ => .leaf {} .required

/- The whole-build statement of C09 for a real build: `root` is what `Builder.flatten` returns for
   stages the loader built from documents without duplicate sibling keys; after a successful
   evaluation EVERY reference node of `root` holds the very value memoised for the node its chain of
   references ends in, and that node is not a reference.  No hypothesis on the shape of `root` is left. -/
theorem C09_alias_evaluate_built (w : World) (stages : List Node) (root : Node) (v : Val) (st : EvSt)
    (hs : ∀ s, s ∈ stages → ∃ env raw, KI.rawKeyed raw = true ∧ construct env raw = .ok s)
    (hf : flatten stages = .ok root) (h : evaluate w root = .ok (v, st))
    (p : Path) (f : Flags) (t : String) (hm : getNode root p = some (.leaf f (.xref t))) :
    ∃ a fuel tp m, plookup p st.cache = some a ∧ xrefResolve root fuel t = some tp ∧
      getNode root tp = some m ∧ (∀ f' t', m ≠ .leaf f' (.xref t')) ∧ plookup tp st.cache = some a :=
  C09_alias_evaluate w root v st (built_uniqueKeys hs hf) h p f t hm

example : flatten c09BuiltStages = .ok c09BuiltRoot := rfl
example : ∃ v st, evaluate {} c09BuiltRoot = .ok (v, st) := ⟨_, _, rfl⟩
example : ∃ f, getNode c09BuiltRoot [.str "d"] = some (.leaf f (.xref "a")) ∧
    xrefResolve c09BuiltRoot 4 "a" = some [.str "c"] := ⟨_, rfl, rfl⟩
example : ∀ v st, evaluate {} c09BuiltRoot = .ok (v, st) →
    ∃ a fuel tp m, plookup [.str "d"] st.cache = some a ∧ xrefResolve c09BuiltRoot fuel "a" = some tp ∧
      getNode c09BuiltRoot tp = some m ∧ (∀ f' t', m ≠ .leaf f' (.xref t')) ∧ plookup tp st.cache = some a :=
  fun v st h => C09_alias_evaluate_built {} c09BuiltStages c09BuiltRoot v st
    (fun s hm => by
      rcases List.mem_cons.1 hm with e | hm
      · exact ⟨{}, c09BuiltDoc1, by decide, e ▸ rfl⟩
      · rcases List.mem_cons.1 hm with e | hm
        · exact ⟨{}, c09BuiltDoc2, by decide, e ▸ rfl⟩
        · cases hm)
    rfl h [.str "d"] _ "a" rfl

end AY
