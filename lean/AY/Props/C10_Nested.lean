/-
  AY.Props.C10_Nested — "the evaluated config does not depend on the order in which keys are
  written in the documents", for the keys of *any* mapping of the tree, at any depth
  (`C10_Outcome` treats the root mapping).

  * `PermTree t t'` (AY.Lemmas.OutcomeNestedDefs): `t'` is `t` with the entries of some `.dict`
    mappings — at any depth, also below lists and below the arguments of `!call` / `!bind` — written
    in a different order. Lists keep their order. The arguments of a `!call` / `!bind` keep their order
    too: it is observable (`C10_call_argument_order_observable`: the callee sees `**kwargs` in the
    order written), hence part of the evaluated config.
  * `PermVal v v'`: `v'` is `v` with the items of some dicts — at any depth, also inside the argument
    records of `app` / `part` values, inside lists and tuples — in a different order; object ids
    (paths) are equal.
-/
import AY.Props.C10_Outcome
import AY.Lemmas.OutcomeNestedEx
namespace AY

/-! ### The strict denotation does not depend on the order of the keys of any mapping -/

/- "the evaluated config does not depend on the order in which keys are written …", at the level of
   the denotation: in two trees (pairwise distinct keys) that differ only in the order of the entries
   of mappings, related nodes have strict denotations of the same rank and with related values — in
   strict and in non-strict mode. -/
theorem C10_denotation_any_mapping_order (w : World) (t t' : Node) (h : PermTree t t')
    (huk : uniqueKeys t = true) (huk' : uniqueKeys t' = true) (f : Nat) (rs : Bool) (n n' : Node)
    (p : Path) (v : Val) (hn : PermTree n n') (hv : sden t w f rs n p = some v) :
    ∃ v', sden t' w f rs n' p = some v' ∧ PermVal v v' :=
  sden_permTree h huk huk' w f rs p hn hv

/- the nested mapping `a.x`, evaluated strictly (as the argument of the call) in both trees -/
example : PermTree c10NestTree c10NestTree' ∧ uniqueKeys c10NestTree = true ∧
    uniqueKeys c10NestTree' = true ∧
    sden c10NestTree c10ExWorld 3 true
      (.comp {} .dict [(.str "p", .leaf {} (.scalar (.int 1))), (.str "q", .leaf {} (.xref "a.y"))])
      [.str "a", .str "x"] =
      some (.dict [.str "a", .str "x"] [(.str "p", .scalar (.int 1)), (.str "q", .scalar (.int 2))]) ∧
    sden c10NestTree' c10ExWorld 3 true
      (.comp {} .dict [(.str "q", .leaf {} (.xref "a.y")), (.str "p", .leaf {} (.scalar (.int 1)))])
      [.str "a", .str "x"] =
      some (.dict [.str "a", .str "x"] [(.str "q", .scalar (.int 2)), (.str "p", .scalar (.int 1))]) :=
  ⟨c10NestTree_perm, rfl, rfl, rfl, rfl⟩

/-! ### Key order at any depth -/

/- "the evaluated config does not depend on the order in which keys are written in the documents":
   let `t'` be `t` with the entries of any of its mappings, at any depth, written in another order
   (`PermTree t t'`, both trees with pairwise distinct keys). Either both builds fail, or both succeed
   and the values are equal up to the order of the items of dicts (`PermVal`: same object ids, also
   inside the argument records of the results of calls), the execution logs are permutations of each
   other (the same dynamic nodes ran, each exactly once) and the same paths are tainted. -/
theorem C10_any_mapping_order (w : World) (t t' : Node) (h : PermTree t t')
    (huk : uniqueKeys t = true) (huk' : uniqueKeys t' = true) :
    ((∃ e, evaluate w t = .error e) ∧ (∃ e', evaluate w t' = .error e')) ∨
    (∃ v v' st st', evaluate w t = .ok (v, st) ∧ evaluate w t' = .ok (v', st') ∧ PermVal v v' ∧
      st'.log.Perm st.log ∧ ∀ p, p ∈ st'.tainted ↔ p ∈ st.tainted) := by
  cases he : evaluate w t with
  | error e =>
    cases he' : evaluate w t' with
    | error e' => exact .inl ⟨⟨e, rfl⟩, ⟨e', rfl⟩⟩
    | ok r' =>
      obtain ⟨v, st, hv, _⟩ := evaluate_permTree_ok (PermTree.symm _ _ h) huk' huk (v := r'.1) (st := r'.2) he'
      rw [he] at hv; cases hv
  | ok r =>
    obtain ⟨v, st⟩ := r
    obtain ⟨v', st', he', hpv⟩ := evaluate_permTree_ok h huk huk' he
    exact .inr ⟨v, v', st, st', rfl, he', hpv, evaluate_permTree_log h huk huk' he he',
      evaluate_permTree_tainted h huk huk' he he'⟩

/- the second alternative: both trees build; the call `c` received the mapping `a.x` with its items in
   the order written (`p, q` — `q, p`), the reference `r` holds the same record; one execution -/
example : PermTree c10NestTree c10NestTree' ∧ uniqueKeys c10NestTree = true ∧
    uniqueKeys c10NestTree' = true ∧
    ∃ items items' st st',
      evaluate c10ExWorld c10NestTree = .ok (.dict [] items, st) ∧
      evaluate c10ExWorld c10NestTree' = .ok (.dict [] items', st') ∧
      alookup (.str "r") items = some (.app [.str "c"] "f" [("a", .dict [.str "a", .str "x"]
        [(.str "p", .scalar (.int 1)), (.str "q", .scalar (.int 2))])] [] []) ∧
      alookup (.str "r") items' = some (.app [.str "c"] "f" [("a", .dict [.str "a", .str "x"]
        [(.str "q", .scalar (.int 2)), (.str "p", .scalar (.int 1))])] [] []) ∧
      st.log.map (·.path) = [[.str "c"]] ∧ st'.log.map (·.path) = [[.str "c"]] ∧
      st.tainted = [[], [.str "u"]] ∧ st'.tainted = [[], [.str "u"]] :=
  ⟨c10NestTree_perm, rfl, rfl, _, _, _, _, rfl, rfl, rfl, rfl, rfl, rfl, rfl, rfl⟩

/- the first alternative: with a `!call` consuming the unsafe scalar both trees fail -/
example : PermTree (.comp {} .dict [(.str "a", c10NestA), c10NestBad, (.str "u", .leaf { safe := some false } (.scalar (.str "s")))])
      (.comp {} .dict [(.str "a", c10NestA'), c10NestBad, (.str "u", .leaf { safe := some false } (.scalar (.str "s")))]) ∧
    (∃ e, evaluate c10ExWorld (.comp {} .dict [(.str "a", c10NestA), c10NestBad,
      (.str "u", .leaf { safe := some false } (.scalar (.str "s")))]) = .error e) ∧
    (∃ e', evaluate c10ExWorld (.comp {} .dict [(.str "a", c10NestA'), c10NestBad,
      (.str "u", .leaf { safe := some false } (.scalar (.str "s")))]) = .error e') :=
  ⟨.comp {} .dict (.cons c10NestA_perm (PermTree.refl_kids _)), ⟨_, rfl⟩, ⟨_, rfl⟩⟩

/- "the evaluated config does not depend on the order in which keys are written in the documents",
   outcome alone: one tree builds iff the other does -/
theorem C10_any_mapping_order_outcome (w : World) (t t' : Node) (h : PermTree t t')
    (huk : uniqueKeys t = true) (huk' : uniqueKeys t' = true) :
    (∃ v st, evaluate w t = .ok (v, st)) ↔ (∃ v' st', evaluate w t' = .ok (v', st')) :=
  ⟨fun ⟨_, _, he⟩ => (evaluate_permTree_ok h huk huk' he).imp fun _ h1 => h1.imp fun _ h2 => h2.1,
   fun ⟨_, _, he⟩ => (evaluate_permTree_ok (PermTree.symm _ _ h) huk' huk he).imp
     fun _ h1 => h1.imp fun _ h2 => h2.1⟩

example : (∃ v st, evaluate c10ExWorld c10NestTree = .ok (v, st)) ∧
    (∃ v' st', evaluate c10ExWorld c10NestTree' = .ok (v', st')) := ⟨⟨_, _, rfl⟩, ⟨_, _, rfl⟩⟩

/- the root mapping is one of the mappings: `C10_key_order_full` is the instance for a permutation
   of the root's children (there the values of the entries are equal, not only related) -/
theorem C10_root_order_is_mapping_order (fl : Flags) (cs cs' : List (Key × Node)) (hperm : cs'.Perm cs) :
    PermTree (.comp fl .dict cs) (.comp fl .dict cs') :=
  .dict fl (PermTree.refl_kids cs) hperm.symm

example : PermTree c10OutTree c10OutTreeP :=
  C10_root_order_is_mapping_order {} _ _ (List.reverse_perm _)

/-! ### Why the arguments of a call are not included -/

/- The order in which the keyword arguments of a `!call` are written is *not* a matter of layout: the
   callee receives `**kwargs` in that order (the `varkw` component of the `app` record). Two trees
   that differ only in the order of the arguments of a call build to different values. -/
theorem C10_call_argument_order_observable :
    ∃ (w : World) (st st' : EvSt),
      evaluate w (.comp {} .dict [(.str "c", .comp {} (.call "f")
        [(.str "x", .leaf {} (.scalar (.int 1))), (.str "y", .leaf {} (.scalar (.int 2)))])]) =
        .ok (.dict [] [(.str "c", .app [.str "c"] "f" [] [] [("x", .scalar (.int 1)), ("y", .scalar (.int 2))])], st) ∧
      evaluate w (.comp {} .dict [(.str "c", .comp {} (.call "f")
        [(.str "y", .leaf {} (.scalar (.int 2))), (.str "x", .leaf {} (.scalar (.int 1)))])]) =
        .ok (.dict [] [(.str "c", .app [.str "c"] "f" [] [] [("y", .scalar (.int 2)), ("x", .scalar (.int 1))])], st') :=
  ⟨{ sigs := [("f", [{ name := "kw", kind := .varKw }])] }, _, _, rfl, rfl⟩

end AY
