/-
  C18 (continued) — dump then parse on the merge-control vocabulary, up to EFFECTIVE flags.

  Property text: "Writing any parsed document with the library's dump and parsing the text back
  yields a document that is interchangeable with the original: substituted at any position of a
  merge sequence it produces the same merged config, it evaluates to the same value, and it carries
  the same user metadata. Dumping the re-parsed document produces the same text again."

  `C18_roundtrip_partial` (AY/Props/C18.lean) covers tag-free documents, where dump ∘ parse is the
  identity.  With merge-control tags it is not: the dumper drops an explicit `delete / allow_new /
  safe / priority` that equals the value on its stack of enclosing dumped nodes, and the re-parsed
  node re-inherits it.  Here: for documents over the merge-control vocabulary (`rawMC`: mappings
  with distinct keys, lists, scalars; tags none or a merge-control tag with ANY of the keywords
  `priority / delete / allow_new / safe` and metadata), under the decidable hypothesis
  `noExplicitDefault n` on the parsed tree, the dump re-parses to a tree with the same kinds, keys,
  scalar content, user metadata and the same EFFECTIVE `priority / delete / allow_new / safe` at
  every node (`effEq`) — more precisely to the original tree with some explicit flags removed where
  they repeat the inherited value (`simN`) — and dumping the re-parsed tree gives the same dump.

  `noExplicitDefault n` (`nedWith {} n`, AY/Lemmas/C18Effective.lean) says, at every node:
    (1) no explicit flag equals its default: `priority` ≠ default priority, `delete` ≠ class default,
        `allow_new` ≠ True, `safe` ≠ True and `safe` ≠ the source-level flag
        — negation: findings D17a, D17g (delete / allow_new), D17f (safe; an explicit `safe = True` that
          differs from the source flag, formerly D17j, now round-trips — `C18_safe_tag_roundtrip` —
          but stays outside this sufficient hypothesis);
    (2) a `delete / allow_new / safe` value on the dumper's stack at that node is the value the node
        inherits — this can only fail below a container whose single kept flag is written as a
        simple tag (`!merge`, `!del`, `!new`, …: the entry is removed before the stack push) and
        contradicts the stack: a mechanism NOT among the recorded findings, proved on a witness
        below (`C18_shortcut_tag_stack_counterexample`) and replayed on the implementation.
  The hypothesis is sufficient, not necessary ((1) also excludes harmless cases such as an explicit
  `priority = 0`).
  Definitions and proofs: AY/Lemmas/C18Build.lean (closed form `build` of the loader),
  AY/Lemmas/C18Effective.lean (`nedWith`, `simN`, `effEq`, the induction `rt_build`).
-/
import AY.Props.C18
import AY.Lemmas.C18Effective
namespace AY

/-! ### Concrete documents used by the examples -/

/-- `!metadata{{delete: True, priority: 1}} {a: !del {x: 1}, b: [!unsafe 2, ~], c: !notnew {{m: 1}} {y: !new z}}` -/
def c18ExEff : Raw :=
  .map .plain { del := some true, prio := some 1 } [
    (.str "a", .map .plain { del := some true } [(.str "x", .scalar .none {} (.lit (.int 1)))]),
    (.str "b", .seq .none {} [.scalar .plain { safe := some false } (.lit (.int 2)), .scalar .none {} (.lit .null)]),
    (.str "c", .map .plain { new := some false, md := [("m", .int 1)] } [
      (.str "y", .scalar .plain { new := some false } (.text "z"))])]

/-- `!metadata{{delete: True, priority: 1}} {b: !merge [!del 5]}` -/
def c18ExShortcut : Raw :=
  .map .plain { del := some true, prio := some 1 } [
    (.str "b", .seq .plain { del := some false } [.scalar .plain { del := some true } (.lit (.int 5))])]

/-- `!force {a: {{k: v}} [1, !weak 2], b: !force ~}`: priority and metadata only -/
def c18ExPrioMd : Raw :=
  .map .plain { prio := some 1 } [
    (.str "a", .seq .plain { md := [("k", .str "v")] } [
      .scalar .none {} (.lit (.int 1)), .scalar .plain { prio := some (-1) } (.lit (.int 2))]),
    (.str "b", .scalar .plain { prio := some 1 } (.lit .null))]

/-! ### the round trip up to effective flags -/

/- "Writing any parsed document with the library's dump and parsing the text back yields a document
   that is interchangeable with the original … it carries the same user metadata" — for every
   document `r` over the merge-control vocabulary whose parsed tree `n` satisfies
   `noExplicitDefault`, the dump succeeds, re-parses (same parse context), and the re-parsed tree
   `n'` has the same node kinds, keys, key order, scalar content and user metadata as `n` and the
   same effective `priority`, `delete`, `allow_new` and `safe` at every node (`effEq`); moreover `n'`
   is `n` with explicit `delete / allow_new / safe` removed only where they repeat the inherited
   value (`simN`: all raw priorities, inherited flags, source flags, metadata are identical). -/
theorem C18_roundtrip_effective_partial (env : Env) (r : Raw) (n : Node) (hv : rawMC r = true)
    (hc : construct env r = .ok n) (hned : noExplicitDefault n = true) :
    ∃ r' n', represent n = .ok r' ∧ construct env r' = .ok n' ∧ effEq n n' = true ∧ simN n n' = true := by
  rw [construct_build env r hv] at hc
  cases hc
  obtain ⟨r', h1, h2, h3, _⟩ := rt_build env r ctx0 {} hv (fun q hq => by cases hq) hned
  exact ⟨r', build env ctx0 r', h1, construct_build env r' h2, effEq_of_simN _ _ h3, h3⟩

example : rawMC c18ExEff = true ∧ noExplicitDefault (okOr (construct {} c18ExEff)) = true := by decide
example := C18_roundtrip_effective_partial {} c18ExEff _ (by decide) rfl (by decide)
-- the statement is genuinely "up to": `a: !del` repeats the `delete` of the root, is not written, and the
-- re-parsed `a` has no explicit `delete` while its effective `delete` is unchanged
example : (getNode (okOr (construct {} c18ExEff)) [.str "a"]).map (fun m => (m.flags.del, eDel m)) = some (some true, true) ∧
    (getNode (reparsed c18ExEff) [.str "a"]).map (fun m => (m.flags.del, eDel m)) = some (none, true) ∧
    effEq (okOr (construct {} c18ExEff)) (reparsed c18ExEff) = true := by
  refine ⟨by decide, by decide, by decide⟩

/- "Dumping the re-parsed document produces the same text again." — under the same hypotheses the
   re-parsed tree dumps to the same representation tree. -/
theorem C18_dump_fixpoint_effective_partial (env : Env) (r : Raw) (n : Node) (hv : rawMC r = true)
    (hc : construct env r = .ok n) (hned : noExplicitDefault n = true) :
    ∃ r' n', represent n = .ok r' ∧ construct env r' = .ok n' ∧ represent n' = .ok r' := by
  rw [construct_build env r hv] at hc
  cases hc
  obtain ⟨r', h1, h2, _, h4⟩ := rt_build env r ctx0 {} hv (fun q hq => by cases hq) hned
  exact ⟨r', build env ctx0 r', h1, construct_build env r' h2, h4⟩

example := C18_dump_fixpoint_effective_partial {} c18ExEff _ (by decide) rfl (by decide)
example : represent (reparsed c18ExEff) = represent (okOr (construct {} c18ExEff)) ∧
    (represent (reparsed c18ExEff)).toBool = true := ⟨rfl, by decide⟩

/- What `effEq` gives at a node: equal kind / scalar content, equal user metadata and equal effective
   flags (the relation is checked recursively over equal key lists). -/
theorem C18_effEq_node (n n' : Node) (h : effEq n n' = true) :
    n.isComp = n'.isComp ∧ ePrio n.flags = ePrio n'.flags ∧ eDel n = eDel n' ∧
    eNew n.flags = eNew n'.flags ∧ eSafe n.flags = eSafe n'.flags ∧ n.flags.md = n'.flags.md ∧
    n.children.map (·.1) = n'.children.map (·.1) ∧
    (∀ f k, n = .leaf f k → ∃ f', n' = .leaf f' k) := by
  have keys : ∀ (l l' : List (Key × Node)), effEqL l l' = true → l.map (·.1) = l'.map (·.1) := by
    intro l
    induction l with
    | nil => intro l' hl; cases l' with
      | nil => rfl
      | cons a b => simp [effEqL] at hl
    | cons a rest ih => intro l' hl; cases l' with
      | nil => simp [effEqL] at hl
      | cons b rest' =>
        simp only [effEqL, Bool.and_eq_true, beq_iff_eq] at hl
        simp [hl.1.1, ih rest' hl.2]
  cases n with
  | leaf f k =>
    cases n' with
    | comp f' k' cs' => simp [effEq] at h
    | leaf f' k' =>
      simp only [effEq, Bool.and_eq_true, beq_iff_eq] at h
      obtain ⟨rfl, he⟩ := h
      simp only [effF, Bool.and_eq_true, beq_iff_eq] at he
      exact ⟨rfl, he.1.1.1.1, he.1.1.1.2, he.1.1.2, he.1.2, he.2, rfl,
        fun g k' e => by cases e; exact ⟨f', rfl⟩⟩
  | comp f k cs =>
    cases n' with
    | leaf f' k' => simp [effEq] at h
    | comp f' k' cs' =>
      simp only [effEq, Bool.and_eq_true, beq_iff_eq] at h
      obtain ⟨⟨rfl, he⟩, hl⟩ := h
      simp only [effF, Bool.and_eq_true, beq_iff_eq] at he
      exact ⟨rfl, he.1.1.1.1, he.1.1.1.2, he.1.1.2, he.1.2, he.2, keys cs cs' hl,
        fun g k' e => by cases e⟩

example : effEq (.leaf { del := some true, iDel := some true } (.scalar (.int 1)))
    (.leaf { iDel := some true } (.scalar (.int 1))) = true := by decide

/-! ### priority and metadata only: dump ∘ parse is the identity -/

/- For documents whose parsed tree carries no explicit `delete / allow_new / safe` (tags `!force`,
   `!weak`, `!metadata{{priority: p}}`, user metadata, on mappings, lists and scalars at any depth,
   nested priority tags included) and no explicit default priority, the re-parsed tree IS the
   original tree: every raw and effective attribute of every node is preserved (the dumped
   document may still differ from the source: a priority is written where it is imposed, an inner
   tag overridden by an outer one is written with the outer priority). -/
theorem C18_roundtrip_prio_md_partial (env : Env) (r : Raw) (n : Node) (hv : rawMC r = true)
    (hc : construct env r = .ok n) (hpm : noDNS n = true) (hned : noExplicitDefault n = true) :
    ∃ r', represent n = .ok r' ∧ construct env r' = .ok n := by
  obtain ⟨r', n', h1, h2, _, h4⟩ := C18_roundtrip_effective_partial env r n hv hc hned
  exact ⟨r', h1, by rw [h2, simN_eq n n' h4 hpm]⟩

example : rawMC c18ExPrioMd = true ∧ noDNS (okOr (construct {} c18ExPrioMd)) = true ∧
    noExplicitDefault (okOr (construct {} c18ExPrioMd)) = true := by decide
example := C18_roundtrip_prio_md_partial {} c18ExPrioMd _ (by decide) rfl (by decide) (by decide)
-- the hypothesis on the default priority is needed for the identity (not for `effEq`):
-- `!metadata{{priority: 0}} 1` is dumped as `1`, the explicit priority 0 becomes "no priority"
example : (okOr (construct {} (.map .none {} [(.str "a", .scalar .plain { prio := some 0 } (.lit (.int 1)))]))).children.map
      (fun kv => kv.2.flags.prio) = [some 0] ∧
    (reparsed (.map .none {} [(.str "a", .scalar .plain { prio := some 0 } (.lit (.int 1)))])).children.map
      (fun kv => kv.2.flags.prio) = [none] := by decide

/-! ### the hypothesis excludes exactly the recorded mechanisms, and one more -/

/- The documents of the recorded findings violate `noExplicitDefault`: D17a (`a: !del []`, explicit
   `delete` equal to the class default) and D17g (`x: !del {a: !merge {p: 1}}`, class default under
   a parent that imposes the opposite). -/
theorem C18_known_findings_excluded :
    noExplicitDefault (okOr (construct {} c18ExDel)) = false ∧
    noExplicitDefault (okOr (construct {} c18ExUnder)) = false := by
  refine ⟨by decide, by decide⟩

/- NEW mechanism (not among D17a–j), replayed on the implementation: a container whose only kept
   flag is written as a simple tag is not pushed on the dumper's stack.  In
   `!metadata{{delete: True, priority: 1}} {b: !merge [!del 5]}` the list `b` is written `!merge`
   (simple tag), the stack below it still says `delete = True` from the root, so the element's
   explicit `!del` is dropped as "inherited" — but the re-parsed element inherits `delete = False`
   from `b`.  Dump: `b: !merge [5]`; the element's effective `delete` changes from True to False.
   No flag equals a type default here: only part (2) of the hypothesis fails. -/
theorem C18_shortcut_tag_stack_counterexample :
    rawMC c18ExShortcut = true ∧
    (getNode (okOr (construct {} c18ExShortcut)) [.str "b", .int 0]).map (fun m => (m.flags.del, eDel m)) =
      some (some true, true) ∧
    (getNode (reparsed c18ExShortcut) [.str "b", .int 0]).map (fun m => (m.flags.del, eDel m)) =
      some (none, false) ∧
    effEq (okOr (construct {} c18ExShortcut)) (reparsed c18ExShortcut) = false ∧
    noExplicitDefault (okOr (construct {} c18ExShortcut)) = false := by
  refine ⟨by decide, by decide, by decide, by decide, by decide⟩

end AY
