/-
  C18 (continued) — dump then parse on the merge-control vocabulary: EVERY document.

  Property text: "Writing any parsed document with the library's dump and parsing the text back
  yields a document that is interchangeable with the original: substituted at any position of a
  merge sequence it produces the same merged config, it evaluates to the same value, and it carries
  the same user metadata. Dumping the re-parsed document produces the same text again."

  Domain (`rawMC`): mappings with distinct keys, lists, scalars; every node untagged or carrying a
  merge-control tag with ANY combination of the keywords `priority / delete / allow_new / safe` and
  user metadata; any nesting; any source flags.  There is no exclusion of "explicit defaults" any more.

  `C18_roundtrip_effective`: the dump of the parsed tree `n` re-parses to a tree `n'` with
    * the same node kinds, keys, key order, scalar content and user metadata,
    * the same EFFECTIVE `priority`, `delete`, `allow_new`, `safe` at every node,
    * the same explicit `delete = True` at every node (it drives the remove-emptied-key idiom),
    * the same hand-down of every container to present and future children (`childKw`: inherited
      delete and safe equal, inherited allow_new equal up to "explicit default vs. nothing")
    (`effEq`); more precisely `n'` is `n` up to the following raw fields (`simN`, `C18_simN_node`):
      - `_priority`:            the default priority may have become None;
      - `_implicit_allow_new`:  the default (True) may have become None;
      - `_delete`:              an explicit False may have become None where the node inherits False
                                (from an enclosing node that states it; for a scalar also from nothing);
      - `_allow_new`:           an explicit value equal to the effective inherited one may have become None;
      - `_safe`:                an explicit value may have become None where the inherited `safe` is False
                                or equals it;
    everything else (`_implicit_delete`, `_implicit_safe`, `_default_safe`, source file, metadata,
    children) is identical.
  `C18_dump_fixpoint_effective`: the re-parsed tree dumps to the same representation tree.

  No side condition is left: the dumper records on its stack, for `delete`, what every container hands
  down (explicit, inherited, or the class default of lists and function nodes), so an explicit `!merge`
  is dropped only where the node really inherits False.  The witnesses of the two last defects
  (`a: [!merge 5]`; `x: !merge {f: !call:rec.f {b: !merge {c: 1}}}`) round-trip
  (`C18_merge_scalar_in_list_kept`, `C18_merge_below_function_node_kept`).
  Definitions and proofs: AY/Lemmas/C18Build.lean (closed form `build` of the loader),
  AY/Lemmas/C18Effective.lean (`Inv`, `rc`, `simN`, `effEq`, the induction `rt_build`).
-/
import AY.Props.C18
import AY.Lemmas.C18Effective
namespace AY

/-! ### Concrete documents used by the examples -/

/-- `!metadata{{delete: True, priority: 1}} {a: !del {x: 1}, b: [!unsafe 2, ~], c: !notnew {{m: 1}} {y: !notnew z}}` -/
def c18ExEff : Raw :=
  .map .plain { del := some true, prio := some 1 } [
    (.str "a", .map .plain { del := some true } [(.str "x", .scalar .none {} (.lit (.int 1)))]),
    (.str "b", .seq .none {} [.scalar .plain { safe := some false } (.lit (.int 2)), .scalar .none {} (.lit .null)]),
    (.str "c", .map .plain { new := some false, md := [("m", .int 1)] } [
      (.str "y", .scalar .plain { new := some false } (.text "z"))])]

/-- `d: !metadata{{priority: 0, allow_new: True, delete: False}} [!merge {p: !new 1}]` -/
def c18ExEff2 : Raw :=
  .map .none {} [
    (.str "d", .seq .plain { prio := some 0, new := some true, del := some false } [
      .map .plain { del := some false } [(.str "p", .scalar .plain { new := some true } (.lit (.int 1)))]])]

/-- `e: !unsafe {f: !safe {g: !unsafe 1}}` -/
def c18ExEff3 : Raw :=
  .map .none {} [
    (.str "e", .map .plain { safe := some false } [
      (.str "f", .map .plain { safe := some true } [(.str "g", .scalar .plain { safe := some false } (.lit (.int 1)))])])]

/-- `!metadata{{delete: True, priority: 1}} {b: !merge [!del 5]}` (the witness of the former finding D17k) -/
def c18ExShortcut : Raw :=
  .map .plain { del := some true, prio := some 1 } [
    (.str "b", .seq .plain { del := some false } [.scalar .plain { del := some true } (.lit (.int 5))])]

/-- `{a: !metadata{{priority: 0}} {b: !force 1}, c: !new 2, d: !merge 3}`: explicit defaults -/
def c18ExDefaults : Raw :=
  .map .none {} [
    (.str "a", .map .plain { prio := some 0 } [(.str "b", .scalar .plain { prio := some 1 } (.lit (.int 1)))]),
    (.str "c", .scalar .plain { new := some true } (.lit (.int 2))),
    (.str "d", .scalar .plain { del := some false } (.lit (.int 3)))]

/-- `a: [!merge 5]` -/
def c18ExMergeInList : Raw :=
  .map .none {} [(.str "a", .seq .none {} [.scalar .plain { del := some false } (.lit (.int 5))])]

/-! ### the round trip up to redundant explicit flags -/

/- "Writing any parsed document with the library's dump and parsing the text back yields a document
   that is interchangeable with the original … it carries the same user metadata" — for EVERY document
   `r` over the merge-control vocabulary the dump re-parses in the
   same parse context, and the re-parsed tree `n'` is related to the parsed tree `n` by `simN`
   (identical up to the raw fields listed in the header) and hence by `effEq` (same kinds, keys,
   scalars, metadata, effective priority / delete / allow_new / safe, explicit delete = True, and
   hand-down of every container). -/
theorem C18_roundtrip_effective (env : Env) (r : Raw) (n : Node) (hv : rawMC r = true)
    (hc : construct env r = .ok n) :
    ∃ n', construct env (represent n) = .ok n' ∧ simN n n' = true ∧ effEq n n' = true := by
  rw [construct_build env r hv] at hc
  cases hc
  obtain ⟨h2, h3, _⟩ := rt_build env r ctx0 {} hv inv_top
  exact ⟨build env ctx0 (represent (build env ctx0 r)), construct_build env _ h2, h3, effEq_of_simN _ _ h3⟩

example : rawMC c18ExEff = true := rfl
example := C18_roundtrip_effective {} c18ExEff _ rfl rfl
-- the statement is genuinely "up to": `a: !del` is kept (explicit True always is), but `c.y: !notnew`
-- repeats what `c` states, is not written, and the re-parsed `c.y` has no explicit `allow_new`
example : (getNode (okOr (construct {} c18ExEff)) [.str "c", .str "y"]).map (fun m => m.flags.new) = some (some false) ∧
    (getNode (reparsed c18ExEff) [.str "c", .str "y"]).map (fun m => m.flags.new) = some none ∧
    (getNode (reparsed c18ExEff) [.str "a"]).map (fun m => m.flags.del) = some (some true) ∧
    effEq (okOr (construct {} c18ExEff)) (reparsed c18ExEff) = true := by
  refine ⟨rfl, rfl, rfl, rfl⟩
example : rawMC c18ExEff2 = true ∧ effEq (okOr (construct {} c18ExEff2)) (reparsed c18ExEff2) = true ∧
    rawMC c18ExEff3 = true ∧ effEq (okOr (construct {} c18ExEff3)) (reparsed c18ExEff3) = true :=
  ⟨rfl, rfl, rfl, rfl⟩
-- explicit defaults (priority 0 overriding an inner `!force`, `!new`, `!merge` on a scalar outside any list)
example : rawMC c18ExDefaults = true ∧
    effEq (okOr (construct {} c18ExDefaults)) (reparsed c18ExDefaults) = true := ⟨rfl, rfl⟩
example : (getNode (okOr (construct {} c18ExDefaults)) [.str "a", .str "b"]).map (fun m => (m.flags.prio, ePrio m.flags)) = some (some 0, 0) ∧
    (getNode (reparsed c18ExDefaults) [.str "a", .str "b"]).map (fun m => (m.flags.prio, ePrio m.flags)) = some (none, 0) := ⟨rfl, rfl⟩

/- "Dumping the re-parsed document produces the same text again." — for every such document the
   re-parsed tree dumps to the same representation tree. -/
theorem C18_dump_fixpoint_effective (env : Env) (r : Raw) (n : Node) (hv : rawMC r = true)
    (hc : construct env r = .ok n) :
    ∃ n', construct env (represent n) = .ok n' ∧ represent n' = represent n := by
  rw [construct_build env r hv] at hc
  cases hc
  obtain ⟨h2, _, h4⟩ := rt_build env r ctx0 {} hv inv_top
  exact ⟨build env ctx0 (represent (build env ctx0 r)), construct_build env _ h2, h4⟩

example := C18_dump_fixpoint_effective {} c18ExEff _ rfl rfl
example : represent (reparsed c18ExEff) = represent (okOr (construct {} c18ExEff)) := rfl

/- The witness of the former finding D17k (a flag written as a simple tag was not on the dumper's
   stack) is inside the theorem's domain now and round-trips: the element keeps its `!del`. -/
theorem C18_shortcut_tag_stack_kept :
    rawMC c18ExShortcut = true ∧
    construct {} (represent (okOr (construct {} c18ExShortcut))) = construct {} c18ExShortcut ∧
    (getNode (reparsed c18ExShortcut) [.str "b", .int 0]).map (fun m => (m.flags.del, eDel m)) = some (some true, true) := by
  refine ⟨rfl, rfl, rfl⟩

/-! ### what the two relations say at a node -/

/- What `effEq` gives at a node: equal kind / scalar content, equal user metadata, equal effective
   flags, the same explicit `delete = True`, the same keys in the same order, and for a container an
   equivalent hand-down to its children (the relation is checked recursively). -/
theorem C18_effEq_node (n n' : Node) (h : effEq n n' = true) :
    n.isComp = n'.isComp ∧ ePrio n.flags = ePrio n'.flags ∧ eDel n = eDel n' ∧
    eNew n.flags = eNew n'.flags ∧ eSafe n.flags = eSafe n'.flags ∧ n.flags.md = n'.flags.md ∧
    (n.flags.del = some true ↔ n'.flags.del = some true) ∧
    n.children.map (·.1) = n'.children.map (·.1) ∧
    (∀ f k, n = .leaf f k → ∃ f', n' = .leaf f' k) ∧
    (∀ f k cs, n = .comp f k cs → ∃ f' cs', n' = .comp f' k cs' ∧ handsDownEq (childKw f k) (childKw f' k) = true) := by
  have keys : ∀ (l l' : List (Key × Node)), effEqL l l' = true → l.map (·.1) = l'.map (·.1) := by
    intro l
    induction l with
    | nil => intro l' hl; cases l' with
      | nil => rfl
      | cons a b => simp [effEqL] at hl
    | cons a rest ih => intro l' hl; cases l' with
      | nil => simp [effEqL] at hl
      | cons b rest' =>
        simp only [effEqL, Bool.and_eq_true, beq_iff_eq] at hl
        simp [hl.1.1, ih rest' hl.2]
  have dt : ∀ (a b : Option Bool), ((a == some true) == (b == some true)) = true → (a = some true ↔ b = some true) := by
    intro a b hab
    rcases a with _ | _ | _ <;> rcases b with _ | _ | _ <;> simp_all
  cases n with
  | leaf f k =>
    cases n' with
    | comp f' k' cs' => simp [effEq] at h
    | leaf f' k' =>
      simp only [effEq, Bool.and_eq_true, beq_iff_eq] at h
      obtain ⟨rfl, he⟩ := h
      simp only [effF, Bool.and_eq_true, beq_iff_eq] at he
      exact ⟨rfl, he.1.1.1.1.1, he.1.1.1.1.2, he.1.1.1.2, he.1.1.2, he.1.2, dt _ _ (by simpa using he.2), rfl,
        (fun g k' e => by cases e; exact ⟨f', rfl⟩), (fun g k' cs e => by cases e)⟩
  | comp f k cs =>
    cases n' with
    | leaf f' k' => simp [effEq] at h
    | comp f' k' cs' =>
      simp only [effEq, Bool.and_eq_true, beq_iff_eq] at h
      obtain ⟨⟨⟨rfl, he⟩, hh⟩, hl⟩ := h
      simp only [effF, Bool.and_eq_true, beq_iff_eq] at he
      exact ⟨rfl, he.1.1.1.1.1, he.1.1.1.1.2, he.1.1.1.2, he.1.1.2, he.1.2, dt _ _ (by simpa using he.2), keys cs cs' hl,
        (fun g k' e => by cases e), (fun g k' cs0 e => by cases e; exact ⟨f', cs', rfl, hh⟩)⟩

example : effEq (.leaf { new := some true, iNew := some true, prio := some 0 } (.scalar (.int 1)))
    (.leaf {} (.scalar (.int 1))) = true := by decide

/- What `simN` allows at a node, field by field (`f` the parsed node's raw flags, `f'` the re-parsed
   ones): exactly the differences listed in the header, everything else identical. -/
theorem C18_simN_node (n n' : Node) (h : simN n n' = true) :
    let f := n.flags; let f' := n'.flags
    (f'.prio = f.prio ∨ (f'.prio = none ∧ f.prio = some Tables.defaultPriority)) ∧
    f'.md = f.md ∧ f'.iDel = f.iDel ∧ f'.iSafe = f.iSafe ∧ f'.dSafe = f.dSafe ∧ f'.src = f.src ∧
    (f'.iNew = f.iNew ∨ (f'.iNew = none ∧ f.iNew = some Tables.defaultAllowNew)) ∧
    (f'.del = f.del ∨ (f'.del = none ∧ f.del = some false ∧ eDel n = false)) ∧
    (f'.new = f.new ∨ (f'.new = none ∧ f.new = some (eNew f))) ∧
    (f'.safe = f.safe ∨ (f'.safe = none ∧ (f.iSafe = some false ∨ f.safe = f.iSafe))) := by
  cases n with
  | leaf f k =>
    cases n' with
    | comp f' k' cs' => simp [simN] at h
    | leaf f' k' =>
      simp only [simN, Bool.and_eq_true] at h
      obtain ⟨a1, a2, a3, a4, a5, a6, a7, a8, a9, a10⟩ := (simF_iff _ _ f f').1 h.1
      refine ⟨a1, a2, a3, a5, a6, a7, a4, ?_, a9, a10⟩
      rcases a8 with e | ⟨e1, e2, e3 | ⟨_, e3, e4⟩⟩
      · exact .inl e
      · exact .inr ⟨e1, e2, by simp [eDel, Node.flags, e2]⟩
      · exact .inr ⟨e1, e2, by simp [eDel, Node.flags, e2]⟩
  | comp f k cs =>
    cases n' with
    | leaf f' k' => simp [simN] at h
    | comp f' k' cs' =>
      simp only [simN, Bool.and_eq_true] at h
      obtain ⟨a1, a2, a3, a4, a5, a6, a7, a8, a9, a10⟩ := (simF_iff _ _ f f').1 h.1.1
      refine ⟨a1, a2, a3, a5, a6, a7, a4, ?_, a9, a10⟩
      rcases a8 with e | ⟨e1, e2, e3 | ⟨e3, _⟩⟩
      · exact .inl e
      · exact .inr ⟨e1, e2, by simp [eDel, Node.flags, e2]⟩
      · cases e3

example : simN (.leaf { del := some false, iDel := some false } (.scalar (.int 1)))
    (.leaf { iDel := some false } (.scalar (.int 1))) = true := by decide

/-! ### the witnesses of the two last dumper defects round-trip -/

/- `a: [!merge 5]` (repaired): the list hands down its class default `delete = True`, which is now on the
   dumper's stack, so the element's explicit `!merge` differs from it and is written; the document
   re-parses to the same tree. -/
theorem C18_merge_scalar_in_list_kept :
    rawMC c18ExMergeInList = true ∧
    represent (okOr (construct {} c18ExMergeInList)) = c18ExMergeInList ∧
    construct {} (represent (okOr (construct {} c18ExMergeInList))) = construct {} c18ExMergeInList ∧
    (getNode (reparsed c18ExMergeInList) [.str "a", .int 0]).map (fun m => (m.flags.del, eDel m)) =
      some (some false, false) := by
  refine ⟨rfl, rfl, rfl, rfl⟩

/-- `x: !merge {f: !call:rec.f {b: !merge {c: 1}}}` -/
def c18ExMergeBelowCall : Raw :=
  .map .none {} [(.str "x", .map .plain { del := some false } [
    (.str "f", .map (.call "rec.f") {} [
      (.str "b", .map .plain { del := some false } [(.str "c", .scalar .none {} (.lit (.int 1)))])])])]

/- `x: !merge {f: !call:rec.f {b: !merge {c: 1}}}` (repaired; outside `rawMC`: a function node): the
   function node hands down the `delete = True` its constructor sets, the stack says so, and `b`'s
   explicit `!merge` is written although an outer node states `delete = False`; the dump is the
   document itself and re-parses to the same tree. -/
theorem C18_merge_below_function_node_kept :
    represent (okOr (construct {} c18ExMergeBelowCall)) = c18ExMergeBelowCall ∧
    construct {} (represent (okOr (construct {} c18ExMergeBelowCall))) = construct {} c18ExMergeBelowCall :=
  ⟨rfl, rfl⟩

/-
  Not proved (PARTIAL): the general theorem covers mappings, lists and scalars; function nodes and the
  other node kinds are covered by concrete theorems and by the correspondence check only.  Also not
  proved: that `effEq`/`simN` is preserved by `merge` on either side (so that the
  substitution of the re-parsed document in a merge sequence cannot be observed).  It does not hold
  step by step: `_replace_other` reads the loser's RAW `_safe`, so when a dropped `!unsafe` (repeating
  an enclosing `!unsafe`) loses a leaf merge, the winner becomes explicitly unsafe with the original and
  stays as it is with the re-parsed document — the effective flags agree again only after the enclosing
  node has been merged and has re-propagated.  A proof has to go through the whole `mergeF` with that
  weaker, path-dependent invariant; the statement is covered by the harness (substitution at every
  position of generated merge sequences, merged tree and evaluated config compared).
-/

end AY
