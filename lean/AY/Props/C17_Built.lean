/-
  AY.Props.C17_Built — the tree walk of property C17 for every tree a Builder produces: the hypothesis
  `distinctKeys root` of `C17_walk_lookup` is discharged for `root = Builder.flatten(stages)` with
  stages parsed from documents without duplicate sibling keys (`KI.rawKeyed`, full tag vocabulary).
  Lemmas: AY/Lemmas/KeyInv*.lean, AY/Lemmas/KeyInvariants.lean.
-/
import AY.Props.C17
import AY.Lemmas.KeyInvariants
namespace AY

/-- `{a: {x: 1, 0: [2, 3]}, b: 4}` and a second stage `{a: {0: !append [5]}, c: !prev b}` -/
def c17BuiltDoc1 : Raw :=
  .map .none {} [
    (.str "a", .map .none {} [(.str "x", .scalar .none {} (.lit (.int 1))),
      (.int 0, .seq .none {} [.scalar .none {} (.lit (.int 2)), .scalar .none {} (.lit (.int 3))])]),
    (.str "b", .scalar .none {} (.lit (.int 4)))]
def c17BuiltDoc2 : Raw :=
  .map .none {} [
    (.str "a", .map .none {} [(.int 0, .seq .append {} [.scalar .none {} (.lit (.int 5))])]),
    (.str "c", .scalar .prev {} (.text "b"))]
def c17BuiltStages : List Node :=
  [match construct {} c17BuiltDoc1 with | .ok n => n | .error _ => .leaf {} .required,
   match construct {} c17BuiltDoc2 with | .ok n => n | .error _ => .leaf {} .required]
def c17BuiltRoot : Node := match flatten c17BuiltStages with | .ok r => r | .error _ => .leaf {} .required

/- "Every node reported by the tree walk is the one returned by looking its path up again", for a real
   build: `root` is what `Builder.flatten` returns for stages the loader built from documents without
   duplicate sibling keys.  No hypothesis on the shape of `root` is left. -/
theorem C17_walk_lookup_built (stages : List Node) (root : Node)
    (hs : ∀ s, s ∈ stages → ∃ env raw, KI.rawKeyed raw = true ∧ construct env raw = .ok s)
    (hf : flatten stages = .ok root) (p : Path) (n : Node)
    (hm : (p, n) ∈ Container.nodesWithPaths root) : getNode root p = some n :=
  C17_walk_lookup root p n (built_containerDistinctKeys hs hf) hm

example : flatten c17BuiltStages = .ok c17BuiltRoot := by
  have h : (match flatten c17BuiltStages with | .ok _ => true | .error _ => false) = true := by decide +kernel
  unfold c17BuiltRoot
  split at h
  · rename_i r hr; rw [hr]
  · cases h
example : (Container.nodesWithPaths c17BuiltRoot).map (·.1) =
    [[.str "a"], [.str "a", .str "x"], [.str "a", .int 0], [.str "a", .int 0, .int 0], [.str "a", .int 0, .int 1],
     [.str "a", .int 0, .int 2], [.str "c"]] := by decide +kernel

end AY
