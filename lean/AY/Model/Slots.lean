/-
  AY.Model.Slots — the thread-local slots of awesomeyaml and their users (property C20).

  Import-free (Lean core only).  What is modelled, with the code it mirrors:

  * `ConfigNode._default_filename`, `ConfigNode._default_safe` (nodes/node.py) and
    `errors._api_entered` (errors.py) are `threading.local()` objects.  One `threading.local()` is
    modelled as one cell per thread: `Machine.cells : Nat → Cells`, indexed by the thread id.  An
    attribute that was never assigned in a thread (`hasattr(local, 'value')` is false) is `none`.
  * the context managers `ConfigNode.default_filename(v)` / `ConfigNode.default_safe_flag(v)`
    (used by `Builder.add_source` and `yaml.global_ctx`): `Event.enter s v` … `Event.exit s`.
    The variable `old` of the generator frame is private to the thread by construction of Python
    (a frame belongs to one thread), hence `Machine.frames : Nat → Frames` is indexed by the thread
    id in *every* variant of the machine.
  * `ConfigNode.__init__` reads the slots with `getattr(local, 'value', default)`: `Event.read s`.
  * `errors.api_entry`: `Event.apiEnter` / `Event.apiExit`; `Event.raise` observes the marker.
  * the finer events `slotInit`, `slotSave`, `slotInstall`, `apiCheck`, `apiSet` are the single
    source lines of the context managers; `enter = slotInit ; slotSave ; slotInstall` and
    `apiEnter = apiCheck ; apiSet` (`lstep_enter_lines`, `lstep_apiEnter_lines`).  The scheduler of the
    harness switches threads between lines, so recorded traces use the fine events.

  Not a slot of this machine: `Builder._current_file` is an attribute of the builder object (C20
  is about threads that each use their own builder), and `yaml._global_ctx`, the module-level
  builder behind `yaml.parse(text, filename)`, is a genuinely shared cell outside C20's premise.

  The *addressing* `addr : Nat → Nat` says which cell a thread uses.  `localAddr = id` is
  `threading.local` (the code as it is).  `sharedAddr = fun _ => 0` is the broken alternative where
  a slot is one plain attribute shared by all threads; it exists to state what C20 excludes.
-/
namespace AY.Slots

/-- the two `ConfigNode` slots -/
inductive Slot where
  | file      -- ConfigNode._default_filename
  | safe      -- ConfigNode._default_safe
  deriving DecidableEq, Repr

/-- Python values that are stored in the slots -/
inductive Val where
  | pyNone
  | bool (b : Bool)
  | str (s : String)
  deriving DecidableEq, Repr

/-- `bool(x)` -/
def truthy : Val → Bool
  | .pyNone => false
  | .bool b => b
  | .str s => s != ""

/-- Python `a and b` -/
def pyAnd (a b : Val) : Val :=
  match truthy a with
  | true => b
  | false => a

inductive Event where
  | enter (s : Slot) (v : Val)      -- `with ConfigNode.default_xxx(v):` entry, as one step
  | exit (s : Slot)                 -- `finally: local.value = old`
  | read (s : Slot)                 -- `getattr(local, 'value', default)` in `ConfigNode.__init__`
  | apiEnter                        -- `api_entry.impl` up to the call of the wrapped function, as one step
  | apiExit                         -- `finally: _api_entered.value = False` (or return of a nested entry)
  | raise (what : String)           -- an exception is raised; observes the marker of the raising thread
  | slotInit (s : Slot)             -- line `if not hasattr(local, 'value'): local.value = <initial>`
  | slotSave (s : Slot)             -- line `old = local.value`
  | slotInstall (s : Slot) (v : Val)-- line `local.value = v` / `local.value = v and old`
  | apiCheck                        -- line `if getattr(_api_entered, 'value', False) or ...`
  | apiSet                          -- line `_api_entered.value = True` (not reached by a nested entry)
  deriving DecidableEq, Repr

/-- what one thread sees in the three `threading.local()` objects; `none` = attribute not set -/
structure Cells where
  file : Option Val := none
  safe : Option Val := none
  api : Option Val := none
  deriving DecidableEq, Repr

/-- thread-private frames: the saved `old` values of the open context managers (innermost first) and,
for every open `api_entry`, whether that activation is the one that sets and clears the marker -/
structure Frames where
  file : List Val := []
  safe : List Val := []
  api : List Bool := []
  deriving DecidableEq, Repr

def getSlot (c : Cells) : Slot → Option Val
  | .file => c.file
  | .safe => c.safe

def setSlot (c : Cells) (s : Slot) (v : Val) : Cells :=
  match s with
  | .file => { c with file := some v }
  | .safe => { c with safe := some v }

def getStack (f : Frames) : Slot → List Val
  | .file => f.file
  | .safe => f.safe

def setStack (f : Frames) (s : Slot) (l : List Val) : Frames :=
  match s with
  | .file => { f with file := l }
  | .safe => { f with safe := l }

/-- first-use initialisation inside the context managers: filename `None`, safe `True` -/
def initDefault : Slot → Val
  | .file => .pyNone
  | .safe => .bool true

/-- default of `getattr(local, 'value', default)` in `ConfigNode.__init__`: filename `None`, safe `False` -/
def readDefault : Slot → Val
  | .file => .pyNone
  | .safe => .bool false

/-- the value a context manager installs: `filename`, resp. `value and old` -/
def installed (s : Slot) (v old : Val) : Val :=
  match s with
  | .file => v
  | .safe => pyAnd v old

/-- `if not hasattr(local, 'value'): local.value = <initial>` -/
def doInit (s : Slot) (c : Cells) : Cells :=
  match getSlot c s with
  | some _ => c
  | none => setSlot c s (initDefault s)

/-- `local.value` (after `doInit` the attribute exists; the fallback is not reachable from `enter`) -/
def current (s : Slot) (c : Cells) : Val :=
  match getSlot c s with
  | some v => v
  | none => initDefault s

/-- `old = local.value` -/
def doSave (s : Slot) (c : Cells) (f : Frames) : Frames :=
  setStack f s (current s c :: getStack f s)

/-- the `old` of the innermost open context manager of this thread -/
def savedOld (s : Slot) (f : Frames) : Val :=
  match getStack f s with
  | old :: _ => old
  | [] => initDefault s

/-- `local.value = v` / `local.value = v and old` -/
def doInstall (s : Slot) (v : Val) (c : Cells) (f : Frames) : Cells :=
  setSlot c s (installed s v (savedOld s f))

/-- `finally: local.value = old`; without an open context manager there is nothing to do -/
def doExitCells (s : Slot) (c : Cells) (f : Frames) : Cells :=
  match getStack f s with
  | [] => c
  | old :: _ => setSlot c s old

def doExitFrames (s : Slot) (f : Frames) : Frames :=
  match getStack f s with
  | [] => f
  | _ :: rest => setStack f s rest

/-- `getattr(local, 'value', default)` -/
def doRead (s : Slot) (c : Cells) : Val :=
  match getSlot c s with
  | some v => v
  | none => readDefault s

/-- `getattr(_api_entered, 'value', False)` -/
def marker (c : Cells) : Val :=
  match c.api with
  | some v => v
  | none => .bool false

/-- the activation record of `api_entry.impl`: `true` when this activation found the marker unset -/
def doApiCheck (c : Cells) (f : Frames) : Frames :=
  { f with api := (!truthy (marker c)) :: f.api }

def doApiSet (c : Cells) (f : Frames) : Cells :=
  match f.api with
  | true :: _ => { c with api := some (.bool true) }
  | _ => c

def doApiExitCells (c : Cells) (f : Frames) : Cells :=
  match f.api with
  | true :: _ => { c with api := some (.bool false) }
  | _ => c

def doApiExitFrames (f : Frames) : Frames :=
  match f.api with
  | [] => f
  | _ :: rest => { f with api := rest }

/-- result of one event on the part of the state that the executing thread can reach -/
structure LResult where
  cells : Cells
  frames : Frames
  obs : Option Val
  deriving DecidableEq, Repr

/-- one event of a thread, on the cell it addresses and on its own frames -/
def lstep (e : Event) (c : Cells) (f : Frames) : LResult :=
  match e with
  | .slotInit s => ⟨doInit s c, f, none⟩
  | .slotSave s => ⟨c, doSave s c f, none⟩
  | .slotInstall s v => ⟨doInstall s v c f, f, none⟩
  | .enter s v =>
    let c1 := doInit s c
    let f1 := doSave s c1 f
    ⟨doInstall s v c1 f1, f1, none⟩
  | .exit s => ⟨doExitCells s c f, doExitFrames s f, none⟩
  | .read s => ⟨c, f, some (doRead s c)⟩
  | .apiCheck => ⟨c, doApiCheck c f, some (marker c)⟩
  | .apiSet => ⟨doApiSet c f, f, none⟩
  | .apiEnter =>
    let f1 := doApiCheck c f
    ⟨doApiSet c f1, f1, some (marker c)⟩
  | .apiExit => ⟨doApiExitCells c f, doApiExitFrames f, none⟩
  | .raise _ => ⟨c, f, some (marker c)⟩

/-- an observation: thread, event, observed value -/
structure Obs where
  tid : Nat
  ev : Event
  val : Val
  deriving DecidableEq, Repr

abbrev Trace := List Obs

def emit (t : Nat) (e : Event) : Option Val → Trace
  | none => []
  | some v => [⟨t, e, v⟩]

/-- point update of a thread-indexed family -/
def upd {α : Type} (g : Nat → α) (i : Nat) (a : α) : Nat → α :=
  fun j => if j = i then a else g j

/-- cells are indexed by *cell address*, frames by thread id -/
structure Machine where
  cells : Nat → Cells
  frames : Nat → Frames

def Machine.init : Machine := ⟨fun _ => {}, fun _ => {}⟩

/-- `threading.local`: every thread has its own cell -/
def localAddr : Nat → Nat := fun t => t
/-- the broken alternative: one plain attribute shared by all threads -/
def sharedAddr : Nat → Nat := fun _ => 0

def stepMachine (addr : Nat → Nat) (t : Nat) (e : Event) (m : Machine) : Machine :=
  let r := lstep e (m.cells (addr t)) (m.frames t)
  ⟨upd m.cells (addr t) r.cells, upd m.frames t r.frames⟩

def stepObs (addr : Nat → Nat) (t : Nat) (e : Event) (m : Machine) : Trace :=
  emit t e (lstep e (m.cells (addr t)) (m.frames t)).obs

/-- an interleaved execution: which thread performed which event, in global order -/
abbrev Interleaving := List (Nat × Event)

/-- replay an interleaved execution: the observations … -/
def replay (addr : Nat → Nat) : Interleaving → Machine → Trace
  | [], _ => []
  | (t, e) :: rest, m => stepObs addr t e m ++ replay addr rest (stepMachine addr t e m)

/-- … and the final machine -/
def replayFinal (addr : Nat → Nat) : Interleaving → Machine → Machine
  | [], m => m
  | (t, e) :: rest, m => replayFinal addr rest (stepMachine addr t e m)

/-- threads of a system: thread `i` executes the `i`-th list -/
abbrev Threads := List (List Event)
abbrev Progs := Nat → List Event
abbrev Schedule := List Nat

def progs (ths : Threads) : Progs := fun t => ths.getD t []

/-- the interleaving that a schedule produces: each entry of the schedule lets that thread perform
its next event (nothing happens when the thread has finished) -/
def unfold : Schedule → Progs → Interleaving
  | [], _ => []
  | t :: sched, ps =>
    match ps t with
    | [] => unfold sched ps
    | e :: rest => (t, e) :: unfold sched (upd ps t rest)

def runWith (addr : Nat → Nat) (sched : Schedule) (ths : Threads) : Trace :=
  replay addr (unfold sched (progs ths)) Machine.init

def finalWith (addr : Nat → Nat) (sched : Schedule) (ths : Threads) : Machine :=
  replayFinal addr (unfold sched (progs ths)) Machine.init

/-- the machine of the code as it is (`threading.local` slots) -/
def run (sched : Schedule) (ths : Threads) : Trace := runWith localAddr sched ths
def final (sched : Schedule) (ths : Threads) : Machine := finalWith localAddr sched ths
/-- the broken machine (plain shared attributes) -/
def runShared (sched : Schedule) (ths : Threads) : Trace := runWith sharedAddr sched ths

/-- number of turns a schedule gives to thread `t` -/
def occ (t : Nat) : Schedule → Nat
  | [] => 0
  | x :: xs => if x = t then occ t xs + 1 else occ t xs

/-- every thread gets enough turns to finish -/
def Complete (sched : Schedule) (ths : Threads) : Prop :=
  ∀ t, (progs ths t).length ≤ occ t sched

/-- the observations of thread `t` -/
def proj (t : Nat) (tr : Trace) : Trace := tr.filter (fun o => o.tid == t)

/-- the events of thread `t` in an interleaving, in order -/
def eventsOf (t : Nat) : Interleaving → List Event
  | [] => []
  | (t', e) :: rest => if t' = t then e :: eventsOf t rest else eventsOf t rest

/-- thread `t` running alone (no other thread exists), from given cell and frames -/
def localRun (t : Nat) : List Event → Cells → Frames → Trace
  | [], _, _ => []
  | e :: es, c, f =>
    emit t e (lstep e c f).obs ++ localRun t es (lstep e c f).cells (lstep e c f).frames

def localFinalCells : List Event → Cells → Frames → Cells
  | [], c, _ => c
  | e :: es, c, f => localFinalCells es (lstep e c f).cells (lstep e c f).frames

def localFinalFrames : List Event → Cells → Frames → Frames
  | [], _, f => f
  | e :: es, c, f => localFinalFrames es (lstep e c f).cells (lstep e c f).frames

/-- the sequential (single-threaded, fresh thread) trace of a thread program -/
def alone (t : Nat) (es : List Event) : Trace := localRun t es {} {}

/-- the schedule that runs the threads one after the other, each to completion -/
def seqSchedFrom (i : Nat) : Threads → Schedule
  | [] => []
  | p :: ps => List.replicate p.length i ++ seqSchedFrom (i + 1) ps

def seqSched (ths : Threads) : Schedule := seqSchedFrom 0 ths

/-! ### what a read must see, stated on the thread's own program only -/

/-- only whole context-manager events (no single-line events) -/
def atomicEvent : Event → Bool
  | .enter _ _ => true
  | .exit _ => true
  | .read _ => true
  | .apiEnter => true
  | .apiExit => true
  | .raise _ => true
  | _ => false

def AtomicOnly (es : List Event) : Prop := ∀ e, e ∈ es → atomicEvent e = true

/-- depth check: no `exit` without an open `enter` of the same slot, no `apiExit` without `apiEnter` -/
def bracketsOk : List Event → Nat → Nat → Nat → Bool
  | [], _, _, _ => true
  | .enter .file _ :: es, a, b, c => bracketsOk es (a + 1) b c
  | .enter .safe _ :: es, a, b, c => bracketsOk es a (b + 1) c
  | .exit .file :: es, a, b, c =>
    match a with
    | 0 => false
    | a' + 1 => bracketsOk es a' b c
  | .exit .safe :: es, a, b, c =>
    match b with
    | 0 => false
    | b' + 1 => bracketsOk es a b' c
  | .apiEnter :: es, a, b, c => bracketsOk es a b (c + 1)
  | .apiExit :: es, a, b, c =>
    match c with
    | 0 => false
    | c' + 1 => bracketsOk es a b c'
  | _ :: es, a, b, c => bracketsOk es a b c

/-- a thread made of whole context-manager events whose exits match entries (a prefix of a
well-bracketed program: open entries at the end are allowed, the thread may be cut by an exception
only through its `exit` events, which the recorded traces contain) -/
def wellBracketed (es : List Event) : Bool := es.all atomicEvent && bracketsOk es 0 0 0

/-- values of the open `enter s _` after the events `es`, innermost first, starting from `acc` -/
def openVals (s : Slot) : List Event → List Val → List Val
  | [], acc => acc
  | .enter s' v :: es, acc => if s' = s then openVals s es (v :: acc) else openVals s es acc
  | .exit s' :: es, acc => if s' = s then openVals s es acc.tail else openVals s es acc
  | _ :: es, acc => openVals s es acc

/-- was `enter s _` ever executed in `es` -/
def entered (s : Slot) : List Event → Bool
  | [] => false
  | .enter s' _ :: es => if s' = s then true else entered s es
  | _ :: es => entered s es

/-- the value in force given the open entries (innermost first): the innermost filename;
the conjunction (`and`-chain) of all open safe flags, starting from `True` -/
def inForce (s : Slot) : List Val → Val
  | [] => initDefault s
  | v :: rest => installed s v (inForce s rest)

/-- what `read s` must return after the thread itself has executed `pre` -/
def expectedRead (s : Slot) (pre : List Event) : Val :=
  match entered s pre with
  | true => inForce s (openVals s pre [])
  | false => readDefault s

/-- the read observations that the thread's own program prescribes; `pre` = events already executed -/
def specReads (t : Nat) : List Event → List Event → Trace
  | _, [] => []
  | pre, .read s :: es => ⟨t, .read s, expectedRead s pre⟩ :: specReads t (pre ++ [.read s]) es
  | pre, e :: es => specReads t (pre ++ [e]) es

def isRead : Event → Bool
  | .read _ => true
  | _ => false

def readsOf (t : Nat) (tr : Trace) : Trace := tr.filter (fun o => o.tid == t && isRead o.ev)

/-- observations of the `_api_entered` marker (entries of `api_entry`, raised exceptions) -/
def isApiObs : Event → Bool
  | .apiEnter => true
  | .apiCheck => true
  | .raise _ => true
  | _ => false

def apiView (t : Nat) (tr : Trace) : Trace := tr.filter (fun o => o.tid == t && isApiObs o.ev)

end AY.Slots
