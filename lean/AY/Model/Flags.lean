/-
  AY.Model.Flags — effective flags, flag inheritance and the child mutators
  (nodes/node.py `ayns.priority/delete/allow_new/safe`, `ConfigNodeMeta.__call__` on an
  existing node; nodes/composed.py `_get_child_kwargs`, `_propagate_implicit_values`,
  `set_child`; nodes/dict.py `_set/_del`; nodes/list.py `_validate_index/_set/_del`).
-/
import AY.Model.Data
import AY.Gen.Tables
namespace AY

/-- `cls._default_delete` -/
def defaultDelete : CompKind → Bool
  | .dict => Tables.defaultDeleteDict
  | .call _ | .bind _ => Tables.defaultDeleteFunc
  | .stream => Tables.defaultDeleteStream
  | .list | .append | .extend | .path _ => Tables.defaultDeleteList

def Node.defaultDel : Node → Bool
  | .leaf .. => Tables.defaultDeleteNode
  | .comp _ k _ => defaultDelete k

/-- `ayns.priority` -/
def ePrio (f : Flags) : Int := f.prio.getD Tables.defaultPriority

/-- `ayns.delete` -/
def eDel (n : Node) : Bool :=
  match n.flags.del with
  | some d => d
  | none =>
    match n.flags.iDel with
    | some d => d
    | none => n.defaultDel

/-- `ayns.allow_new` (reads the inherited flag only, as the code does) -/
def eNew (f : Flags) : Bool := f.iNew.getD Tables.defaultAllowNew

/-- `ayns.safe` -/
def eSafe (f : Flags) : Bool := f.safe.getD true && f.iSafe.getD true && f.dSafe

/-- `a.ayns.has_priority_over(b, if_equal)` -/
def hasPrio (a b : Flags) (ifEq : Bool) : Bool :=
  if ePrio a = ePrio b then ifEq else decide (ePrio a > ePrio b)

/-- The three inherited flags a container hands to its children. -/
structure ChildKw where
  iDel : Option Bool
  iNew : Option Bool
  iSafe : Option Bool
  deriving DecidableEq, Repr

/-- `_get_child_kwargs()`; a stream hands down nothing. -/
def childKw (f : Flags) (k : CompKind) : Option ChildKw :=
  match k with
  | .stream => none
  | _ => some {
      iDel := f.del.or (f.iDel.or (if defaultDelete k then some true else none)),
      iNew := f.new.or f.iNew,
      iSafe := if f.iSafe = some false then some false else f.safe.or f.iSafe }   -- an inherited `safe=False` always wins

/-- Write the inherited flags into a child (an inherited `safe=False` is sticky). -/
def updFlags (kw : ChildKw) (f : Flags) : Flags :=
  { f with iDel := kw.iDel, iNew := kw.iNew,
           iSafe := if f.iSafe = some false then some false else kw.iSafe }

/-- Whether `_propagate_implicit_values` would record a change (`fix = True`). -/
def flagsChanged (kw : ChildKw) (f : Flags) : Bool :=
  f.iDel != kw.iDel || f.iNew != kw.iNew || (f.iSafe != kw.iSafe && f.iSafe != some false)

mutual
/-- One child inside `_propagate_implicit_values`: update, recurse only when something changed. -/
def applyKw (kw : ChildKw) : Node → Node
  | .leaf f k => .leaf (updFlags kw f) k
  | .comp f k cs =>
    if flagsChanged kw f then
      match childKw (updFlags kw f) k with
      | none => .comp (updFlags kw f) k cs
      | some kw' => .comp (updFlags kw f) k (applyKwList kw' cs)
    else .comp f k cs
def applyKwList (kw : ChildKw) : List (Key × Node) → List (Key × Node)
  | [] => []
  | (key, c) :: rest => (key, applyKw kw c) :: applyKwList kw rest
end

/-- `node._propagate_implicit_values()` -/
def propagate : Node → Node
  | .leaf f k => .leaf f k
  | .comp f k cs =>
    match childKw f k with
    | none => .comp f k cs
    | some kw => .comp f k (applyKwList kw cs)

mutual
/-- `node._priority = p` for the node and everything below it. -/
def setPrioAll (p : Int) : Node → Node
  | .leaf f k => .leaf { f with prio := some p } k
  | .comp f k cs => .comp { f with prio := some p } k (setPrioAllList p cs)
def setPrioAllList (p : Int) : List (Key × Node) → List (Key × Node)
  | [] => []
  | (key, c) :: rest => (key, setPrioAll p c) :: setPrioAllList p rest
end

/-- `ConfigNode(existing_node, priority=…, implicit_*=…)`: the metaclass writes the inherited
    attributes into the existing node and re-propagates. `prio? = none` ⇔ no `priority` keyword,
    `kw = none` ⇔ no `implicit_*` keyword (stream parent). -/
def inheritInto (prio? : Option Int) (kw : Option ChildKw) (n : Node) : Node :=
  let n1 := match prio? with
    | some p => setPrioAll p n
    | none => n
  match kw with
  | some kw => propagate (n1.setFlags (updFlags kw n1.flags))
  | none => n1

/-- `ComposedNode.ayns.set_child`: adoption of `v` by a parent with flags `pf` and class `pk`. -/
def adopt (pf : Flags) (pk : CompKind) (v : Node) : Node :=
  propagate (inheritInto none (childKw pf pk) v)

/-- `_validate_index(index, strict)`; `none` ⇔ IndexError/TypeError. -/
def validateIndex (len : Nat) (strict : Bool) : Key → Option Nat
  | .int i =>
    if (i.natAbs > len || i = (len : Int)) && strict then none
    else
      let j : Int := if i < 0 then (len : Int) + i else i
      some (min len j.toNat)
  | _ => none

/-- `parent.ayns.set_child(name, v)` on the children list (dict: `_set`; list: `_set(strict=False)`). -/
def setChild (pf : Flags) (pk : CompKind) (name : Key) (v : Node)
    (cs : List (Key × Node)) : Except Err (List (Key × Node)) :=
  if pk.isDictFam then
    .ok (aset name (adopt pf pk v) cs)
  else
    match validateIndex cs.length false name with
    | none => .error .merge
    | some i => .ok (aset (.int i) (adopt pf pk v) cs)

/-- Children of a list after `_del(i)`: later elements are re-assigned one slot down
    (`self[j-1] = self[j]`, i.e. re-adopted) and renumbered. -/
def listDelAt (pf : Flags) (pk : CompKind) (i : Nat) (cs : List (Key × Node)) : List (Key × Node) :=
  renum ((cs.take i).map (·.2) ++ ((cs.drop (i + 1)).map (fun kv => adopt pf pk kv.2)))

/-- `parent.ayns.remove_child(name)` on the children list; `none` ⇔ the call raises. -/
def removeChild (pf : Flags) (pk : CompKind) (name : Key)
    (cs : List (Key × Node)) : Option (List (Key × Node)) :=
  if pk.isDictFam then
    if ahas name cs then some (aerase name cs) else none
  else
    match validateIndex cs.length true name with
    | none => none
    | some i => some (listDelAt pf pk i cs)

/-- `parent.ayns.get_child(name, None)` -/
def getChild (pk : CompKind) (name : Key) (cs : List (Key × Node)) : Option Node :=
  if pk.isDictFam then alookup name cs
  else
    match validateIndex cs.length true name with
    | none => none
    | some i => alookup (.int i) cs

/-- `parent.ayns.has_child(name)` (plain membership in `_children`). -/
def hasChild (name : Key) (cs : List (Key × Node)) : Bool := ahas name cs

/-- `container.extend(values)` / `container.update(items)` applied to a children list. -/
def adoptAll (pf : Flags) (pk : CompKind) :
    List (Key × Node) → List (Key × Node) → Except Err (List (Key × Node))
  | [], acc => .ok acc
  | (k, v) :: rest, acc =>
    match setChild pf pk k v acc with
    | .error e => .error e
    | .ok acc' => adoptAll pf pk rest acc'

end AY
