/-
  AY.Model.Resolve — the logic around `!eval` / f-string evaluation (property C12).

  Import-free (Lean core only).  What is modelled, with the code it mirrors:

  * name resolution of the code of an eval node (nodes/eval.py, class `EvalGlobals(dict)`): the code
    runs with a `dict` subclass as globals.  CPython's `LOAD_NAME` (module level, where the locals
    *are* that mapping) and `LOAD_GLOBAL` (inside functions, lambdas, comprehensions) look a name up
    with `PyObject_GetItem` when the globals are not an exact `dict`: a hit in the dict part is a
    name stored by the code itself, an eval symbol or one of the injected names (`ayns`,
    `__name__`, `__file__`); a miss calls `__missing__`, which returns the evaluated top-level config
    entry of that name, or raises `KeyError`, after which CPython consults the builtins and finally
    raises `NameError`.  `Globals.lookup` is that mechanism; `resolve` is the order the property
    states.  `Globals.lookupClassBody` is `LOAD_NAME` when the locals are a *different* mapping (a
    class body, `exec`/`eval` called inside a function): CPython 3.12 then reads the globals with
    `PyDict_GetItem`, which never calls `__missing__`.
  * what the code does with its text (`EvalNode.on_evaluate_impl`): `ast.parse(self.strip())`, all
    statements but the last are compiled as a module and executed, the last statement must be an
    expression statement and is evaluated, anything else is a `SyntaxError` (wrapped in `EvalError`).
    The parser is Python's — part of the reference that the harness samples — so the model starts from
    the parsed body, an abstract list of statements (`Stmt`), and states what is done with it:
    `splitStmts`, `multiStmt`.
  * f-string normalisation (yaml.py `_fstr_regex`, `_fstr_constructor._maybe_fix_fstr`,
    nodes/fstr.py `FStrNode.__init__`): `fstrRegex`, `wellFormed`, `quotes`, `fits`, `escapeQ`,
    `normFstrL`, `normFstr`.  An explicit `!fstr fmt` gets the first delimiter among `'`, `"`, `'''`,
    `"""` that does not occur in the text, does not collide with its last character and can span the
    text's newlines; only when none fits is every single quote escaped.
  * the namespace registry (`sys.modules['awesomeyaml.eval_node_namespace.<path>_0x<md5>']`) across
    the builds of one process: `evalStep`, `runHist`.  The registry is write-only: every evaluation
    builds its namespace from the current context (`ayns`, the eval symbols, `__name__`, `__file__`)
    and a module is only (re)published, for persistent nodes whose code has more than one statement.
    A binding remembers which build supplied it, so that "the value depends only on the current
    build" is a statement about provenance.

  Texts are `List Char` (`Str`); the `String` functions are wrappers.  Idealisations: md5 is
  injective on the code texts of one process (the registry key is the pair (mangled path, code));
  `del` of global names is not modelled; the names a run stores are an input of `evalStep`.
-/
namespace AY.Resolve

abbrev Str := List Char

/-! ### 1. name resolution -/

/-- where the value of a name comes from -/
inductive Resolution where
  | defn        -- a definition made by the code itself (a store into the globals mapping)
  | sym         -- a symbol supplied to the evaluation context
  | cfg         -- the evaluated top-level config entry of that name (`EvalGlobals.__missing__`)
  | builtin     -- a builtin (CPython's fallback after `KeyError`)
  | nameError   -- none of them
  | injected    -- `ayns`, `__name__`, `__file__`: put into the namespace by `on_evaluate_impl`
  deriving DecidableEq, Repr

/-- the order stated by C12: definition, then symbol, then config entry, then builtin -/
def resolve (defs syms cfg builtins : List String) (name : String) : Resolution :=
  if name ∈ defs then .defn
  else if name ∈ syms then .sym
  else if name ∈ cfg then .cfg
  else if name ∈ builtins then .builtin
  else .nameError

/-- who put a key into the dict part of the namespace -/
inductive Origin where
  | injected | sym | defn
  deriving DecidableEq, Repr

def Origin.toRes : Origin → Resolution
  | .injected => .injected
  | .sym => .sym
  | .defn => .defn

/-- a dict entry: who stored it and during which build -/
structure Binding where
  origin : Origin
  build : Nat
  deriving DecidableEq, Repr

/-- a Python dict as an association list; the first entry for a key is the current one -/
abbrev Dict := List (String × Binding)

def Dict.get : Dict → String → Option Binding
  | [], _ => none
  | (k, b) :: rest, n => if n = k then some b else Dict.get rest n

/-- `d[n] = b` -/
def Dict.set (d : Dict) (n : String) (b : Binding) : Dict := (n, b) :: d

/-- `d.update(other)` -/
def Dict.update (d other : Dict) : Dict := other ++ d

/-- `d.update({n: b for n in names})` -/
def Dict.setAll (d : Dict) (names : List String) (b : Binding) : Dict :=
  names.map (fun n => (n, b)) ++ d

/-- the names `on_evaluate_impl` puts into a fresh namespace -/
def reserved : List String := ["ayns", "__name__", "__file__"]

/-- an `EvalGlobals` instance: the dict part, and the config consulted by `__missing__` -/
structure Globals where
  dict : Dict
  cfg : List String     -- names of the top-level entries of the config of the *constructing* build
  build : Nat           -- that build
  deriving DecidableEq, Repr

/-- `LOAD_GLOBAL`, and `LOAD_NAME` at module level: resolution class and the build that supplied the
value (`none` for builtins and errors) -/
def Globals.lookup (builtins : List String) (g : Globals) (n : String) : Resolution × Option Nat :=
  match Dict.get g.dict n with
  | some b => (b.origin.toRes, some b.build)
  | none =>
    if n ∈ g.cfg then (.cfg, some g.build)           -- `__missing__`
    else if n ∈ builtins then (.builtin, none)        -- KeyError → builtins
    else (.nameError, none)

/-- `LOAD_NAME` with separate (exact dict) locals — a class body: locals, then
`PyDict_GetItem(globals)` (no `__missing__`), then builtins -/
def Globals.lookupClassBody (builtins locals : List String) (g : Globals) (n : String) :
    Resolution × Option Nat :=
  if n ∈ locals then (.defn, some g.build)
  else
    match Dict.get g.dict n with
    | some b => (b.origin.toRes, some b.build)
    | none => if n ∈ builtins then (.builtin, none) else (.nameError, none)

/-- the context of one build: its id, the names of its eval symbols and of its top-level entries -/
structure Ctx where
  build : Nat
  syms : List String
  cfg : List String
  deriving DecidableEq, Repr

/-- `gbls = {'ayns': …}; gbls.update(ctx.get_eval_symbols()); gbls.update({'__name__': …, '__file__': …})` -/
def freshDict (c : Ctx) : Dict :=
  Dict.set (Dict.set (Dict.setAll [("ayns", ⟨.injected, c.build⟩)] c.syms ⟨.sym, c.build⟩)
    "__name__" ⟨.injected, c.build⟩) "__file__" ⟨.injected, c.build⟩

/-- the stores performed by the code of build `b` -/
def execDefs (defs : List String) (b : Nat) (d : Dict) : Dict := Dict.setAll d defs ⟨.defn, b⟩

/-! ### 2. the code text: `strip`, and what is done with the parsed statements -/

/-- `str.isspace` for one character (the set used by `str.strip()` and by `\s` in `re`) -/
def pySpace (c : Char) : Bool :=
  let n := c.toNat
  (9 ≤ n && n ≤ 13) || (28 ≤ n && n ≤ 32) || n = 0x85 || n = 0xA0 || n = 0x1680 ||
  (0x2000 ≤ n && n ≤ 0x200A) || n = 0x2028 || n = 0x2029 || n = 0x202F || n = 0x205F || n = 0x3000

/-- `str.lstrip()` -/
def lstrip (s : Str) : Str := s.dropWhile pySpace
/-- `str.rstrip()`: a character is dropped when it is whitespace and everything after it is dropped -/
def rstrip : Str → Str
  | [] => []
  | c :: cs => if (rstrip cs).isEmpty && pySpace c then [] else c :: rstrip cs
/-- `str.strip()` -/
def strip (s : Str) : Str := rstrip (lstrip s)

/-- a top-level statement of `ast.parse(code).body`: all the model needs is whether it is an
expression statement (`ast.Expr`); `src` is its source text (`ast.unparse`) -/
inductive Stmt where
  | expr (src : String)
  | other (src : String)
  deriving DecidableEq, Repr

def Stmt.src : Stmt → String
  | .expr s => s
  | .other s => s

/-- `if not tree.body or not isinstance(tree.body[-1], ast.Expr): raise SyntaxError(...)`, else
`(ast.Module(tree.body[:-1]), ast.Expression(tree.body[-1].value))`: the statements that are executed
and the expression that is evaluated; `none` = `SyntaxError` -/
def splitStmts (body : List Stmt) : Option (List Stmt × String) :=
  match body.getLast? with
  | some (.expr e) => some (body.dropLast, e)
  | _ => none

/-- `len(tree.body) > 1`: the code has an executed part -/
def multiStmt (body : List Stmt) : Bool := decide (body.length > 1)

/-! ### 3. f-string normalisation -/

def isQuote (c : Char) : Bool := c = '\'' || c = '"'

/-- `_fstr_regex = re.compile(r"^\s*f(['\"]).*\1\s*$")` (`.` is any character but a newline) -/
def fstrRegex (s : Str) : Bool :=
  match lstrip s with
  | 'f' :: q :: rest =>
    isQuote q &&
      (match (rstrip rest).reverse with
       | q' :: midRev => q' = q && !midRev.contains '\n'
       | [] => false)
  | _ => false

/-- the check of `FStrNode.__init__`:
`len(fstr) >= 3 and fstr[0] == 'f' and fstr[1] in ['"', "'"] and fstr[1] == fstr[-1]` -/
def wellFormed (s : Str) : Bool :=
  match s with
  | 'f' :: q :: rest => isQuote q && rest.getLast? = some q
  | _ => false

/-- `value.replace("'", "\\'")` -/
def escapeQ : Str → Str
  | [] => []
  | c :: cs => if c = '\'' then '\\' :: '\'' :: escapeQ cs else c :: escapeQ cs

/-- the literal `f'fmt'` / `f"fmt"` -/
def fLit (q : Char) (fmt : Str) : Str := 'f' :: q :: fmt ++ [q]

/-- the candidate delimiters, in the order `_maybe_fix_fstr` tries them -/
def quotes : List Str := [['\''], ['"'], ['\'', '\'', '\''], ['"', '"', '"']]

def isPrefix : Str → Str → Bool
  | [], _ => true
  | _ :: _, [] => false
  | p :: ps, c :: cs => p == c && isPrefix ps cs

/-- `pat in s` for strings -/
def hasSub (pat : Str) : Str → Bool
  | [] => pat.isEmpty
  | c :: cs => isPrefix pat (c :: cs) || hasSub pat cs

/-- `quote not in value and not value.endswith(quote[0]) and ('\n' not in value or len(quote) == 3)` -/
def fits (value quote : Str) : Bool :=
  !hasSub quote value && !(value.getLast? == quote.head?) &&
    (!value.contains '\n' || quote.length == 3)

/-- `'f' + quote + value + quote` -/
def fLitQ (q : Str) (fmt : Str) : Str := 'f' :: q ++ fmt ++ q

/-- `_maybe_fix_fstr`: the code text of the f-string node built from a scalar: the scalar itself when
it already is a literal; else the text between the first delimiter that fits; else (no delimiter
fits) the old escaping of every single quote -/
def fixFstr (s : Str) : Str :=
  if wellFormed s then s
  else match quotes.find? (fits s) with
    | some q => fLitQ q s
    | none => fLit '\'' (escapeQ s)

/-- the code of the `FStrNode` a scalar `s` becomes: `explicit` = the scalar carries the `!fstr` tag;
otherwise the implicit resolver must match, else the scalar is not an f-string node at all -/
def normFstrL (explicit : Bool) (s : Str) : Option Str :=
  if explicit || fstrRegex s then some (fixFstr s) else none

def normFstr (explicit : Bool) (s : String) : Option String :=
  (normFstrL explicit s.toList).map String.ofList

/-- the format text inside a literal `f<q>…<q>` with a one-character delimiter -/
def fstrBody (lit : Str) : Str := (lit.drop 2).dropLast

/-- the format text inside a literal `f<q>…<q>` for the delimiter `q` -/
def fstrText (q : Str) (lit : Str) : Str := (lit.drop (1 + q.length)).take (lit.length - 1 - 2 * q.length)

/-! ### 4. the namespace registry across builds -/

/-- `str(path).replace('.', '_')` -/
def mangleL (path : Str) : Str := path.map (fun c => if c = '.' then '_' else c)

/-- registry key: (mangled path, code text) — stands for
`f'awesomeyaml.eval_node_namespace.{mangled}_0x{md5(code)}'` -/
abbrev Key := Str × Str

/-- one evaluation of an eval / f-string node -/
structure Req where
  path : Str              -- `str(path)` of the node
  code : Str              -- `str(self)`
  stmts : Nat             -- `len(tree.body)` (Python's parser; an input)
  persistent : Bool       -- `persistent_namespace`: true for `!eval`, false for f-strings
  defs : List String      -- the names the code stores into its globals in this run
  fails : Bool := false   -- the code does not parse or raises: nothing is published
  deriving DecidableEq, Repr

def Req.key (r : Req) : Key := (mangleL r.path, r.code)
def Req.multi (r : Req) : Bool := decide (r.stmts > 1)

/-- `sys.modules` restricted to the eval-node modules: module name ↦ module `__dict__` -/
abbrev Registry := List (Key × Dict)

def Registry.get : Registry → Key → Option Dict
  | [], _ => none
  | (k, d) :: rest, q => if q = k then some d else Registry.get rest q

def Registry.set (reg : Registry) (k : Key) (d : Dict) : Registry := (k, d) :: reg

/-- the step publishes a module: `len(tree.body) > 1 and self.persistent_namespace`, reached only when
the code ran to completion -/
def publishes (r : Req) : Bool := r.persistent && r.multi && !r.fails

/-- `on_evaluate_impl`: the namespace the code has run in (after its stores), and the registry
afterwards.  `gbls` is always built from the current context and wrapped in an `EvalGlobals` that
consults the config of the current build; the registry is never read. -/
def evalStep (reg : Registry) (c : Ctx) (r : Req) : Globals × Registry :=
  let g : Globals := { dict := execDefs r.defs c.build (freshDict c), cfg := c.cfg, build := c.build }
  (g, if publishes r then Registry.set reg r.key g.dict else reg)

abbrev Step := Ctx × Req

/-- the namespaces of a sequence of node evaluations in one process -/
def runHist : Registry → List Step → List Globals
  | _, [] => []
  | reg, s :: rest => (evalStep reg s.1 s.2).1 :: runHist (evalStep reg s.1 s.2).2 rest

/-- the registry after a history -/
def runReg : Registry → List Step → Registry
  | reg, [] => reg
  | reg, s :: rest => runReg (evalStep reg s.1 s.2).2 rest

/-- the namespace the step would run in in a fresh process: a function of the step's own context -/
def freshGlobals (s : Step) : Globals := (evalStep [] s.1 s.2).1

end AY.Resolve
