/-
  AY.Model.Resolve — the logic around `!eval` / f-string evaluation (property C12).

  Import-free (Lean core only).  What is modelled, with the code it mirrors:

  * name resolution of the code of an eval node (nodes/eval.py, class `EvalGlobals(dict)`): the code
    runs with a `dict` subclass as globals.  CPython's `LOAD_NAME` (module level, where the locals
    *are* that mapping) and `LOAD_GLOBAL` (inside functions, lambdas, comprehensions) look a name up
    with `PyObject_GetItem` when the globals are not an exact `dict`: a hit in the dict part is a
    name stored by the code itself, an eval symbol or one of the injected names (`ayns`,
    `__name__`, `__file__`); a miss calls `__missing__`, which returns the evaluated top-level config
    entry of that name, or raises `KeyError`, after which CPython consults the builtins and finally
    raises `NameError`.  `Globals.lookup` is that mechanism; `resolve` is the order the property
    states.  `Globals.lookupClassBody` is `LOAD_NAME` when the locals are a *different* mapping (a
    class body, `exec`/`eval` called inside a function): CPython 3.12 then reads the globals with
    `PyDict_GetItem`, which never calls `__missing__`.
  * the split of the code text (`EvalNode.on_evaluate_impl`): `self.strip().split('\n')`, every line
    split on `';'`, all pieces but the last are executed, the last one (stripped) is evaluated:
    `splitStmts`, `splitCodeL`, `splitCode`.  The split is textual: it does not know string literals.
  * f-string normalisation (yaml.py `_fstr_regex`, `_fstr_constructor._maybe_fix_fstr`,
    nodes/fstr.py `FStrNode.__init__`): `fstrRegex`, `wellFormed`, `escapeQ`, `normFstrL`, `normFstr`.
  * the namespace registry (`sys.modules['awesomeyaml.eval_node_namespace.<path>_0x<md5>']`) across
    the builds of one process: `evalStep`, `runHist`.  A binding remembers which build supplied it,
    so that "the value depends only on the current build" is a statement about provenance.

  Texts are `List Char` (`Str`); the `String` functions are wrappers.  Idealisations: md5 is
  injective on the code texts of one process (the registry key is the pair (mangled path, code));
  `del` of global names is not modelled; the names a run stores are an input of `evalStep`.
-/
namespace AY.Resolve

abbrev Str := List Char

/-! ### 1. name resolution -/

/-- where the value of a name comes from -/
inductive Resolution where
  | defn        -- a definition made by the code itself (a store into the globals mapping)
  | sym         -- a symbol supplied to the evaluation context
  | cfg         -- the evaluated top-level config entry of that name (`EvalGlobals.__missing__`)
  | builtin     -- a builtin (CPython's fallback after `KeyError`)
  | nameError   -- none of them
  | injected    -- `ayns`, `__name__`, `__file__`: put into the namespace by `on_evaluate_impl`
  deriving DecidableEq, Repr

/-- the order stated by C12: definition, then symbol, then config entry, then builtin -/
def resolve (defs syms cfg builtins : List String) (name : String) : Resolution :=
  if name ∈ defs then .defn
  else if name ∈ syms then .sym
  else if name ∈ cfg then .cfg
  else if name ∈ builtins then .builtin
  else .nameError

/-- who put a key into the dict part of the namespace -/
inductive Origin where
  | injected | sym | defn
  deriving DecidableEq, Repr

def Origin.toRes : Origin → Resolution
  | .injected => .injected
  | .sym => .sym
  | .defn => .defn

/-- a dict entry: who stored it and during which build -/
structure Binding where
  origin : Origin
  build : Nat
  deriving DecidableEq, Repr

/-- a Python dict as an association list; the first entry for a key is the current one -/
abbrev Dict := List (String × Binding)

def Dict.get : Dict → String → Option Binding
  | [], _ => none
  | (k, b) :: rest, n => if n = k then some b else Dict.get rest n

/-- `d[n] = b` -/
def Dict.set (d : Dict) (n : String) (b : Binding) : Dict := (n, b) :: d

/-- `d.update(other)` -/
def Dict.update (d other : Dict) : Dict := other ++ d

/-- `d.update({n: b for n in names})` -/
def Dict.setAll (d : Dict) (names : List String) (b : Binding) : Dict :=
  names.map (fun n => (n, b)) ++ d

/-- the names `on_evaluate_impl` puts into a fresh namespace -/
def reserved : List String := ["ayns", "__name__", "__file__"]

/-- an `EvalGlobals` instance: the dict part, and the config consulted by `__missing__` -/
structure Globals where
  dict : Dict
  cfg : List String     -- names of the top-level entries of the config of the *constructing* build
  build : Nat           -- that build
  deriving DecidableEq, Repr

/-- `LOAD_GLOBAL`, and `LOAD_NAME` at module level: resolution class and the build that supplied the
value (`none` for builtins and errors) -/
def Globals.lookup (builtins : List String) (g : Globals) (n : String) : Resolution × Option Nat :=
  match Dict.get g.dict n with
  | some b => (b.origin.toRes, some b.build)
  | none =>
    if n ∈ g.cfg then (.cfg, some g.build)           -- `__missing__`
    else if n ∈ builtins then (.builtin, none)        -- KeyError → builtins
    else (.nameError, none)

/-- `LOAD_NAME` with separate (exact dict) locals — a class body: locals, then
`PyDict_GetItem(globals)` (no `__missing__`), then builtins -/
def Globals.lookupClassBody (builtins locals : List String) (g : Globals) (n : String) :
    Resolution × Option Nat :=
  if n ∈ locals then (.defn, some g.build)
  else
    match Dict.get g.dict n with
    | some b => (b.origin.toRes, some b.build)
    | none => if n ∈ builtins then (.builtin, none) else (.nameError, none)

/-- the context of one build: its id, the names of its eval symbols and of its top-level entries -/
structure Ctx where
  build : Nat
  syms : List String
  cfg : List String
  deriving DecidableEq, Repr

/-- `gbls = {'ayns': …}; gbls.update(ctx.get_eval_symbols()); gbls.update({'__name__': …, '__file__': …})` -/
def freshDict (c : Ctx) : Dict :=
  Dict.set (Dict.set (Dict.setAll [("ayns", ⟨.injected, c.build⟩)] c.syms ⟨.sym, c.build⟩)
    "__name__" ⟨.injected, c.build⟩) "__file__" ⟨.injected, c.build⟩

/-- the stores performed by the code of build `b` -/
def execDefs (defs : List String) (b : Nat) (d : Dict) : Dict := Dict.setAll d defs ⟨.defn, b⟩

/-! ### 2. the split of the code text -/

/-- `str.isspace` for one character (the set used by `str.strip()` and by `\s` in `re`) -/
def pySpace (c : Char) : Bool :=
  let n := c.toNat
  (9 ≤ n && n ≤ 13) || (28 ≤ n && n ≤ 32) || n = 0x85 || n = 0xA0 || n = 0x1680 ||
  (0x2000 ≤ n && n ≤ 0x200A) || n = 0x2028 || n = 0x2029 || n = 0x202F || n = 0x205F || n = 0x3000

/-- `str.lstrip()` -/
def lstrip (s : Str) : Str := s.dropWhile pySpace
/-- `str.rstrip()`: a character is dropped when it is whitespace and everything after it is dropped -/
def rstrip : Str → Str
  | [] => []
  | c :: cs => if (rstrip cs).isEmpty && pySpace c then [] else c :: rstrip cs
/-- `str.strip()` -/
def strip (s : Str) : Str := rstrip (lstrip s)

/-- first piece and remaining pieces of `s.split(sep)` -/
def splitAux (sep : Char) : Str → Str × List Str
  | [] => ([], [])
  | c :: cs =>
    let r := splitAux sep cs
    if c = sep then ([], r.1 :: r.2) else (c :: r.1, r.2)

/-- `s.split(sep)` for a one-character separator (never empty) -/
def splitOn (sep : Char) (s : Str) : List Str := (splitAux sep s).1 :: (splitAux sep s).2

/-- `sep.join(pieces)` -/
def joinSep (sep : Char) : List Str → Str
  | [] => []
  | [p] => p
  | p :: q :: rest => p ++ sep :: joinSep sep (q :: rest)

/-- `lines = self.strip().split('\n'); lines = [l for line in lines for l in line.split(';')]` -/
def splitStmts (code : Str) : List Str := (splitOn '\n' (strip code)).flatMap (splitOn ';')

/-- `(lines[:-1], lines[-1].strip())` — the pieces joined by newlines are `exec`uted, then the last
one is `eval`uated -/
def splitCodeL (code : Str) : List Str × Str :=
  ((splitStmts code).dropLast, strip ((splitStmts code).getLast?.getD []))

def splitCode (code : String) : List String × String :=
  ((splitCodeL code.toList).1.map String.ofList, String.ofList (splitCodeL code.toList).2)

/-- `len(lines) > 1`: the code has an `exec` part -/
def multiLineL (code : Str) : Bool := !(splitCodeL code).1.isEmpty

/-! ### 3. f-string normalisation -/

def isQuote (c : Char) : Bool := c = '\'' || c = '"'

/-- `_fstr_regex = re.compile(r"^\s*f(['\"]).*\1\s*$")` (`.` is any character but a newline) -/
def fstrRegex (s : Str) : Bool :=
  match lstrip s with
  | 'f' :: q :: rest =>
    isQuote q &&
      (match (rstrip rest).reverse with
       | q' :: midRev => q' = q && !midRev.contains '\n'
       | [] => false)
  | _ => false

/-- the check of `FStrNode.__init__`:
`len(fstr) >= 3 and fstr[0] == 'f' and fstr[1] in ['"', "'"] and fstr[1] == fstr[-1]` -/
def wellFormed (s : Str) : Bool :=
  match s with
  | 'f' :: q :: rest => isQuote q && rest.getLast? = some q
  | _ => false

/-- `value.replace("'", "\\'")` -/
def escapeQ : Str → Str
  | [] => []
  | c :: cs => if c = '\'' then '\\' :: '\'' :: escapeQ cs else c :: escapeQ cs

/-- the literal `f'fmt'` / `f"fmt"` -/
def fLit (q : Char) (fmt : Str) : Str := 'f' :: q :: fmt ++ [q]

/-- `_maybe_fix_fstr`: the code text of the f-string node built from a scalar -/
def fixFstr (s : Str) : Str := if wellFormed s then s else fLit '\'' (escapeQ s)

/-- the code of the `FStrNode` a scalar `s` becomes: `explicit` = the scalar carries the `!fstr` tag;
otherwise the implicit resolver must match, else the scalar is not an f-string node at all -/
def normFstrL (explicit : Bool) (s : Str) : Option Str :=
  if explicit || fstrRegex s then some (fixFstr s) else none

def normFstr (explicit : Bool) (s : String) : Option String :=
  (normFstrL explicit s.toList).map String.ofList

/-- the format text inside a literal `f<q>…<q>` -/
def fstrBody (lit : Str) : Str := (lit.drop 2).dropLast

/-! ### 4. the namespace registry across builds -/

/-- `str(path).replace('.', '_')` -/
def mangleL (path : Str) : Str := path.map (fun c => if c = '.' then '_' else c)

/-- registry key: (mangled path, code text) — stands for
`f'awesomeyaml.eval_node_namespace.{mangled}_0x{md5(code)}'` -/
abbrev Key := Str × Str

/-- one evaluation of an eval / f-string node -/
structure Req where
  path : Str              -- `str(path)` of the node
  code : Str              -- `str(self)`
  persistent : Bool       -- `persistent_namespace`: true for `!eval`, false for f-strings
  defs : List String      -- the names the code stores into its globals in this run
  fails : Bool := false   -- the user code raises: nothing is written back or published
  deriving DecidableEq, Repr

def Req.key (r : Req) : Key := (mangleL r.path, r.code)
def Req.multiLine (r : Req) : Bool := multiLineL r.code

/-- `sys.modules` restricted to the eval-node modules: module name ↦ module `__dict__` -/
abbrev Registry := List (Key × Dict)

def Registry.get : Registry → Key → Option Dict
  | [], _ => none
  | (k, d) :: rest, q => if q = k then some d else Registry.get rest q

def Registry.set (reg : Registry) (k : Key) (d : Dict) : Registry := (k, d) :: reg

/-- the dict the code's namespace is initialised from, as the CURRENT code does it:
`sys.modules[name].__dict__` if the node is persistent and the module exists, else a fresh dict -/
def baseDict (reg : Registry) (c : Ctx) (r : Req) : Dict :=
  match (if r.persistent then Registry.get reg r.key else none) with
  | some d => d
  | none => freshDict c

def fromModule (reg : Registry) (r : Req) : Bool :=
  r.persistent && (Registry.get reg r.key).isSome

/-- `on_evaluate_impl`: the namespace the code has run in (after its stores), and the registry
afterwards.  `gbls = EvalGlobals(base, ctx.ecfg, …)` copies `base` and always consults the config of
the current build; afterwards `module_gbls.update(gbls)` (from_module) or a new module is published
(multi-line persistent code only). -/
def evalStep (reg : Registry) (c : Ctx) (r : Req) : Globals × Registry :=
  let base := baseDict reg c r
  let g : Globals := { dict := execDefs r.defs c.build base, cfg := c.cfg, build := c.build }
  let reg' :=
    if r.fails then reg
    else if fromModule reg r then Registry.set reg r.key (Dict.update base g.dict)
    else if r.multiLine && r.persistent then Registry.set reg r.key g.dict
    else reg
  (g, reg')

abbrev Step := Ctx × Req

/-- the namespaces of a sequence of node evaluations in one process -/
def runHist : Registry → List Step → List Globals
  | _, [] => []
  | reg, s :: rest => (evalStep reg s.1 s.2).1 :: runHist (evalStep reg s.1 s.2).2 rest

/-- the registry after a history -/
def runReg : Registry → List Step → Registry
  | reg, [] => reg
  | reg, s :: rest => runReg (evalStep reg s.1 s.2).2 rest

/-- the namespace the step would run in in a fresh process: a function of the step's own context -/
def freshGlobals (s : Step) : Globals := (evalStep [] s.1 s.2).1

/-- the step publishes a module -/
def publishes (s : Step) : Bool := s.2.persistent && s.2.multiLine && !s.2.fails

/-- no published module is met again by a later persistent node with the same key -/
def NoReuse : List Step → Prop
  | [] => True
  | s :: rest =>
    (publishes s = true → ∀ t ∈ rest, t.2.persistent = true → t.2.key ≠ s.2.key) ∧ NoReuse rest

end AY.Resolve
