/-
  AY.Model.Dump — the dumper: node tree → the representation tree of the dumped YAML text.

  Models yaml.py `_node_representer` together with the `ayns.represent` / `get_node_info_to_save` /
  `get_default_mode` methods of the node classes it calls:

    nodeInfo      get_node_info_to_save (user metadata + raw priority/delete/allow_new/safe) followed by
                  the elision loop.  With `p` the value on the `dumper.metadata` stack (None when no
                  enclosing dumped node states the flag) and `d` the type default, an explicit value `v`
                  is dropped when it is redundant:
                    priority / allow_new   v == (p if p is not None else d)
                    safe                   v == p          (no default: it belongs to the source, not to the node)
                    delete                 function node: v is True   (the constructor sets it itself)
                                           v is True: never           (drives the remove-emptied-key idiom)
                                           v is False, p is None, composed node: never (handed down to children)
                                           otherwise: v == (p if p is not None else d)
    kindTag       `ayns.tag` of the node class (`!null` for a None value)
    pushStack     `child_metadata = {**parent_metadata, **metadata}`, computed BEFORE the single-flag
                  shortcut turns an entry into a simple tag (`!force`, `!del`, …), then its `delete`
                  entry is overwritten by what the node hands down to its children
                  (`_get_child_kwargs()['implicit_delete']`: explicit, inherited, or the class default
                  of lists and function nodes) when that is not None; pushed for composed nodes only
    representWith the recursion over children with the pushed stack

  The result is a `Raw`: what PyYAML composes when the dumped text is parsed again (tag kind, decoded
  constructor keywords, children).  Every node kind has a `:metadata` tag form, so there always is
  such a tree; whether the keywords are written as one simple tag or as `!metadata:<hex>` does not
  show in `Raw`.  Text-level emission (quoting) is PyYAML's and is not modelled.
  Kind-specific: an f-string node has its own tag `!fstr`; `!clear` is value-less; a `!path` is
  written as the mapping `{values, ref_point, source_file}` that its constructor takes as keyword
  arguments — for a bare `!path` with metadata the tag is `!path:<hex>`, the multi-constructor reads
  the hex as reference point, the mapping's `ref_point: ''` overrides it and the metadata is
  dropped; `PrevNode.__init__` ignores its keywords (as the loader model does).
-/
import AY.Model.Construct
namespace AY

/-- the inferable entries of `dumper.metadata[-1]` (user metadata keys never collide with them) -/
structure DStack where
  prio : Option Int := none
  del : Option Bool := none
  new : Option Bool := none
  safe : Option Bool := none
  deriving DecidableEq, Repr, Inhabited

/-- one round of the elision loop for priority / allow_new / safe: dropped when `None` or when equal to
    what the re-parsed node would get anyway — the stack value, else the type default (`none` for safe) -/
def keepFlag {α : Type} [DecidableEq α] (cur parent dflt : Option α) : Option α :=
  match cur with
  | none => none
  | some c => if some c = parent.or dflt then none else some c

/-- the elision of `delete` (`isFunc`: FunctionNode, `isComp`: ComposedNode, `dflt`: class default) -/
def keepDel (isFunc isComp : Bool) (cur parent : Option Bool) (dflt : Bool) : Option Bool :=
  match cur with
  | none => none
  | some v =>
    if isFunc then (if v then none else some false)
    else if v then some true
    else if parent.isNone && isComp then some false
    else if some false = parent.or (some dflt) then none else some false

def Node.isFuncNode : Node → Bool
  | .comp _ k _ => k.isFunc
  | .leaf .. => false

/-- `get_node_info_to_save()` after the elision against `parent_metadata` and `get_default_mode()` -/
def nodeInfo (st : DStack) (n : Node) : CtorKw :=
  let f := n.flags
  { prio := keepFlag f.prio st.prio (some Tables.defaultPriority),
    del := keepDel n.isFuncNode n.isComp f.del st.del n.defaultDel,
    new := keepFlag f.new st.new (some Tables.defaultAllowNew),
    safe := keepFlag f.safe st.safe none,
    md := f.md }

def CtorKw.flagCount (kw : CtorKw) : Nat :=
  (if kw.prio.isSome then 1 else 0) + (if kw.del.isSome then 1 else 0) +
  (if kw.new.isSome then 1 else 0) + (if kw.safe.isSome then 1 else 0)

def CtorKw.isEmpty (kw : CtorKw) : Bool := kw.flagCount == 0 && kw.md.isEmpty

/-- `{**parent_metadata, **metadata}` with `delete` replaced by the handed-down `implicit_delete`
    (`handed`) when there is one: what a composed node hands down on the dumper's stack -/
def pushStack (st : DStack) (kw : CtorKw) (handed : Option Bool) : DStack :=
  { prio := kw.prio.or st.prio, del := handed.or (kw.del.or st.del), new := kw.new.or st.new,
    safe := kw.safe.or st.safe }

/-- `node._get_child_kwargs().get('implicit_delete')` (a stream hands down nothing) -/
def handedDelete (f : Flags) (k : CompKind) : Option Bool :=
  match childKw f k with
  | some kw => kw.iDel
  | none => none

/-- the tag of untagged-class nodes: none, or the merge-control form when something is left to say -/
def plainTag (kw : CtorKw) : TagKind := if kw.isEmpty then .none else .plain

/-- scalars and the other leaf classes -/
def representLeaf (st : DStack) (f : Flags) (k : LeafKind) : Raw :=
  let kw := nodeInfo st (.leaf f k)
  match k with
  | .scalar .null => .scalar .null kw .empty
  | .scalar v => .scalar (plainTag kw) kw (.lit v)
  | .xref p => .scalar .xref kw (.text p)
  | .prev p => .scalar .prev kw (.text p)
  | .eval c => .scalar .eval kw (.text c)
  | .fstr c => .scalar .fstr kw (.text c)
  | .imp nm => .scalar .imp kw (.text nm)
  | .required => .scalar .required kw .empty
  | .clear => .scalar .clear kw .empty
  | .incl fs => .seq .incl kw (fs.map (fun s => Raw.scalar .none {} (.lit (.str s))))

/-- the composed classes, children already represented -/
def representComp (k : CompKind) (kw : CtorKw) (seqItems : List Raw) (mapItems : List (Key × Raw)) : Raw :=
  match k with
  | .dict => .map (plainTag kw) kw mapItems
  | .call fn => .map (.call fn) kw mapItems
  | .bind fn => .map (.bind fn) kw mapItems
  | .list => .seq (plainTag kw) kw seqItems
  | .stream => .seq (plainTag kw) kw seqItems
  | .append => .seq .append kw seqItems
  | .extend => .seq .extend kw seqItems
  | .path r =>
    -- the dumped mapping {values, ref_point, source_file} becomes keyword arguments of PathNode; for a
    -- bare `!path` with metadata (`!path:<hex>`) the metadata is silently dropped on re-parse
    if r = "" then .seq (.path "") {} seqItems else .seq (.path r) kw seqItems

/-- `source_file` of a re-parsed `!path` node: the dumped mapping carries the original file name as the
    keyword `source_file`, which wins over `kwargs.setdefault('source_file', <file being parsed>)` -/
def pathSourceOnReparse (env : Env) (f : Flags) : Option String := f.src.or env.src

mutual
/-- `_node_representer(dumper, node)` with `dumper.metadata[-1] = st` -/
def representWith (st : DStack) : Node → Raw
  | .leaf f k => representLeaf st f k
  | .comp f k cs =>
    let kw := nodeInfo st (.comp f k cs)
    let st' := pushStack st kw (handedDelete f k)
    if k.isDictFam then representComp k kw [] (representMap st' cs)
    else representComp k kw (representSeq st' cs) []
def representSeq (st : DStack) : List (Key × Node) → List Raw
  | [] => []
  | (_, c) :: rest => representWith st c :: representSeq st rest
def representMap (st : DStack) : List (Key × Node) → List (Key × Raw)
  | [] => []
  | (key, c) :: rest => (key, representWith st c) :: representMap st rest
end

/-- `yaml.dump(node)`: the stack starts empty -/
def represent (n : Node) : Raw := representWith {} n

/-- dump, parse again -/
def reparse (env : Env) (n : Node) : Except Err Node := construct env (represent n)

end AY
