/-
  AY.Model.Dump — the dumper: node tree → the representation tree of the dumped YAML text.

  Models yaml.py `_node_representer` together with the `ayns.represent` / `get_node_info_to_save` /
  `get_default_mode` methods of the node classes it calls:

    nodeInfo      get_node_info_to_save (user metadata + raw priority/delete/allow_new/safe) followed by
                  the elision loop: an entry is dropped when it is None, when it equals the value on the
                  `dumper.metadata` stack, or when it equals the type default (`_default_priority`,
                  class `_default_delete`, `_default_allow_new`, and — for `safe` — the NODE's own
                  `_default_safe`, i.e. the source-level flag)
    kindTag       `ayns.tag` of the node class (`!null` for a None value; FStrNode inherits `!eval`)
    isShortcut    the single-simple-tag shortcut (`!force`, `!del`, … instead of `!metadata:…`); the
                  entry turned into a simple tag is REMOVED from the metadata before the stack push
    pushStack     `dumper.metadata.append({**parent_metadata, **metadata})`, composed nodes only
    representWith the recursion over children with the pushed stack

  The result is a `Raw`: what PyYAML composes when the dumped text is parsed again (tag kind, decoded
  constructor keywords, children).  Text-level emission (quoting, the unquoted `repr` of tagged
  scalars) is not modelled; `.error` records the one case in which there is no such tree:
    noMetadataForm  metadata on a node kind whose tag has no `:metadata` form (`!append`, `!prev`, `!import`,
                    `!include`, `!fstr`): the emitted tag `!append:<hex>` has no constructor
  Repaired in /repo and followed here: `!clear` is dumped as a value-less `!clear[:metadata]`; an
  f-string node has its own tag `!fstr`; `safe=True` as the only entry is written as `!safe`, which the
  loader reads as the keyword `safe=True` (in `Raw`: the plain tag with `safe := some true`); a `!path`
  without reference point is written as the mapping `{values, ref_point: '', source_file}` which the
  `!path` constructor now takes as keyword arguments — with metadata the tag is `!path:<hex>`, the
  multi-constructor reads the hex as reference point, the mapping's own `ref_point: ''` overrides it
  and the metadata is silently dropped.
-/
import AY.Model.Construct
namespace AY

inductive DumpErr where
  | noMetadataForm
  deriving DecidableEq, Repr, Inhabited

/-- the inferable entries of `dumper.metadata[-1]` (user metadata keys never collide with them) -/
structure DStack where
  prio : Option Int := none
  del : Option Bool := none
  new : Option Bool := none
  safe : Option Bool := none
  deriving DecidableEq, Repr, Inhabited

/-- one round of the elision loop: `None`, equal to the stack value, or equal to the type default -/
def keepFlag {α : Type} [DecidableEq α] (cur parent : Option α) (dflt : α) : Option α :=
  match cur with
  | none => none
  | some c => if parent = some c || c = dflt then none else some c

/-- `get_node_info_to_save()` after the elision against `parent_metadata` and `get_default_mode()` -/
def nodeInfo (st : DStack) (n : Node) : CtorKw :=
  let f := n.flags
  { prio := keepFlag f.prio st.prio Tables.defaultPriority,
    del := keepFlag f.del st.del n.defaultDel,
    new := keepFlag f.new st.new Tables.defaultAllowNew,
    safe := keepFlag f.safe st.safe f.dSafe,
    md := f.md }

def CtorKw.flagCount (kw : CtorKw) : Nat :=
  (if kw.prio.isSome then 1 else 0) + (if kw.del.isSome then 1 else 0) +
  (if kw.new.isSome then 1 else 0) + (if kw.safe.isSome then 1 else 0)

def CtorKw.isEmpty (kw : CtorKw) : Bool := kw.flagCount == 0 && kw.md.isEmpty

/-- `if not tag and len(metadata) == 1` and the only entry is one of `tags_to_infer` -/
def isShortcut (tagged : Bool) (kw : CtorKw) : Bool :=
  !tagged && kw.md.isEmpty && kw.flagCount == 1

/-- `{**parent_metadata, **metadata}` with the metadata that is left after the shortcut -/
def pushStack (st : DStack) (tagged : Bool) (kw : CtorKw) : DStack :=
  if isShortcut tagged kw then st
  else { prio := kw.prio.or st.prio, del := kw.del.or st.del, new := kw.new.or st.new, safe := kw.safe.or st.safe }

/-- the tag of untagged-class nodes: none, or the merge-control form when something is left to say -/
def plainTag (kw : CtorKw) : TagKind := if kw.isEmpty then .none else .plain

/-- scalars and the other leaf classes -/
def representLeaf (st : DStack) (f : Flags) (k : LeafKind) : Except DumpErr Raw :=
  let kw := nodeInfo st (.leaf f k)
  let noMd (r : Raw) : Except DumpErr Raw := if kw.isEmpty then .ok r else .error .noMetadataForm
  match k with
  | .scalar .null => .ok (.scalar .null kw .empty)
  | .scalar v => .ok (.scalar (plainTag kw) kw (.lit v))
  | .xref p => .ok (.scalar .xref kw (.text p))
  | .prev p => noMd (.scalar .prev kw (.text p))
  | .eval c => .ok (.scalar .eval kw (.text c))
  | .fstr c => noMd (.scalar .fstr kw (.text c))        -- `!fstr` has no `:metadata` form
  | .imp nm => noMd (.scalar .imp kw (.text nm))
  | .required => .ok (.scalar .required kw .empty)
  | .clear => .ok (.scalar .clear kw .empty)
  | .incl fs => noMd (.seq .incl kw (fs.map (fun s => Raw.scalar .none {} (.lit (.str s)))))

/-- the composed classes, children already represented -/
def representComp (k : CompKind) (kw : CtorKw) (seqItems : List Raw) (mapItems : List (Key × Raw)) :
    Except DumpErr Raw :=
  match k with
  | .dict => .ok (.map (plainTag kw) kw mapItems)
  | .call fn => .ok (.map (.call fn) kw mapItems)
  | .bind fn => .ok (.map (.bind fn) kw mapItems)
  | .list => .ok (.seq (plainTag kw) kw seqItems)
  | .stream => .ok (.seq (plainTag kw) kw seqItems)
  | .append => if kw.isEmpty then .ok (.seq .append kw seqItems) else .error .noMetadataForm
  | .extend => .ok (.seq .extend kw seqItems)
  | .path r =>
    -- the dumped mapping {values, ref_point, source_file} becomes keyword arguments of PathNode; for a
    -- bare `!path` with metadata (`!path:<hex>`) the metadata is silently dropped on re-parse
    if r = "" then .ok (.seq (.path "") {} seqItems) else .ok (.seq (.path r) kw seqItems)

/-- `source_file` of a re-parsed `!path` node: the dumped mapping carries the original file name as the
    keyword `source_file`, which wins over `kwargs.setdefault('source_file', <file being parsed>)` -/
def pathSourceOnReparse (env : Env) (f : Flags) : Option String := f.src.or env.src

/-- whether the class has a tag of its own (`ayns.tag` is not None) -/
def CompKind.tagged : CompKind → Bool
  | .dict | .list | .stream => false
  | _ => true

mutual
/-- `_node_representer(dumper, node)` with `dumper.metadata[-1] = st` -/
def representWith (st : DStack) : Node → Except DumpErr Raw
  | .leaf f k => representLeaf st f k
  | .comp f k cs =>
    let kw := nodeInfo st (.comp f k cs)
    let st' := pushStack st k.tagged kw
    if k.isDictFam then
      match representMap st' cs with
      | .error e => .error e
      | .ok items => representComp k kw [] items
    else
      match representSeq st' cs with
      | .error e => .error e
      | .ok items => representComp k kw items []
def representSeq (st : DStack) : List (Key × Node) → Except DumpErr (List Raw)
  | [] => .ok []
  | (_, c) :: rest =>
    match representWith st c with
    | .error e => .error e
    | .ok r =>
      match representSeq st rest with
      | .error e => .error e
      | .ok rs => .ok (r :: rs)
def representMap (st : DStack) : List (Key × Node) → Except DumpErr (List (Key × Raw))
  | [] => .ok []
  | (key, c) :: rest =>
    match representWith st c with
    | .error e => .error e
    | .ok r =>
      match representMap st rest with
      | .error e => .error e
      | .ok rs => .ok ((key, r) :: rs)
end

/-- `yaml.dump(node)`: the stack starts empty -/
def represent (n : Node) : Except DumpErr Raw := representWith {} n

/-- dump, parse again -/
def reparse (env : Env) (n : Node) : Option (Except Err Node) :=
  match represent n with
  | .error _ => none
  | .ok r => some (construct env r)

end AY
