/-
  AY.Model.ErrWrap — errors.py: the class hierarchy, `rethrow_point`, `api_entry` (and the `rethrow_as_*_error` decorators of
  nodes/node.py, which are `with errors.rethrow_point(error_type, self, path, other): return func(...)`).

      class Error(yaml.error.MarkedYAMLError)                       # error_msg, node, path, extra_node, note
      class ParsingError(Error) / PreprocessError(Error) / PremergeError(Error) / MergeError(Error) / EvalError(Error)
      class UnsafeError(EvalError)

      @contextlib.contextmanager
      def rethrow_point(error_type, self, path, other):
          try:
              yield
          except error_type as e:
              if shorten_traceback: raise
              else: raise error_type(error_msg=None, node=self, path=path, extra_node=other) from e
          except Exception as e:
              if rethrow:
                  reason = None
                  if include_original_exception: reason = e
                  raise error_type(error_msg=str(e), node=self, path=path, extra_node=other) from reason
              else: raise

      def api_entry(fn):
          def impl(*args, **kwargs):
              if getattr(_api_entered, 'value', False) or not rethrow or not shorten_traceback:
                  return fn(*args, **kwargs)
              _api_entered.value = True
              try:
                  return fn(*args, **kwargs)
              except Error as e:
                  if include_original_exception:
                      orig_exp = e.__cause__        # since repo fix D43 (before: e.__context__, finding D40)
                      if orig_exp is not None and orig_exp.__traceback__ is not None:
                          orig_exp.__traceback__ = orig_exp.__traceback__.tb_next
                      reason = orig_exp
                  else: reason = None
                  raise type(e)(error_msg=e.error_msg, node=e.node, path=e.path, extra_node=e.extra_node, note=e.note) from reason
              finally:
                  _api_entered.value = False
          return impl

  An exception is a value: class, `str()` text, payload, `__cause__`, `__context__`, `__suppress_context__`.  Python's rules used:
  `raise X from Y` inside `except … as e` gives `X.__cause__ = Y`, `X.__context__ = e`, `X.__suppress_context__ = True`; a bare
  `raise` and an exception that merely passes a `with` block are unchanged.  `api_entry` takes the reason from `e.__cause__` (repo fix D43; it
  used to be `e.__context__`, which for an error raised directly is whatever the CALLER is handling: finding D40).  Tracebacks
  are not modelled (the one-frame trim of the reason's traceback changes nothing that is observed here).
  `_api_entered` is a `threading.local`: one Boolean per thread.  Nodes are object numbers, paths are texts.  Lean core only.
-/
namespace AY.ErrWrap

/-- the awesomeyaml error classes -/
inductive AyCls
  | error | parsing | preprocess | premerge | merge | eval | unsafeErr
  deriving DecidableEq, Repr

/-- exception classes: an awesomeyaml error, any other `Exception` subclass (ValueError, KeyError, ImportError, a user class),
    or a `BaseException` that is not an `Exception` (KeyboardInterrupt, SystemExit) -/
inductive Cls
  | ay (c : AyCls)
  | foreign (name : String)
  | baseOnly (name : String)
  deriving DecidableEq, Repr

def AyCls.name : AyCls → String
  | .error => "Error" | .parsing => "ParsingError" | .preprocess => "PreprocessError" | .premerge => "PremergeError"
  | .merge => "MergeError" | .eval => "EvalError" | .unsafeErr => "UnsafeError"

/-- `issubclass(a, b)` inside the hierarchy -/
def AyCls.sub : AyCls → AyCls → Bool
  | _, .error => true
  | .unsafeErr, .eval => true
  | a, b => a == b

/-- the five classes the pipeline's rethrow points use (parsing, preprocess, premerge, merge, eval) -/
def AyCls.isStage : AyCls → Bool
  | .parsing | .preprocess | .premerge | .merge | .eval => true
  | _ => false

/-- `isinstance(e, errors.Error)` -/
def Cls.isAy : Cls → Bool
  | .ay _ => true
  | _ => false

/-- `isinstance(e, Exception)` -/
def Cls.isException : Cls → Bool
  | .baseOnly _ => false
  | _ => true

/-- `isinstance(e, error_type)` for an awesomeyaml `error_type` -/
def Cls.sub : Cls → AyCls → Bool
  | .ay a, b => a.sub b
  | _, _ => false

/-- the attributes of an awesomeyaml error -/
structure Payload where
  msg : Option String := none       -- error_msg
  node : Option Nat := none
  path : Option String := none
  extra : Option Nat := none        -- extra_node
  note : Option String := none
  deriving DecidableEq, Repr

inductive Exc
  | mk (cls : Cls) (text : String) (pl : Payload) (cause : Option Exc) (context : Option Exc) (suppress : Bool)
  deriving Repr

def Exc.cls : Exc → Cls | .mk c _ _ _ _ _ => c
def Exc.text : Exc → String | .mk _ t _ _ _ _ => t
def Exc.pl : Exc → Payload | .mk _ _ p _ _ _ => p
def Exc.cause : Exc → Option Exc | .mk _ _ _ c _ _ => c
def Exc.context : Exc → Option Exc | .mk _ _ _ _ c _ => c
def Exc.suppress : Exc → Bool | .mk _ _ _ _ _ s => s

/-- `str(e)`: for a foreign exception the text it was made with; the text of an awesomeyaml error (marks, file names) is not
    modelled — it is the token `<ClassName>` (the harness checks `error_msg == str(wrapped)` on the real objects) -/
def Exc.str (e : Exc) : String :=
  match e.cls with
  | .ay c => "<" ++ c.name ++ ">"
  | _ => e.text

/-- the exception and its `__cause__` chain -/
def Exc.causes : Exc → List Exc
  | .mk c t p none x s => [.mk c t p none x s]
  | .mk c t p (some e) x s => .mk c t p (some e) x s :: e.causes

/-- the arguments of a rethrow point besides the class: `self`, `path`, `other` -/
structure Site where
  node : Option Nat := none
  path : Option String := none
  other : Option Nat := none
  deriving DecidableEq, Repr

/-- the three module-level switches of errors.py -/
structure Flags where
  rethrow : Bool := true
  includeOriginal : Bool := true
  shorten : Bool := true
  deriving DecidableEq, Repr

/-- `raise error_type(error_msg=msg, node=self, path=path, extra_node=other) from cause` while handling `handled` -/
def mkErr (ty : AyCls) (msg : Option String) (site : Site) (cause : Option Exc) (handled : Exc) : Exc :=
  .mk (.ay ty) "" { msg := msg, node := site.node, path := site.path, extra := site.other, note := none } cause (some handled) true

/-- what leaves `with rethrow_point(ty, self, path, other):` when the body raised `e` -/
def wrap (fl : Flags) (ty : AyCls) (site : Site) (e : Exc) : Exc :=
  if e.cls.sub ty then
    if fl.shorten then e else mkErr ty none site (some e) e
  else if e.cls.isException then
    if fl.rethrow then mkErr ty (some e.str) site (if fl.includeOriginal then some e else none) e
    else e
  else e

/-- `raise type(e)(error_msg=e.error_msg, node=e.node, path=e.path, extra_node=e.extra_node, note=e.note) from reason` -/
def recreate (fl : Flags) (e : Exc) : Exc :=
  .mk e.cls "" e.pl (if fl.includeOriginal then e.cause else none) (some e) true

/-- a computation in one thread: from the thread's `_api_entered.value` to an outcome and the new value -/
abbrev Comp (α : Type) := Bool → Except Exc α × Bool

def rethrowPoint {α : Type} (fl : Flags) (ty : AyCls) (site : Site) (body : Comp α) : Comp α := fun g =>
  match body g with
  | (.ok v, g') => (.ok v, g')
  | (.error e, g') => (.error (wrap fl ty site e), g')

def apiEntry {α : Type} (fl : Flags) (body : Comp α) : Comp α := fun g =>
  if g || !fl.rethrow || !fl.shorten then body g
  else
    match body true with
    | (.ok v, _) => (.ok v, false)                                               -- finally: _api_entered.value = False
    | (.error e, _) => (.error (if e.cls.isAy then recreate fl e else e), false)

/-- nestings of rethrow points and api entries around code that raises or returns -/
inductive Prog
  | raise (e : Exc)
  | ret
  | point (ty : AyCls) (site : Site) (body : Prog)
  | api (body : Prog)
  | seq (first second : Prog)          -- first; second
  | attempt (first second : Prog)      -- try: first / except BaseException: pass;  then second
  deriving Repr

def run (fl : Flags) : Prog → Comp Unit
  | .raise e => fun g => (.error e, g)
  | .ret => fun g => (.ok (), g)
  | .point ty site body => rethrowPoint fl ty site (run fl body)
  | .api body => apiEntry fl (run fl body)
  | .seq a b => fun g =>
    match run fl a g with
    | (.ok _, g') => run fl b g'
    | (.error e, g') => (.error e, g')
  | .attempt a b => fun g => run fl b (run fl a g).2

/-- consecutive top-level calls in one thread (the caller catches what a call raises) -/
def runCalls (fl : Flags) : List Prog → Bool → List (Except Exc Unit × Bool)
  | [], _ => []
  | p :: ps, g => run fl p g :: runCalls fl ps (run fl p g).2

/-- rethrow points nested as listed, OUTERMOST first, around `body` -/
def nest : List (AyCls × Site) → Prog → Prog
  | [], b => b
  | (ty, s) :: rest, b => .point ty s (nest rest b)

/-- the exception after it has left all the points (outermost first) -/
def wrapAll (fl : Flags) : List (AyCls × Site) → Exc → Exc
  | [], e => e
  | (ty, s) :: rest, e => wrap fl ty s (wrapAll fl rest e)

/-- `EvalContext.evaluate_node` recursion: every level is an api entry around the `rethrow_as_eval_error` point of the node
    (outermost = the root of the config first) -/
def evalNest : List Site → Prog → Prog
  | [], b => b
  | s :: rest, b => .api (.point .eval s (evalNest rest b))

/-- `Config.build(...)`: api entry around `Builder.build()` (api entry; preprocess, then `flatten` = api entry around the
    premerge and merge recursions) followed by `EvalContext.evaluate` (api entry around the evaluate_node recursion) -/
def buildPipeline (preprocess flatten evaluate : Prog) : Prog :=
  .api (.seq (.api (.seq preprocess (.api flatten))) (.api evaluate))

/-- per-thread guards: a computation run in thread `t` -/
def runIn {α : Type} (t : Nat) (c : Comp α) (st : Nat → Bool) : Except Exc α × (Nat → Bool) :=
  ((c (st t)).1, fun u => if u = t then (c (st t)).2 else st u)

end AY.ErrWrap
