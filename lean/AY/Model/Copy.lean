/-
  AY.Model.Copy — the copy protocol of node trees (`copy.deepcopy`, `pickle`).

    reduceNode        ComposedNode.__reduce__ / __getstate__, ConfigScalar.__reduce__ (and
                      object.__reduce_ex__ for the tag classes that are not dynamic scalar types)
    reconstructCopy   copy._reconstruct: `y = _recreate(cls)`, `y.__setstate__(deepcopy(state))`,
                      THEN `y.append(deepcopy(item))` / `y[key] = deepcopy(value)` — the items go
                      through the class's own mutators, i.e. `ComposedNode.ayns.set_child`, under the
                      already restored flags (re-adoption: `adopt`)
    reconstructPickle pickle (save_reduce / load_build order): REDUCE, then APPENDS / SETITEMS
                      (`extend` → `append` → `set_child`, `__setitem__` → `set_child`), and only then
                      BUILD (`__setstate__`).  While the items arrive the new object has no `_delete`
                      attribute yet, so `_get_child_kwargs()` returns `{}` (nothing is written into the
                      child) — but `set_child` still calls `value._propagate_implicit_values()` on the
                      CHILD, which is complete at that time (pickle builds bottom-up), so every
                      non-root container re-propagates its own flags one level down.

  Both orders were traced on the real code (set_child / _propagate_implicit_values calls during
  `copy.deepcopy(t)` and `pickle.loads(pickle.dumps(t))`), see harness/props/c19.py.

  `__reduce__` returns `(_recreate, (cls,), state, listitems, dictitems)`: the state is `__dict__`
  without `_children`, list items are `iter(self)` (values only — positions are implicit), dict items
  are `iter(self.items())`.
-/
import AY.Model.Flags
namespace AY

/-- What `__reduce__` hands to the copy machinery. The class (`type(self)`, with `_func` /
    `ref_point` which live in the state) is the `CompKind` / `LeafKind`; the state is `Flags`. -/
inductive Red where
  /-- `(ConfigScalar, (native,), state)`, or `object.__reduce_ex__` for the non-dynamic leaf classes -/
  | leaf (st : Flags) (k : LeafKind)
  /-- list family: `(_recreate, (cls,), state, iter(self), None)` -/
  | compL (st : Flags) (k : CompKind) (items : List Red)
  /-- dict family: `(_recreate, (cls,), state, None, iter(self.items()))` -/
  | compD (st : Flags) (k : CompKind) (items : List (Key × Red))
  deriving Repr, Inhabited

mutual
/-- `node.__reduce__()`, applied recursively (the items are reduced when they are copied). -/
def reduceNode : Node → Red
  | .leaf f k => .leaf f k
  | .comp f k cs => if k.isDictFam then .compD f k (reduceItems cs) else .compL f k (reduceValues cs)
/-- `iter(self.items())` -/
def reduceItems : List (Key × Node) → List (Key × Red)
  | [] => []
  | (key, c) :: rest => (key, reduceNode c) :: reduceItems rest
/-- `iter(self)` of a list: the positions are not transmitted -/
def reduceValues : List (Key × Node) → List Red
  | [] => []
  | (_, c) :: rest => reduceNode c :: reduceValues rest
end

/-- `ConfigList.append(value)`: `set_child(len(self), value)` -/
def appendChild (pf : Flags) (pk : CompKind) (acc : List (Key × Node)) (v : Node) : List (Key × Node) :=
  acc ++ [(Key.int acc.length, adopt pf pk v)]

/-- `ConfigDict.__setitem__(key, value)`: `set_child(key, value)` -/
def setItemChild (pf : Flags) (pk : CompKind) (acc : List (Key × Node)) (key : Key) (v : Node) :
    List (Key × Node) :=
  aset key (adopt pf pk v) acc

mutual
/-- `copy.deepcopy(node)`: state first, then the items through `append` / `__setitem__`. -/
def reconstructCopy : Red → Node
  | .leaf st k => .leaf st k
  | .compL st k items => .comp st k (copyAppend st k items [])
  | .compD st k items => .comp st k (copySetItems st k items [])
def copyAppend (st : Flags) (k : CompKind) : List Red → List (Key × Node) → List (Key × Node)
  | [], acc => acc
  | r :: rest, acc => copyAppend st k rest (appendChild st k acc (reconstructCopy r))
def copySetItems (st : Flags) (k : CompKind) :
    List (Key × Red) → List (Key × Node) → List (Key × Node)
  | [], acc => acc
  | (key, r) :: rest, acc => copySetItems st k rest (setItemChild st k acc key (reconstructCopy r))
end

/-- `set_child` on an object that has no `_delete` attribute yet (unpickling): nothing is inherited
    (`_get_child_kwargs() == {}`), the child is stored and `child._propagate_implicit_values()` runs. -/
def bareAdopt (v : Node) : Node := propagate v

mutual
/-- `pickle.loads(pickle.dumps(node))`: the items first (bare adoption), then the state. -/
def reconstructPickle : Red → Node
  | .leaf st k => .leaf st k
  | .compL st k items => .comp st k (pickleAppend items [])
  | .compD st k items => .comp st k (pickleSetItems items [])
def pickleAppend : List Red → List (Key × Node) → List (Key × Node)
  | [], acc => acc
  | r :: rest, acc => pickleAppend rest (acc ++ [(Key.int acc.length, bareAdopt (reconstructPickle r))])
def pickleSetItems : List (Key × Red) → List (Key × Node) → List (Key × Node)
  | [], acc => acc
  | (key, r) :: rest, acc => pickleSetItems rest (aset key (bareAdopt (reconstructPickle r)) acc)
end

/-! ### The invariant that makes a copy equal to its original -/

/-- The inherited flags `f` of a child are what its parent prescribes through `kw`
    (`_get_child_kwargs`), with the one exception the code makes: an inherited `safe = False` is
    sticky (`_implicit_safe is False` is never overwritten). -/
def childFlagsOK (kw : ChildKw) (f : Flags) : Bool :=
  f.iDel == kw.iDel && f.iNew == kw.iNew && (f.iSafe == kw.iSafe || f.iSafe == some false)

mutual
/-- Every child's inherited flags (`_implicit_delete/_implicit_allow_new/_implicit_safe`) are what
    `childKw` of its parent prescribes, at every level. A stream imposes nothing on its children
    (`StreamNode._get_child_kwargs` is empty) but they must be consistent themselves. -/
def FlagsConsistent : Node → Bool
  | .leaf _ _ => true
  | .comp f k cs => consistentList (childKw f k) cs
def consistentList (kw : Option ChildKw) : List (Key × Node) → Bool
  | [] => true
  | (_, c) :: rest =>
    (match kw with
      | none => true
      | some kw => childFlagsOK kw c.flags) && FlagsConsistent c && consistentList kw rest
end

/-- all children are consistent trees (nothing is said about their own inherited flags) -/
def allConsistent (cs : List (Key × Node)) : Bool := consistentList none cs

/-- `FlagsConsistent` below the root only: what `pickle` needs (it never re-adopts the root's children). -/
def ConsistentBelow : Node → Bool
  | .leaf _ _ => true
  | .comp _ _ cs => allConsistent cs

/-! ### Key well-formedness (the C17 invariant of `_children`) -/

def keyFresh (k : Key) : List (Key × Node) → Bool
  | [] => true
  | (k', _) :: rest => k' != k && keyFresh k rest

def keysNodup : List (Key × Node) → Bool
  | [] => true
  | (k, _) :: rest => keyFresh k rest && keysNodup rest

def numberedFrom : Nat → List (Key × Node) → Bool
  | _, [] => true
  | i, (k, _) :: rest => k == Key.int i && numberedFrom (i + 1) rest

mutual
/-- mapping children have pairwise different keys, list children are numbered `0 … n-1` -/
def WellKeyed : Node → Bool
  | .leaf _ _ => true
  | .comp _ k cs => (if k.isDictFam then keysNodup cs else numberedFrom 0 cs) && wellKeyedList cs
def wellKeyedList : List (Key × Node) → Bool
  | [] => true
  | (_, c) :: rest => WellKeyed c && wellKeyedList rest
end

end AY
