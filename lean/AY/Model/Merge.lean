/-
  AY.Model.Merge — the merge algebra.

  One Lean function per Python function, same case order:
    firstNotMissing   ComposedNode.ayns.get_first_not_missing_node
    filterNode        ComposedNode.ayns.filter_nodes
    reqNew            ayns._require_all_new
    replaceSelfFlags / replaceOtherFlags / maybePromote   ConfigNode._replace_self/_replace_other/_maybe_promote
    leafRule          ConfigNode.ayns.on_merge_impl
    compMerge         ComposedNode.ayns.on_merge_impl   (loop body: `mergeStep`)
    listMerge         ConfigList.ayns.on_merge_impl
    funcMerge         FunctionNode.ayns.on_merge_impl
    mergeF            dispatch on the class of `self`, fuel = depth of `other`

  In-place mutation becomes value passing: a merge returns the resulting node together with a
  flag telling whether the result is the *same object* as `self` (`possibly_new_child is child`).
  Errors carry paths relative to the node being merged; callers prepend the key.
-/
import AY.Model.Flags
import AY.Model.TableCheck
namespace AY

/-! ### depth (fuel) -/
mutual
def Node.depth : Node → Nat
  | .leaf .. => 0
  | .comp _ _ cs => depthList cs + 1
def depthList : List (Key × Node) → Nat
  | [] => 0
  | (_, c) :: rest => max c.depth (depthList rest)
end

/-- Prepend a key to the path carried by an error. -/
def Err.prepend (k : Key) : Err → Err
  | .notnew p => .notnew (k :: p)
  | e => e

/-- `root.ayns.get_first_not_missing_node(path)`: the deepest existing node on `path`. -/
def firstNotMissing : Node → Path → Node
  | n, [] => n
  | .leaf f k, _ :: _ => .leaf f k
  | .comp f k cs, key :: rest =>
    match alookup key cs with
    | none => .comp f k cs
    | some c => firstNotMissing c rest

/-- `root.ayns.get_node(path)` (exact lookup; membership in `_children` at every step). -/
def getNode : Node → Path → Option Node
  | n, [] => some n
  | .leaf .., _ :: _ => none
  | .comp _ _ cs, key :: rest =>
    match alookup key cs with
    | none => none
    | some c => getNode c rest

/-- Apply `remove_child` for every name (already in the order of removal). -/
def removeMany (pf : Flags) (pk : CompKind) : List Key → List (Key × Node) → List (Key × Node)
  | [], cs => cs
  | nm :: rest, cs =>
    match removeChild pf pk nm cs with
    | some cs' => removeMany pf pk rest cs'
    | none => removeMany pf pk rest cs

def notKeptNames : List (Key × Node × Bool) → List Key
  | [] => []
  | (k, _, keep) :: rest => if keep then notKeptNames rest else k :: notKeptNames rest

def dropMarks : List (Key × Node × Bool) → List (Key × Node)
  | [] => []
  | (k, n, _) :: rest => (k, n) :: dropMarks rest

mutual
/-- `node.ayns.filter_nodes(cond, prefix)`: returns the filtered node and the removed paths.
    `cond` sees the child *before* its own filtering; children are filtered recursively whether
    kept or not; a container survives when `cond` holds or something below it survives. -/
def filterNode (cond : Path → Node → Bool) (pre : Path) : Node → Node × List Path
  | .leaf f k => (.leaf f k, [])
  | .comp f k cs =>
    let r := filterList cond pre cs
    let dels := (notKeptNames r.1).reverse
    (.comp f k (removeMany f k dels (dropMarks r.1)), r.2 ++ dels.map (fun nm => pre ++ [nm]))
def filterList (cond : Path → Node → Bool) (pre : Path) :
    List (Key × Node) → List (Key × Node × Bool) × List Path
  | [] => ([], [])
  | (name, child) :: rest =>
    let r1 := filterNode cond (pre ++ [name]) child
    let keep := cond (pre ++ [name]) child || (child.isComp && !r1.1.children.isEmpty)
    let r2 := filterList cond pre rest
    ((name, r1.1, keep) :: r2.1, r1.2 ++ r2.2)
end

mutual
/-- `node.ayns._require_all_new(path, exceptions)`: first offending path (relative), if any. -/
def reqNew (exc : List Path) (p : Path) : Node → Option Path
  | .leaf f _ => if !eNew f && !exc.contains p then some p else none
  | .comp f _ cs => if !eNew f && !exc.contains p then some p else reqNewList exc p cs
def reqNewList (exc : List Path) (p : Path) : List (Key × Node) → Option Path
  | [] => none
  | (k, c) :: rest =>
    match reqNew exc (p ++ [k]) c with
    | some q => some q
    | none => reqNewList exc p rest
end

/-- `_require_all_new(..., include_self=False)` -/
def reqNewBelow : Node → Option Path
  | .leaf .. => none
  | .comp _ _ cs => reqNewList [] [] cs

/-- the safety part shared by `_replace_self` and `_replace_other` -/
def mergeSafe (w l : Flags) : Flags :=
  { w with
    safe := match l.safe with
      | some ls => some (w.safe.getD true && ls)
      | none => w.safe,
    dSafe := w.dSafe && l.dSafe }

/-- flags of `self` after `self._replace_other(other)` -/
def replaceOtherFlags (w l : Flags) : Flags :=
  { mergeSafe w l with md := mmerge l.md w.md }

/-- flags of `self` after `self._replace_self(other)` -/
def replaceSelfFlags (s o : Flags) : Flags :=
  { mergeSafe s o with prio := o.prio, del := o.del, md := mmerge s.md o.md }

/-- flags of a PROMOTED node `other` after `other.__dict__.update(self.__dict__)`: those of `self` (`sf`), except
    that a node that was unsafe before the promotion (`was_unsafe = not other.ayns.safe`, by whatever cause — its
    inherited flag is otherwise lost with its `__dict__`) is marked `_safe = False` afterwards. -/
def promotedFlags (sf of : Flags) : Flags :=
  if eSafe of then sf else { sf with safe := some false }

/-- `self._maybe_promote(other)` with `self = comp sf sk scs`; returns the node and whether it is
    still the `self` object. When `other` is promoted it is cleared, re-filled through its own
    mutators (children adopted under *its* flags `of`) and then takes over `self.__dict__`; a promoted node
    that was unsafe stays unsafe (`promotedFlags`). -/
def maybePromote (sf : Flags) (sk : CompKind) (scs : List (Key × Node)) (o : Node) :
    Except Err (Node × Bool) :=
  match o with
  | .leaf .. => .ok (.comp sf sk scs, true)
  | .comp of ok _ =>
    if sk.sameClass ok then .ok (.comp sf sk scs, true)
    else if ok.strictSub sk then
      match adoptAll of ok scs [] with
      | .error e => .error e
      | .ok cs' => .ok (.comp (promotedFlags sf of) ok cs', false)
    else if sk.strictSub ok then .ok (.comp sf sk scs, true)
    else if sk.isPlain && !ok.isPlain then
      if sk = .list then
        match adoptAll of ok scs [] with
        | .error e => .error e
        | .ok cs' => .ok (.comp (promotedFlags sf of) ok cs', false)
      else .error .unsupported   -- dict content moved into a list subclass: `_children` gets str keys
    else .ok (.comp sf sk scs, true)

/-- `ConfigNode.ayns.on_merge_impl`: the higher priority wins, the newer among equals
    (`_replace_other` ends with `_propagate_implicit_values` on the surviving node). -/
def leafRule (s o : Node) : Node × Bool :=
  if hasPrio s.flags o.flags false then
    (propagate (s.setFlags (replaceOtherFlags s.flags o.flags)), true)
  else
    (propagate (o.setFlags (replaceOtherFlags o.flags s.flags)), false)

/-- replace the stored value of an existing child without re-adoption (the child object was
    mutated in place) -/
def replaceChild (pk : CompKind) (key : Key) (v : Node) (cs : List (Key × Node)) : List (Key × Node) :=
  if pk.isDictFam then aset key v cs
  else
    match validateIndex cs.length true key with
    | some i => aset (.int i) v cs
    | none => cs

/-- `self.ayns.remove_child(key)` inside the merge loop (an exception becomes a MergeError). -/
def removeChildE (pf : Flags) (pk : CompKind) (key : Key) (cs : List (Key × Node)) :
    Except Err (List (Key × Node)) :=
  match removeChild pf pk key cs with
  | some cs' => .ok cs'
  | none => .error .merge

/-- The removed paths that lie below `key`, made relative to the child stored there: `q` for every
    `key :: q` of `exc`. The Python code keeps absolute paths in `removed` and tests
    `path + [key] + q in removed`; the model's paths are relative to the node being merged, so
    descending into `key` strips it (`reqNew (excBelow key exc) q n` accepts what
    `reqNew exc (key :: q) n` accepts: `reqNew_excBelow` in Lemmas/C05Siblings.lean). -/
def excBelow (key : Key) : List Path → List Path
  | [] => []
  | [] :: rest => excBelow key rest
  | (k :: q) :: rest => if k = key then q :: excBelow key rest else excBelow key rest

/-- without exceptions (a non-deleting `other`: `exceptions=None`) there is nothing to strip -/
@[simp] theorem excBelow_nil (key : Key) : excBelow key [] = [] := rfl

/-- Body of the key loop of `ComposedNode.on_merge_impl`; `rec` is the recursive merge, `exc` the
    `exceptions` handed to `_require_all_new` for a missing child (`removed if other.ayns.delete
    else None`, relative to `self`). -/
def mergeStep (rec : Node → Node → Except Err (Node × Bool)) (sf : Flags) (sk : CompKind)
    (exc : List Path) (acc : List (Key × Node)) (kv : Key × Node) : Except Err (List (Key × Node)) :=
  match getChild sk kv.1 acc with
  | none =>
    match reqNew (excBelow kv.1 exc) [] kv.2 with
    | some p => .error (.notnew (kv.1 :: p))
    | none => setChild sf sk kv.1 kv.2 acc
  | some child =>
    match rec child kv.2 with
    | .error e => .error (e.prepend kv.1)
    | .ok (nw, same) =>
      if child.isComp then
        if !nw.truthy && !hasPrio nw.flags kv.2.flags false && kv.2.flags.del == some true then
          removeChildE sf sk kv.1 acc
        else if same then .ok (replaceChild sk kv.1 nw acc)
        else setChild sf sk kv.1 nw acc
      else
        if same then .ok (replaceChild sk kv.1 nw acc)
        else
          match reqNewBelow nw with
          | some p => .error (.notnew (kv.1 :: p))
          | none =>
            if !nw.truthy && nw.flags.del == some true then removeChildE sf sk kv.1 acc
            else setChild sf sk kv.1 nw acc

/-- the key loop -/
def mergeLoop (rec : Node → Node → Except Err (Node × Bool)) (sf : Flags) (sk : CompKind)
    (exc : List Path) : List (Key × Node) → List (Key × Node) → Except Err (List (Key × Node))
  | acc, [] => .ok acc
  | acc, kv :: rest =>
    match mergeStep rec sf sk exc acc kv with
    | .error e => .error e
    | .ok acc' => mergeLoop rec sf sk exc acc' rest

/-- the tail of `ComposedNode.on_merge_impl`: `_replace_self` / `_replace_other` with promotions -/
def finishMerge (sf : Flags) (sk : CompKind) (scs : List (Key × Node)) (o : Node) :
    Except Err (Node × Bool) :=
  if hasPrio o.flags sf true then
    match maybePromote (replaceSelfFlags sf o.flags) sk scs o with
    | .error e => .error e
    | .ok (r, same) => .ok (propagate r, same)
  else
    match maybePromote (replaceOtherFlags sf o.flags) sk scs o with
    | .error e => .error e
    | .ok (r, same) => .ok (propagate r, same)

/-- `maybe_keep` of ComposedNode.on_merge_impl (paths relative to the merged node). -/
def maybeKeep (o : Node) (p : Path) (n : Node) : Bool :=
  hasPrio n.flags (firstNotMissing o p).flags false

/-- `ComposedNode.ayns.on_merge_impl(self, path, other)` with `self = comp sf sk scs`. -/
def compMerge (rec : Node → Node → Except Err (Node × Bool)) (sf : Flags) (sk : CompKind)
    (scs : List (Key × Node)) (o : Node) : Except Err (Node × Bool) :=
  match o with
  | .leaf .. => .ok (leafRule (.comp sf sk scs) o)
  | .comp of ok ocs =>
    if eDel o then
      let r := filterNode (maybeKeep o) [] (.comp sf sk scs)
      if r.1.children.isEmpty && hasPrio of sf true then
        match reqNew ([] :: r.2) [] o with
        | some p => .error (.notnew p)
        | none =>
          match maybePromote (replaceOtherFlags of sf) ok ocs r.1 with
          | .error e => .error e
          | .ok (res, sameAsOther) => .ok (propagate res, !sameAsOther)
      else
        match mergeLoop rec sf sk r.2 r.1.children ocs with
        | .error e => .error e
        | .ok scs' => finishMerge sf sk scs' o
    else
      match mergeLoop rec sf sk [] scs ocs with
      | .error e => .error e
      | .ok scs' => finishMerge sf sk scs' o

/-- index validation of ConfigList.on_merge_impl for a non-deleting mapping `other`:
    `none` ⇔ TypeError / some index missing (both end as MergeError). -/
def listKeysValid (len : Nat) : List (Key × Node) → Bool
  | [] => true
  | (k, _) :: rest =>
    match validateIndex len true k with
    | none => false
    | some _ => listKeysValid len rest

/-- `keep_if_exists` of ConfigList.on_merge_impl -/
def keepIfExists (s : Node) (p : Path) (n : Node) : Bool :=
  if !eDel n then true else hasPrio n.flags (firstNotMissing s p).flags true

/-- `ConfigList.ayns.on_merge_impl` -/
def listMerge (rec : Node → Node → Except Err (Node × Bool)) (sf : Flags) (sk : CompKind)
    (scs : List (Key × Node)) (o : Node) : Except Err (Node × Bool) :=
  match o with
  | .leaf .. => compMerge rec sf sk scs o
  | .comp _ ok ocs =>
    if ok.isDictFam && !eDel o && !listKeysValid scs.length ocs then .error .merge
    else compMerge rec sf sk scs (filterNode (keepIfExists (.comp sf sk scs)) [] o).1

/-- `FunctionNode.ayns.on_merge_impl` with `self = comp sf sk scs`, `sk = call f | bind f`. -/
def funcMerge (rec : Node → Node → Except Err (Node × Bool)) (sf : Flags) (sk : CompKind)
    (f : String) (scs : List (Key × Node)) (o : Node) : Except Err (Node × Bool) :=
  match o with
  | .leaf of lk =>
    if lk.isStr then
      if hasPrio of sf true then
        if lk.strVal != f then
          .ok (propagate (.comp (replaceSelfFlags sf of) (sk.setFunc lk.strVal) []), true)
        else
          .ok (propagate (.comp (replaceSelfFlags sf of) sk scs), true)
      else .ok (propagate (.comp (replaceOtherFlags sf of) sk scs), true)
    else compMerge rec sf sk scs o
  | .comp of ok _ =>
    match ok.func? with
    | none => compMerge rec sf sk scs o
    | some g =>
      if g != f then
        if !hasPrio of sf true then .ok (propagate (.comp (replaceOtherFlags sf of) sk scs), true)
        else compMerge rec sf (sk.setFunc g) (if eDel o then [] else scs) o
      else compMerge rec sf sk scs o

/-- `self.ayns.on_merge(path, other)`: dispatch on the class of `self`. The fuel bounds the
    recursion by the depth of `other` (`mergeStep` recurses into children of `other` only). -/
def mergeF : Nat → Node → Node → Except Err (Node × Bool)
  | 0, _, _ => .error .unsupported
  | fuel + 1, s, o =>
    match s with
    | .leaf .. => .ok (leafRule s o)
    | .comp sf sk scs =>
      match sk with
      | .dict => compMerge (mergeF fuel) sf sk scs o
      | .call f | .bind f => funcMerge (mergeF fuel) sf sk f scs o
      | .list | .append | .extend | .path _ | .stream => listMerge (mergeF fuel) sf sk scs o

/-- `self.ayns.on_merge(NodePath(), other)` -/
def merge (s o : Node) : Except Err Node :=
  match mergeF (o.depth + 1) s o with
  | .error e => .error e
  | .ok (r, _) => .ok r

end AY
