/-
  AY.Model.Construct — the loader: YAML representation tree (`Raw`) → node tree.

  Models yaml.py `AwesomeyamlLoader.construct_object/_convert`, `_make_node` and the tag
  constructors, together with the class constructors they call
  (ComposedNode.__init__, FunctionNode.__init__, AppendNode/ExtendNode/PathNode.__init__ …).

  Two construction modes exist in the code and both are modelled:
  * untagged containers outside any tagged node are created empty, adopted by their parent,
    and only then filled (`state_generators`) — top-down adoption (`constructTD`);
  * a tagged node is constructed with `deep=True`: everything below it is built bottom-up and
    handed to the class constructor, which inherits its flags into the existing children
    (`constructDeep`).
-/
import AY.Model.Build
namespace AY

/-- Constructor keyword arguments a tag contributes (`_make_node(kwargs=…)`, `_decode_metadata`).
    `none` = keyword absent. -/
structure CtorKw where
  prio : Option Int := none
  del : Option Bool := none
  new : Option Bool := none
  safe : Option Bool := none
  md : List (String × Scalar) := []
  deriving DecidableEq, Repr, Inhabited

/-- Which constructor a tag selects. `plain` = the merge-control tags (type deduced from the data). -/
inductive TagKind where
  | none | plain | xref | prev | required | null | clear | append | extend
  | eval | fstr | imp | call (f : String) | bind (f : String) | callName | bindName
  | path (ref : String) | incl
  deriving DecidableEq, Repr, Inhabited

/-- scalar content: an empty value (implicit null), or a resolved literal (`lit null` = `~`/`null`) -/
inductive RVal where
  | empty
  | lit (v : Scalar)
  | text (s : String)      -- raw text for tags constructed with `parse_scalars=False`
  deriving DecidableEq, Repr, Inhabited

/-- YAML representation tree after PyYAML's composer, with at most one awesomeyaml tag per node. -/
inductive Raw where
  | scalar (t : TagKind) (kw : CtorKw) (v : RVal)
  | seq (t : TagKind) (kw : CtorKw) (items : List Raw)
  | map (t : TagKind) (kw : CtorKw) (items : List (Key × Raw))
  deriving Repr, Inhabited

/-- per-source parse context: the thread-local defaults installed by `Builder.add_source` -/
structure Env where
  dSafe : Bool := true
  src : Option String := none
  deriving Repr, Inhabited

def bareFlags (env : Env) : Flags := { dSafe := env.dSafe, src := env.src }

def mkFlags (env : Env) (kw : CtorKw) : Flags :=
  { prio := kw.prio, del := kw.del, new := kw.new, safe := kw.safe, md := kw.md,
    dSafe := env.dSafe, src := env.src }

def RVal.toScalar : RVal → Scalar
  | .empty => .null
  | .lit v => v
  | .text s => .str s

/-- children handed to a class constructor: `ComposedNode.__init__` inherits priority (when the
    keyword is present) and the implicit flags into every existing child. -/
def initChildren (f : Flags) (k : CompKind) (prio? : Option Int) (cs : List (Key × Node)) :
    List (Key × Node) :=
  cs.map (fun kv => (kv.1, inheritInto prio? (childKw f k) kv.2))

/-- a raw Python value wrapped by a class constructor (`{0: args}`, `[value]`) -/
def rawChild (env : Env) (v : Scalar) : Node := .leaf (bareFlags env) (.scalar v)

/-- data of a tagged scalar as seen by a list-like constructor (`[value]`, or the existing null node) -/
def scalarAsItems (env : Env) : RVal → List (Key × Node)
  | .empty => [(Key.int 0, rawChild env .null)]
  | .lit v => [(Key.int 0, rawChild env v)]
  | .text s => [(Key.int 0, rawChild env (.str s))]

/-- Build a tagged node from already constructed children (`_make_node` after `construct_*`). -/
def wrapSeq (env : Env) (t : TagKind) (kw : CtorKw) (cs : List (Key × Node)) : Except Err Node :=
  match t with
  | .none => .ok (.comp (bareFlags env) .list (initChildren (bareFlags env) .list none cs))
  | .plain => .ok (.comp (mkFlags env kw) .list (initChildren (mkFlags env kw) .list kw.prio cs))
  | .append => .ok (.comp (mkFlags env kw) .append (initChildren (mkFlags env kw) .append kw.prio cs))
  | .extend => .ok (.comp (mkFlags env kw) .extend (initChildren (mkFlags env kw) .extend kw.prio cs))
  | .path r => .ok (.comp (mkFlags env kw) (.path r) (initChildren (mkFlags env kw) (.path r) kw.prio cs))
  | .call f =>
    let fl := { mkFlags env kw with del := kw.del.or (some Tables.funcCtorDelete) }
    if f = "" then .error .parsing else .ok (.comp fl (.call f) (initChildren fl (.call f) kw.prio cs))
  | .bind f =>
    let fl := { mkFlags env kw with del := kw.del.or (some Tables.funcCtorDelete) }
    if f = "" then .error .parsing else .ok (.comp fl (.bind f) (initChildren fl (.bind f) kw.prio cs))
  | _ => .error .unsupported

def wrapMap (env : Env) (t : TagKind) (kw : CtorKw) (cs : List (Key × Node)) : Except Err Node :=
  match t with
  | .none => .ok (.comp (bareFlags env) .dict (initChildren (bareFlags env) .dict none cs))
  | .plain => .ok (.comp (mkFlags env kw) .dict (initChildren (mkFlags env kw) .dict kw.prio cs))
  | .call f =>
    let fl := { mkFlags env kw with del := kw.del.or (some Tables.funcCtorDelete) }
    if f = "" then .error .parsing else .ok (.comp fl (.call f) (initChildren fl (.call f) kw.prio cs))
  | .bind f =>
    let fl := { mkFlags env kw with del := kw.del.or (some Tables.funcCtorDelete) }
    if f = "" then .error .parsing else .ok (.comp fl (.bind f) (initChildren fl (.bind f) kw.prio cs))
  | _ => .error .unsupported

/-- a tagged (or deep) scalar -/
def wrapScalar (env : Env) (t : TagKind) (kw : CtorKw) (v : RVal) : Except Err Node :=
  match t with
  | .none => .ok (.leaf (bareFlags env) (.scalar v.toScalar))
  | .plain =>
    match v with
    | .lit .null =>
      -- `parse_scalar` returns an existing ConfigNone node; only `_kwargs_to_inherit` reach it, and (since the
      -- repair "an !unsafe mark on a value that is already a node was dropped") an explicit `safe=False`
      .ok (.leaf { bareFlags env with prio := kw.prio, safe := if kw.safe = some false then some false else none }
        (.scalar .null))
    | _ => .ok (.leaf (mkFlags env kw) (.scalar v.toScalar))
  | .xref => match v with
    | .text s => .ok (.leaf (mkFlags env kw) (.xref s))
    | _ => .error .unsupported
  | .prev => match v with
    | .text s => .ok (.leaf (bareFlags env) (.prev s))     -- PrevNode.__init__ drops its kwargs
    | _ => .error .unsupported
  | .eval => match v with
    | .text s => .ok (.leaf (mkFlags env kw) (.eval s))
    | _ => .error .unsupported
  | .fstr => match v with
    | .text s => .ok (.leaf (mkFlags env kw) (.fstr s))
    | _ => .error .unsupported
  | .imp => match v with
    | .text s => .ok (.leaf (mkFlags env kw) (.imp s))
    | _ => .error .unsupported
  | .required => match v with
    | .empty => .ok (.leaf (mkFlags env kw) .required)
    | _ => .error .parsing
  | .clear => match v with
    | .empty => .ok (.leaf (mkFlags env kw) .clear)
    | _ => .error .parsing
  | .null => match v with
    | .empty => .ok (.leaf (mkFlags env kw) (.scalar .null))
    | _ => .error .parsing
  | .append => wrapSeq env .append kw (scalarAsItems env v)
  | .extend => wrapSeq env .extend kw (scalarAsItems env v)
  | .path r =>
    match v with
    | .empty => wrapSeq env (.path r) kw []
    | .lit s => if s.truthy then wrapSeq env (.path r) kw (scalarAsItems env v) else wrapSeq env (.path r) kw []
    | .text _ => .error .unsupported
  | .call f =>
    match v with
    | .empty => wrapMap env (.call f) kw []
    | _ => wrapMap env (.call f) kw (scalarAsItems env v)
  | .bind f =>
    match v with
    | .empty => wrapMap env (.bind f) kw []
    | _ => wrapMap env (.bind f) kw (scalarAsItems env v)
  | .callName => match v with
    | .lit (.str s) => wrapMap env (.call s) kw []
    | _ => .error .unsupported
  | .bindName => match v with
    | .lit (.str s) => wrapMap env (.bind s) kw []
    | _ => .error .unsupported
  | .incl => match v with
    | .text s => .ok (.leaf (mkFlags env kw) (.incl [s]))
    | _ => .error .unsupported

def nodeStr? : Node → Option String
  | .leaf _ (.scalar (.str s)) => some s
  | _ => none

def allStrs : List (Key × Node) → Option (List String)
  | [] => some []
  | (_, n) :: rest =>
    match nodeStr? n, allStrs rest with
    | some s, some ss => some (s :: ss)
    | _, _ => none

mutual
/-- bottom-up construction (inside a tagged node, `deep_construct = True`) -/
def constructDeep (env : Env) : Raw → Except Err Node
  | .scalar t kw v => wrapScalar env t kw v
  | .seq t kw items =>
    match constructDeepList env 0 items with
    | .error e => .error e
    | .ok cs =>
      match t with
      | .incl =>
        match allStrs cs with
        | some fs => .ok (.leaf (mkFlags env kw) (.incl fs))
        | none => .error .parsing
      | _ => wrapSeq env t kw cs
  | .map t kw items =>
    match constructDeepMap env items with
    | .error e => .error e
    | .ok cs => wrapMap env t kw cs
def constructDeepList (env : Env) : Nat → List Raw → Except Err (List (Key × Node))
  | _, [] => .ok []
  | i, r :: rest =>
    match constructDeep env r with
    | .error e => .error e
    | .ok n =>
      match constructDeepList env (i + 1) rest with
      | .error e => .error e
      | .ok ns => .ok ((Key.int i, n) :: ns)
def constructDeepMap (env : Env) : List (Key × Raw) → Except Err (List (Key × Node))
  | [] => .ok []
  | (k, r) :: rest =>
    match constructDeep env r with
    | .error e => .error e
    | .ok n =>
      match constructDeepMap env rest with
      | .error e => .error e
      | .ok ns => .ok ((k, n) :: ns)
end

/-- adoption by an optional parent (`parent.ayns.set_child`) -/
def adoptBy (parent : Option (Flags × CompKind)) (n : Node) : Node :=
  match parent with
  | none => n
  | some (pf, pk) => adopt pf pk n

mutual
/-- top-down construction of an untagged region: the (empty) node is adopted by its parent
    first, then filled with its children under its final flags -/
def constructTD (env : Env) (parent : Option (Flags × CompKind)) : Raw → Except Err Node
  | .scalar .none _ v => .ok (adoptBy parent (.leaf (bareFlags env) (.scalar v.toScalar)))
  | .seq .none _ items =>
    match adoptBy parent (.comp (bareFlags env) .list []) with
    | .comp f k _ =>
      match constructTDList env f k 0 items with
      | .error e => .error e
      | .ok cs => .ok (.comp f k cs)
    | n => .ok n
  | .map .none _ items =>
    match adoptBy parent (.comp (bareFlags env) .dict []) with
    | .comp f k _ =>
      match constructTDMap env f k items [] with
      | .error e => .error e
      | .ok cs => .ok (.comp f k cs)
    | n => .ok n
  | .scalar t kw v =>
    match wrapScalar env t kw v with
    | .error e => .error e
    | .ok n => .ok (adoptBy parent n)
  | .seq t kw items =>
    match constructDeep env (.seq t kw items) with
    | .error e => .error e
    | .ok n => .ok (adoptBy parent n)
  | .map t kw items =>
    match constructDeep env (.map t kw items) with
    | .error e => .error e
    | .ok n => .ok (adoptBy parent n)
def constructTDList (env : Env) (pf : Flags) (pk : CompKind) :
    Nat → List Raw → Except Err (List (Key × Node))
  | _, [] => .ok []
  | i, r :: rest =>
    match constructTD env (some (pf, pk)) r with
    | .error e => .error e
    | .ok n =>
      match constructTDList env pf pk (i + 1) rest with
      | .error e => .error e
      | .ok ns => .ok ((Key.int i, n) :: ns)
def constructTDMap (env : Env) (pf : Flags) (pk : CompKind) :
    List (Key × Raw) → List (Key × Node) → Except Err (List (Key × Node))
  | [], acc => .ok acc
  | (k, r) :: rest, acc =>
    match constructTD env (some (pf, pk)) r with
    | .error e => .error e
    | .ok n => constructTDMap env pf pk rest (aset k n acc)
end

/-- `yaml.parse` of one document -/
def construct (env : Env) (r : Raw) : Except Err Node := constructTD env none r

end AY
