/-
  AY.Model.ImportName — utils.py `import_name(symbol_name)`: the function that turns the text `pkg.mod.attr` of a
  `!call:` / `!bind:` / `!import` node into the object that is called / bound / returned.

      def import_name(symbol_name):
          if not symbol_name or symbol_name.endswith('.'):
              raise ValueError(f'Invalid target name: {symbol_name}')
          elements = symbol_name.split('.')
          current = None
          try_import = True
          for element in elements:
              if try_import:
                  if current:
                      try:    current = importlib.import_module('.' + element, package=current.__name__); continue
                      except ImportError: try_import = False
                  else:
                      try:    current = importlib.import_module(element); continue
                      except ImportError: try_import = False
              if current is not None:
                  try:    current = getattr(current, element); continue
                  except AttributeError: pass
              if current is None and len(elements) == 1:
                  try:    current = getattr(builtins, element); continue
                  except AttributeError: pass
              raise ImportError(f'Cannot find an entity named: {symbol_name!r}, last found element was: {current}, ...')
          return current

  The world (what lives in the Python runtime) is a parameter; entities `E` are opaque (object identity):

    * `imp p`       `importlib.import_module` of the ABSOLUTE dotted name `p` (a list of elements, `'.'.join(p)`): the
                    module object, ImportError (ModuleNotFoundError is one), or another exception class (it propagates);
    * `name e`      `e.__name__` split at the dots (`none`: no such attribute); the relative form
                    `import_module('.' + element, package=current.__name__)` resolves to `current.__name__ + '.' + element`
                    (importlib `_resolve_name` with level 1), for an EMPTY element to `current.__name__` itself, and raises
                    TypeError for an empty package name;
    * `truthy e`    `bool(e)` — the code tests `if current:`, not `if current is not None:`;
    * `attr e n`    `getattr(e, n)`: `none` = AttributeError, `some none` = the value `None`, `some (some x)` an object;
    * `builtin n`   `getattr(builtins, n)` likewise (`builtins.None` is `None`).

  `Option E` is a Python value that may be `None`.  The world is the world AFTER the imports the call performs: imports
  have side effects (importing `pkg.sub` sets the attribute `sub` of `pkg`), but the code performs every import before its
  first `getattr` (once an import fails, `try_import` is off for good), so all `getattr`s see the final state.
  The harness (harness/props/c13.py, family `impname`) tabulates exactly that state.  Lean core only.
-/
namespace AY.ImportName

/-- outcome of `importlib.import_module` -/
inductive ImportRes (E : Type)
  | ok (m : E)
  | importError
  | raises (cls : String)
  deriving Repr, DecidableEq

structure World (E : Type) where
  imp : List String → ImportRes E
  name : E → Option (List String)
  truthy : E → Bool
  attr : E → String → Option (Option E)
  builtin : String → Option (Option E)

inductive ImportErr (E : Type)
  /-- `ValueError('Invalid target name: …')` -/
  | valueError (symbol : String)
  /-- `ImportError('Cannot find an entity named: {symbol!r}, last found element was: {last} …')` -/
  | importError (symbol : String) (last : Option E)
  /-- an exception that is neither caught nor raised by `import_name` itself (class name) -/
  | crash (cls : String)
  deriving Repr, DecidableEq

/-! ### `str.split('.')` -/

def consHead (c : Char) : List (List Char) → List (List Char)
  | [] => [[c]]
  | h :: t => (c :: h) :: t

/-- `s.split('.')` on characters: always at least one piece -/
def splitDot : List Char → List (List Char)
  | [] => [[]]
  | c :: r => if c = '.' then [] :: splitDot r else consHead c (splitDot r)

/-- `symbol_name.split('.')` -/
def elements (s : String) : List String := (splitDot s.toList).map String.ofList

/-- `not symbol_name or symbol_name.endswith('.')` -/
def invalid (s : String) : Bool := s.toList.isEmpty || s.toList.getLast? == some '.'

/-! ### The loop -/

/-- `importlib.import_module(element)` -/
def absImport {E : Type} (w : World E) (el : String) : ImportRes E :=
  if el = "" then .raises "ValueError" else w.imp [el]

/-- `importlib.import_module('.' + element, package=current.__name__)` -/
def relImport {E : Type} (w : World E) (c : E) (el : String) : ImportRes E :=
  match w.name c with
  | none => .raises "AttributeError"
  | some p =>
    if p = [""] then .raises "TypeError"
    else if el = "" then w.imp p
    else w.imp (p ++ [el])

/-- the import attempted for one element while `try_import` is on: `if current:` relative, else absolute -/
def importAttempt {E : Type} (w : World E) (cur : Option E) (el : String) : ImportRes E :=
  match cur with
  | some c => if w.truthy c then relImport w c el else absImport w el
  | none => absImport w el

inductive StepRes (E : Type)
  | next (cur : Option E) (tryImport : Bool)
  | fail (e : ImportErr E)
  deriving Repr, DecidableEq

/-- what follows the import attempt in the loop body: `getattr(current, element)`, the builtins fallback, the raise -/
def attrStep {E : Type} (w : World E) (single : Bool) (sym : String) (cur : Option E) (el : String) : StepRes E :=
  match cur with
  | some c =>
    match w.attr c el with
    | some v => .next v false
    | none => .fail (.importError sym cur)
  | none =>
    if single then
      match w.builtin el with
      | some v => .next v false
      | none => .fail (.importError sym none)
    else .fail (.importError sym none)

/-- one iteration of `for element in elements` (`single` is `len(elements) == 1`) -/
def step {E : Type} (w : World E) (single : Bool) (sym : String) (cur : Option E) (tryImport : Bool) (el : String) : StepRes E :=
  if tryImport then
    match importAttempt w cur el with
    | .ok m => .next (some m) true
    | .raises c => .fail (.crash c)
    | .importError => attrStep w single sym cur el
  else attrStep w single sym cur el

/-- the `for` loop from a given state -/
def loop {E : Type} (w : World E) (single : Bool) (sym : String) : Option E → Bool → List String → Except (ImportErr E) (Option E)
  | cur, _, [] => .ok cur
  | cur, ti, el :: els =>
    match step w single sym cur ti el with
    | .next c t => loop w single sym c t els
    | .fail e => .error e

/-- `import_name(symbol_name)` -/
def importName {E : Type} (w : World E) (s : String) : Except (ImportErr E) (Option E) :=
  if invalid s then .error (.valueError s)
  else loop w ((elements s).length == 1) s none true (elements s)

/-! ### The two phases (specification) -/

inductive PhaseRes (E : Type)
  /-- the object reached by imports alone and the elements that are left (the first of them failed to import) -/
  | reached (cur : Option E) (rest : List String)
  | crashed (cls : String)
  deriving Repr, DecidableEq

/-- phase 1: import element after element as long as the import succeeds -/
def importPhase {E : Type} (w : World E) : Option E → List String → PhaseRes E
  | cur, [] => .reached cur []
  | cur, el :: els =>
    match importAttempt w cur el with
    | .ok m => importPhase w (some m) els
    | .importError => .reached cur (el :: els)
    | .raises c => .crashed c

/-- phase 2: follow attributes only -/
def attrPhase {E : Type} (w : World E) (sym : String) : Option E → List String → Except (ImportErr E) (Option E)
  | cur, [] => .ok cur
  | none, _ :: _ => .error (.importError sym none)
  | some c, el :: els =>
    match w.attr c el with
    | some v => attrPhase w sym v els
    | none => .error (.importError sym (some c))

/-- a world in which every module is a normal module object: truthy, and `__name__` is the name it is imported under -/
def Coherent {E : Type} (w : World E) : Prop :=
  ∀ p m, w.imp p = .ok m → w.truthy m = true ∧ w.name m = some p

/-- no import raises anything but ImportError -/
def ImportsOnlyFailWithImportError {E : Type} (w : World E) : Prop :=
  ∀ p c, w.imp p ≠ .raises c

end AY.ImportName
