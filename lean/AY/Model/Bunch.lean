/-
  AY.Model.Bunch — utils.py `class Bunch(dict)`: the attribute-accessible dict every evaluated mapping is
  (`Config` is a `Bunch`; nested mappings evaluate to `Bunch`).

      class Bunch(dict):
          def __getattr__(self, name):            # only called when normal lookup fails
              if name not in self:
                  raise AttributeError(...)
              return self[name]
          def __setattr__(self, name, value):
              if name.startswith('_'):
                  return super().__setattr__(name, value)
              if name in self.__dict__:
                  raise ValueError('Name conflict!')
              self[name] = value
          def __delattr__(self, name):
              try:
                  super().__delattr__(name)
              except AttributeError:
                  del self[name]

  State: the dict ITEMS (insertion ordered) and the instance `__dict__` (`attrs`), both association lists over
  names; `cls name` says whether the CLASS has an attribute of that name (`keys`, `items`, `get`, `ayns`, …).
  Python's attribute lookup `b.name`: instance `__dict__`, then the class, then `__getattr__` (= the items).
  (Data descriptors of the class would come before `__dict__`; the model assumes what holds for `Bunch` and
  `Config`: no class attribute is also in `__dict__`, and the data descriptors `__class__`/`__dict__`/… —
  dunder names — are outside the domain.)  `object.__setattr__` stores in `__dict__`; `object.__delattr__` removes
  from `__dict__` and raises AttributeError for a name that is not there (class attributes are read-only or absent).
  Values are opaque (`α`).  `dictSet` is the backdoor `b.__dict__[name] = v` / `object.__setattr__(b, name, v)`,
  the only way to reach the `Name conflict!` branch; it is not one of the operations of the property.
  Lean core only.
-/
namespace AY.Bunch

/-- `name.startswith('_')` -/
def underscore (n : String) : Bool :=
  match n.toList with
  | c :: _ => c = '_'
  | [] => false

/-- `d.get(k)` on an insertion-ordered association list -/
def lookup {α : Type} (k : String) : List (String × α) → Option α
  | [] => none
  | (k', v) :: rest => if k' = k then some v else lookup k rest

/-- `del d[k]`: no entry with that key is left (a dict has at most one), the remaining entries keep their order -/
def erase {α : Type} (k : String) : List (String × α) → List (String × α)
  | [] => []
  | (k', v) :: rest => if k' = k then erase k rest else (k', v) :: erase k rest

/-- `d[k] = v`: an existing key keeps its position, a new key goes last -/
def set {α : Type} (k : String) (v : α) : List (String × α) → List (String × α)
  | [] => [(k, v)]
  | (k', v') :: rest => if k' = k then (k, v) :: rest else (k', v') :: set k v rest

structure State (α : Type) where
  /-- the dict entries -/
  items : List (String × α)
  /-- the instance `__dict__` -/
  attrs : List (String × α)
  deriving Repr

inductive Op (α : Type)
  | getitem (n : String)            -- b[n]
  | setitem (n : String) (v : α)    -- b[n] = v
  | delitem (n : String)            -- del b[n]
  | getattr (n : String)            -- b.n
  | setattr (n : String) (v : α)    -- b.n = v
  | delattr (n : String)            -- del b.n
  | contains (n : String)           -- n in b
  | dictSet (n : String) (v : α)    -- b.__dict__[n] = v   (backdoor, not a public operation)
  deriving Repr

inductive Res (α : Type)
  | val (v : α)          -- the object returned
  | cls                  -- an attribute of the class (a method, `ayns`)
  | bool (b : Bool)
  | done                 -- `None`
  | keyError
  | attributeError
  | valueError           -- 'Name conflict!'
  deriving Repr, DecidableEq

def Op.name {α : Type} : Op α → String
  | .getitem n | .setitem n _ | .delitem n | .getattr n | .setattr n _ | .delattr n | .contains n | .dictSet n _ => n

/-- the public operations of a Bunch (everything but the `__dict__` backdoor) -/
def Op.isPublic {α : Type} : Op α → Bool
  | .dictSet _ _ => false
  | _ => true

/-- `b[n]` -/
def getitem {α : Type} (b : State α) (n : String) : Res α :=
  match lookup n b.items with
  | some v => .val v
  | none => .keyError

/-- `b.n`: `__dict__`, the class, then `Bunch.__getattr__` -/
def getattr {α : Type} (cls : String → Bool) (b : State α) (n : String) : Res α :=
  match lookup n b.attrs with
  | some v => .val v
  | none =>
    if cls n then .cls
    else
      match lookup n b.items with
      | some v => .val v
      | none => .attributeError

/-- one operation: the new state and what the caller sees -/
def step {α : Type} (cls : String → Bool) (b : State α) : Op α → State α × Res α
  | .getitem n => (b, getitem b n)
  | .setitem n v => ({ b with items := set n v b.items }, .done)
  | .delitem n =>
    match lookup n b.items with
    | some _ => ({ b with items := erase n b.items }, .done)
    | none => (b, .keyError)
  | .getattr n => (b, getattr cls b n)
  | .setattr n v =>
    if underscore n then ({ b with attrs := set n v b.attrs }, .done)
    else
      match lookup n b.attrs with
      | some _ => (b, .valueError)
      | none => ({ b with items := set n v b.items }, .done)
  | .delattr n =>
    match lookup n b.attrs with
    | some _ => ({ b with attrs := erase n b.attrs }, .done)
    | none =>
      match lookup n b.items with
      | some _ => ({ b with items := erase n b.items }, .done)
      | none => (b, .keyError)
  | .contains n => (b, .bool (lookup n b.items).isSome)
  | .dictSet n v => ({ b with attrs := set n v b.attrs }, .done)

/-- the state after a sequence of operations (an operation that raises leaves the state as it is) -/
def run {α : Type} (cls : String → Bool) : State α → List (Op α) → State α
  | b, [] => b
  | b, op :: ops => run cls (step cls b op).1 ops

/-- what the caller sees, operation by operation -/
def trace {α : Type} (cls : String → Bool) : State α → List (Op α) → List (Res α)
  | _, [] => []
  | b, op :: ops => (step cls b op).2 :: trace cls (step cls b op).1 ops

/-! ### The specification: ONE mapping from names to values -/

/-- abstract operations on a finite map: attribute and item spelling of an operation are the same thing -/
inductive AOp (α : Type)
  | get (n : String) | put (n : String) (v : α) | del (n : String) | has (n : String)

/-- `getattr ↦ get`, `setattr ↦ put`, `delattr ↦ del` -/
def Op.abs {α : Type} : Op α → AOp α
  | .getitem n | .getattr n => .get n
  | .setitem n v | .setattr n v | .dictSet n v => .put n v
  | .delitem n | .delattr n => .del n
  | .contains n => .has n

/-- is the operation spelled as an attribute access? -/
def Op.viaAttr {α : Type} : Op α → Bool
  | .getattr _ | .setattr _ _ | .delattr _ => true
  | _ => false

/-- abstract results: a value, nothing, a truth value, or "no such name" -/
inductive ARes (α : Type)
  | val (v : α) | done | bool (b : Bool) | missing
  deriving Repr, DecidableEq

/-- one abstract operation on a map `String → Option α` -/
def astep {α : Type} (m : String → Option α) : AOp α → (String → Option α) × ARes α
  | .get n => (m, match m n with | some v => .val v | none => .missing)
  | .put n v => (fun k => if k = n then some v else m k, .done)
  | .del n => match m n with
    | some _ => (fun k => if k = n then none else m k, .done)
    | none => (m, .missing)
  | .has n => (m, .bool (m n).isSome)

def arun {α : Type} : (String → Option α) → List (AOp α) → (String → Option α)
  | m, [] => m
  | m, op :: ops => arun (astep m op).1 ops

def atrace {α : Type} : (String → Option α) → List (AOp α) → List (ARes α)
  | _, [] => []
  | m, op :: ops => (astep m op).2 :: atrace (astep m op).1 ops

/-- how an abstract result is reported by the concrete operation `op`: "missing" is a KeyError, except for
    `b.n`, where it is an AttributeError (`del b.n` of a missing name IS a KeyError: `del self[name]`) -/
def report {α : Type} (op : Op α) : ARes α → Res α
  | .val v => .val v
  | .done => .done
  | .bool b => .bool b
  | .missing => match op with
    | .getattr _ => .attributeError
    | _ => .keyError

end AY.Bunch
