/-
  AY.Model.NodePath — nodes/node_path.py: `NodePath.split_path` (the verbose regex, with
  validation) and `NodePath.join_path`, on `List Char`.

  Grammar accepted by the tiling regex:  path ::= ε | first rest*,
    first ::= ident | '[' int ']'      rest ::= '[' int ']' | '.' ident
  where ident = [A-Za-z0-9_]+ (greedy) and int = -?[0-9]+.
-/
import AY.Model.Data
namespace AY

def isIdentChar (c : Char) : Bool := c.isAlphanum || c = '_'

/-- greedy `[a-zA-Z0-9_]*` : (matched, rest) -/
def spanIdent : List Char → List Char × List Char
  | [] => ([], [])
  | c :: cs => if isIdentChar c then let (a, b) := spanIdent cs; (c :: a, b) else ([], c :: cs)

/-- greedy `[0-9]*` -/
def spanDigits : List Char → List Char × List Char
  | [] => ([], [])
  | c :: cs => if c.isDigit then let (a, b) := spanDigits cs; (c :: a, b) else ([], c :: cs)

def digitsToNat (ds : List Char) : Nat := ds.foldl (fun n c => 10 * n + (c.toNat - '0'.toNat)) 0

/-- `\[ (-?[0-9]+) \]` at the head of the input. -/
def parseIndex : List Char → Option (Int × List Char)
  | '[' :: '-' :: cs =>
    match spanDigits cs with
    | ([], _) => none
    | (ds, ']' :: rest) => some (- (digitsToNat ds : Int), rest)
    | _ => none
  | '[' :: cs =>
    match spanDigits cs with
    | ([], _) => none
    | (ds, ']' :: rest) => some ((digitsToNat ds : Int), rest)
    | _ => none
  | _ => none

/-- The part after the first component; `fuel` bounds the number of components (≤ input length). -/
def splitRest : Nat → List Char → Option Path
  | _, [] => some []
  | 0, _ => none
  | fuel + 1, '.' :: cs =>
    match spanIdent cs with
    | ([], _) => none
    | (nm, rest) =>
      match splitRest fuel rest with
      | none => none
      | some p => some (Key.str (String.ofList nm) :: p)
  | fuel + 1, cs =>
    match parseIndex cs with
    | none => none
    | some (i, rest) =>
      match splitRest fuel rest with
      | none => none
      | some p => some (Key.int i :: p)

/-- `list(NodePath.split_path(s))`; `none` ⇔ `ValueError('Invalid path')`. -/
def splitPathChars (cs : List Char) : Option Path :=
  match cs with
  | [] => some []
  | _ =>
    match spanIdent cs with
    | ([], _) =>
      match parseIndex cs with
      | none => none
      | some (i, rest) =>
        match splitRest cs.length rest with
        | none => none
        | some p => some (Key.int i :: p)
    | (nm, rest) =>
      match splitRest cs.length rest with
      | none => none
      | some p => some (Key.str (String.ofList nm) :: p)

def splitPath (s : String) : Option Path := splitPathChars s.toList

def natToDigits (n : Nat) : List Char := (toString n).toList

def intToChars (i : Int) : List Char :=
  if i < 0 then '-' :: natToDigits i.natAbs else natToDigits i.toNat

/-- `NodePath._get_child_accessor(child, myname)` -/
def childAccessor (nonEmptySoFar : Bool) : Key → List Char
  | .int i => ['['] ++ intToChars i ++ [']']
  | .str s => (if nonEmptySoFar then ['.'] else []) ++ s.toList
  | .float r => (if nonEmptySoFar then ['.'] else []) ++ r.toList

/-- `NodePath.join_path(components)` -/
def joinPathAux : List Char → Path → List Char
  | acc, [] => acc
  | acc, k :: ks => joinPathAux (acc ++ childAccessor (!acc.isEmpty) k) ks

def joinPathChars (p : Path) : List Char := joinPathAux [] p

def joinPath (p : Path) : String := String.ofList (joinPathChars p)

end AY
