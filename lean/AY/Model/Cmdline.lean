/-
  AY.Model.Cmdline — config.py `Config.process_cmdline`: the STRING step of command-line overrides.

  One command-line argument (`option`) is classified by `determine_option_type`
  (`raw` / `inline` / `file`); an `inline` option `key=value` is split at the first '=', both
  sides stripped, the key split on '.', each part stripped and its trailing `[int]` subscripts
  peeled (`while part.endswith(']')`, `rfind('[')`, `int(...)`), and the nested flow-YAML text
  `!notnew { part: { i: … value }}` is emitted.

  Everything is defined on `List Char` (suffix `C`) with `String` wrappers.  Python primitives
  mirrored exactly (CPython 3.12.1, Unicode 15.0): `str.strip()` / `str.isspace()` (`pyIsSpace`:
  29 code points, among them U+001C–U+001F, U+0085, U+00A0), `int(str)` (`pyIntC`: surrounding
  whitespace, sign, digits with single underscores between digits, any Unicode decimal digit,
  ValueError above `sys.int_max_str_digits = 4300` digits), `str(int)` (`intToChars`),
  `str.split(sep)`, `str.split(sep, 1)`, `str.rfind`, `str.endswith`.
-/
import AY.Model.Data
import AY.Model.NodePath
namespace AY

/-! ### Python string primitives -/

/-- `ch.isspace()` = `Py_UNICODE_ISSPACE(ch)`: what `str.strip()` removes -/
def pyIsSpace (c : Char) : Bool :=
  let n := c.toNat
  (9 ≤ n && n ≤ 13) || (28 ≤ n && n ≤ 32) || n = 0x85 || n = 0xa0 || n = 0x1680 ||
  (0x2000 ≤ n && n ≤ 0x200a) || n = 0x2028 || n = 0x2029 || n = 0x202f || n = 0x205f || n = 0x3000

/-- `Py_ISSPACE(ch)` (C locale): what `PyLong_FromString` skips around the digits -/
def cIsSpace (c : Char) : Bool :=
  let n := c.toNat
  (9 ≤ n && n ≤ 13) || n = 32

/-- `s.lstrip()` -/
def pyLStrip : List Char → List Char
  | [] => []
  | c :: cs => if pyIsSpace c then pyLStrip cs else c :: cs

/-- `s.rstrip()` -/
def pyRStrip : List Char → List Char
  | [] => []
  | c :: cs =>
    match pyRStrip cs with
    | [] => if pyIsSpace c then [] else [c]
    | r :: rs => c :: r :: rs

/-- `s.strip()` -/
def pyStrip (cs : List Char) : List Char := pyRStrip (pyLStrip cs)

/-- `d in s` -/
def hasChar (d : Char) : List Char → Bool
  | [] => false
  | c :: cs => c = d || hasChar d cs

/-- `s.endswith(d)` for a single character -/
def endsWithChar (d : Char) : List Char → Bool
  | [] => false
  | [c] => c = d
  | _ :: c :: cs => endsWithChar d (c :: cs)

/-- `s.startswith(d)` for a single character -/
def startsWithChar (d : Char) : List Char → Bool
  | [] => false
  | c :: _ => c = d

/-- `s[:-1]` -/
def dropLastC : List Char → List Char
  | [] => []
  | [_] => []
  | c :: d :: cs => c :: dropLastC (d :: cs)

/-- `s.split(d, maxsplit=1)` when `d` occurs: (before the first `d`, after it) -/
def splitFirst (d : Char) : List Char → Option (List Char × List Char)
  | [] => none
  | c :: cs =>
    if c = d then some ([], cs)
    else
      match splitFirst d cs with
      | none => none
      | some (a, b) => some (c :: a, b)

/-- `s.split(d)`: always at least one piece -/
def splitOnChar (d : Char) : List Char → List (List Char)
  | [] => [[]]
  | c :: cs =>
    match splitOnChar d cs with
    | [] => [[]]
    | p :: ps => if c = d then [] :: p :: ps else (c :: p) :: ps

/-- split at the LAST `d`: `b = s.rfind(d)` → `(s[:b], s[b+1:])`; `none` when `rfind` gives -1 -/
def rsplitLast (d : Char) : List Char → Option (List Char × List Char)
  | [] => none
  | c :: cs =>
    match rsplitLast d cs with
    | some (a, b) => some (c :: a, b)
    | none => if c = d then some ([], cs) else none

/-! ### `int(str)` -/

/-- code points of the characters with decimal digit value 0 (Unicode 15.0 category Nd: 68 blocks
    of ten consecutive digits) -/
def decimalZeros : List Nat :=
  [48, 1632, 1776, 1984, 2406, 2534, 2662, 2790, 2918, 3046, 3174, 3302, 3430, 3558, 3664, 3792,
   3872, 4160, 4240, 6112, 6160, 6470, 6608, 6784, 6800, 6992, 7088, 7232, 7248, 42528, 43216,
   43264, 43472, 43504, 43600, 44016, 65296, 66720, 68912, 69734, 69872, 69942, 70096, 70384,
   70736, 70864, 71248, 71360, 71472, 71904, 72016, 72784, 73040, 73120, 73552, 92768, 92864,
   93008, 120782, 120792, 120802, 120812, 120822, 123200, 123632, 124144, 125264, 130032]

def decimalIn (n : Nat) : List Nat → Option Nat
  | [] => none
  | z :: zs => if z ≤ n && n < z + 10 then some (n - z) else decimalIn n zs

/-- `Py_UNICODE_TODECIMAL(ch)` (`none` = -1) -/
def pyDecimal (c : Char) : Option Nat := decimalIn c.toNat decimalZeros

/-- one character of `_PyUnicode_TransformDecimalAndSpaceToASCII`; `none` = the '?' that makes the
    text unparsable -/
def trIntChar (c : Char) : Option Char :=
  if c.toNat < 127 then some c
  else if pyIsSpace c then some ' '
  else
    match pyDecimal c with
    | some d => some (Char.ofNat (48 + d))
    | none => none

def trIntChars : List Char → Option (List Char)
  | [] => some []
  | c :: cs =>
    match trIntChar c with
    | none => none
    | some c' =>
      match trIntChars cs with
      | none => none
      | some r => some (c' :: r)

def dropCSpace : List Char → List Char
  | [] => []
  | c :: cs => if cIsSpace c then dropCSpace cs else c :: cs

/-- optional sign: (negative?, rest) -/
def splitSign : List Char → Bool × List Char
  | [] => (false, [])
  | c :: r => if c = '-' then (true, r) else if c = '+' then (false, r) else (false, c :: r)

/-- the run `[0-9_]*` after a first digit: (digits, rest); `none` when an underscore is not followed
    by a digit (`1__0`, `1_`, `1_x`) -/
def scanMore : List Char → Option (List Char × List Char)
  | [] => some ([], [])
  | c :: cs =>
    if c.isDigit then
      match scanMore cs with
      | none => none
      | some (ds, r) => some (c :: ds, r)
    else if c = '_' then
      match cs with
      | [] => none
      | d :: cs' =>
        if d.isDigit then
          match scanMore cs' with
          | none => none
          | some (ds, r) => some (d :: ds, r)
        else none
    else some ([], c :: cs)

/-- `sys.int_max_str_digits` -/
def pyMaxStrDigits : Nat := 4300

/-- `int(s)` in base 10; `none` = ValueError -/
def pyIntC (cs : List Char) : Option Int :=
  match trIntChars cs with
  | none => none
  | some buf =>
    match splitSign (dropCSpace buf) with
    | (_, []) => none
    | (neg, d :: r) =>
      if d.isDigit then
        match scanMore r with
        | none => none
        | some (ds, rest) =>
          if rest.all cIsSpace && decide ((d :: ds).length ≤ pyMaxStrDigits) then
            some (if neg then - (digitsToNat (d :: ds) : Int) else (digitsToNat (d :: ds) : Int))
          else none
      else none

/-! ### `determine_option_type` -/

inductive OptType where
  | raw | inline | file
  deriving DecidableEq, Repr, Inhabited

/-- `'\n' in option or (option.startswith('{') and option.endswith('}'))` on the stripped option -/
def isRawOpt (o : List Char) : Bool :=
  hasChar '\n' o || (startsWithChar '{' o && endsWithChar '}' o)

/-- `determine_option_type(option)` -/
def optionTypeC (opt : List Char) : OptType :=
  if isRawOpt (pyStrip opt) then .raw
  else if hasChar '=' (pyStrip opt) then .inline
  else .file

/-! ### the `inline` branch -/

/-- `[o.strip() for o in option.split('=', maxsplit=1)]` (`none`: no '=') -/
def splitKeyValueC (opt : List Char) : Option (List Char × List Char) :=
  match splitFirst '=' opt with
  | none => none
  | some (k, v) => some (pyStrip k, pyStrip v)

/-- `[part.strip() for part in key.split('.')]` -/
def splitPartsC (key : List Char) : List (List Char) := (splitOnChar '.' key).map pyStrip

/-- one round of the `while part.endswith(']')` loop, `part` ending with ']':
    `b = part.rfind('['); index = int(part[b+1:-1]); part = part[:b]`.
    When there is no '[' (`b = -1`) Python reads `int(part[0:-1])` and keeps `part[:-1]`. -/
def peelOne (part : List Char) : Option (List Char × Int) :=
  let body := dropLastC part
  match rsplitLast '[' body with
  | some (pre, inner) =>
    match pyIntC inner with
    | none => none
    | some i => some (pre, i)
  | none =>
    match pyIntC body with
    | none => none
    | some i => some (body, i)

/-- the loop; every round removes at least one character, `fuel` = length + 1 suffices -/
def peelLoop : Nat → List Char → List Int → Option (List Char × List Int)
  | 0, _, _ => none
  | fuel + 1, part, acc =>
    if endsWithChar ']' part then
      match peelOne part with
      | none => none
      | some (part', i) => peelLoop fuel part' (i :: acc)
    else some (part, acc)

/-- name and indices of one (stripped) part of the key; `none` = ValueError of `int(...)` -/
def peelSubscriptsC (part : List Char) : Option (List Char × List Int) :=
  peelLoop (part.length + 1) part []

def peelAllC : List (List Char) → Option (List (List Char × List Int))
  | [] => some []
  | p :: ps =>
    match peelSubscriptsC p with
    | none => none
    | some g =>
      match peelAllC ps with
      | none => none
      | some gs => some (g :: gs)

/-- the exceptions `process_cmdline` can raise on an inline option -/
inductive CmdErr where
  | index      -- IndexError: `key[0]` on an empty key (`=5`)
  | value      -- ValueError: `int(...)` on a subscript that is not an integer
  deriving DecidableEq, Repr, Inhabited

/-- the inline branch up to the text emission: (key starts with '!', parts with indices, value) -/
def tokensE (opt : List Char) : Except CmdErr (Bool × List (List Char × List Int) × List Char) :=
  match splitKeyValueC opt with
  | none => .error .value        -- unreachable for an inline option (unpacking one piece)
  | some ([], _) => .error .index
  | some (k :: key, value) =>
    match peelAllC (splitPartsC (k :: key)) with
    | none => .error .value
    | some gs => .ok (decide (k = '!'), gs, value)

/-- tokens of an option that `determine_option_type` classifies as inline -/
def tokensC (opt : List Char) : Option (Bool × List (List Char × List Int) × List Char) :=
  if optionTypeC opt = .inline then
    match tokensE opt with
    | .ok t => some t
    | .error _ => none
  else none

/-! ### text emission -/

def emitIndexOpen : List Int → List Char
  | [] => []
  | i :: is => "{ ".toList ++ intToChars i ++ ": ".toList ++ emitIndexOpen is

/-- what the `for part in key.split('.')` loop appends (`first` ⇔ `ind == 0`) -/
def emitPartsOpen : Bool → List (List Char × List Int) → List Char
  | _, [] => []
  | first, (nm, is) :: gs =>
    (if first then [] else " { ".toList) ++ nm ++ ": ".toList ++ emitIndexOpen is ++ emitPartsOpen false gs

/-- `ind`: number of mappings opened -/
def emitDepth : List (List Char × List Int) → Nat
  | [] => 0
  | (_, is) :: gs => 1 + is.length + emitDepth gs

/-- the YAML text of an inline option (`default_inline_tag='!notnew'`) -/
def emitTextC (tagged : Bool) (gs : List (List Char × List Int)) (value : List Char) : List Char :=
  (if tagged then "{ ".toList else "!notnew { ".toList) ++ emitPartsOpen true gs ++ value ++ [' '] ++
    List.replicate (emitDepth gs) '}'

/-- one argument through `process_cmdline` (no `filename_lookup_fn`): (yaml text or file name,
    `raw_yaml` flag) -/
def processOptionC (opt : List Char) : Except CmdErr (List Char × Bool) :=
  match optionTypeC opt with
  | .raw => .ok (opt, true)
  | .file => .ok (pyStrip opt, false)
  | .inline =>
    match tokensE opt with
    | .error e => .error e
    | .ok (t, gs, v) => .ok (emitTextC t gs v, true)

/-! ### `String` interface -/

def optionType (s : String) : OptType := optionTypeC s.toList

def strip (s : String) : String := String.ofList (pyStrip s.toList)

def splitKeyValue (s : String) : Option (String × String) :=
  match splitKeyValueC s.toList with
  | none => none
  | some (k, v) => some (String.ofList k, String.ofList v)

def splitParts (key : String) : List String := (splitPartsC key.toList).map String.ofList

def peelSubscripts (part : String) : Option (String × List Int) :=
  match peelSubscriptsC part.toList with
  | none => none
  | some (nm, is) => some (String.ofList nm, is)

def pyInt (s : String) : Option Int := pyIntC s.toList

def groupStr (g : List Char × List Int) : String × List Int := (String.ofList g.1, g.2)

/-- (key starts with '!' — then no default tag is added, parts with their indices, value text);
    `none`: the option is not inline, or `process_cmdline` raises -/
def tokens (s : String) : Option (Bool × List (String × List Int) × String) :=
  match tokensC s.toList with
  | none => none
  | some (t, gs, v) => some (t, gs.map groupStr, String.ofList v)

/-- name, then its indices as integer keys -/
def groupPath (g : String × List Int) : Path := Key.str g.1 :: g.2.map Key.int

def tokensToPath : List (String × List Int) → Path
  | [] => []
  | g :: gs => groupPath g ++ tokensToPath gs

/-! ### the key PyYAML makes of a part name -/

/-- the words the YAML 1.1 resolver of PyYAML reads as bool / null (as a mapping key they make the
    awesomeyaml loader fail: ParsingError) -/
def yamlSpecialWords : List String :=
  ["yes", "Yes", "YES", "no", "No", "NO", "true", "True", "TRUE", "false", "False", "FALSE",
   "on", "On", "ON", "off", "Off", "OFF", "null", "Null", "NULL"]

/-- the mapping key the loader builds from the plain scalar `name` (the text `process_cmdline`
    writes before ': '), for the two classes of names covered by the model: a name starting with a
    letter or '_' that is not a bool / null word is a string key; a plain decimal numeral (`0`, or
    digits without leading zero) is an INTEGER key — `a.0=v` and `a[0]=v` are the same override.
    `none`: outside the model (bool / null words, octal `012`, `0x1f`, `0b1`, `1_0`, `1a`, other
    characters). -/
def yamlNameKey (name : String) : Option Key :=
  match name.toList with
  | [] => none
  | c :: cs =>
    if c.isAlpha || c = '_' then
      if (c :: cs).all isIdentChar && !(yamlSpecialWords.map String.toList).contains (c :: cs) then some (.str name) else none
    else if (c :: cs).all Char.isDigit && (cs.isEmpty || c != '0') then some (.int (digitsToNat (c :: cs)))
    else none

def emitText (tagged : Bool) (gs : List (String × List Int)) (value : String) : String :=
  String.ofList (emitTextC tagged (gs.map (fun g => (g.1.toList, g.2))) value.toList)

def processOption (s : String) : Except CmdErr (String × Bool) :=
  match processOptionC s.toList with
  | .error e => .error e
  | .ok (t, r) => .ok (String.ofList t, r)

end AY
