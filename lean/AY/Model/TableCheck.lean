/-
  AY.Model.TableCheck — the class relations the merge model relies on (`isinstance`, `issubclass`,
  `_is_plain_composed`, `_default_delete`, `isinstance(leaf, str)`) agree with the tables generated
  from /repo on every run. If the class hierarchy of the code changes, `Gen/Tables.lean` changes and
  these proofs — and with them every property module, which imports this file through the model —
  stop checking.
-/
import AY.Model.Flags
namespace AY

def compKindOfName : String → Option CompKind
  | "dict" => some .dict | "call" => some (.call "f") | "bind" => some (.bind "f") | "list" => some .list
  | "append" => some .append | "extend" => some .extend | "path" => some (.path "") | "stream" => some .stream
  | _ => none

def leafKindOfName : String → Option LeafKind
  | "xref" => some (.xref "a") | "prev" => some (.prev "a") | "eval" => some (.eval "a") | "fstr" => some (.fstr "a")
  | "imp" => some (.imp "a") | "required" => some .required | "clear" => some .clear | "incl" => some (.incl [])
  | "scalarStr" => some (.scalar (.str "s")) | "scalarInt" => some (.scalar (.int 1)) | "scalarNone" => some (.scalar .null)
  | _ => none

theorem tables_strictSubclass :
    Tables.strictSubclass.all (fun e =>
      match compKindOfName e.1, compKindOfName e.2.1 with
      | some a, some b => CompKind.strictSub a b == e.2.2 && !(CompKind.sameClass a b)
      | _, _ => false) = true := by decide

theorem tables_isDictInstance :
    Tables.isDictInstance.all (fun e =>
      match compKindOfName e.1 with | some a => a.isDictFam == e.2 | none => false) = true := by decide

theorem tables_isPlainComposed :
    Tables.isPlainComposed.all (fun e =>
      match compKindOfName e.1 with | some a => a.isPlain == e.2 | none => false) = true := by decide

theorem tables_classDefaultDelete :
    Tables.classDefaultDelete.all (fun e =>
      match compKindOfName e.1 with | some a => defaultDelete a == e.2 | none => false) = true := by decide

theorem tables_leafIsStr :
    Tables.leafIsStr.all (fun e =>
      match leafKindOfName e.1 with | some a => a.isStr == e.2 | none => false) = true := by decide

theorem tables_kinds_complete :
    Tables.isDictInstance.length = 8 ∧ Tables.leafIsStr.length = 11 ∧ Tables.strictSubclass.length = 56 := by decide

theorem tables_simple_tags :
    Tables.tagForce = (some Tables.force, none, none, none) ∧ Tables.tagWeak = (some Tables.weak, none, none, none) ∧
    Tables.tagDel = (none, some true, none, none) ∧ Tables.tagMerge = (none, some false, none, none) ∧
    Tables.tagNew = (none, none, some true, none) ∧ Tables.tagNotnew = (none, none, some false, none) ∧
    Tables.tagUnsafe = (none, none, none, some false) ∧
    Tables.inheritPriority = true ∧ Tables.inheritImplicitDelete = true ∧ Tables.inheritImplicitAllowNew = true ∧
    Tables.inheritImplicitSafe = true := by
  refine ⟨rfl, rfl, rfl, rfl, rfl, rfl, rfl, rfl, rfl, rfl, rfl⟩

end AY
