/-
  AY.Model.Func — argument passing of `!call` / `!bind` (nodes/function.py `_resolve_args`) and a
  model of Python's call binding for the parameter kinds positional-or-keyword, `*args`,
  keyword-only and `**kwargs`.
-/
import AY.Model.Data
namespace AY

/-- evaluated values. Containers and results of executions carry the path of the node that
    produced them (`oid`), which models Python object identity in a tree without aliasing. -/
inductive Val where
  | scalar (s : Scalar)
  | dict (oid : Path) (items : List (Key × Val))
  | list (oid : Path) (items : List Val)
  | app (oid : Path) (f : String) (bound : List (String × Val)) (varargs : List Val)
        (varkw : List (String × Val))                    -- result of calling the free symbol `f`
  | part (oid : Path) (f : String) (pos : List Val) (kw : List (String × Val))  -- functools.partial
  | tuple (oid : Path) (items : List Val)                -- result of a restricted `!eval`
  | sym (name : String)                                  -- an eval symbol / builtin / imported entity
  | pathv (s : String)                                   -- pathlib.Path (normalised)
  | strs (l : List String)                               -- plain list of strings (unprocessed include)
  deriving Repr, Inhabited

inductive ParamKind where
  | posOrKw | varPos | kwOnly | varKw
  deriving DecidableEq, Repr, Inhabited

structure Param where
  name : String
  kind : ParamKind
  dflt : Option Scalar := none
  deriving Repr, Inhabited

/-- signature of a target function, parameters in declaration order -/
abbrev Sig := List Param

/-- `idx_to_name`: names of the parameters before the first `*args` -/
def idxToName : Sig → List String
  | [] => []
  | p :: rest => if p.kind = .varPos then [] else p.name :: idxToName rest

def intArgs : List (Key × Val) → List (Int × Val)
  | [] => []
  | (.int i, v) :: rest => (i, v) :: intArgs rest
  | _ :: rest => intArgs rest

def strArgs : List (Key × Val) → List (String × Val)
  | [] => []
  | (.str s, v) :: rest => (s, v) :: strArgs rest
  | _ :: rest => strArgs rest

def hasFloatKey : List (Key × Val) → Bool
  | [] => false
  | (.float _, _) :: _ => true
  | _ :: rest => hasFloatKey rest

def ilookup (i : Int) : List (Int × Val) → Option Val
  | [] => none
  | (j, v) :: rest => if j = i then some v else ilookup i rest

/-- the contiguous prefix `0, 1, 2, …` of the integer-keyed arguments -/
def unpackPrefix (pos : List (Int × Val)) : Nat → Nat → List Val
  | 0, _ => []
  | fuel + 1, i =>
    match ilookup (i : Int) pos with
    | none => []
    | some v => v :: unpackPrefix pos fuel (i + 1)

/-- remaining integer-keyed arguments are bound by parameter name (`idx_to_name[idx]`, with
    Python's negative indexing) -/
def kwFromPositions (names : List String) (skip : Nat) : List (Int × Val) → Option (List (String × Val))
  | [] => some []
  | (i, v) :: rest =>
    if 0 ≤ i ∧ i.toNat < skip then kwFromPositions names skip rest
    else if i ≥ (names.length : Int) then none
    else
      let j : Int := if i < 0 then (names.length : Int) + i else i
      if j < 0 then none
      else
        match names[j.toNat]? with
        | none => none
        | some nm =>
          match kwFromPositions names skip rest with
          | none => none
          | some l => some ((nm, v) :: l)

/-- `FunctionNode._resolve_args(func, args)`: `(unpack, kw_positional, keyword)`; `none` ⇔ it raises. -/
def resolveArgs (sig : Sig) (args : List (Key × Val)) :
    Option (List Val × List (String × Val) × List (String × Val)) :=
  let pos := intArgs args
  if pos.isEmpty then
    if hasFloatKey args then none else some ([], [], strArgs args)
  else if hasFloatKey args then none
  else
    let unpack := unpackPrefix pos pos.length 0
    match kwFromPositions (idxToName sig) unpack.length pos with
    | none => none
    | some kwp => some (unpack, kwp, strArgs args)

/-! ### Python call binding -/

structure Bound where
  named : List (String × Val) := []
  varargs : List Val := []
  varkw : List (String × Val) := []
  deriving Repr, Inhabited

def slookup (k : String) : List (String × Val) → Option Val
  | [] => none
  | (k', v) :: rest => if k' = k then some v else slookup k rest

def posParams : Sig → List Param
  | [] => []
  | p :: rest => if p.kind = .posOrKw then p :: posParams rest else []

def hasKind (k : ParamKind) (sig : Sig) : Bool := sig.any (fun p => p.kind = k)

/-- assign positional arguments -/
def bindPositional : List Param → List Val → List (String × Val) × List Val
  | [], vs => ([], vs)
  | _, [] => ([], [])
  | p :: ps, v :: vs =>
    let r := bindPositional ps vs
    ((p.name, v) :: r.1, r.2)

def isNamedParam (sig : Sig) (k : String) : Bool :=
  sig.any (fun p => p.name = k && (p.kind = .posOrKw || p.kind = .kwOnly))

/-- assign keyword arguments; `none` ⇔ TypeError -/
def bindKeywords (sig : Sig) : List (String × Val) → Bound → Option Bound
  | [], b => some b
  | (k, v) :: rest, b =>
    if isNamedParam sig k then
      if (slookup k b.named).isSome then none
      else bindKeywords sig rest { b with named := b.named ++ [(k, v)] }
    else if hasKind .varKw sig then
      if (slookup k b.varkw).isSome then none
      else bindKeywords sig rest { b with varkw := b.varkw ++ [(k, v)] }
    else none

/-- fill defaults; `none` ⇔ a required parameter is missing -/
def fillDefaults : Sig → List (String × Val) → Option (List (String × Val))
  | [], _ => some []
  | p :: rest, named =>
    if p.kind = .varPos || p.kind = .varKw then fillDefaults rest named
    else
      match slookup p.name named, p.dflt with
      | some v, _ =>
        match fillDefaults rest named with
        | none => none
        | some l => some ((p.name, v) :: l)
      | none, some d =>
        match fillDefaults rest named with
        | none => none
        | some l => some ((p.name, .scalar d) :: l)
      | none, none => none

def dupKeys : List (String × Val) → Bool
  | [] => false
  | (k, _) :: rest => (slookup k rest).isSome || dupKeys rest

/-- `func(*pos, **kw)`; `none` ⇔ TypeError -/
def bindPy (sig : Sig) (pos : List Val) (kw : List (String × Val)) : Option Bound :=
  if dupKeys kw then none
  else
    let r := bindPositional (posParams sig) pos
    if !r.2.isEmpty && !hasKind .varPos sig then none
    else
      match bindKeywords sig kw { named := r.1, varargs := r.2 } with
      | none => none
      | some b =>
        match fillDefaults sig b.named with
        | none => none
        | some named => some { b with named := named }

end AY
