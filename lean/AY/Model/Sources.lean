/-
  AY.Model.Sources — from what the USER passes to what `yaml.parse` is handed.

    builder.py  `Builder.add_source`            openStep / guessSource / addSource
                `Builder.add_multiple_sources`  broadcast / zipArgs / addLoop / addMultiple
    config.py   `Config.build`                  configBuild
                `Config.build_from_cmdline`     cmdlineOne / processCmdline / buildFromCmdline
                                                (the classification and the emitted text of one option
                                                is `processOption` of AY.Model.Cmdline — not repeated)

  The code of `add_source`, line by line:

      if raw_yaml and not isinstance(source, str): raise ValueError(...)          -- `.rawNotStr`
      if isinstance(source, pathlib.Path): source = str(source)                    -- `.path s`: s = str(p)
      if isinstance(source, str) and not raw_yaml:
          try:
              with open(os.path.expanduser(source), 'r') as f:
                  content = f.read()
              self._current_file, source = source, content   -- the name AS GIVEN (not expanded), only after a successful read
          except (FileNotFoundError, OSError) as e:
              if not isinstance(e, FileNotFoundError) and (type(e) is not OSError or e.errno not in [22, 36]): raise
              if raw_yaml is not None: raise
      try:
          if filename is not None: self._current_file = filename
          if safe is None: safe = self._default_safe_flag
          with ConfigNode.default_safe_flag(safe and self._default_safe_flag):     -- `and`-ed with the flag in force
              with ConfigNode.default_filename(self._current_file):
                  for node in yaml.parse(source, self):
                      if node is not None: self.stages.append(node)
      finally:
          self._current_file = None

  Parameters (trusted base, supplied by the harness from the real file system): the outcome of
  `open(...)`+`read()` per name (`FileSys`), `os.path.expanduser`, `str(pathlib.Path)`, the parser
  (`Parser`: the documents a text yields, `None` documents removed, and whether it raises after them).

  History (repo fixes D47, D48; the old behaviour is kept as mutant functions in Props/C06_Sources.lean):
  * D48: the re-raise test was `type(e) is OSError and e.errno not in [22, 36]` — an exact-type test, so a proper
    SUBCLASS of OSError other than FileNotFoundError (IsADirectoryError, NotADirectoryError, PermissionError) was not
    re-raised: with `raw_yaml=None` the name of a directory or of an unreadable file was parsed as YAML.
  * D47: `self._current_file = source` ran before `f.read()` and outside the `try/finally`: when `read()` raised
    (UnicodeDecodeError — a ValueError, not an OSError) the name stayed in `_current_file` and was inherited by the
    next source that had no name of its own.
-/
import AY.Model.Cmdline
namespace AY
namespace Sources

deriving instance DecidableEq for Except

/-! ### the file system as `add_source` sees it -/

/-- outcome of `with open(os.path.expanduser(name), 'r') as f: … f.read()` -/
inductive OpenRes where
  | content (text : String)        -- opened and read
  | notFound                       -- FileNotFoundError
  | osError (errno : Nat)          -- an exception whose type is EXACTLY OSError (ENAMETOOLONG 36, EINVAL 22, ELOOP 40, …)
  | osSub (cls : String)           -- a proper subclass of OSError other than FileNotFoundError (by class name)
  | valueError                     -- `open` raises ValueError (embedded null byte)
  | readError                      -- `open` succeeds, `f.read()` raises UnicodeDecodeError
  deriving DecidableEq, Repr, Inhabited

/-- the abstract file system: `fs` = content of a (readable, decodable) file, `openErr` = errno of a plain
    OSError raised by `open`; the other fields describe the remaining outcomes of `open`/`read`.  All of them
    are indexed by the EXPANDED name (what `open` receives). -/
structure FileSys where
  fs : String → Option String
  openErr : String → Option Nat := fun _ => none
  openSub : String → Option String := fun _ => none
  badName : String → Bool := fun _ => false
  undecodable : String → Bool := fun _ => false
  expanduser : String → String := fun s => s

/-- `open(os.path.expanduser(name), 'r')` + `read()` -/
def openRead (S : FileSys) (name : String) : OpenRes :=
  if S.badName (S.expanduser name) then .valueError
  else
    match S.openErr (S.expanduser name) with
    | some n => .osError n
    | none =>
      match S.openSub (S.expanduser name) with
      | some c => .osSub c
      | none =>
        if S.undecodable (S.expanduser name) then .readError
        else
          match S.fs (S.expanduser name) with
          | some t => .content t
          | none => .notFound

/-! ### arguments and errors -/

/-- the positional argument `source` -/
inductive SourceArg where
  | str (s : String)               -- a `str`
  | path (s : String)              -- a `pathlib.Path` p; `s = str(p)`
  | fileObj (content : String)     -- anything else (an object with `read()`): what `read()` returns
  deriving DecidableEq, Repr, Inhabited

/-- exceptions leaving `add_source` / `add_multiple_sources` / `Config.build_from_cmdline` before evaluation;
    the OS errors carry `e.filename` = the name given to `open` -/
inductive SrcErr where
  | rawNotStr                                  -- ValueError: raw_yaml is true and source is not a str
  | fileNotFound (file : String)
  | osError (errno : Nat) (file : String)
  | osSub (cls : String) (file : String)
  | openValue (file : String)                  -- ValueError raised by `open`
  | decode (file : String)                     -- UnicodeDecodeError raised by `read`
  | lengthMismatch (arg : String)              -- ValueError: "Length of 'sources' and '<arg>' must match"
  | parsing                                    -- raised by `yaml.parse`
  | cmdline (e : CmdErr)                       -- raised by `process_cmdline`
  deriving DecidableEq, Repr, Inhabited

/-- `bool(raw_yaml)` for `raw_yaml ∈ {None, False, True}` -/
def rawTrue : Option Bool → Bool
  | some true => true
  | _ => false

/-- the `except (FileNotFoundError, OSError) as e:` clause; `reraise` ⇔ `not isinstance(e, FileNotFoundError) and
    (type(e) is not OSError or e.errno not in [22, 36])`.  Result: what `source` is afterwards (the string itself),
    or the exception. -/
def fallback (raw : Option Bool) (s : String) (e : SrcErr) (reraise : Bool) : Except SrcErr String :=
  if reraise then .error e
  else if raw.isSome then .error e
  else .ok s

/-- the `if isinstance(source, str) and not raw_yaml:` block for the string `s`:
    (the new `source` or the exception, `_current_file` afterwards) -/
def openStr (S : FileSys) (cur : Option String) (s : String) (raw : Option Bool) : Except SrcErr String × Option String :=
  match openRead S s with
  | .content t => (.ok t, some s)
  | .readError => (.error (.decode (S.expanduser s)), cur)
  | .valueError => (.error (.openValue (S.expanduser s)), cur)
  | .notFound => (fallback raw s (.fileNotFound (S.expanduser s)) false, cur)
  | .osError n => (fallback raw s (.osError n (S.expanduser s)) (n != 22 && n != 36), cur)
  | .osSub c => (fallback raw s (.osSub c (S.expanduser s)) true, cur)

/-- `add_source` up to the second `try:` — (the text handed on or the exception, `_current_file` afterwards) -/
def openStep (S : FileSys) (cur : Option String) (src : SourceArg) (raw : Option Bool) :
    Except SrcErr String × Option String :=
  match src with
  | .fileObj c => if rawTrue raw then (.error .rawNotStr, cur) else (.ok c, cur)
  | .path s => if rawTrue raw then (.error .rawNotStr, cur) else openStr S cur s raw
  | .str s => if rawTrue raw then (.ok s, cur) else openStr S cur s raw

/-- `if filename is not None: self._current_file = filename` -/
def recordedName (filename cur : Option String) : Option String :=
  match filename with
  | some f => some f
  | none => cur

/-- what `add_source(source, raw_yaml, filename)` hands to the parser when the builder's `_current_file` is
    `cur` at entry: (text, file name in force) -/
def guessSourceFrom (cur : Option String) (S : FileSys) (raw : Option Bool) (filename : Option String)
    (src : SourceArg) : Except SrcErr (String × Option String) :=
  match (openStep S cur src raw).1 with
  | .error e => .error e
  | .ok text => .ok (text, recordedName filename (openStep S cur src raw).2)

/-- … on a builder whose `_current_file` is `None` (a fresh builder, or a builder after any sequence of calls:
    `C06_current_file_always_none`) -/
def guessSource (S : FileSys) (raw : Option Bool) (filename : Option String) (src : SourceArg) :
    Except SrcErr (String × Option String) :=
  guessSourceFrom none S raw filename src

/-! ### the builder -/

/-- one call of `yaml.parse`: the text, `builder.get_current_file()` = `ConfigNode._default_filename`, and the
    default-safe flag in force (`ConfigNode._default_safe`) -/
structure ParseCall where
  text : String
  name : Option String
  safe : Bool
  deriving DecidableEq, Repr, Inhabited

/-- `yaml.parse` as a parameter: the documents yielded (`None` documents removed) and whether it raises after
    them (the generator is consumed lazily, so the documents before the error are already in `stages`) -/
abbrev Parser (δ : Type) := ParseCall → List δ × Bool

/-- `Builder._default_safe_flag` and the value of `ConfigNode._default_safe` when the call is made -/
structure Env where
  bdef : Bool := true
  outer : Bool := true
  deriving DecidableEq, Repr, Inhabited

/-- `_current_file`, `stages`, and (ghost) the calls of `yaml.parse` made so far -/
structure BState (δ : Type) where
  currentFile : Option String := none
  stages : List δ := []
  calls : List ParseCall := []
  deriving DecidableEq, Repr

/-- the arguments of one `add_source` -/
structure Args where
  src : SourceArg
  raw : Option Bool := none
  filename : Option String := none
  safe : Option Bool := none
  deriving DecidableEq, Repr, Inhabited

/-- `safe = self._default_safe_flag if safe is None`; `default_safe_flag(safe and self._default_safe_flag)`
    sets `value and old` -/
def effSafe (env : Env) (safe : Option Bool) : Bool :=
  ((safe.getD env.bdef) && env.bdef) && env.outer

/-- `Builder.add_source`: the builder afterwards and the exception, if any -/
def addSource {δ : Type} (S : FileSys) (P : Parser δ) (env : Env) (st : BState δ) (a : Args) :
    BState δ × Option SrcErr :=
  match openStep S st.currentFile a.src a.raw with
  | (.error e, cur) => ({ st with currentFile := cur }, some e)
  | (.ok text, cur) =>
    ({ currentFile := none,
       stages := st.stages ++ (P ⟨text, recordedName a.filename cur, effSafe env a.safe⟩).1,
       calls := st.calls ++ [⟨text, recordedName a.filename cur, effSafe env a.safe⟩] },
     if (P ⟨text, recordedName a.filename cur, effSafe env a.safe⟩).2 then some .parsing else none)

/-- `for … in zip(…): self.add_source(…)` — source by source, in order, stopping at the first exception -/
def addLoop {δ : Type} (S : FileSys) (P : Parser δ) (env : Env) : BState δ → List Args → BState δ × Option SrcErr
  | st, [] => (st, none)
  | st, a :: rest =>
    match addSource S P env st a with
    | (st', some e) => (st', some e)
    | (st', none) => addLoop S P env st' rest

/-- a keyword argument of `add_multiple_sources`: not a `Sequence`, or a `str`/`bytes` (`scalar`), or a sequence -/
inductive BArg (α : Type) where
  | scalar (a : α)
  | seq (l : List α)
  deriving Repr

/-- `sanitize(arg, arg_name)` for `n = len(sources)` -/
def broadcast {α : Type} (n : Nat) (argName : String) : BArg α → Except SrcErr (List α)
  | .scalar a => .ok (List.replicate n a)
  | .seq l => if l.length = n then .ok l else .error (.lengthMismatch argName)

/-- `zip(sources, raw_yaml, filename, safe)` -/
def zipArgs : List SourceArg → List (Option Bool) → List (Option String) → List (Option Bool) → List Args
  | s :: ss, r :: rs, f :: fs, x :: xs => ⟨s, r, f, x⟩ :: zipArgs ss rs fs xs
  | _, _, _, _ => []

/-- `Builder.add_multiple_sources(*sources, raw_yaml=…, filename=…, safe=…)`: the three `sanitize` calls come
    first, in this order, then the loop -/
def addMultiple {δ : Type} (S : FileSys) (P : Parser δ) (env : Env) (st : BState δ) (sources : List SourceArg)
    (raw : BArg (Option Bool)) (filename : BArg (Option String)) (safe : BArg (Option Bool)) :
    BState δ × Option SrcErr :=
  match broadcast sources.length "raw_yaml" raw with
  | .error e => (st, some e)
  | .ok rs =>
    match broadcast sources.length "filename" filename with
    | .error e => (st, some e)
    | .ok fs =>
      match broadcast sources.length "safe" safe with
      | .error e => (st, some e)
      | .ok xs => addLoop S P env st (zipArgs sources rs fs xs)

/-! ### `Config.build`, `Config.build_from_cmdline` -/

/-- `Config.build(*sources, raw_yaml=…, filename=…)` up to `b.build()`: a fresh builder,
    `add_multiple_sources(*sources, raw_yaml=raw_yaml, filename=filename)` (`safe` stays `None`) -/
def configBuild {δ : Type} (S : FileSys) (P : Parser δ) (env : Env) (sources : List SourceArg)
    (raw : BArg (Option Bool)) (filename : BArg (Option String)) : BState δ × Option SrcErr :=
  addMultiple S P env {} sources raw filename (.scalar none)

/-- `f'<Commandline argument #{idx}>'` -/
def cmdlineName (idx : Nat) : String := "<Commandline argument #" ++ toString idx ++ ">"

/-- `append(idx, option)` of `process_cmdline` (no `filename_lookup_fn`): (yaml, filename, raw_yaml).  The text
    and the raw flag are `processOption` of AY.Model.Cmdline; a file option records the stripped option itself -/
def cmdlineOne (idx : Nat) (opt : String) : Except CmdErr (String × String × Bool) :=
  match processOption opt with
  | .error e => .error e
  | .ok (t, true) => .ok (t, cmdlineName idx, true)
  | .ok (t, false) => .ok (t, t, false)

/-- `for i, src in enumerate(args): append(i+1, src)`; `idx` = number of the first option -/
def processCmdline : Nat → List String → Except CmdErr (List (String × String × Bool))
  | _, [] => .ok []
  | idx, o :: rest =>
    match cmdlineOne idx o with
    | .error e => .error e
    | .ok x =>
      match processCmdline (idx + 1) rest with
      | .error e => .error e
      | .ok xs => .ok (x :: xs)

/-- `Config.build_from_cmdline(*options)` up to `b.build()`: the three lists go to `Config.build` as per-source
    sequences -/
def buildFromCmdline {δ : Type} (S : FileSys) (P : Parser δ) (env : Env) (options : List String) :
    BState δ × Option SrcErr :=
  match processCmdline 1 options with
  | .error e => ({}, some (.cmdline e))
  | .ok xs =>
    configBuild S P env (xs.map (fun x => SourceArg.str x.1)) (.seq (xs.map (fun x => some x.2.2)))
      (.seq (xs.map (fun x => some x.2.1)))

end Sources
end AY
