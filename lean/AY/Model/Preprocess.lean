/-
  AY.Model.Preprocess — include preprocessing over a pure file system.

    dirnameChars/joinChars/normChars   os.path.dirname / os.path.join / os.path.normpath (POSIX), on
                                       `List Char` so that concrete facts are decidable in the kernel
    FS, PCtx                           the file system: absolute normalised path ↦ the documents of the
                                       file (a multi-document file has several), the working directory and
                                       `Builder._default_safe_flag`
    lookupDirs                         Builder.get_lookup_dirs
    addSource / parseAll               Builder.add_source (every document of a file is parsed with the
                                       source-level defaults `Env {dSafe, src}`)
    findFile, includeLoop, includeNode IncludeNode.on_preprocess_impl
    preprocessChildren, preprocessF    ComposedNode.on_preprocess_impl (map_nodes, recurse=False) and
                                       ConfigNode.on_preprocess_impl
    spliceStage, preprocessStagesWith  Builder.preprocess (a top-level stream is spliced in place)
    build                              Builder.build = preprocess, then flatten

  Not literal:
  * `open()` is a lookup in `FS` under the absolute normalised form of the name; symlinks, permissions,
    `~` expansion and directories-as-files are outside the model.
  * Recursion through includes is bounded by a fuel argument that is decremented at every node and at
    every include; a file that (transitively) includes itself is outside the domain (the code ends in
    RecursionError). Fuel exhaustion is `.unsupported`.
  * The second `on_preprocess` pass over the freshly built stream
    (`subbuilder.build().ayns.on_preprocess(path, builder)`) is dropped: the stream's documents were
    preprocessed by the sub-builder and contain no include node any more, so the pass returns the
    stream unchanged (`preprocessF_inclFree` in Lemmas/C06Lemmas.lean is that fact).
  * `assert _i != i` in Builder.preprocess (a top-level include that contributes no document at all)
    is an AssertionError in the code and `.unsupported` here.
-/
import AY.Model.Construct
import AY.Model.Eval
namespace AY

/-! ### POSIX path functions on character lists -/

/-- `s.split('/')` -/
def splitSlashChars : List Char → List (List Char)
  | [] => [[]]
  | c :: cs =>
    match splitSlashChars cs with
    | [] => [[]]
    | h :: t => if c = '/' then [] :: h :: t else (c :: h) :: t

/-- `'/'.join(comps)` -/
def joinSlashChars : List (List Char) → List Char
  | [] => []
  | [c] => c
  | c :: rest => c ++ '/' :: joinSlashChars rest

/-- one component of the loop of `posixpath.normpath`; `acc` is the stack `new_comps`, top first -/
def normStep (rooted : Bool) (acc : List (List Char)) (c : List Char) : List (List Char) :=
  if c = [] || c = ['.'] then acc
  else if c = ['.', '.'] then
    match acc with
    | [] => if rooted then [] else [c]
    | top :: rest => if top = ['.', '.'] then c :: acc else rest
  else c :: acc

/-- the leading slashes kept by `normpath` (exactly two are kept, three or more collapse) -/
def leadSlashes : List Char → List Char
  | '/' :: '/' :: '/' :: _ => ['/']
  | '/' :: '/' :: _ => ['/', '/']
  | '/' :: _ => ['/']
  | _ => []

/-- `os.path.normpath` -/
def normChars (p : List Char) : List Char :=
  match p with
  | [] => ['.']
  | _ =>
    let lead := leadSlashes p
    let comps := ((splitSlashChars p).foldl (normStep (!lead.isEmpty)) []).reverse
    match lead ++ joinSlashChars comps with
    | [] => ['.']
    | r => r

/-- `os.path.join(a, b)` -/
def joinChars (a b : List Char) : List Char :=
  match b with
  | '/' :: _ => b
  | _ =>
    if a = [] then b
    else if a.getLast? = some '/' then a ++ b
    else a ++ '/' :: b

/-- `os.path.dirname` -/
def dirnameChars (p : List Char) : List Char :=
  let head := (p.reverse.dropWhile (· != '/')).reverse      -- up to and including the last '/'
  if head.all (· == '/') then head
  else (head.reverse.dropWhile (· == '/')).reverse

def dirname (p : String) : String := String.ofList (dirnameChars p.toList)

/-- `os.path.normpath(os.path.join(dir, name))` -/
def joinNorm (dir name : String) : String := String.ofList (normChars (joinChars dir.toList name.toList))

/-! ### the file system -/

/-- absolute normalised path ↦ documents of the file -/
abbrev FS := List (String × List Raw)

structure PCtx where
  fs : FS
  cwd : String := "/"
  defSafe : Bool := true            -- Builder._default_safe_flag
  deriving Repr, Inhabited

def fsFind (p : String) : FS → Option (List Raw)
  | [] => none
  | (q, docs) :: rest => if q = p then some docs else fsFind p rest

/-- `open(file)`: a relative name is resolved against the working directory; `none` ⇔ FileNotFoundError -/
def fsGet (ctx : PCtx) (file : String) : Option (List Raw) := fsFind (joinNorm ctx.cwd file) ctx.fs

/-- `Builder.get_lookup_dirs(ref_point)` -/
def lookupDirs (src : Option String) (cwd : String) : List String :=
  match src with
  | some f => [dirname f, cwd]
  | none => [cwd]

/-- `yaml.parse` over the documents of one source -/
def parseAll (env : Env) : List Raw → Except Err (List Node)
  | [] => .ok []
  | r :: rest =>
    match construct env r with
    | .error e => .error e
    | .ok n =>
      match parseAll env rest with
      | .error e => .error e
      | .ok ns => .ok (n :: ns)

/-- the source-level defaults installed by `add_source(…, safe=safe)` for a file -/
def sourceEnv (ctx : PCtx) (safe : Bool) (file : Option String) : Env :=
  { dSafe := safe && ctx.defSafe, src := file }

/-- `builder.add_source(file, raw_yaml=False, safe=safe)`: `none` ⇔ FileNotFoundError, otherwise the
    documents appended to `stages` (or the parsing error) -/
def addSource (ctx : PCtx) (file : String) (safe : Bool) : Option (Except Err (List Node)) :=
  match fsGet ctx file with
  | none => none
  | some docs => some (parseAll (sourceEnv ctx safe (some file)) docs)

/-! ### include nodes -/

/-- the loop over `get_lookup_dirs`: the first directory in which the name exists -/
def findFile (ctx : PCtx) : List String → String → Option (String × List Raw)
  | [], _ => none
  | d :: ds, name =>
    match fsGet ctx (joinNorm d name) with
    | some docs => some (joinNorm d name, docs)
    | none => findFile ctx ds name

/-- the loop over `self.filenames`: documents of the files found so far, names found nowhere -/
def includeLoop (ctx : PCtx) (dirs : List String) (safe : Bool) :
    List String → List Node → List String → Except Err (List Node × List String)
  | [], acc, missing => .ok (acc, missing)
  | name :: rest, acc, missing =>
    match findFile ctx dirs name with
    | none => includeLoop ctx dirs safe rest acc (missing ++ [name])
    | some (file, raws) =>
      match parseAll (sourceEnv ctx safe (some file)) raws with
      | .error e => .error e
      | .ok docs => includeLoop ctx dirs safe rest (acc ++ docs) missing

/-- any exception inside `on_preprocess` is re-raised as PreprocessError (a PreprocessError passes
    through unchanged, so the names of a file missing further down survive) -/
def preErr : Err → Err
  | .unsupported => .unsupported
  | .preprocess ms => .preprocess ms
  | _ => .preprocess []

/-- flags of the `StreamNode` built from Python by `SubBuilder.build` (no source file, defaults) -/
def streamFlags : Flags := { del := some Tables.streamCtorDelete }

/-- `StreamNode(subbuilder)` = `ConfigList(subbuilder.stages, delete=False)`: the documents become the
    children as they are (`_get_child_kwargs` of a stream is `{}`, nothing is inherited into them) -/
def streamOf (stages : List Node) : Node := .comp streamFlags .stream (renum stages)

/-- `IncludeNode.on_preprocess_impl`; `pp` is `subbuilder.preprocess()` -/
def includeNode (ctx : PCtx) (pp : List Node → Except Err (List Node)) (f : Flags)
    (names : List String) : Except Err Node :=
  match includeLoop ctx (lookupDirs f.src ctx.cwd) (eSafe f) names [] [] with
  | .error e => .error (preErr e)
  | .ok (docs, missing) =>
    match missing with
    | _ :: _ => .error (.preprocess missing)
    | [] =>
      match pp docs with
      | .error e => .error (preErr e)
      | .ok stages => .ok (streamOf stages)

/-! ### nodes -/

def Node.isIncl : Node → Bool
  | .leaf _ (.incl _) => true
  | _ => false

mutual
/-- no `!include` node anywhere in the tree (hypothesis of C06_arrangements_agree, filter of its generator) -/
def Node.inclFree : Node → Bool
  | .leaf _ (.incl _) => false
  | .leaf .. => true
  | .comp _ _ cs => inclFreeList cs
def inclFreeList : List (Key × Node) → Bool
  | [] => true
  | (_, c) :: rest => c.inclFree && inclFreeList rest
end

/-- loop of `map_nodes(…, recurse=False)` in ComposedNode.on_preprocess_impl: the children after the
    in-place updates, and the re-sets (`possibly_new_child is not child` ⇔ the child is an include) -/
def preprocessChildren (rec : Node → Except Err Node) :
    List (Key × Node) → Except Err (List (Key × Node) × List (Key × Node))
  | [] => .ok ([], [])
  | (name, c) :: rest =>
    match rec c with
    | .error e => .error e
    | .ok c' =>
      match preprocessChildren rec rest with
      | .error e => .error e
      | .ok (cs', resets) =>
        if c.isIncl then .ok ((name, c) :: cs', (name, c') :: resets)
        else .ok ((name, c') :: cs', resets)

/-- `for name, child in to_re_set: self.ayns.set_child(name, child)` -/
def applyResetsPre (pf : Flags) (pk : CompKind) :
    List (Key × Node) → List (Key × Node) → Except Err (List (Key × Node))
  | [], cs => .ok cs
  | (k, v) :: rest, cs =>
    match setChild pf pk k v cs with
    | .error _ => .error (.preprocess [])
    | .ok cs' => applyResetsPre pf pk rest cs'

/-- the top-level loop body of `Builder.preprocess`: the stages that replace stage `st` -/
def spliceStage (st st' : Node) : Except Err (List Node) :=
  if st.isIncl then
    match st' with
    | .comp _ .stream [] => .error .unsupported          -- `assert _i != i`
    | .comp _ .stream cs => .ok (cs.map (·.2))           -- `self.stages[i:i+1] = new_stage.stages`
    | n => .ok [n]
  else .ok [st']

/-- `Builder.preprocess` with the node-level preprocessing `pn` -/
def preprocessStagesWith (pn : Node → Except Err Node) : List Node → Except Err (List Node)
  | [] => .ok []
  | st :: rest =>
    match pn st with
    | .error e => .error e
    | .ok st' =>
      match spliceStage st st' with
      | .error e => .error e
      | .ok here =>
        match preprocessStagesWith pn rest with
        | .error e => .error e
        | .ok rest' => .ok (here ++ rest')

/-- `node.ayns.on_preprocess(path, builder)` -/
def preprocessF (ctx : PCtx) : Nat → Node → Except Err Node
  | 0, _ => .error .unsupported
  | fuel + 1, n =>
    match n with
    | .leaf f (.incl names) =>
      includeNode ctx (preprocessStagesWith (preprocessF ctx fuel)) f names
    | .leaf f lk => .ok (.leaf f lk)
    | .comp f k cs =>
      match preprocessChildren (preprocessF ctx fuel) cs with
      | .error e => .error e
      | .ok (cs', resets) =>
        match applyResetsPre f k resets cs' with
        | .error e => .error e
        | .ok cs'' => .ok (.comp f k cs'')

/-- `Builder.preprocess()` -/
def preprocessStagesF (ctx : PCtx) (fuel : Nat) (stages : List Node) : Except Err (List Node) :=
  preprocessStagesWith (preprocessF ctx fuel) stages

/-! ### sources and the whole build -/

/-- an argument of `add_source` -/
inductive Source where
  | file (name : String) (safe : Option Bool)                          -- `add_source(name, raw_yaml=False, safe=…)`
  | raw (docs : List Raw) (filename : Option String) (safe : Option Bool)  -- `add_source(text, raw_yaml=True, filename=…, safe=…)`
  deriving Repr, Inhabited

/-- the documents one top-level `add_source` appends; a top-level file that does not exist is a plain
    FileNotFoundError in the code — outside the domain here -/
def addTop (ctx : PCtx) : Source → Except Err (List Node)
  | .file name safe =>
    match addSource ctx name (safe.getD ctx.defSafe) with
    | none => .error .unsupported
    | some r => r
  | .raw docs filename safe => parseAll (sourceEnv ctx (safe.getD ctx.defSafe) filename) docs

/-- `add_multiple_sources` -/
def addSources (ctx : PCtx) : List Source → Except Err (List Node)
  | [] => .ok []
  | s :: rest =>
    match addTop ctx s with
    | .error e => .error e
    | .ok ns =>
      match addSources ctx rest with
      | .error e => .error e
      | .ok ms => .ok (ns ++ ms)

/-- the stages after `add_source`* and `preprocess()` -/
def preprocessSources (ctx : PCtx) (fuel : Nat) (sources : List Source) : Except Err (List Node) :=
  match addSources ctx sources with
  | .error e => .error e
  | .ok stages => preprocessStagesF ctx fuel stages

mutual
def Raw.depth : Raw → Nat
  | .scalar .. => 0
  | .seq _ _ items => rawDepthList items + 1
  | .map _ _ items => rawDepthMap items + 1
def rawDepthList : List Raw → Nat
  | [] => 0
  | r :: rest => max r.depth (rawDepthList rest)
def rawDepthMap : List (Key × Raw) → Nat
  | [] => 0
  | (_, r) :: rest => max r.depth (rawDepthMap rest)
end

/-- fuel that suffices when no file includes itself: an include chain visits a file at most once, and
    inside one file at most `depth + 2` levels are descended -/
def fsFuel (fs : FS) : Nat :=
  (fs.map (fun e => rawDepthList e.2 + 3)).foldl (· + ·) 0

def sourceFuel : Source → Nat
  | .file .. => 0
  | .raw docs _ _ => rawDepthList docs + 3

def buildFuel (ctx : PCtx) (sources : List Source) : Nat :=
  fsFuel ctx.fs + (sources.map sourceFuel).foldl (· + ·) 0 + 3

/-- `Builder.build()`: `none` ⇔ no stage at all (the method returns None) -/
def buildWith (ctx : PCtx) (fuel : Nat) (sources : List Source) : Except Err (Option Node) :=
  match addSources ctx sources with
  | .error e => .error e
  | .ok [] => .ok none
  | .ok stages =>
    match preprocessStagesF ctx fuel stages with
    | .error e => .error e
    | .ok pre =>
      match flatten pre with
      | .error e => .error e
      | .ok r => .ok (some r)

def build (ctx : PCtx) (sources : List Source) : Except Err (Option Node) :=
  buildWith ctx (buildFuel ctx sources) sources

end AY
