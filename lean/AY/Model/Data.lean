/-
  AY.Model.Data — data types of the awesomeyaml model.

  Import-free (Lean core only) so that the line-protocol driver links as a `lean_exe`.
  Every definition mirrors a Python attribute or class of /repo/awesomeyaml; the
  correspondence check (harness/) compares the executable definitions with the real code.
-/
namespace AY

/-- Python scalar values that PyYAML produces (floats are kept by their `repr`). -/
inductive Scalar where
  | null
  | bool (b : Bool)
  | int (i : Int)
  | float (r : String)
  | str (s : String)
  deriving DecidableEq, Repr, Inhabited

/-- Mapping keys / list indices (children names). -/
inductive Key where
  | int (i : Int)
  | str (s : String)
  | float (r : String)
  deriving DecidableEq, Repr, Inhabited

abbrev Path := List Key

/-- Python truthiness of a scalar (`bool(x)`). -/
def Scalar.truthy : Scalar → Bool
  | .null => false
  | .bool b => b
  | .int i => i != 0
  | .float r => !(r == "0.0" || r == "-0.0")
  | .str s => s != ""

/-- `isinstance(x, str)` for the native value. -/
def Scalar.isStr : Scalar → Bool
  | .str _ => true
  | _ => false

/-- The raw attributes of a `ConfigNode` (nodes/node.py `__init__`). `none` = Python `None`. -/
structure Flags where
  prio  : Option Int  := none   -- _priority   (WEAK=-1, STANDARD=0, FORCE=1)
  del   : Option Bool := none   -- _delete
  new   : Option Bool := none   -- _allow_new
  safe  : Option Bool := none   -- _safe
  iDel  : Option Bool := none   -- _implicit_delete
  iNew  : Option Bool := none   -- _implicit_allow_new
  iSafe : Option Bool := none   -- _implicit_safe
  dSafe : Bool := true          -- _default_safe (source-level flag captured at construction)
  md  : List (String × Scalar) := []   -- _metadata (user metadata, insertion ordered)
  src   : Option String := none -- _source_file
  deriving DecidableEq, Repr, Inhabited

/-- Leaf node classes. `scalar` is `ConfigScalar(T)`; the others are the tag classes. -/
inductive LeafKind where
  | scalar (v : Scalar)
  | xref (p : String)          -- XRefNode   (str subclass)
  | prev (p : String)          -- PrevNode   (str subclass)
  | eval (code : String)       -- EvalNode   (str subclass)
  | fstr (s : String)          -- FStrNode   (str subclass)
  | imp (name : String)        -- ImportNode (str subclass)
  | required                   -- RequiredNode
  | clear                      -- ClearNode
  | incl (files : List String)  -- IncludeNode
  deriving DecidableEq, Repr, Inhabited

/-- Composed node classes: the `ConfigDict` family and the `ConfigList` family. -/
inductive CompKind where
  | dict
  | call (f : String)          -- CallNode(FunctionNode(ConfigDict))
  | bind (f : String)          -- BindNode(FunctionNode(ConfigDict))
  | list
  | append                     -- AppendNode(ConfigList)
  | extend                     -- ExtendNode(ConfigList)
  | path (ref : String)        -- PathNode(ConfigList)
  | stream                     -- StreamNode(ConfigList)
  deriving DecidableEq, Repr, Inhabited

/-- A config node tree. `cs` mirrors `_children` (for the list family the keys are `int 0 … n-1`). -/
inductive Node where
  | leaf (f : Flags) (k : LeafKind)
  | comp (f : Flags) (k : CompKind) (cs : List (Key × Node))
  deriving Repr, Inhabited

/-- Error classes of awesomeyaml/errors.py (plus the plain exceptions that escape unwrapped). -/
inductive Err where
  | parsing
  | preprocess (missing : List String)
  | premerge
  | merge
  | notnew (p : Path)          -- MergeError raised by `_require_all_new`, naming the path
  | eval
  | recursion                  -- unbounded recursion in the evaluator (RecursionError → EvalError)
  | unsafeE                    -- EvalError whose chain contains UnsafeError
  | required (ps : List Path)  -- ValueError of Config.check_missing
  | value                      -- plain ValueError (e.g. 'Not all stages are dictionaries')
  | unsupported                -- input outside the modelled domain (never compared)
  deriving DecidableEq, Repr, Inhabited

/-! ### Kind predicates (the `isinstance` tests used by the merge code) -/

def CompKind.isDictFam : CompKind → Bool
  | .dict | .call _ | .bind _ => true
  | _ => false

def CompKind.isListFam (k : CompKind) : Bool := !k.isDictFam

def CompKind.isFunc : CompKind → Bool
  | .call _ | .bind _ => true
  | _ => false

/-- `cls._is_plain_composed()` -/
def CompKind.isPlain : CompKind → Bool
  | .dict | .list => true
  | _ => false

/-- `type(a) is type(b)` for composed classes. -/
def CompKind.sameClass : CompKind → CompKind → Bool
  | .dict, .dict | .call _, .call _ | .bind _, .bind _ | .list, .list
  | .append, .append | .extend, .extend | .path _, .path _ | .stream, .stream => true
  | _, _ => false

/-- `issubclass(type(a), type(b))` for *different* composed classes. -/
def CompKind.strictSub (a b : CompKind) : Bool :=
  match a, b with
  | .call _, .dict | .bind _, .dict => true
  | .append, .list | .extend, .list | .path _, .list | .stream, .list => true
  | _, _ => false

/-- `_func` of a function node. -/
def CompKind.func? : CompKind → Option String
  | .call f | .bind f => some f
  | _ => none

def CompKind.setFunc (k : CompKind) (g : String) : CompKind :=
  match k with
  | .call _ => .call g
  | .bind _ => .bind g
  | k => k

/-- `isinstance(leaf, str)` -/
def LeafKind.isStr : LeafKind → Bool
  | .scalar v => v.isStr
  | .xref _ | .prev _ | .eval _ | .fstr _ | .imp _ => true
  | _ => false

/-- `str(leaf)` for str-like leaves. -/
def LeafKind.strVal : LeafKind → String
  | .scalar (.str s) => s
  | .xref s | .prev s | .eval s | .fstr s | .imp s => s
  | _ => ""

/-- `bool(leaf)` -/
def LeafKind.truthy : LeafKind → Bool
  | .scalar v => v.truthy
  | .xref s | .prev s | .eval s | .fstr s | .imp s => s != ""
  | .required | .clear | .incl _ => true

namespace Node

def flags : Node → Flags
  | .leaf f _ => f
  | .comp f _ _ => f

def setFlags : Node → Flags → Node
  | .leaf _ k, f => .leaf f k
  | .comp _ k cs, f => .comp f k cs

def isComp : Node → Bool
  | .comp .. => true
  | .leaf .. => false

def children : Node → List (Key × Node)
  | .comp _ _ cs => cs
  | .leaf .. => []

/-- `bool(node)`: containers are truthy when non-empty; a function node is `bool(self._func)`, i.e. truthy unless
    its target name is the empty string (which a merge with an empty string can produce). -/
def truthy : Node → Bool
  | .leaf _ k => k.truthy
  | .comp _ k cs =>
    match k.func? with
    | some f => f != ""
    | none => !cs.isEmpty

/-- `isinstance(node, dict)` -/
def isDict : Node → Bool
  | .comp _ k _ => k.isDictFam
  | _ => false

end Node

/-! ### Association lists with Python `dict` insertion-order semantics -/

/-- `d.get(k)` -/
def alookup {α : Type} (k : Key) : List (Key × α) → Option α
  | [] => none
  | (k', v) :: rest => if k' = k then some v else alookup k rest

/-- `d[k] = v` (keeps the position of an existing key, appends a new one). -/
def aset {α : Type} (k : Key) (v : α) : List (Key × α) → List (Key × α)
  | [] => [(k, v)]
  | (k', v') :: rest => if k' = k then (k, v) :: rest else (k', v') :: aset k v rest

/-- `del d[k]` / `d.pop(k, None)` -/
def aerase {α : Type} (k : Key) : List (Key × α) → List (Key × α)
  | [] => []
  | (k', v') :: rest => if k' = k then rest else (k', v') :: aerase k rest

def ahas {α : Type} (k : Key) (l : List (Key × α)) : Bool := (alookup k l).isSome

/-- `{**a, **b}` on string-keyed metadata. -/
def msetOne (k : String) (v : Scalar) : List (String × Scalar) → List (String × Scalar)
  | [] => [(k, v)]
  | (k', v') :: rest => if k' = k then (k, v) :: rest else (k', v') :: msetOne k v rest

def mmerge (a b : List (String × Scalar)) : List (String × Scalar) :=
  b.foldl (fun acc kv => msetOne kv.1 kv.2 acc) a

/-- Renumber list children `0 … n-1`. -/
def renumFrom {α : Type} : Nat → List α → List (Key × α)
  | _, [] => []
  | i, x :: xs => (Key.int i, x) :: renumFrom (i + 1) xs

def renum {α : Type} (xs : List α) : List (Key × α) := renumFrom 0 xs

end AY
