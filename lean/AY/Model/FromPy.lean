/-
  AY.Model.FromPy — the PROGRAMMATIC construction path: `ConfigNode(data, **kwargs)` for plain Python
  data (what users of the Python API write, what `Config(dict)` does through `ConfigDict(dict)`, and
  what `set_child` does with a value that is not a node yet).

  Python (nodes/node.py, nodes/composed.py, nodes/dict.py, nodes/list.py, nodes/scalar.py), step by step:

    ConfigNodeMeta.__call__(ConfigNode, value, **kwargs)          type deduction on the first argument:
        MutableSequence → ConfigList, MutableMapping → ConfigDict, (other Sequence → ConfigTuple,)
        anything else → ConfigScalar(type(value));  then `t(value, _force_type=True, **kwargs)`
    ConfigNode.__init__(idx, priority, delete, allow_new, safe, metadata, source_file,
                        implicit_delete, implicit_allow_new, implicit_safe, pyyaml_node)
        every keyword is stored as it is (`_priority`, `_delete`, …); `metadata or {}`;
        `_source_file = source_file if source_file is not None else <thread-local default file name>`;
        `_default_safe = <thread-local default safe flag>` (False in a thread that never parsed anything);
        a priority outside {None, WEAK, STANDARD, FORCE} is a ValueError before any node exists
    ComposedNode.__init__(children, **kwargs)
        super().__init__(**kwargs); then `idx metadata delete allow_new safe` are POPPED from the kwargs —
        what is left (`priority`, `source_file`, `pyyaml_node` and the three `implicit_*`) is handed to every
        child, after `kwargs.update(self._get_child_kwargs())` has replaced the three `implicit_*` by what
        THIS node prescribes (`childKw`); `_children = {name: ConfigNode(child, **kwargs) for …}`
    ConfigList.__init__: `children = {i: v for i, v in enumerate(value)}` (integer keys 0 … n-1)
    ConfigDict.__init__: `children = value` (the keys of the dict, in insertion order)

  So a child built from plain data is born with the inherited flags its parent prescribes (nothing is
  propagated afterwards), with the parent's `priority` and `source_file` keywords, and WITHOUT the
  parent's `delete / allow_new / safe / metadata`.

  Domain (stated, not modelled):
    * the input is a TREE OF DISTINCT OBJECTS.  The constructors give one node to one Python object
      (`nodes_memo`, by design): a list that holds the same mutable object twice, or — CPython — two
      equal small ints / interned strings, yields ONE node stored at two positions, whose inherited flags
      are those of the parent that adopted it last.  Sharing is object identity and outside the value model.
    * mapping keys are pairwise distinct (`pyKeysDistinct`; a Python dict guarantees it) and are
      `int`/`str`/`float` values (keys that compare equal across types, `1 == 1.0 == True`, are one key
      in Python and excluded).
    * tuples (`ConfigTuple`, "TODO: finish implementation" in the library) have no node kind in the model.
    * values that already are nodes (`ConfigNode(existing_node, …)`) are `inheritInto` of Model/Flags.lean.
    * `idx` and `pyyaml_node` are stored but are not part of `Flags`.
-/
import AY.Model.Flags
import AY.Model.Construct
import AY.Spec.Plain
namespace AY

/-- The keyword arguments `ConfigNode.__init__` accepts (without `idx` / `pyyaml_node`); `none` = keyword
    absent or `None`. -/
structure PyKw where
  prio  : Option Int  := none                 -- priority
  del   : Option Bool := none                 -- delete
  new   : Option Bool := none                 -- allow_new
  safe  : Option Bool := none                 -- safe
  md    : List (String × Scalar) := []        -- metadata
  src   : Option String := none               -- source_file
  iDel  : Option Bool := none                 -- implicit_delete
  iNew  : Option Bool := none                 -- implicit_allow_new
  iSafe : Option Bool := none                 -- implicit_safe
  deriving DecidableEq, Repr, Inhabited

/-- `priority not in [None, STANDARD, WEAK, FORCE]` raises ValueError (checked by the root's `__init__`
    first; the children receive the same value). -/
def pyKwValid (kw : PyKw) : Bool :=
  match kw.prio with
  | none => true
  | some p => p == Tables.standard || p == Tables.weak || p == Tables.force

/-- `ConfigNode.__init__`: the attributes of the new node. `env` are the two thread-local defaults
    (`ConfigNode._default_filename`, `ConfigNode._default_safe`) at the time of the call. -/
def pyFlags (env : Env) (kw : PyKw) : Flags :=
  { prio := kw.prio, del := kw.del, new := kw.new, safe := kw.safe,
    iDel := kw.iDel, iNew := kw.iNew, iSafe := kw.iSafe,
    dSafe := env.dSafe, md := kw.md, src := kw.src.or env.src }

/-- The keyword arguments `ComposedNode.__init__` passes on to `ConfigNode(child, **kwargs)`:
    `priority` and `source_file` survive the pops, `delete allow_new safe metadata` do not, and the
    three `implicit_*` are overwritten by `self._get_child_kwargs()` (when that is empty — a stream —
    the ones the node itself received stay in `kwargs`). -/
def pyChildKw (kw : PyKw) (f : Flags) (k : CompKind) : PyKw :=
  match childKw f k with
  | some c => { prio := kw.prio, src := kw.src, iDel := c.iDel, iNew := c.iNew, iSafe := c.iSafe }
  | none => { prio := kw.prio, src := kw.src, iDel := kw.iDel, iNew := kw.iNew, iSafe := kw.iSafe }

mutual
/-- `ConfigNode(data, **kw)` for plain data: type deduction, `__init__` of the deduced class, children
    built recursively with the inherited keywords. -/
def fromPy (env : Env) (kw : PyKw) : Plain → Node
  | .scalar v => .leaf (pyFlags env kw) (.scalar v)
  | .list xs =>
    .comp (pyFlags env kw) .list (fromPyList env (pyChildKw kw (pyFlags env kw) .list) 0 xs)
  | .dict xs =>
    .comp (pyFlags env kw) .dict (fromPyMap env (pyChildKw kw (pyFlags env kw) .dict) xs)
/-- `{i: ConfigNode(v, **kwargs) for i, v in enumerate(value)}` -/
def fromPyList (env : Env) (kw : PyKw) : Nat → List Plain → List (Key × Node)
  | _, [] => []
  | i, x :: rest => (Key.int i, fromPy env kw x) :: fromPyList env kw (i + 1) rest
/-- `{name: ConfigNode(child, **kwargs) for name, child in value.items()}` -/
def fromPyMap (env : Env) (kw : PyKw) : List (Key × Plain) → List (Key × Node)
  | [] => []
  | (k, x) :: rest => (k, fromPy env kw x) :: fromPyMap env kw rest
end

/-- `ConfigNode(data, **kw)` with the one error the constructors raise on plain data. -/
def fromPyE (env : Env) (kw : PyKw) (d : Plain) : Except Err Node :=
  if pyKwValid kw then .ok (fromPy env kw d) else .error .value

mutual
/-- the tag-free YAML document that denotes the data (what `yaml.dump` of the plain data would be parsed back to) -/
def rawOfPlain : Plain → Raw
  | .scalar v => .scalar .none {} (.lit v)
  | .list xs => .seq .none {} (rawOfPlainL xs)
  | .dict xs => .map .none {} (rawOfPlainM xs)
def rawOfPlainL : List Plain → List Raw
  | [] => []
  | x :: rest => rawOfPlain x :: rawOfPlainL rest
def rawOfPlainM : List (Key × Plain) → List (Key × Raw)
  | [] => []
  | (k, x) :: rest => (k, rawOfPlain x) :: rawOfPlainM rest
end

/-! ### the domain: a Python dict has pairwise distinct keys -/

def pyKeyFresh (k : Key) : List (Key × Plain) → Bool
  | [] => true
  | (k', _) :: rest => k' != k && pyKeyFresh k rest

def pyKeysNodup : List (Key × Plain) → Bool
  | [] => true
  | (k, _) :: rest => pyKeyFresh k rest && pyKeysNodup rest

mutual
/-- every mapping of the input, at every depth, has pairwise distinct keys -/
def pyKeysDistinct : Plain → Bool
  | .scalar _ => true
  | .list xs => pyKeysDistinctL xs
  | .dict xs => pyKeysNodup xs && pyKeysDistinctM xs
def pyKeysDistinctL : List Plain → Bool
  | [] => true
  | x :: rest => pyKeysDistinct x && pyKeysDistinctL rest
def pyKeysDistinctM : List (Key × Plain) → Bool
  | [] => true
  | (_, x) :: rest => pyKeysDistinct x && pyKeysDistinctM rest
end

end AY
