/-
  AY.Model.Container — state-machine model of the two container classes (C17).

  A `ConfigDict` / `ConfigList` object is at once a Python `dict` / `list` (the *storage view*,
  reached through `dict.__setitem__`, `list.append`, …) and a `ComposedNode` whose `_children`
  dict (the *child view*) is what the tree walk, `get_node`, merging and evaluation use.  The
  model keeps the two views as two separate values and every mutator updates them separately,
  statement by statement, as the Python method does (nodes/dict.py, nodes/list.py,
  nodes/composed.py, post-fix tree).  That the two stay equal is the theorem (Props/C17.lean),
  not an assumption of the model.

    Entry            an object stored in a view: identity `id`, `==`-class `eqc`, and whether it
                     is a `ConfigNode` (`node`)
    toNode           `ConfigNode(value, **kwargs)`: an existing node is returned as it is, anything
                     else becomes a node
    validateIdx      `ConfigList._validate_index`, with the exception class
    listSet …        `ConfigList._set/_get/_del/append/extend/insert/remove/pop/clear`
    dictSet …        `ConfigDict._set/_del/rename_child/setdefault/pop/update/clear`
    step             one public operation on a container; returns the state left behind and the
                     outcome (returned node or exception class)
    nodesWithPaths   `ComposedNode.ayns.nodes_with_paths()` on the tree type `Node`
-/
import AY.Model.Data
import AY.Model.Flags
import AY.Model.NodePath
namespace AY
namespace Container

/-- An object held by a container view. -/
structure Entry where
  id : Nat         -- object identity
  eqc : Nat        -- class of the value under Python `==` (used by `list.index`)
  node : Bool      -- `isinstance(x, ConfigNode)`
  deriving DecidableEq, Repr, Inhabited

/-- `ConfigNode(value, **self._get_child_kwargs())` as far as identity is concerned. -/
def toNode (e : Entry) : Entry := { e with node := true }

/-- Exception classes that escape from the container API. -/
inductive Exc where
  | indexError | keyError | typeError | valueError | attributeError
  deriving DecidableEq, Repr, Inhabited

/-- Result of one operation: the returned node (if the call returns one) or the exception class. -/
inductive Outcome where
  | ok (ret : Option Entry)
  | exc (x : Exc)
  deriving DecidableEq, Repr, Inhabited

/-- The two views of a `ConfigList`. -/
structure LSt where
  items : List Entry            -- the Python list
  ch : List (Key × Entry)       -- `_children`, insertion ordered
  deriving DecidableEq, Repr, Inhabited

/-- The two views of a `ConfigDict`. -/
structure DSt where
  items : List (Key × Entry)    -- the Python dict
  ch : List (Key × Entry)       -- `_children`
  deriving DecidableEq, Repr, Inhabited

/-- A container object: its two views and the plain instance attributes set through
    `__setattr__` (underscore names on a dict, any name on a list). -/
inductive CState where
  | dict (d : DSt) (attrs : List String)
  | list (l : LSt) (attrs : List String)
  deriving DecidableEq, Repr, Inhabited

/-! ### `ConfigList` -/

/-- `ConfigList._validate_index(index, strict)`. -/
def validateIdx (len : Nat) (strict : Bool) : Key → Except Exc Nat
  | .int i =>
    if (i.natAbs > len || i = (len : Int)) && strict then .error .indexError
    else
      let j : Int := if i < 0 then (len : Int) + i else i
      .ok (min len j.toNat)
  | _ => .error .typeError

/-- `list.__setitem__(self, i, v)` for a non-negative index; `none` ⇔ IndexError. -/
def pySetItem (xs : List Entry) (i : Nat) (v : Entry) : Option (List Entry) :=
  if i < xs.length then some (xs.set i v) else none

/-- `ConfigList._set(index, value, strict)`. -/
def listSet (strict : Bool) (k : Key) (v : Entry) (s : LSt) : LSt × Outcome :=
  match validateIdx s.items.length strict k with
  | .error x => (s, .exc x)
  | .ok i =>
    let n := toNode v
    let ch1 := aset (.int i) n s.ch                         -- ComposedNode.ayns.set_child
    if i = s.items.length then
      ({ items := s.items ++ [n], ch := ch1 }, .ok none)     -- list.append
    else
      match pySetItem s.items i n with                       -- list.__setitem__
      | some items' => ({ items := items', ch := ch1 }, .ok none)
      | none => ({ items := s.items, ch := aerase (.int i) ch1 }, .exc .indexError)   -- except: remove_child; raise

/-- `ConfigList._get(index)` = `self[index]`. -/
def listGet (k : Key) (s : LSt) : Except Exc Entry :=
  match validateIdx s.items.length true k with
  | .error x => .error x
  | .ok i =>
    match s.items[i]? with
    | some e => .ok e
    | none => .error .indexError

/-- Body of the loop in `_del`: `self[j-1] = self[j]`. -/
def shiftStep (j : Nat) (s : LSt) : LSt × Outcome :=
  match listGet (.int j) s with
  | .error x => (s, .exc x)
  | .ok e => listSet true (.int ((j : Int) - 1)) e s

/-- `for j in range(index+1, len(self)): self[j-1] = self[j]` (the range is computed once). -/
def shiftLoop : List Nat → LSt → LSt × Outcome
  | [], s => (s, .ok none)
  | j :: js, s =>
    match shiftStep j s with
    | (s1, .ok _) => shiftLoop js s1
    | (s1, .exc x) => (s1, .exc x)

/-- `ConfigList._del(index)`: shift down, then drop the last child and the last list slot.
    The value returned is the element removed. -/
def listDel (k : Key) (s : LSt) : LSt × Outcome :=
  match validateIdx s.items.length true k with
  | .error x => (s, .exc x)
  | .ok i =>
    match shiftLoop (List.range' (i + 1) (s.items.length - (i + 1))) s with
    | (s1, .exc x) => (s1, .exc x)
    | (s1, .ok _) =>
      let last : Key := .int ((s1.items.length : Int) - 1)
      let ret := s.items[i]?                                 -- `ret = list.__getitem__(self, index)` taken before the shift
      let ch2 := aerase last s1.ch                           -- ComposedNode.ayns.remove_child
      match s1.items with
      | [] => ({ items := [], ch := ch2 }, .exc .indexError) -- list.__delitem__(self, -1) on an empty list
      | _ :: _ => ({ items := s1.items.dropLast, ch := ch2 }, .ok ret)

/-- `ConfigList.append(value)`. -/
def listAppend (v : Entry) (s : LSt) : LSt :=
  let n := toNode v
  { items := s.items ++ [n], ch := aset (.int s.items.length) n s.ch }

/-- `ConfigList.extend(other)`. -/
def listExtend : List Entry → LSt → LSt
  | [], s => s
  | v :: vs, s => listExtend vs (listAppend v s)

/-- Key renaming of the dict comprehension in `insert`: `(idx+1) if idx >= index else idx`.
    It is injective, so the comprehension never merges two entries of a dict. -/
def shiftKey (i : Nat) : Key → Key
  | .int j => if j ≥ (i : Int) then .int (j + 1) else .int j
  | k => k

def shiftEntry (i : Nat) (kv : Key × Entry) : Key × Entry := (shiftKey i kv.1, kv.2)

/-- `{ idx: self._children[idx] for idx in range(s, s+c) }`; `none` ⇔ KeyError. -/
def rebuildFrom : Nat → Nat → List (Key × Entry) → Option (List (Key × Entry))
  | _, 0, _ => some []
  | s, c + 1, ch =>
    match alookup (.int s) ch with
    | none => none
    | some e =>
      match rebuildFrom (s + 1) c ch with
      | none => none
      | some r => some ((.int s, e) :: r)

/-- `list.insert(self, i, v)` for `0 ≤ i` (an index past the end appends). -/
def insertAt : Nat → Entry → List Entry → List Entry
  | 0, v, xs => v :: xs
  | _ + 1, v, [] => [v]
  | i + 1, v, x :: xs => x :: insertAt i v xs

/-- `ConfigList.insert(index, value)`. -/
def listInsert (k : Key) (v : Entry) (s : LSt) : LSt × Outcome :=
  match validateIdx s.items.length false k with
  | .error x => (s, .exc x)
  | .ok i =>
    let ch1 := s.ch.map (shiftEntry i)
    let n := toNode v
    let ch2 := aset (.int i) n ch1
    let items' := insertAt i n s.items
    match rebuildFrom 0 items'.length ch2 with
    | none => ({ items := items', ch := ch2 }, .exc .keyError)
    | some ch3 => ({ items := items', ch := ch3 }, .ok none)

/-- `list.index(self, value)`: position of the first element that compares equal. -/
def indexOfEq (q : Nat) : List Entry → Option Nat
  | [] => none
  | e :: es =>
    if e.eqc = q then some 0
    else
      match indexOfEq q es with
      | none => none
      | some i => some (i + 1)

/-- `ConfigList.remove(value)`. -/
def listRemove (v : Entry) (s : LSt) : LSt × Outcome :=
  match indexOfEq v.eqc s.items with
  | none => (s, .exc .valueError)
  | some i => listDel (.int i) s

/-- `ConfigList.clear()`. -/
def listClear (_ : LSt) : LSt := { items := [], ch := [] }

/-! ### `ConfigDict` -/

/-- `dir(ConfigDict)` (CPython 3.12); `_set` refuses these names.  The harness compares this list
    with the real one on every run (driver op `c17reserved`). -/
def reservedNames : List String := [
  "FORCE", "STANDARD", "WEAK", "__class__", "__class_getitem__", "__contains__", "__delattr__",
  "__delitem__", "__dict__", "__dir__", "__doc__", "__eq__", "__format__", "__ge__", "__getattr__",
  "__getattribute__", "__getitem__", "__getstate__", "__gt__", "__hash__", "__init__",
  "__init_subclass__", "__ior__", "__iter__", "__le__", "__len__", "__lt__", "__module__", "__ne__",
  "__new__", "__or__", "__reduce__", "__reduce_ex__", "__repr__", "__reversed__", "__ror__",
  "__setattr__", "__setitem__", "__setstate__", "__sizeof__", "__str__", "__subclasshook__",
  "__weakref__", "_default_allow_new", "_default_delete", "_default_filename", "_default_priority",
  "_default_safe", "_del", "_get_child_kwargs", "_get_native_value", "_get_value", "_is_composed",
  "_is_plain_composed", "_maybe_promote", "_propagate_implicit_values", "_recreate",
  "_replace_other", "_replace_self", "_set", "_set_value", "ayns", "clear", "copy",
  "default_filename", "default_safe_flag", "fromkeys", "get", "items", "keys", "pop", "popitem",
  "setdefault", "special_metadata_names", "update", "values"]

/-- `name in dir(type(self))` -/
def isReserved : Key → Bool
  | .str s => reservedNames.contains s
  | _ => false

/-- `ConfigDict._set(name, value)`; returns the node. -/
def dictSet (k : Key) (v : Entry) (d : DSt) : DSt × Outcome :=
  if isReserved k then (d, .exc .valueError)
  else
    let n := toNode v
    let ch1 := aset k n d.ch                                 -- ComposedNode.ayns.set_child
    ({ items := aset k n d.items, ch := ch1 }, .ok (some n)) -- dict.__setitem__

/-- `ConfigDict._del(name)`. -/
def dictDel (k : Key) (d : DSt) : DSt × Outcome :=
  let ret := alookup k d.ch
  let ch1 := aerase k d.ch                                   -- `_children.pop(name, None)`
  if ahas k d.items then
    ({ items := aerase k d.items, ch := ch1 }, .ok ret)      -- dict.__delitem__
  else
    ({ items := d.items, ch := ch1 }, .exc .keyError)

/-- `ConfigDict.ayns.rename_child(old, new)`. -/
def dictRename (old new : Key) (d : DSt) : DSt × Outcome :=
  if !ahas old d.ch then (d, .exc .valueError)
  else if ahas new d.ch then (d, .exc .valueError)
  else
    match alookup old d.ch with
    | none => (d, .exc .keyError)
    | some c =>
      let ch1 := aset new c (aerase old d.ch)
      if ahas old d.items then
        ({ items := aset new c (aerase old d.items), ch := ch1 }, .ok (some c))
      else
        ({ items := d.items, ch := ch1 }, .exc .keyError)    -- dict.__delitem__(self, old)

/-- `ConfigDict.setdefault(key, value)`. -/
def dictSetdefault (k : Key) (v : Entry) (d : DSt) : DSt × Outcome :=
  if !ahas k d.ch then dictSet k v d                          -- `key not in self` is `has_child`
  else
    match alookup k d.items with                             -- `self[key]` is `dict.__getitem__`
    | some e => (d, .ok (some e))
    | none => (d, .exc .keyError)

/-- `ConfigDict.pop(k, *d)`; `dflt` says whether a default was given. -/
def dictPop (k : Key) (dflt : Bool) (d : DSt) : DSt × Outcome :=
  match alookup k d.items with
  | some e =>
    ({ items := aerase k d.items, ch := if ahas k d.ch then aerase k d.ch else d.ch }, .ok (some e))
  | none =>
    if dflt then
      ({ items := d.items, ch := if ahas k d.ch then aerase k d.ch else d.ch }, .ok none)
    else (d, .exc .keyError)

/-- `ConfigDict.update(other, **kwargs)`: `_set` in order, stopping at the first exception. -/
def dictUpdate : List (Key × Entry) → DSt → DSt × Outcome
  | [], d => (d, .ok none)
  | (k, v) :: rest, d =>
    match dictSet k v d with
    | (d1, .ok _) => dictUpdate rest d1
    | (d1, .exc x) => (d1, .exc x)

/-- `ConfigDict.clear()`. -/
def dictClear (_ : DSt) : DSt := { items := [], ch := [] }

/-! ### Operations -/

/-- Public operations of C17, over the type `β` of value arguments. -/
inductive Op (β : Type) where
  | setItem (k : Key) (v : β)            -- `c[k] = v`
  | delItem (k : Key)                    -- `del c[k]`
  | setAttr (name : String) (v : β)      -- `c.name = v`
  | delAttr (name : String)              -- `del c.name`
  | setChild (k : Key) (v : β)           -- `c.ayns.set_child(k, v)`
  | removeChild (k : Key)                -- `c.ayns.remove_child(k)`
  | renameChild (old new : Key)          -- `c.ayns.rename_child(old, new)`
  | clear                                -- `c.clear()`
  | append (v : β)                       -- `l.append(v)`
  | extend (vs : List β)                 -- `l.extend(vs)`
  | insert (k : Key) (v : β)             -- `l.insert(k, v)`
  | remove (v : β)                       -- `l.remove(v)`
  | pop (k : Option Key) (dflt : Bool)   -- `c.pop()`, `c.pop(k)`, `c.pop(k, default)`
  | update (kvs : List (Key × β))        -- `d.update(kvs)`
  | setdefault (k : Key) (v : β)         -- `d.setdefault(k, v)`
  deriving Repr, Inhabited

/-- A value argument: a fresh non-node Python value, or the node currently at a storage position
    (`pos` modulo the length; the fresh value when the container is empty). -/
inductive Val where
  | raw (id eqc : Nat)
  | ref (pos id eqc : Nat)
  deriving DecidableEq, Repr, Inhabited

def resolveIn (storage : List Entry) : Val → Entry
  | .raw id eqc => { id := id, eqc := eqc, node := false }
  | .ref pos id eqc =>
    match storage[pos % storage.length]? with
    | some e => e
    | none => { id := id, eqc := eqc, node := false }

def resolvePair (storage : List Entry) (kv : Key × Val) : Key × Entry := (kv.1, resolveIn storage kv.2)

def Op.resolve (storage : List Entry) : Op Val → Op Entry
  | .setItem k v => .setItem k (resolveIn storage v)
  | .delItem k => .delItem k
  | .setAttr n v => .setAttr n (resolveIn storage v)
  | .delAttr n => .delAttr n
  | .setChild k v => .setChild k (resolveIn storage v)
  | .removeChild k => .removeChild k
  | .renameChild o n => .renameChild o n
  | .clear => .clear
  | .append v => .append (resolveIn storage v)
  | .extend vs => .extend (vs.map (resolveIn storage))
  | .insert k v => .insert k (resolveIn storage v)
  | .remove v => .remove (resolveIn storage v)
  | .pop k d => .pop k d
  | .update kvs => .update (kvs.map (resolvePair storage))
  | .setdefault k v => .setdefault k (resolveIn storage v)

/-- Entries of the storage view in order. -/
def CState.storage : CState → List Entry
  | .dict d _ => d.items.map (·.2)
  | .list l _ => l.items

/-- The builtin storage as (key, object) pairs: `dict.items(d)` / `enumerate(list.__iter__(l))`. -/
def CState.storageKV : CState → List (Key × Entry)
  | .dict d _ => d.items
  | .list l _ => renum l.items

/-- The child view as (key, object) pairs: `c.ayns.named_children()`. -/
def CState.childKV : CState → List (Key × Entry)
  | .dict d _ => d.ch
  | .list l _ => l.ch

/-- `name.startswith('_')` -/
def isPrivate (name : String) : Bool := name.toList.head? = some '_'

def eraseStr (a : String) : List String → List String
  | [] => []
  | b :: bs => if b = a then bs else b :: eraseStr a bs

/-- `object.__delattr__` on a plain instance attribute. -/
def delPlainAttr (name : String) (attrs : List String) : List String × Outcome :=
  if attrs.contains name then (eraseStr name attrs, .ok none) else (attrs, .exc .attributeError)

def setPlainAttr (name : String) (attrs : List String) : List String :=
  if attrs.contains name then attrs else attrs ++ [name]

def dictWith (attrs : List String) (r : DSt × Outcome) : CState × Outcome := (.dict r.1 attrs, r.2)
def listWith (attrs : List String) (r : LSt × Outcome) : CState × Outcome := (.list r.1 attrs, r.2)

/-- Outcome of calls whose Python method returns `None`. -/
def dropRet : Outcome → Outcome
  | .ok _ => .ok none
  | o => o

/-- One operation on a `ConfigDict`. -/
def stepDict (d : DSt) (attrs : List String) : Op Entry → CState × Outcome
  | .setItem k v => let r := dictSet k v d; (.dict r.1 attrs, dropRet r.2)
  | .delItem k => let r := dictDel k d; (.dict r.1 attrs, dropRet r.2)
  | .setAttr name v =>
    if isPrivate name then (.dict d (setPlainAttr name attrs), .ok none)     -- ComposedNode.__setattr__
    else let r := dictSet (.str name) v d; (.dict r.1 attrs, dropRet r.2)
  | .delAttr name =>
    if isPrivate name then let r := delPlainAttr name attrs; (.dict d r.1, r.2)
    else let r := dictDel (.str name) d; (.dict r.1 attrs, dropRet r.2)
  | .setChild k v => let r := dictSet k v d; (.dict r.1 attrs, dropRet r.2)
  | .removeChild k => dictWith attrs (dictDel k d)
  | .renameChild o n => dictWith attrs (dictRename o n d)
  | .clear => (.dict (dictClear d) attrs, .ok none)
  | .pop (some k) dflt => dictWith attrs (dictPop k dflt d)
  | .pop none _ => (.dict d attrs, .exc .typeError)                           -- missing positional argument
  | .update kvs => dictWith attrs (dictUpdate kvs d)
  | .setdefault k v => dictWith attrs (dictSetdefault k v d)
  | .append _ | .extend _ | .insert _ _ | .remove _ => (.dict d attrs, .exc .attributeError)  -- `__getattr__` raises

/-- One operation on a `ConfigList`. -/
def stepList (l : LSt) (attrs : List String) : Op Entry → CState × Outcome
  | .setItem k v => listWith attrs (listSet true k v l)
  | .delItem k => let r := listDel k l; (.list r.1 attrs, dropRet r.2)
  | .setAttr name _ => (.list l (setPlainAttr name attrs), .ok none)          -- plain instance attribute
  | .delAttr name => let r := delPlainAttr name attrs; (.list l r.1, r.2)
  | .setChild k v => listWith attrs (listSet false k v l)
  | .removeChild k => listWith attrs (listDel k l)
  | .renameChild _ _ => (.list l attrs, .exc .typeError)
  | .clear => (.list (listClear l) attrs, .ok none)
  | .append v => (.list (listAppend v l) attrs, .ok none)
  | .extend vs => (.list (listExtend vs l) attrs, .ok none)
  | .insert k v => listWith attrs (listInsert k v l)
  | .remove v => let r := listRemove v l; (.list r.1 attrs, dropRet r.2)
  | .pop none false => listWith attrs (listDel (.int (-1)) l)
  | .pop (some k) false => listWith attrs (listDel k l)
  | .pop _ true => (.list l attrs, .exc .typeError)                           -- too many positional arguments
  | .update _ | .setdefault _ _ => (.list l attrs, .exc .attributeError)

/-- One operation whose value arguments are already objects. -/
def stepE : CState → Op Entry → CState × Outcome
  | .dict d attrs, op => stepDict d attrs op
  | .list l attrs, op => stepList l attrs op

/-- One public operation: the argument values are evaluated against the state before the call. -/
def step (s : CState) (op : Op Val) : CState × Outcome := stepE s (op.resolve s.storage)

/-- Run a sequence of operations (exceptions are caught by the caller, the object lives on). -/
def run : CState → List (Op Val) → CState
  | s, [] => s
  | s, op :: ops => run (step s op).1 ops

/-- The states after every operation together with the outcomes (what the driver reports). -/
def trace : CState → List (Op Val) → List (CState × Outcome)
  | _, [] => []
  | s, op :: ops => let r := step s op; r :: trace r.1 ops

/-! ### Construction -/

def nodeValues : List Entry → List Entry
  | [] => []
  | v :: vs => toNode v :: nodeValues vs

/-- `{ name: ConfigNode(child, …) for name, child in children.items() }` of `ComposedNode.__init__`
    (the argument is a Python dict, or the `enumerate` of a list: its keys are distinct). -/
def nodePairs : List (Key × Entry) → List (Key × Entry)
  | [] => []
  | (k, v) :: rest => (k, toNode v) :: nodePairs rest

/-- `ConfigList(values)`: `_children = {i: node_i}`, then `list.__init__(self, _children.values())`. -/
def initList (values : List Entry) : CState :=
  let ch := renum (nodeValues values)
  .list { items := ch.map (·.2), ch := ch } []

/-- `d[k] = v` for each pair: how a Python dict is built from a sequence of pairs. -/
def dictOfPairs : List (Key × Entry) → List (Key × Entry) → List (Key × Entry)
  | acc, [] => acc
  | acc, (k, v) :: rest => dictOfPairs (aset k v acc) rest

/-- `ConfigDict(value)` where `value` is the dict built from `pairs`:
    `_children = {k: node}`, then `dict.__init__(self, _children)`. -/
def initDict (pairs : List (Key × Entry)) : CState :=
  let ch := nodePairs (dictOfPairs [] pairs)
  .dict { items := ch, ch := ch } []

/-! ### The invariant (decidable) -/

def allNodes : List Entry → Bool
  | [] => true
  | e :: es => e.node && allNodes es

def allNodesKV : List (Key × Entry) → Bool
  | [] => true
  | kv :: rest => kv.2.node && allNodesKV rest

/-- No key occurs twice (a Python dict). -/
def nodupKeys {α : Type} : List (Key × α) → Bool
  | [] => true
  | (k, _) :: rest => !ahas k rest && nodupKeys rest

/-- `ConfigList`: the child view is exactly the list numbered `0 … n-1`; every entry is a node. -/
def linv (l : LSt) : Bool := decide (l.ch = renum l.items) && allNodes l.items

/-- `ConfigDict`: the child view is exactly the dict items, in order; every entry is a node
    (and the keys are distinct, as in any dict). -/
def dinv (d : DSt) : Bool := decide (d.ch = d.items) && nodupKeys d.items && allNodesKV d.items

def inv : CState → Bool
  | .dict d _ => dinv d
  | .list l _ => linv l

/-- The consistency invariant of C17, spelled out:
    * dict: the child view and the builtin dict hold the same (key, object) pairs in the same
      order, no key occurs twice, every object is a node;
    * list: the child view is the builtin list numbered `0 … n-1` in order, every object is a node.
    `Inv s ↔ inv s = true` is `Inv_iff_inv` (Lemmas/C17Lemmas.lean). -/
def Inv : CState → Prop
  | .dict d _ => d.ch = d.items ∧ nodupKeys d.items = true ∧ ∀ kv ∈ d.items, kv.2.node = true
  | .list l _ => l.ch = renum l.items ∧ ∀ e ∈ l.items, e.node = true

/-- Path components that `join_path` writes unambiguously: names `[A-Za-z0-9_]+`, any integer. -/
def validKey : Key → Bool
  | .int _ => true
  | .str s => !s.toList.isEmpty && s.toList.all isIdentChar
  | .float _ => false

def ValidComponents (p : Path) : Prop := ∀ k ∈ p, validKey k = true

/-! ### The tree walk on `Node` -/

mutual
/-- `node.ayns.nodes_with_paths(prefix=pre, include_self=False)`: depth first, a child before its
    own children. -/
def walk (pre : Path) : Node → List (Path × Node)
  | .leaf .. => []
  | .comp _ _ cs => walkL pre cs
/-- The loop `for name, child in self._children.items()` of `nodes_with_paths`. -/
def walkL (pre : Path) : List (Key × Node) → List (Path × Node)
  | [] => []
  | (k, c) :: rest => ((pre ++ [k], c) :: walk (pre ++ [k]) c) ++ walkL pre rest
end

def nodesWithPaths (n : Node) : List (Path × Node) := walk [] n

mutual
/-- Sibling keys are pairwise distinct everywhere in the tree (every `_children` is a dict). -/
def distinctKeys : Node → Bool
  | .leaf .. => true
  | .comp _ _ cs => nodupKeys cs && distinctKeysL cs
def distinctKeysL : List (Key × Node) → Bool
  | [] => true
  | (_, c) :: rest => distinctKeys c && distinctKeysL rest
end

end Container
end AY
