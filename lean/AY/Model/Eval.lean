/-
  AY.Model.Eval — the evaluator (eval_context.py `EvalContext.evaluate_node/get_node`,
  `PartialChild.__getitem__`, `require_all_safe`; on_evaluate_impl of ConfigDict, ConfigList,
  ConfigScalar, XRefNode, CallNode, BindNode, EvalNode (restricted form), FStrNode (restricted),
  ImportNode, PathNode, RequiredNode; config.py `Config.check_missing`).

  Node identity is the node's path (the tree has no aliasing), so the two memo tables of the code
  (by path string and by `id`) are one table keyed by path. Callables, symbols and modules are
  free symbols described by `World`.
-/
import AY.Model.Build
import AY.Model.Func
namespace AY

mutual
def Node.size : Node → Nat
  | .leaf .. => 1
  | .comp _ _ cs => sizeList cs + 1
def sizeList : List (Key × Node) → Nat
  | [] => 0
  | (_, c) :: rest => c.size + sizeList rest
end

/-- what the evaluation context can see besides the config -/
structure World where
  sigs : List (String × Sig) := []        -- importable callables and their signatures
  modules : List String := []             -- names `!import` can resolve
  syms : List String := []                -- eval symbols of the context
  builtins : List String := []            -- builtin names used by restricted !eval code
  cwd : String := "/"
  deriving Repr, Inhabited

/-- one execution of a dynamic node -/
structure LogEntry where
  path : Path
  what : String                            -- "call:f" / "bind:f" / "eval" / "import:m"
  deriving Repr, Inhabited

structure EvSt where
  cache : List (Path × Val) := []
  tainted : List Path := []
  unsafeSeen : Nat := 0
  inProgress : List Path := []
  touched : List Key := []                 -- top-level names holding a PartialChild placeholder
  log : List LogEntry := []
  deriving Repr, Inhabited

def plookup (p : Path) : List (Path × Val) → Option Val
  | [] => none
  | (q, v) :: rest => if q = p then some v else plookup p rest

abbrev EvR (α : Type) := Except Err (α × EvSt)
/-- the recursive evaluator: `(require_all_safe, node, path, state)` -/
abbrev Rec := Bool → Node → Path → EvSt → EvR Val

def lookupSig (w : World) (f : String) : Option Sig :=
  match w.sigs.find? (fun e => e.1 = f) with
  | some e => some e.2
  | none => none

/-- children of a mapping node, in order -/
def evalItems (rec : Rec) (rs : Bool) (path : Path) :
    List (Key × Node) → EvSt → EvR (List (Key × Val))
  | [], st => .ok ([], st)
  | (k, c) :: rest, st =>
    match rec rs c (path ++ [k]) st with
    | .error e => .error e
    | .ok (v, st1) =>
      match evalItems rec rs path rest st1 with
      | .error e => .error e
      | .ok (vs, st2) => .ok ((k, v) :: vs, st2)

/-- `ctx.get_node(path)` as used by XRefNode: the cached *value* if the path was evaluated
    (refused when tainted and safety is required), else the node -/
inductive Got where
  | value (v : Val)
  | node (n : Node)

def ctxGetNode (root : Node) (rs : Bool) (p : Path) (st : EvSt) : Except Err (Got × EvSt) :=
  match plookup p st.cache with
  | some v =>
    if st.tainted.contains p then
      if rs then .error .unsafeE
      else .ok (.value v, { st with unsafeSeen := st.unsafeSeen + 1 })   -- the consumer has now seen unsafe content
    else .ok (.value v, st)
  | none =>
    match getNode root p with
    | none => .error .eval
    | some n => .ok (.node n, st)

/-- XRefNode.on_evaluate_impl: follow the chain of references -/
def xrefLoop (rec : Rec) (root : Node) (rs : Bool) (self : Path) :
    Nat → String → List String → EvSt → EvR Val
  | 0, _, _, _ => .error .eval
  | fuel + 1, cur, chain, st =>
    match splitPath cur with
    | none => .error .eval
    | some tp =>
      match ctxGetNode root rs tp st with
      | .error e => .error e
      | .ok (.value v, st1) =>
        if chain.contains cur then .error .eval else .ok (v, st1)
      | .ok (.node n, st1) =>
        if chain.contains cur || tp = self then .error .eval
        else
          match n with
          | .leaf f (.xref next) =>
            -- an intermediate reference is followed without being evaluated; an unsafe one still counts
            if !eSafe f then
              if rs then .error .unsafeE
              else xrefLoop rec root rs self fuel next (chain ++ [cur]) { st1 with unsafeSeen := st1.unsafeSeen + 1 }
            else xrefLoop rec root rs self fuel next (chain ++ [cur]) st1
          | _ => rec rs n tp st1

def scalarStr : Scalar → String
  | .null => "None"
  | .bool true => "True"
  | .bool false => "False"
  | .int i => toString i
  | .float r => r
  | .str s => s

/-- parse the restricted `!eval` form `T(n1, n2, …)` (a recording symbol applied to names) -/
def parseNames (code : String) : Option (List String) :=
  let t := code.trimAscii.toString
  if t.startsWith "T(" && t.endsWith ")" then
    let s := ((t.drop 2).dropEnd 1).toString
    let parts := (s.splitOn ",").map (fun x => x.trimAscii.toString)
    let parts := parts.filter (· != "")
    if parts.all (fun x => x.toList.all isIdentChar && !(x.toList.head?.map Char.isDigit).getD true)
    then some parts else none
  else none

/-- `ecfg[name]` under `require_all_safe` (EvalGlobals.__missing__ → PartialChild.__getitem__) -/
def ecfgLookup (rec : Rec) (root : Node) (name : String) (st : EvSt) : EvR Val :=
  let p : Path := [Key.str name]
  match plookup p st.cache with
  | some v => if st.tainted.contains p then .error .unsafeE else .ok (v, st)
  | none =>
    if st.touched.contains (Key.str name) && st.inProgress.contains p then .error .unsupported
    else
      match getNode root p with
      | none => .error .eval
      | some n => rec true n p st

/-- resolve the names of restricted eval code: symbol, then config entry, then builtin -/
def resolveNames (rec : Rec) (root : Node) (w : World) :
    List String → EvSt → EvR (List Val)
  | [], st => .ok ([], st)
  | nm :: rest, st =>
    let r : EvR Val :=
      if w.syms.contains nm then .ok (.sym nm, st)
      else if (getNode root [Key.str nm]).isSome then ecfgLookup rec root nm st
      else if w.builtins.contains nm then .ok (.sym nm, st)
      else .error .eval
    match r with
    | .error e => .error e
    | .ok (v, st1) =>
      match resolveNames rec root w rest st1 with
      | .error e => .error e
      | .ok (vs, st2) => .ok (v :: vs, st2)

/-! ### paths (PathNode) -/

def splitSlash (s : String) : List String := s.splitOn "/"

/-- `os.path.normpath` (POSIX) -/
def normpath (s : String) : String :=
  if s = "" then "." else
  let lead := if s.startsWith "//" && !s.startsWith "///" then "//" else if s.startsWith "/" then "/" else ""
  let comps := (splitSlash s).foldl (fun (acc : List String) c =>
    if c = "" || c = "." then acc
    else if c = ".." then
      match acc.getLast? with
      | some l => if l = ".." then acc ++ [c] else acc.dropLast
      | none => if lead = "" then acc ++ [c] else acc
    else acc ++ [c]) []
  let body := "/".intercalate comps
  if lead = "" && body = "" then "." else lead ++ body

/-- `pathlib.Path(base).joinpath(*args)` as a string (before normalisation) -/
def joinpath (base : String) : List String → String
  | [] => base
  | a :: rest =>
    if a.startsWith "/" then joinpath a rest
    else if base = "" || base = "." then joinpath a rest
    else if base.endsWith "/" then joinpath (base ++ a) rest
    else joinpath (base ++ "/" ++ a) rest

/-- `list(pathlib.Path(s).parents)` as strings -/
def pathParents (s : String) : List String :=
  let isAbs := s.startsWith "/"
  let comps := (splitSlash s).filter (fun c => c != "" && c != ".")
  let rec go : Nat → List String → List String
    | 0, _ => []
    | n + 1, cs =>
      let cs' := cs.dropLast
      let here := if cs'.isEmpty then (if isAbs then "/" else ".") else (if isAbs then "/" else "") ++ "/".intercalate cs'
      if cs.isEmpty then [] else here :: go n cs'
  go comps.length comps

/-- `str(pathlib.Path(s).parent)` -/
def pathParent (s : String) : String :=
  (pathParents s).head?.getD (if s.startsWith "/" then "/" else ".")

def parseParentRef (r : String) : Option Nat :=
  if r = "parent" then some 0
  else if r.startsWith "parent(" && r.endsWith ")" then
    ((r.drop 7).dropEnd 1).toString.toNat?
  else none

def parseAbsRef (r : String) : Option String :=
  if r.startsWith "abs(" && r.endsWith ")" then some ((r.drop 4).dropEnd 1).toString else none

def valStr? : Val → Option String
  | .scalar (.str s) => some s
  | _ => none

def allValStrs : List Val → Option (List String)
  | [] => some []
  | v :: rest =>
    match valStr? v, allValStrs rest with
    | some s, some ss => some (s :: ss)
    | _, _ => none

/-- PathNode.on_evaluate_impl after the components are evaluated -/
def evalPath (w : World) (ref : String) (src : Option String) (args : List String) : Except Err Val :=
  if ref = "" then .ok (.pathv (normpath (joinpath "." args)))
  else if ref = "cwd" then .ok (.pathv (normpath (joinpath w.cwd args)))
  else if ref = "file" then
    match src with
    | none => .error .eval
    | some f => .ok (.pathv (normpath (joinpath f args)))
  else
    match parseParentRef ref with
    | some n =>
      match src with
      | none => .error .eval
      | some f =>
        -- `src.parent.joinpath(*['..'] * n, *args)`: up from the folder of the file, folded by the final normpath
        .ok (.pathv (normpath (joinpath (pathParent f) (List.replicate n ".." ++ args))))
    | none =>
      match parseAbsRef ref with
      | some a => .ok (.pathv (normpath (joinpath a args)))
      | none => .error .eval

/-- `node.ayns.on_evaluate_impl(path, ctx)` for every node class -/
def evalImpl (rec : Rec) (root : Node) (w : World) (rs : Bool) (n : Node) (path : Path)
    (st : EvSt) : EvR Val :=
  match n with
  | .leaf f lk =>
    match lk with
    | .scalar v => .ok (.scalar v, st)
    | .prev s => .ok (.scalar (.str s), st)
    | .xref target => xrefLoop rec root rs path (root.size + 1) target [] st
    | .required => .error .eval
    | .clear => .error .eval
    | .incl fs => .ok (.strs fs, st)
    | .imp m =>
      if !eSafe f then .error .unsafeE
      else if w.modules.contains m then
        .ok (.sym m, { st with log := st.log ++ [{ path := path, what := "import:" ++ m }] })
      else .error .eval
    | .eval code =>
      if !eSafe f then .error .unsafeE
      else
        match parseNames code with
        | none => .error .unsupported
        | some names =>
          match resolveNames rec root w names st with
          | .error .unsafeE => .error .unsafeE
          | .error e => .error e
          | .ok (vs, st1) =>
            .ok (.tuple path vs, { st1 with log := st1.log ++ [{ path := path, what := "eval" }] })
    | .fstr _ => .error .unsupported
  | .comp f k cs =>
    match k with
    | .dict =>
      match evalItems rec rs path cs st with
      | .error e => .error e
      | .ok (items, st1) => .ok (.dict path items, st1)
    | .list | .append | .extend | .stream =>
      match evalItems rec rs path cs st with
      | .error e => .error e
      | .ok (items, st1) => .ok (.list path (items.map (·.2)), st1)
    | .path ref =>
      match evalItems rec rs path cs st with
      | .error e => .error e
      | .ok (items, st1) =>
        match allValStrs (items.map (·.2)) with
        | none => .error .eval
        | some args =>
          match evalPath w ref f.src args with
          | .error e => .error e
          | .ok v => .ok (v, st1)
    | .call fn =>
      if !eSafe f then .error .unsafeE
      else
        match lookupSig w fn with
        | none =>
          -- a name that can be imported but not called (a module): the arguments are evaluated first, the call fails afterwards
          if w.modules.contains fn then
            match evalItems rec true path cs st with
            | .error e => .error e
            | .ok _ => .error .eval
          else .error .eval
        | some sig =>
          match evalItems rec true path cs st with
          | .error e => .error e
          | .ok (items, st1) =>
            match resolveArgs sig items with
            | none => .error .eval
            | some (pos, kwp, kw) =>
              match bindPy sig pos (kwp ++ kw) with
              | none => .error .eval
              | some b =>
                .ok (.app path fn b.named b.varargs b.varkw,
                     { st1 with log := st1.log ++ [{ path := path, what := "call:" ++ fn }] })
    | .bind fn =>
      if !eSafe f then .error .unsafeE
      else
        match lookupSig w fn with
        | none =>
          if w.modules.contains fn then
            match evalItems rec true path cs st with
            | .error e => .error e
            | .ok _ => .error .eval
          else .error .eval
        | some sig =>
          match evalItems rec true path cs st with
          | .error e => .error e
          | .ok (items, st1) =>
            match resolveArgs sig items with
            | none => .error .eval
            | some (pos, kwp, kw) =>
              if dupKeys (kwp ++ kw) then .error .eval
              else
                .ok (.part path fn pos (kwp ++ kw),
                     { st1 with log := st1.log ++ [{ path := path, what := "bind:" ++ fn }] })

/-- `ctx.evaluate_node(node, path)` -/
def evalNodeF (root : Node) (w : World) : Nat → Bool → Node → Path → EvSt → EvR Val
  | 0, _, _, _, _ => .error .unsupported
  | fuel + 1, rs, n, path, st =>
    if rs && !eSafe n.flags then .error .unsafeE
    else
      let st0 := if !eSafe n.flags then { st with unsafeSeen := st.unsafeSeen + 1 } else st
      match plookup path st0.cache with
      | some v =>
        if st0.tainted.contains path then
          if rs then .error .unsafeE
          else .ok (v, { st0 with unsafeSeen := st0.unsafeSeen + 1 })   -- a tainted cache hit counts as unsafe content seen
        else .ok (v, st0)
      | none =>
        if st0.inProgress.contains path then .error .recursion -- unbounded recursion → RecursionError → EvalError
        else
          let seen0 := st0.unsafeSeen
          let st1 := { st0 with
            inProgress := path :: st0.inProgress,
            touched := match path with
              | k :: _ :: _ => if st0.touched.contains k then st0.touched else k :: st0.touched
              | _ => st0.touched }
          match evalImpl (evalNodeF root w fuel) root w rs n path st1 with
          | .error e => .error e
          | .ok (v, st2) =>
            let taint := st2.unsafeSeen != seen0 || !eSafe n.flags
            .ok (v, { st2 with
              cache := (path, v) :: st2.cache,
              tainted := if taint then path :: st2.tainted else st2.tainted,
              inProgress := st2.inProgress.erase path })

mutual
/-- paths of all `!required` nodes, in the order of `nodes_with_paths` -/
def requiredPaths (p : Path) : Node → List Path
  | .leaf _ .required => [p]
  | .leaf .. => []
  | .comp _ _ cs => requiredPathsList p cs
def requiredPathsList (p : Path) : List (Key × Node) → List Path
  | [] => []
  | (k, c) :: rest => requiredPaths (p ++ [k]) c ++ requiredPathsList p rest
end

/-- `EvalContext().evaluate(root)` -/
def evaluate (w : World) (root : Node) : EvR Val :=
  evalNodeF root w (2 * root.size + 10) false root [] {}

/-- `Config(root)`: check_missing, then evaluate (an empty mapping evaluates to `{}` directly) -/
def config (w : World) (root : Node) : EvR Val :=
  match root with
  | .comp _ _ [] => .ok (.dict [] [], {})
  | _ =>
    match requiredPaths [] root with
    | [] => evaluate w root
    | ps => .error (.required ps)

end AY
