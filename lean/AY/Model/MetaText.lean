/-
  AY.Model.MetaText — yaml.py: the `{{...}}` metadata rewriting that runs on the TEXT of a document
  before PyYAML sees it, and the special/user split of `_decode_metadata`.

      def _get_metadata_content(data):
          _metadata_tag = re.compile(r'(![a-zA-Z0-9_:.()]+){{')
          curr_match = _metadata_tag.search(data)
          while curr_match is not None:
              beg = curr_match.end(1)
              end = _get_metadata_end(data, beg)
              if end is None:
                  raise ValueError(f'Cannot find the end of a !metadata node which begins at: {curr_match.start()}')
              yield beg, end
              curr_match = _metadata_tag.search(data, end+1)

      def _encode_all_metadata(data):
          ranges = list(_get_metadata_content(data))
          offset = 0
          for beg, end in ranges:
              beg += offset
              end += offset
              metadata = eval(data[beg+1:end-1])
              encoded = _encode_metadata(metadata)
              repl = ':' + encoded
              orig_len = end-beg
              repl_len = len(repl)
              data = data[:beg] + repl + data[end:]
              offset += repl_len - orig_len
          return data

      def _decode_metadata(encoded):
          if not encoded: return {}
          metadata = pickle.loads(bytes.fromhex(encoded))
          kwargs = {}
          for special in ConfigNode.special_metadata_names:
              if special in metadata:
                  kwargs[special] = metadata.pop(special)
          kwargs['metadata'] = metadata
          return kwargs

  Texts are `List Char` (Python `str` and `List Char` are both indexed by code point), positions are
  `Nat`, the running `offset` is an `Int` as in Python, slices follow Python's rules for negative and
  out-of-range indices (`pyIdx`).  The tag regex is modelled on the characters (`findTag`); the
  search loop and the splice loop take `_get_metadata_end` as a PARAMETER (`findEnd : Nat → Option Nat`; it was based
  on CPython's tokenizer); since repo fix e40192c it is a pure character scanner, modelled as `metadataEnd` and plugged
  in by `metadataRangesOwn` / `encodeAllOwn`.  `eval` + pickle + hex of a literal stays a parameter (`enc`, or a
  replacement text per range).
  Lean core only.
-/
namespace AY.MetaText

/-! ### Python slicing -/

/-- `PySlice_AdjustIndices` for step 1: the position a slice bound `i` denotes in a sequence of length `n` -/
def pyIdx (n : Nat) (i : Int) : Nat :=
  if i < 0 then (i + (n : Int)).toNat else min i.toNat n

/-- `data[:i]` -/
def sliceTo {α : Type} (data : List α) (i : Int) : List α := data.take (pyIdx data.length i)

/-- `data[i:]` -/
def sliceFrom {α : Type} (data : List α) (i : Int) : List α := data.drop (pyIdx data.length i)

/-- `data[i:j]` -/
def slice {α : Type} (data : List α) (i j : Int) : List α :=
  (data.take (pyIdx data.length j)).drop (pyIdx data.length i)

/-! ### `_encode_all_metadata`: the in-place splice loop -/

/-- one turn of the `for beg, end in ranges:` loop with the replacement text given; state = (`data`, `offset`) -/
def spliceStep {α : Type} (data : List α) (offset : Int) (r : Nat × Nat × List α) : List α × Int :=
  let beg : Int := (r.1 : Int) + offset
  let end_ : Int := (r.2.1 : Int) + offset
  let repl := r.2.2
  let origLen : Int := end_ - beg
  let replLen : Int := (repl.length : Int)
  (sliceTo data beg ++ repl ++ sliceFrom data end_, offset + (replLen - origLen))

/-- the loop -/
def spliceLoop {α : Type} : List α → Int → List (Nat × Nat × List α) → List α
  | data, _, [] => data
  | data, offset, r :: rs => spliceLoop (spliceStep data offset r).1 (spliceStep data offset r).2 rs

/-- `_encode_all_metadata` after `ranges = list(...)`, each range with its replacement text -/
def spliceAll {α : Type} (data : List α) (ranges : List (Nat × Nat × List α)) : List α :=
  spliceLoop data 0 ranges

/-- the same loop with the replacement COMPUTED as the code does: `enc` (= `':' + pickle(eval(·)).hex()`) applied
    to `data[beg+1:end-1]` of the CURRENT text at the SHIFTED positions -/
def encodeLoop {α : Type} (enc : List α → List α) : List α → Int → List (Nat × Nat) → List α
  | data, _, [] => data
  | data, offset, (b, e) :: rs =>
    let beg : Int := (b : Int) + offset
    let end_ : Int := (e : Int) + offset
    let repl := enc (slice data (beg + 1) (end_ - 1))
    encodeLoop enc (sliceTo data beg ++ repl ++ sliceFrom data end_)
      (offset + ((repl.length : Int) - (end_ - beg))) rs

/-- the obvious one-pass specification: the text from `pos` on, where every range is replaced by its text
    (text before the first range, replacement, text between ranges, …, text after the last range) -/
def spliceSpec {α : Type} (data : List α) : Nat → List (Nat × Nat × List α) → List α
  | pos, [] => data.drop pos
  | pos, (b, e, repl) :: rs => (data.drop pos).take (b - pos) ++ repl ++ spliceSpec data e rs

/-- ranges from `pos` on are ascending, non-overlapping and inside a text of length `len`:
    `pos ≤ beg ≤ end`, the next range starts at or after `end`, the last end is `≤ len` -/
def RangesOK {β : Type} (len : Nat) : Nat → List (Nat × Nat × β) → Prop
  | pos, [] => pos ≤ len
  | pos, (b, e, _) :: rs => pos ≤ b ∧ b ≤ e ∧ RangesOK len e rs

/-- Boolean form (for generators / `decide`) -/
def rangesOK {β : Type} (len : Nat) : Nat → List (Nat × Nat × β) → Bool
  | pos, [] => pos ≤ len
  | pos, (b, e, _) :: rs => pos ≤ b && b ≤ e && rangesOK len e rs

/-- is the position inside one of the ranges? -/
def inRanges (rs : List (Nat × Nat)) (i : Nat) : Bool := rs.any (fun r => r.1 ≤ i && i < r.2)

/-- the characters of `l` (which starts at position `i` of the text) whose position is in none of the ranges -/
def keepOutsideFrom {α : Type} (rs : List (Nat × Nat)) : List α → Nat → List α
  | [], _ => []
  | c :: cs, i => if inRanges rs i then keepOutsideFrom rs cs (i + 1) else c :: keepOutsideFrom rs cs (i + 1)

/-- the text with the blocks removed: exactly the characters at positions outside every range, in order -/
def keepOutside {α : Type} (data : List α) (rs : List (Nat × Nat)) : List α := keepOutsideFrom rs data 0

/-! ### `_get_metadata_content`: the tag regex and the search loop -/

/-- the character class `[a-zA-Z0-9_:.()]` -/
def isTagChar (c : Char) : Bool :=
  ('a' ≤ c && c ≤ 'z') || ('A' ≤ c && c ≤ 'Z') || ('0' ≤ c && c ≤ '9') ||
  c = '_' || c = ':' || c = '.' || c = '(' || c = ')'

/-- length of the longest prefix of tag characters (the greedy `+`) -/
def tagRun : List Char → Nat
  | [] => 0
  | c :: cs => if isTagChar c then tagRun cs + 1 else 0

/-- `_metadata_tag.match(s)`: length of group 1 when `(![a-zA-Z0-9_:.()]+){{` matches at the start of `s`.
    (`{` is not in the class, so backtracking into the run never helps: the run must be followed by `{{`.) -/
def matchTagHere : List Char → Option Nat
  | '!' :: cs =>
    if 1 ≤ tagRun cs ∧ (cs.drop (tagRun cs)).take 2 = ['{', '{'] then some (tagRun cs + 1) else none
  | _ => none

/-- leftmost match in `l`, which starts at position `i` of the text: `(match.start(), match.end(1))` -/
def searchFrom : List Char → Nat → Option (Nat × Nat)
  | [], _ => none
  | c :: cs, i =>
    match matchTagHere (c :: cs) with
    | some n => some (i, i + n)
    | none => searchFrom cs (i + 1)

/-- `_metadata_tag.search(data, pos)` → `(match.start(), match.end(1))` -/
def findTag (data : List Char) (pos : Nat) : Option (Nat × Nat) := searchFrom (data.drop pos) pos

/-- outcomes of `_get_metadata_content` other than a list of ranges -/
inductive MetaErr
  /-- `ValueError('Cannot find the end of a !metadata node which begins at: <start>')`; `beg` = the position of `{{` -/
  | noEnd (start beg : Nat)
  /-- the loop did not finish within the fuel (in Python: it would not terminate) -/
  | fuel
  deriving DecidableEq, Repr

/-- the `while curr_match is not None:` loop; `pos` = where the next search starts -/
def rangesLoop (findEnd : Nat → Option Nat) (data : List Char) : Nat → Nat → Except MetaErr (List (Nat × Nat))
  | 0, _ => .error .fuel
  | fuel + 1, pos =>
    match findTag data pos with
    | none => .ok []
    | some (start, beg) =>
      match findEnd beg with
      | none => .error (.noEnd start beg)
      | some end_ =>
        match rangesLoop findEnd data fuel (end_ + 1) with
        | .error e => .error e
        | .ok rs => .ok ((beg, end_) :: rs)

/-- `list(_get_metadata_content(data))`; `findEnd beg` = `_get_metadata_end(data, beg)` -/
def metadataRanges (findEnd : Nat → Option Nat) (data : List Char) : Except MetaErr (List (Nat × Nat)) :=
  rangesLoop findEnd data (data.length + 1) 0

/-- `_encode_all_metadata(data)`; `repl beg end` = the text written for the block `data[beg:end]` -/
def encodeAll (findEnd : Nat → Option Nat) (repl : Nat → Nat → List Char) (data : List Char) :
    Except MetaErr (List Char) :=
  match metadataRanges findEnd data with
  | .error e => .error e
  | .ok rs => .ok (spliceAll data (rs.map (fun r => (r.1, r.2, repl r.1 r.2))))

/-- `_encode_all_metadata(data)`, literally: the replacement is computed from the current text -/
def encodeAllLit (findEnd : Nat → Option Nat) (enc : List Char → List Char) (data : List Char) :
    Except MetaErr (List Char) :=
  match metadataRanges findEnd data with
  | .error e => .error e
  | .ok rs => .ok (encodeLoop enc data 0 rs)

/-! ### `_get_metadata_end`: the character scanner (repo fix e40192c)

      def _get_metadata_end(data, beg):
          pos = beg + 2
          depth = 0
          while pos < len(data):
              char = data[pos]
              if char in '\'"':
                  quote = data[pos:pos+3] if data[pos:pos+3] in ("'''", '"""') else char
                  pos += len(quote)
                  while pos < len(data) and not data.startswith(quote, pos):
                      pos += 2 if data[pos] == '\\' else 1
                  pos += len(quote)
                  continue
              if char in '([{':
                  depth += 1
              elif char in ')]}':
                  if depth == 0:
                      return pos + 2 if data.startswith('}}', pos) else None
                  depth -= 1
              pos += 1
          return None
-/

/-- `char in '([{'` -/
def isOpen (c : Char) : Bool := c = '(' || c = '[' || c = '{'

/-- `char in ')]}'` -/
def isClose (c : Char) : Bool := c = ')' || c = ']' || c = '}'

/-- `char in '\'"'` -/
def isQuote (c : Char) : Bool := c = '\'' || c = '"'

/-- the quote that opens at the head of `l` = `data[pos:]`: three equal quote characters, else one; `none`: no quote here -/
def quoteAt : List Char → Option (List Char)
  | '\'' :: '\'' :: '\'' :: _ => some ['\'', '\'', '\'']
  | '"' :: '"' :: '"' :: _ => some ['"', '"', '"']
  | '\'' :: _ => some ['\'']
  | '"' :: _ => some ['"']
  | _ => none

/-- the inner `while` and the `pos += len(quote)` after it: `l` = `data[pos:]` just behind the opening quote; returns
    the position behind the closing quote (beyond `len(data)` when the string is not terminated) -/
def skipString (quote : List Char) : List Char → Nat → Nat
  | [], pos => pos + quote.length
  | c :: cs, pos =>
    if quote.isPrefixOf (c :: cs) then pos + quote.length
    else if c = '\\' then
      match cs with
      | [] => pos + 2 + quote.length
      | _ :: rest => skipString quote rest (pos + 2)
    else skipString quote cs (pos + 1)

/-- the outer `while pos < len(data):` loop, one turn per unit of fuel; state = (`pos`, `depth`) -/
def scanEnd (data : List Char) : Nat → Nat → Nat → Option Nat
  | 0, _, _ => none
  | fuel + 1, pos, depth =>
    match data.drop pos with
    | [] => none
    | c :: cs =>
      match quoteAt (c :: cs) with
      | some q => scanEnd data fuel (skipString q ((c :: cs).drop q.length) (pos + q.length)) depth
      | none =>
        if isOpen c then scanEnd data fuel (pos + 1) (depth + 1)
        else if isClose c then
          if depth = 0 then (if (c :: cs).take 2 = ['}', '}'] then some (pos + 2) else none)
          else scanEnd data fuel (pos + 1) (depth - 1)
        else scanEnd data fuel (pos + 1) depth

/-- `_get_metadata_end(data, beg)`; every turn of the loop moves `pos` forward, so `len(data) + 1` turns are enough
    (`C01_end_fuel_irrelevant`) -/
def metadataEnd (data : List Char) (beg : Nat) : Option Nat := scanEnd data (data.length + 1) (beg + 2) 0

/-- `list(_get_metadata_content(data))` with the real end finder: no parameter left -/
def metadataRangesOwn (data : List Char) : Except MetaErr (List (Nat × Nat)) := metadataRanges (metadataEnd data) data

/-- `_encode_all_metadata(data)` with the real end finder; `enc` = `':' + pickle(eval(·)).hex()` -/
def encodeAllOwn (enc : List Char → List Char) (data : List Char) : Except MetaErr (List Char) :=
  encodeAllLit (metadataEnd data) enc data

/-! ### `_decode_metadata`: special names / user metadata -/

/-- `ConfigNode.special_metadata_names` (nodes/node.py); the correspondence check compares the split made with this
    list against the real `_decode_metadata`, so a change of the list in the code shows up as a disagreement -/
def specialNames : List String := ["idx", "priority", "delete", "allow_new", "source_file", "safe"]

/-- `d.get(k)` on an insertion-ordered association list -/
def dlookup {α β : Type} [DecidableEq α] (k : α) : List (α × β) → Option β
  | [] => none
  | (k', v) :: rest => if k' = k then some v else dlookup k rest

/-- `del d[k]` / `d.pop(k)`: no entry with that key is left, the remaining entries keep their order -/
def derase {α β : Type} [DecidableEq α] (k : α) : List (α × β) → List (α × β)
  | [] => []
  | (k', v) :: rest => if k' = k then derase k rest else (k', v) :: derase k rest

/-- `d[k] = v`: an existing key keeps its position, a new key goes last -/
def dset {α β : Type} [DecidableEq α] (k : α) (v : β) : List (α × β) → List (α × β)
  | [] => [(k, v)]
  | (k', v') :: rest => if k' = k then (k, v) :: rest else (k', v') :: dset k v rest

/-- one turn of `for special in special_metadata_names:`; state = (`kwargs`, `metadata`) -/
def splitStep {α β : Type} [DecidableEq α] (st : List (α × β) × List (α × β)) (special : α) :
    List (α × β) × List (α × β) :=
  match dlookup special st.2 with
  | some v => (dset special v st.1, derase special st.2)
  | none => st

/-- the loop of `_decode_metadata`: (`kwargs` without the `'metadata'` entry, what is left in `metadata`) -/
def decodeSplit {α β : Type} [DecidableEq α] (specials : List α) (md : List (α × β)) :
    List (α × β) × List (α × β) :=
  specials.foldl splitStep ([], md)

end AY.MetaText
