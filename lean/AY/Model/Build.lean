/-
  AY.Model.Build — pre-merge operators and the left fold of the builder.

    removeNode        ComposedNode.ayns.remove_node
    setNodeAt         (in-place mutation of a node of the accumulated tree, as a value update)
    premergeF         ayns.on_premerge / on_premerge_impl of ComposedNode, AppendNode, ExtendNode,
                      PrevNode, ClearNode, StreamNode   (state passing: the accumulated tree `into`
                      is detached from / emptied by the operators)
    flattenWith       Builder.flatten
-/
import AY.Model.Merge
import AY.Model.NodePath
namespace AY

/-- `into.ayns.remove_node(path)`: `(detached node, into')`, `none` when the path does not exist
    (or is empty: 'Cannot remove self from self'). -/
def removeNode : Node → Path → Option (Node × Node)
  | _, [] => none
  | .leaf .., _ :: _ => none
  | .comp f k cs, [key] =>
    match alookup key cs with
    | none => none
    | some c =>
      match removeChild f k key cs with
      | none => none
      | some cs' => some (c, .comp f k cs')
  | .comp f k cs, key :: k2 :: rest =>
    match alookup key cs with
    | none => none
    | some c =>
      match removeNode c (k2 :: rest) with
      | none => none
      | some (d, c') => some (d, .comp f k (aset key c' cs))

/-- Replace the node stored at an existing path (models in-place mutation of that node). -/
def setNodeAt : Node → Path → Node → Node
  | _, [], v => v
  | .leaf f k, _ :: _, _ => .leaf f k
  | .comp f k cs, key :: rest, v =>
    match alookup key cs with
    | none => .comp f k cs
    | some c => .comp f k (aset key (setNodeAt c rest v) cs)

/-- flags of a node created from Python while flattening (`ConfigList(self)`): nothing set, the
    thread-local source defaults are those left behind by the last `add_source`. -/
def freshFlags : Flags := {}

/-- `ConfigList(values)`: a new plain list whose constructor inherits its flags into the
    (already built) children. -/
def freshPlainList (vals : List Node) : Node :=
  .comp freshFlags .list (renum (vals.map (inheritInto none (childKw freshFlags .list))))

/-- `ConfigList(self)._replace_other(self)` for an `!append` / `!extend` node `self` with flags `f` that has
    no destination: the new plain list stands for the operator node — it takes over the operator's explicit
    `safe` (conjunction), its source-level flag and its metadata (priority and delete are not carried), and
    re-propagates (`_replace_other` ends with `_propagate_implicit_values`). -/
def newPlainList (f : Flags) (vals : List Node) : Node :=
  propagate (.comp (replaceOtherFlags freshFlags f) .list
    (renum (vals.map (inheritInto none (childKw freshFlags .list)))))

/-- `node.extend(values)` on a list-family node -/
def extendList (f : Flags) (k : CompKind) (cs : List (Key × Node)) : List Node → List (Key × Node)
  | [] => cs
  | v :: rest => extendList f k (cs ++ [(Key.int cs.length, adopt f k v)]) rest

/-- apply the re-sets collected by `map_nodes` (`set_child(name, new)` after the loop) -/
def applyResets (pf : Flags) (pk : CompKind) :
    List (Key × Node) → List (Key × Node) → Except Err (List (Key × Node))
  | [], cs => .ok cs
  | (k, v) :: rest, cs =>
    match setChild pf pk k v cs with
    | .error _ => .error .premerge
    | .ok cs' => applyResets pf pk rest cs'

/-- Result of a premerge: the node that takes the place of `self`, whether it is the same object,
    and the (possibly mutated) accumulated tree. -/
abbrev PM := Except Err (Node × Bool × Option Node)

/-- loop of `map_nodes(... recurse=False)` inside ComposedNode.on_premerge_impl:
    returns the children with in-place updates applied, the list of re-sets, and `into`. -/
def premergeChildren (rec : Node → Path → Option Node → PM) (path : Path) :
    List (Key × Node) → Option Node →
    Except Err (List (Key × Node) × List (Key × Node) × Option Node)
  | [], into => .ok ([], [], into)
  | (name, c) :: rest, into =>
    match rec c (path ++ [name]) into with
    | .error e => .error e
    | .ok (c', same, into') =>
      match premergeChildren rec path rest into' with
      | .error e => .error e
      | .ok (cs', resets, into'') =>
        if same then .ok ((name, c') :: cs', resets, into'')
        else .ok ((name, c) :: cs', (name, c') :: resets, into'')

/-- the fold of `Builder.flatten`: `root = root.ayns.merge(stage)` -/
def flattenLoop (pm : Node → Path → Option Node → PM) : Node → List Node → Except Err Node
  | root, [] => .ok root
  | root, st :: rest =>
    match pm st [] (some root) with
    | .error e => .error e
    | .ok (st', _, into') =>
      match into' with
      | none => .error .premerge
      | some root' =>
        match merge root' st' with
        | .error e => .error e
        | .ok r => flattenLoop pm r rest

/-- `Builder.flatten` over already preprocessed stages; `pm` is the premerge of this level. -/
def flattenWith (pm : Node → Path → Option Node → PM) : List Node → Except Err Node
  | [] => .error .value
  | s0 :: rest =>
    if !(s0 :: rest).all Node.isDict then .error .value
    else
      match pm s0 [] none with
      | .error e => .error e
      | .ok (r0, _, _) =>
        match reqNew [] [] r0 with
        | some p => .error (.notnew p)
        | none => flattenLoop pm r0 rest

/-- `node.ayns.on_premerge(path, into)` -/
def premergeF : Nat → Node → Path → Option Node → PM
  | 0, _, _, _ => .error .unsupported
  | fuel + 1, n, path, into =>
    match n with
    | .leaf f lk =>
      match lk with
      | .prev p =>
        match into, splitPath p with
        | some root, some tp =>
          match removeNode root tp with
          | none => .error .premerge
          | some (d, root') => .ok (d, false, some root')
        | _, _ => .error .premerge
      | .clear =>
        match into with
        | none => .error .premerge
        | some root =>
          match getNode root path with
          | some (.comp cf ck _) =>
            .ok (.comp cf ck [], false, some (setNodeAt root path (.comp cf ck [])))
          | _ => .error .premerge
      | _ => .ok (.leaf f lk, true, into)
    | .comp f k cs =>
      match k with
      | .append =>
        match into with
        | none => .ok (newPlainList f (cs.map (·.2)), false, none)
        | some root =>
          match removeNode root path with
          | none => .error .premerge
          | some (.comp tf tk tcs, root') =>
            if tk.isListFam then
              .ok (.comp tf tk (extendList tf tk tcs (cs.map (·.2))), false, some root')
            else .error .premerge
          | some (.leaf .., _) => .error .premerge
      | .extend =>
        match into with
        | none => .ok (newPlainList f (cs.map (·.2)), false, none)
        | some root =>
          match getNode root path with
          | some (.comp tf tk tcs) =>
            if tk.isListFam then
              match removeNode root path with
              | none => .error .premerge
              | some (_, root') =>
                .ok (.comp tf tk (extendList tf tk tcs (cs.map (·.2))), false, some root')
            else .ok (newPlainList f (cs.map (·.2)), false, some root)
          | _ => .ok (newPlainList f (cs.map (·.2)), false, some root)
      | .stream =>
        match flattenWith (premergeF fuel) (cs.map (·.2)) with
        | .error .unsupported => .error .unsupported
        | .error _ => .error .premerge          -- anything raised while the nested stream flattens is re-raised as PremergeError
        | .ok r =>
          match premergeF fuel r path into with
          | .error e => .error e
          | .ok (r', _, into') => .ok (r', false, into')
      | _ =>
        match premergeChildren (premergeF fuel) path cs into with
        | .error e => .error e
        | .ok (cs', resets, into') =>
          match applyResets f k resets cs' with
          | .error e => .error e
          | .ok cs'' => .ok (.comp f k cs'', true, into')

/-- fuel sufficient for a list of stages -/
def stagesFuel (stages : List Node) : Nat := (stages.map (fun n => n.depth + 1)).foldl (· + ·) 0 + 2

/-- `Builder.flatten()` on preprocessed stages -/
def flatten (stages : List Node) : Except Err Node :=
  flattenWith (premergeF (stagesFuel stages)) stages

end AY
