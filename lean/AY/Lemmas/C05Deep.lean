/-
  AY.Lemmas.C05Deep — sibling independence at any depth below NON-deleting mappings (property C05):
  cutting both trees down to the entries along a path `p` (`restrictTo p`) does not change the data
  the merge leaves at `p`, provided the newer tree consists of non-deleting mappings along `p`.
  (Below a deleting mapping the statement is false: `C05_nested_del_sibling_counterexample`.)
-/
import AY.Lemmas.C05Siblings
namespace AY

/-! ### definitions -/

/-- the tree cut down to the entries along `p`: every mapping on the way keeps only the entry the
    path goes through; below the end of `p` everything is kept -/
def restrictTo : Path → Node → Node
  | [], n => n
  | _ :: _, .leaf f lk => .leaf f lk
  | k :: p, .comp f ck cs =>
    match ck with
    | .dict => .comp f .dict (single k ((alookup k cs).map (restrictTo p)))
    | _ => .comp f ck cs

/-- the data stored at a path (through mappings) -/
def Plain.at? : Path → Plain → Option Plain
  | [], v => some v
  | k :: p, .dict kvs => (alookup k kvs).bind (Plain.at? p)
  | _ :: _, _ => none

/-- along `p` the tree consists of non-deleting mappings with distinct keys -/
def liveAlong : Path → Node → Bool
  | [], _ => true
  | _ :: _, .leaf .. => false
  | k :: p, .comp f ck cs =>
    match ck with
    | .dict =>
      !eDel (.comp f .dict cs) && keysNodup cs &&
        (match alookup k cs with
         | none => true
         | some c => liveAlong p c)
    | _ => false

/-- along `p` the tree consists of mappings with distinct keys (as far as it exists) -/
def dictAlong : Path → Node → Bool
  | [], _ => true
  | _ :: _, .leaf .. => false
  | k :: p, .comp _ ck cs =>
    match ck with
    | .dict =>
      keysNodup cs &&
        (match alookup k cs with
         | none => true
         | some c => dictAlong p c)
    | _ => false

/-! ### data along a path -/

theorem at_native_dict (f : Flags) (cs : List (Key × Node)) (k : Key) (p : Path) :
    (native (.comp f .dict cs)).at? (k :: p) = ((alookup k cs).map native).bind (Plain.at? p) := by
  simp [native, CompKind.isDictFam, Plain.at?, alookup_nativeList]

theorem flags_restrictTo : ∀ (p : Path) (n : Node), (restrictTo p n).flags = n.flags
  | [], _ => rfl
  | _ :: _, .leaf .. => rfl
  | _ :: _, .comp f ck cs => by cases ck <;> rfl

theorem isComp_restrictTo : ∀ (p : Path) (n : Node), (restrictTo p n).isComp = n.isComp
  | [], _ => rfl
  | _ :: _, .leaf .. => rfl
  | _ :: _, .comp f ck cs => by cases ck <;> rfl

/-- restriction along `p` keeps the data at `p` -/
theorem at_native_restrictTo : ∀ (p : Path) (n : Node), (native (restrictTo p n)).at? p = (native n).at? p
  | [], _ => rfl
  | _ :: _, .leaf .. => rfl
  | k :: p, .comp f ck cs => by
    cases ck <;> try rfl
    simp only [restrictTo, at_native_dict, alookup_single]
    cases alookup k cs with
    | none => rfl
    | some c => simp [at_native_restrictTo p c]

/-- `_require_all_new` passes on the restriction when it passes on the tree -/
theorem reqNew_restrictTo (exc : List Path) : ∀ (p q : Path) (n : Node),
    reqNew exc q n = none → reqNew exc q (restrictTo p n) = none
  | [], _, _, h => h
  | _ :: _, _, .leaf .., h => h
  | k :: p, q, .comp f ck cs, h => by
    cases ck <;> try exact h
    simp only [restrictTo]
    simp only [reqNew] at h ⊢
    split at h
    · cases h
    · rename_i hc
      rw [if_neg hc]
      cases hl : alookup k cs with
      | none => simp [single, reqNewList]
      | some c =>
        have hmem := mem_of_alookup hl
        rw [reqNewList_findSome] at h
        have hc' := List.findSome?_eq_none_iff.1 h (k, c) hmem
        simp only [Option.map, single, reqNewList]
        rw [reqNew_restrictTo exc p (q ++ [k]) c hc']

/-! ### the merge along a path of non-deleting mappings -/

/-- the children the key loop leaves, before the final re-propagation -/
theorem compMerge_live_children (rec : Node → Node → Except Err (Node × Bool)) (sf of : Flags)
    (scs ocs : List (Key × Node)) (hlive : eDel (.comp of .dict ocs) = false)
    (hns : keysNodup scs = true) (hno : keysNodup ocs = true) (r : Node) (s : Bool)
    (h : compMerge rec sf .dict scs (.comp of .dict ocs) = .ok (r, s)) :
    ∃ scs', r = propagate (.comp (finishFlags sf of) .dict scs') ∧
      ∀ k, match alookup k ocs with
        | none => alookup k scs' = alookup k scs
        | some v => stepAt rec sf [] k (alookup k scs) v = .ok (alookup k scs') := by
  obtain ⟨_, h2⟩ := mergeLoop_dict_pointwise rec sf [] ocs scs hno hns
  simp only [compMerge, hlive, Bool.false_eq_true, if_false, finishMerge_dict] at h
  cases hl : mergeLoop rec sf .dict [] scs ocs with
  | error e => rw [hl] at h; cases h
  | ok scs' =>
    rw [hl] at h
    simp only [Except.ok.injEq, Prod.mk.injEq] at h
    exact ⟨scs', h.1.symm, (h2 scs' hl).2⟩

theorem at_propagate_dict (F : Flags) (cs : List (Key × Node)) (k : Key) (p : Path) :
    (native (propagate (.comp F .dict cs))).at? (k :: p) = ((alookup k cs).map native).bind (Plain.at? p) := by
  rw [nativeOf_propagate, at_native_dict]

theorem del_ne_of_live {n : Node} (h : eDel n = false) : (n.flags.del == some true) = false := by
  simp only [eDel] at h
  cases hd : n.flags.del with
  | none => rfl
  | some d =>
    simp only [hd] at h
    subst h
    rfl

/-- DEEP sibling independence below non-deleting mappings: if the merge succeeds, so does the
    merge of the two trees cut down to the path `p`, and it leaves the same data at `p` -/
theorem mergeF_restrictTo : ∀ (p : Path) (fuel : Nat) (s o r : Node) (b : Bool),
    dictAlong p s = true → liveAlong p o = true → mergeF fuel s o = .ok (r, b) →
    ∃ r' b', mergeF fuel (restrictTo p s) (restrictTo p o) = .ok (r', b') ∧
      (native r').at? p = (native r).at? p
  | [], fuel, s, o, r, b, _, _, h => ⟨r, b, h, rfl⟩
  | k :: p, fuel, s, o, r, b, hs, ho, h => by
    -- shapes
    cases s with
    | leaf sf lk => simp [dictAlong] at hs
    | comp sf sk scs =>
    cases sk <;> try (simp [dictAlong] at hs; done)
    cases o with
    | leaf of lk => simp [liveAlong] at ho
    | comp of ok ocs =>
    cases ok <;> try (simp [liveAlong] at ho; done)
    cases fuel with
    | zero => simp [mergeF] at h
    | succ fuel =>
    simp only [dictAlong, Bool.and_eq_true] at hs
    simp only [liveAlong, Bool.and_eq_true, Bool.not_eq_true'] at ho
    obtain ⟨hns, hsk⟩ := hs
    obtain ⟨⟨hlive, hno⟩, hok⟩ := ho
    simp only [mergeF] at h ⊢
    simp only [restrictTo]
    -- the whole merge
    obtain ⟨scs', hr, hpt⟩ := compMerge_live_children (mergeF fuel) sf of scs ocs hlive hns hno r b h
    have hptk := hpt k
    -- the restricted merge: outcome
    have hlive' : eDel (.comp of .dict (single k ((alookup k ocs).map (restrictTo p)))) = false := hlive
    have hspec := compMerge_live_spec (mergeF fuel) sf of
      (single k ((alookup k scs).map (restrictTo p))) (single k ((alookup k ocs).map (restrictTo p)))
      hlive' (keysNodup_single k _) (keysNodup_single k _)
    -- the iteration for `k` on the restricted trees succeeds with an entry holding the same data at `p`
    have hkey : ∀ v, alookup k ocs = some v →
        ∃ x?, stepAt (mergeF fuel) sf [] k ((alookup k scs).map (restrictTo p)) (restrictTo p v) = .ok x? ∧
          (x?.map native).bind (Plain.at? p) = ((alookup k scs').map native).bind (Plain.at? p) := by
      intro v hv
      rw [hv] at hptk hok
      simp only at hptk hok
      cases hc : alookup k scs with
      | none =>
        rw [hc] at hptk
        simp only [Option.map_none, stepAt, excBelow_nil] at hptk ⊢
        cases hq : reqNew [] [] v with
        | some q => rw [hq] at hptk; cases hptk
        | none =>
          rw [hq] at hptk
          simp only [Except.ok.injEq] at hptk
          rw [reqNew_restrictTo _ p [] v hq]
          refine ⟨_, rfl, ?_⟩
          rw [← hptk]
          simp [native_adopt, at_native_restrictTo]
      | some c =>
        rw [hc] at hptk hsk
        simp only at hsk
        simp only [Option.map_some]
        simp only [stepAt] at hptk
        cases hm : mergeF fuel c v with
        | error e => simp [hm] at hptk
        | ok res =>
          obtain ⟨nw, same⟩ := res
          obtain ⟨nw', same', hm', hd⟩ := mergeF_restrictTo p fuel c v nw same hsk hok hm
          simp only [hm] at hptk
          cases p with
          | nil =>
            -- the end of the path: nothing below is restricted
            simp only [restrictTo] at hm' ⊢
            refine ⟨alookup k scs', ?_, rfl⟩
            simp only [stepAt, hm]
            exact hptk
          | cons k2 p2 =>
            -- an inner mapping: a container, not explicitly deleting, never removed
            have hcomp : c.isComp = true := by
              cases c with
              | leaf _ _ => simp [dictAlong] at hsk
              | comp _ _ _ => rfl
            have hvlive : eDel v = false := by
              cases v with
              | leaf _ _ => simp [liveAlong] at hok
              | comp vf vk vcs =>
                cases vk <;> try (simp [liveAlong] at hok; done)
                simp only [liveAlong, Bool.and_eq_true, Bool.not_eq_true'] at hok
                exact hok.1.1
            have hdel := del_ne_of_live hvlive
            simp only [stepAt, hm', isComp_restrictTo, hcomp, if_true, flags_restrictTo, hdel,
              Bool.and_false, Bool.false_eq_true, if_false]
            simp only [hcomp, if_true, hdel, Bool.and_false, Bool.false_eq_true, if_false] at hptk
            cases same' <;> cases same <;>
              simp only [Bool.false_eq_true, if_false, if_true, Except.ok.injEq] at hptk ⊢ <;>
              refine ⟨_, rfl, ?_⟩ <;> rw [← hptk] <;>
              simp [native_adopt, hd]
    -- assemble
    have hnone : errOf (compMerge (mergeF fuel) sf .dict
        (single k ((alookup k scs).map (restrictTo p)))
        (.comp of .dict (single k ((alookup k ocs).map (restrictTo p))))) = none := by
      rw [hspec.1]
      cases hv : alookup k ocs with
      | none => rfl
      | some v =>
        obtain ⟨x?, hx, _⟩ := hkey v hv
        have e1 : single k (Option.map (restrictTo p) (some v)) = [(k, restrictTo p v)] := rfl
        rw [e1, findSome?_single]
        simp only [alookup_single]
        rw [hx]
        rfl
    obtain ⟨⟨r', b'⟩, hr'⟩ := errOf_none hnone
    refine ⟨r', b', hr', ?_⟩
    obtain ⟨scs'', hr'', hpt'⟩ := compMerge_live_children (mergeF fuel) sf of _ _ hlive'
      (keysNodup_single k _) (keysNodup_single k _) r' b' hr'
    have hptk' := hpt' k
    rw [alookup_single, alookup_single] at hptk'
    rw [hr, hr'', at_propagate_dict, at_propagate_dict]
    cases hv : alookup k ocs with
    | none =>
      rw [hv] at hptk hptk'
      simp only [Option.map_none] at hptk hptk'
      rw [hptk, hptk']
      cases alookup k scs with
      | none => rfl
      | some c => simp [at_native_restrictTo]
    | some v =>
      obtain ⟨x?, hx, hdx⟩ := hkey v hv
      rw [hv] at hptk'
      simp only [Option.map_some] at hptk'
      rw [hx] at hptk'
      injection hptk' with hptk'
      rw [← hptk', hdx]

end AY
