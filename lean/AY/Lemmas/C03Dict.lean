/-
  AY.Lemmas.C03Dict — the merge on "dict-shaped" trees (mappings of mappings with scalar leaves whose
  only tags are priorities and metadata): leaf by leaf it is the leaf rule, paths present on one
  side only are kept; the builder's fold therefore picks, at every leaf path, the arg-max of
  (priority, stage index).  Main induction of property C03.
-/
import AY.Lemmas.C15Empty
import AY.Lemmas.C15Perm
import AY.Lemmas.C03Leaf
import AY.Lemmas.C02Fold
set_option linter.unusedVariables false
namespace AY

/-! ### dict-shaped trees -/

/-- only priority and metadata may be set: no `delete`, `allow_new`, `safe`, nothing inherited -/
def flagsDS (f : Flags) : Bool :=
  f.del.isNone && f.new.isNone && f.safe.isNone && f.iDel.isNone && f.iNew.isNone && f.iSafe.isNone

theorem flagsDS_iff (f : Flags) : flagsDS f = true ↔
    f.del = none ∧ f.new = none ∧ f.safe = none ∧ f.iDel = none ∧ f.iNew = none ∧ f.iSafe = none := by
  simp [flagsDS, and_assoc]

mutual
/-- plain mappings (pairwise distinct keys) and scalar leaves only, flags `flagsDS` everywhere -/
def dictShaped : Node → Bool
  | .leaf f (.scalar _) => flagsDS f
  | .leaf _ _ => false
  | .comp f k cs => flagsDS f && (k == .dict) && keysNodup cs && dictShapedList cs
def dictShapedList : List (Key × Node) → Bool
  | [] => true
  | (_, c) :: rest => dictShaped c && dictShapedList rest
end

theorem ds_comp {f k cs} (h : dictShaped (.comp f k cs) = true) :
    flagsDS f = true ∧ k = .dict ∧ keysNodup cs = true ∧ dictShapedList cs = true := by
  simpa [dictShaped, and_assoc] using h

theorem ds_leaf {f k} (h : dictShaped (.leaf f k) = true) : ∃ v, k = .scalar v ∧ flagsDS f = true := by
  cases k <;> simp_all [dictShaped]

theorem ds_mk_comp {f cs} (hf : flagsDS f = true) (hnd : keysNodup cs = true) (hcs : dictShapedList cs = true) :
    dictShaped (.comp f .dict cs) = true := by
  simp [dictShaped, hf, hnd, hcs]

theorem ds_flags {n : Node} (h : dictShaped n = true) : flagsDS n.flags = true := by
  cases n with
  | leaf f k => obtain ⟨v, _, hf⟩ := ds_leaf h; exact hf
  | comp f k cs => exact (ds_comp h).1

theorem alookup_ds (k : Key) : ∀ cs : List (Key × Node), dictShapedList cs = true →
    ∀ c, alookup k cs = some c → dictShaped c = true
  | [], _, c, h => by simp [alookup] at h
  | (k', v') :: r, hp, c, h => by
    have h' : dictShaped v' = true ∧ dictShapedList r = true := by simpa [dictShapedList] using hp
    by_cases hk : k' = k
    · simp [alookup, hk] at h; subst h; exact h'.1
    · simp [alookup, hk] at h; exact alookup_ds k r h'.2 c h

theorem aset_ds (k : Key) (v : Node) (hv : dictShaped v = true) : ∀ cs : List (Key × Node),
    dictShapedList cs = true → dictShapedList (aset k v cs) = true
  | [], _ => by simp [aset, dictShapedList, hv]
  | (k', v') :: r, h => by
    have h' : dictShaped v' = true ∧ dictShapedList r = true := by simpa [dictShapedList] using h
    by_cases hk : k' = k <;> simp [aset, dictShapedList, hk, hv, h'.1, h'.2, aset_ds k v hv r h'.2]

theorem depthList_lookup (k : Key) : ∀ (cs : List (Key × Node)) (c : Node), alookup k cs = some c →
    c.depth ≤ depthList cs
  | [], c, h => by simp [alookup] at h
  | (k', v') :: r, c, h => by
    by_cases hk : k' = k
    · simp [alookup, hk] at h; subst h; simp only [depthList]; omega
    · simp [alookup, hk] at h
      have := depthList_lookup k r c h
      simp only [depthList]; omega

/-! ### the flag bookkeeping is the identity on dict-shaped trees -/

/-- nothing to inherit -/
def kwN : ChildKw := ⟨none, none, none⟩

theorem childKw_DS {f : Flags} (h : flagsDS f = true) : childKw f .dict = some kwN := by
  rw [flagsDS_iff] at h
  obtain ⟨h1, h2, h3, h4, h5, h6⟩ := h
  simp [childKw, kwN, h1, h2, h3, h4, h5, h6, defaultDelete, Tables.defaultDeleteDict]

theorem updFlags_DS {f : Flags} (h : flagsDS f = true) : updFlags kwN f = f := by
  rw [flagsDS_iff] at h
  obtain ⟨h1, h2, h3, h4, h5, h6⟩ := h
  cases f
  simp_all [updFlags, kwN]

theorem flagsChanged_DS {f : Flags} (h : flagsDS f = true) : flagsChanged kwN f = false := by
  rw [flagsDS_iff] at h
  obtain ⟨h1, h2, h3, h4, h5, h6⟩ := h
  simp [flagsChanged, kwN, h4, h5, h6]

theorem applyKw_DS {n : Node} (h : dictShaped n = true) : applyKw kwN n = n := by
  cases n with
  | leaf f k => obtain ⟨v, rfl, hf⟩ := ds_leaf h; simp [applyKw, updFlags_DS hf]
  | comp f k cs => simp [applyKw, flagsChanged_DS (ds_comp h).1]

theorem applyKwList_DS : ∀ cs : List (Key × Node), dictShapedList cs = true → applyKwList kwN cs = cs
  | [], _ => rfl
  | (k, c) :: rest, h => by
    have h' : dictShaped c = true ∧ dictShapedList rest = true := by simpa [dictShapedList] using h
    simp [applyKwList, applyKw_DS h'.1, applyKwList_DS rest h'.2]

theorem propagate_DS {n : Node} (h : dictShaped n = true) : propagate n = n := by
  cases n with
  | leaf f k => rfl
  | comp f k cs =>
    obtain ⟨hf, hk, _, hcs⟩ := ds_comp h
    subst hk
    simp [propagate, childKw_DS hf, applyKwList_DS cs hcs]

theorem setFlags_flags (n : Node) : n.setFlags n.flags = n := by cases n <;> rfl

theorem adopt_DS {pf : Flags} {v : Node} (hpf : flagsDS pf = true) (hv : dictShaped v = true) :
    adopt pf .dict v = v := by
  simp only [adopt, inheritInto, childKw_DS hpf, updFlags_DS (ds_flags hv), setFlags_flags, propagate_DS hv]

theorem eDel_DS {f : Flags} {cs} (h : flagsDS f = true) : eDel (.comp f .dict cs) = false := by
  rw [flagsDS_iff] at h
  simp [eDel, Node.flags, h.1, h.2.2.2.1, Node.defaultDel, defaultDelete, Tables.defaultDeleteDict]

theorem eNew_DS {f : Flags} (h : flagsDS f = true) : eNew f = true := by
  rw [flagsDS_iff] at h
  simp [eNew, h.2.2.2.2.1, Tables.defaultAllowNew]

mutual
theorem allNew_DS : ∀ n : Node, dictShaped n = true → allNew n = true
  | .leaf f k, h => by obtain ⟨v, _, hf⟩ := ds_leaf h; simp [allNew, eNew_DS hf]
  | .comp f k cs, h => by
    obtain ⟨hf, _, _, hcs⟩ := ds_comp h
    simp [allNew, eNew_DS hf, allNewList_DS cs hcs]
theorem allNewList_DS : ∀ cs : List (Key × Node), dictShapedList cs = true → allNewList cs = true
  | [], _ => rfl
  | (k, c) :: rest, h => by
    have h' : dictShaped c = true ∧ dictShapedList rest = true := by simpa [dictShapedList] using h
    simp [allNewList, allNew_DS c h'.1, allNewList_DS rest h'.2]
end

theorem replaceOtherFlags_DS {w l : Flags} (hw : flagsDS w = true) (hl : flagsDS l = true) :
    flagsDS (replaceOtherFlags w l) = true := by
  rw [flagsDS_iff] at hw hl ⊢
  obtain ⟨h1, h2, h3, h4, h5, h6⟩ := hw
  simp [replaceOtherFlags, mergeSafe, h1, h2, h3, h4, h5, h6, hl.2.2.1]

theorem replaceSelfFlags_DS {s o : Flags} (hs : flagsDS s = true) (ho : flagsDS o = true) :
    flagsDS (replaceSelfFlags s o) = true := by
  rw [flagsDS_iff] at hs ho ⊢
  obtain ⟨h1, h2, h3, h4, h5, h6⟩ := hs
  simp [replaceSelfFlags, mergeSafe, h1, h2, h3, h4, h5, h6, ho.1, ho.2.2.1]

/-! ### paths -/

/-- the leaf stored at a path, if the path exists and is a leaf -/
def leafAt (n : Node) (p : Path) : Option Node :=
  match getNode n p with
  | some (.leaf f k) => some (.leaf f k)
  | _ => none

/-- `some true` = container, `some false` = leaf, `none` = the path does not exist -/
def shapeAt (n : Node) (p : Path) : Option Bool := (getNode n p).map Node.isComp

/-- shape compatibility: a path existing on both sides is a leaf in both or a mapping in both -/
def compatP (a b : Node) : Prop :=
  ∀ p x y, shapeAt a p = some x → shapeAt b p = some y → x = y

/-- the leaf rule lifted to optional leaves: a path present on one side only is kept -/
def pick : Option Node → Option Node → Option Node
  | none, y => y
  | some a, none => some a
  | some a, some b => some (leafRule a b).1

theorem getNode_comp_cons (f : Flags) (k : CompKind) (cs : List (Key × Node)) (key : Key) (rest : Path) :
    getNode (.comp f k cs) (key :: rest) = (match alookup key cs with | none => none | some c => getNode c rest) := rfl

theorem shapeAt_comp_cons (f : Flags) (k : CompKind) (cs : List (Key × Node)) (key : Key) (rest : Path) :
    shapeAt (.comp f k cs) (key :: rest) = (match alookup key cs with | none => none | some c => shapeAt c rest) := by
  simp only [shapeAt, getNode_comp_cons]
  cases alookup key cs <;> rfl

theorem leafAt_comp_cons (f : Flags) (k : CompKind) (cs : List (Key × Node)) (key : Key) (rest : Path) :
    leafAt (.comp f k cs) (key :: rest) = (match alookup key cs with | none => none | some c => leafAt c rest) := by
  simp only [leafAt, getNode_comp_cons]
  cases alookup key cs <;> rfl

theorem shapeAt_leaf_cons (f : Flags) (k : LeafKind) (key : Key) (rest : Path) :
    shapeAt (.leaf f k) (key :: rest) = none := rfl
theorem leafAt_leaf_cons (f : Flags) (k : LeafKind) (key : Key) (rest : Path) :
    leafAt (.leaf f k) (key :: rest) = none := rfl
theorem shapeAt_nil (n : Node) : shapeAt n [] = some n.isComp := by cases n <;> rfl
theorem leafAt_leaf_nil (f : Flags) (k : LeafKind) : leafAt (.leaf f k) [] = some (.leaf f k) := rfl
theorem leafAt_comp_nil (f : Flags) (k : CompKind) (cs) : leafAt (.comp f k cs) [] = none := rfl

theorem compatP_child {fa ka ca fb kb cb} (h : compatP (.comp fa ka ca) (.comp fb kb cb)) {k : Key} {c v : Node}
    (h1 : alookup k ca = some c) (h2 : alookup k cb = some v) : compatP c v := by
  intro p x y hx hy
  apply h (k :: p) x y
  · rw [shapeAt_comp_cons, h1]; exact hx
  · rw [shapeAt_comp_cons, h2]; exact hy

/-! ### what one merge guarantees -/

/-- postcondition of `a ⊕ b = r` on dict-shaped trees -/
def Post (a b r : Node) : Prop :=
  dictShaped r = true ∧
  (∀ p, shapeAt r p = (shapeAt a p).or (shapeAt b p)) ∧
  (∀ p, leafAt r p = pick (leafAt a p) (leafAt b p))

/-- pointwise description of the children after the key loop -/
def LoopPt (rec : Node → Node → Except Err (Node × Bool)) (oa ob or : Option Node) : Prop :=
  match oa, ob with
  | x, none => or = x
  | none, some v => or = some v
  | some c, some v => ∃ nw same, rec c v = .ok (nw, same) ∧ or = some nw ∧ Post c v nw

theorem mergeStep_DS {rec : Node → Node → Except Err (Node × Bool)} {sf : Flags} (hsf : flagsDS sf = true)
    {acc : List (Key × Node)} (hacc : dictShapedList acc = true) {k : Key} {v : Node} (hv : dictShaped v = true)
    (hrec : ∀ c, alookup k acc = some c →
      ∃ nw same, rec c v = .ok (nw, same) ∧ Post c v nw ∧ c.isComp = v.isComp) :
    ∃ x, mergeStep rec sf .dict [] acc (k, v) = .ok (aset k x acc) ∧ dictShaped x = true ∧
      LoopPt rec (alookup k acc) (some v) (some x) := by
  simp only [mergeStep, getChild, CompKind.isDictFam, if_true]
  cases hl : alookup k acc with
  | none =>
    refine ⟨v, ?_, hv, rfl⟩
    simp only [excBelow_nil, reqNew_allNew [] [] v (allNew_DS v hv), setChild, CompKind.isDictFam, if_true, adopt_DS hsf hv]
  | some c =>
    obtain ⟨nw, same, hr, hpost, hshape⟩ := hrec c hl
    have hnw : dictShaped nw = true := hpost.1
    have hdel : v.flags.del = none := ((flagsDS_iff _).1 (ds_flags hv)).1
    have hdel' : nw.flags.del = none := ((flagsDS_iff _).1 (ds_flags hnw)).1
    refine ⟨nw, ?_, hnw, nw, same, hr, rfl, hpost⟩
    simp only [hr, hdel, hdel', reqNewBelow_allNew (allNew_DS nw hnw), setChild, replaceChild,
      CompKind.isDictFam, if_true, adopt_DS hsf hnw]
    cases c.isComp <;> cases same <;> simp

theorem LoopPt_frame {rec : Node → Node → Except Err (Node × Bool)} {oa or : Option Node}
    (h : LoopPt rec oa none or) : or = oa := by
  cases oa <;> exact h

theorem mergeLoop_DS {rec : Node → Node → Except Err (Node × Bool)} {sf : Flags} (hsf : flagsDS sf = true) :
    ∀ (ocs acc : List (Key × Node)), dictShapedList acc = true → keysNodup acc = true →
      dictShapedList ocs = true → keysNodup ocs = true →
      (∀ k c v, alookup k acc = some c → alookup k ocs = some v →
        ∃ nw same, rec c v = .ok (nw, same) ∧ Post c v nw ∧ c.isComp = v.isComp) →
      ∃ acc', mergeLoop rec sf .dict [] acc ocs = .ok acc' ∧ dictShapedList acc' = true ∧ keysNodup acc' = true ∧
        ∀ k, LoopPt rec (alookup k acc) (alookup k ocs) (alookup k acc')
  | [], acc, hacc, hnd, _, _, _ => by
    refine ⟨acc, rfl, hacc, hnd, ?_⟩
    intro k
    simp only [alookup]
    cases alookup k acc <;> rfl
  | (k, v) :: rest, acc, hacc, hnd, ho, hond, hrec => by
    have ho' : dictShaped v = true ∧ dictShapedList rest = true := by simpa [dictShapedList] using ho
    have hond' : (akeys rest).contains k = false ∧ keysNodup rest = true := by simpa [keysNodup] using hond
    have hkrest : alookup k rest = none := (alookup_none_iff k rest).2 hond'.1
    obtain ⟨x, hstep, hx, hpt⟩ := mergeStep_DS hsf hacc (k := k) ho'.1
      (fun c hc => hrec k c v hc (by simp [alookup]))
    obtain ⟨acc', hloop, h1, h2, h3⟩ := mergeLoop_DS hsf rest (aset k x acc) (aset_ds k x hx acc hacc)
      (keysNodup_aset k x acc hnd) ho'.2 hond'.2 (by
        intro k' c' v' hc' hv'
        have hne : ¬ k = k' := by intro e; subst e; rw [hkrest] at hv'; cases hv'
        rw [alookup_aset] at hc'
        simp only [hne, if_false] at hc'
        exact hrec k' c' v' hc' (by simp [alookup, hne, hv']))
    refine ⟨acc', by simp only [mergeLoop, hstep, hloop], h1, h2, ?_⟩
    intro k'
    have h3' := h3 k'
    rw [alookup_aset] at h3'
    by_cases hk : k = k'
    · subst hk
      simp only [if_true, hkrest] at h3'
      have e : alookup k acc' = some x := LoopPt_frame h3'
      simp only [alookup, if_true, e]
      exact hpt
    · simp only [hk, if_false] at h3'
      simp only [alookup, hk, if_false]
      exact h3'

/-! ### main induction -/

theorem leafRule_DS {a b : Node} (ha : dictShaped a = true) (hb : dictShaped b = true)
    (hla : a.isComp = false) (hlb : b.isComp = false) : Post a b (leafRule a b).1 := by
  cases a with
  | comp f k cs => cases hla
  | leaf fa ka =>
    cases b with
    | comp f k cs => cases hlb
    | leaf fb kb =>
      obtain ⟨va, rfl, hfa⟩ := ds_leaf ha
      obtain ⟨vb, rfl, hfb⟩ := ds_leaf hb
      have hr : ∃ f v, (leafRule (.leaf fa (.scalar va)) (.leaf fb (.scalar vb))).1 = .leaf f (.scalar v) ∧
          flagsDS f = true := by
        simp only [leafRule]
        split
        · exact ⟨_, va, rfl, replaceOtherFlags_DS hfa hfb⟩
        · exact ⟨_, vb, rfl, replaceOtherFlags_DS hfb hfa⟩
      obtain ⟨f, v, e, hf⟩ := hr
      refine ⟨by rw [e]; simpa [dictShaped] using hf, ?_, ?_⟩
      · intro p
        rw [e]
        cases p with
        | nil => rfl
        | cons k p => rfl
      · intro p
        cases p with
        | nil => rw [leafAt_leaf_nil, leafAt_leaf_nil]; simp only [pick]; rw [e]; rfl
        | cons k p => rw [e]; rfl

/-- flags of a merged container: the tail of `ComposedNode.on_merge_impl` -/
def finishFlags (sf of : Flags) : Flags :=
  if hasPrio of sf true then replaceSelfFlags sf of else replaceOtherFlags sf of

theorem finishFlags_DS {sf of : Flags} (hs : flagsDS sf = true) (ho : flagsDS of = true) :
    flagsDS (finishFlags sf of) = true := by
  simp only [finishFlags]
  split
  · exact replaceSelfFlags_DS hs ho
  · exact replaceOtherFlags_DS hs ho

theorem mergeF_DS : ∀ (fuel : Nat) (a b : Node), dictShaped a = true → dictShaped b = true → compatP a b →
    b.depth < fuel →
    ∃ r same, mergeF fuel a b = .ok (r, same) ∧ Post a b r ∧ r.isComp = a.isComp ∧ a.isComp = b.isComp ∧
      (a.isComp = true → same = true ∧ r.flags = finishFlags a.flags b.flags) := by
  intro fuel
  induction fuel with
  | zero => intro a b _ _ _ h; omega
  | succ fuel ih =>
    intro a b ha hb hc hd
    have hshape : a.isComp = b.isComp := hc [] _ _ (shapeAt_nil a) (shapeAt_nil b)
    cases a with
    | leaf fa ka =>
      have hlb : b.isComp = false := hshape.symm
      refine ⟨(leafRule (.leaf fa ka) b).1, (leafRule (.leaf fa ka) b).2, rfl,
        leafRule_DS ha hb rfl hlb, ?_, hshape, by intro h; cases h⟩
      simp only [leafRule]
      split
      · rfl
      · cases b with
        | leaf fb kb => rfl
        | comp f k cs => cases hlb
    | comp fa ka ca =>
      cases b with
      | leaf fb kb => cases hshape
      | comp fb kb cb =>
        obtain ⟨hfa, hka, hnda, hca⟩ := ds_comp ha
        obtain ⟨hfb, hkb, hndb, hcb⟩ := ds_comp hb
        subst hka; subst hkb
        have hdep : depthList cb < fuel := by simp only [Node.depth] at hd; omega
        obtain ⟨acc', hloop, h1, h2, h3⟩ := mergeLoop_DS (rec := mergeF fuel) hfa cb ca hca hnda hcb hndb (by
          intro k c v hc' hv'
          have hcd := alookup_ds k ca hca c hc'
          have hvd := alookup_ds k cb hcb v hv'
          have hdv := depthList_lookup k cb v hv'
          obtain ⟨nw, same, hr, hpost, _, hsh, _⟩ := ih c v hcd hvd (compatP_child hc hc' hv') (by omega)
          exact ⟨nw, same, hr, hpost, hsh⟩)
        have hff := finishFlags_DS hfa hfb
        have hres : mergeF (fuel + 1) (.comp fa .dict ca) (.comp fb .dict cb) =
            .ok (.comp (finishFlags fa fb) .dict acc', true) := by
          simp only [mergeF, compMerge, eDel_DS hfb, Bool.false_eq_true, if_false, hloop, finishMerge,
            Node.flags, maybePromote, CompKind.sameClass, if_true, finishFlags]
          split
          · rw [propagate_DS (ds_mk_comp (replaceSelfFlags_DS hfa hfb) h2 h1)]
          · rw [propagate_DS (ds_mk_comp (replaceOtherFlags_DS hfa hfb) h2 h1)]
        refine ⟨_, true, hres, ⟨ds_mk_comp hff h2 h1, ?_, ?_⟩, rfl, rfl, fun _ => ⟨rfl, rfl⟩⟩
        · intro p
          cases p with
          | nil => rfl
          | cons k p =>
            simp only [shapeAt_comp_cons]
            have hk := h3 k
            cases hla : alookup k ca with
            | none =>
              cases hlb : alookup k cb with
              | none => simp only [hla, hlb, LoopPt] at hk; rw [hk]; rfl
              | some v => simp only [hla, hlb, LoopPt] at hk; rw [hk]; rfl
            | some c =>
              cases hlb : alookup k cb with
              | none => simp only [hla, hlb, LoopPt] at hk; rw [hk]; simp
              | some v =>
                simp only [hla, hlb, LoopPt] at hk
                obtain ⟨nw, same, _, e, hpost⟩ := hk
                rw [e]; exact hpost.2.1 p
        · intro p
          cases p with
          | nil => rfl
          | cons k p =>
            simp only [leafAt_comp_cons]
            have hk := h3 k
            cases hla : alookup k ca with
            | none =>
              cases hlb : alookup k cb with
              | none => simp only [hla, hlb, LoopPt] at hk; rw [hk]; rfl
              | some v => simp only [hla, hlb, LoopPt] at hk; rw [hk]; simp [pick]
            | some c =>
              cases hlb : alookup k cb with
              | none =>
                simp only [hla, hlb, LoopPt] at hk; rw [hk]
                show leafAt c p = pick (leafAt c p) none
                cases leafAt c p <;> rfl
              | some v =>
                simp only [hla, hlb, LoopPt] at hk
                obtain ⟨nw, same, _, e, hpost⟩ := hk
                rw [e]; exact hpost.2.2 p

/-- shape compatibility is inherited by the merged tree -/
theorem compatP_merged {a b r c : Node} (hab : compatP a b) (hac : compatP a c) (hbc : compatP b c)
    (hs : ∀ p, shapeAt r p = (shapeAt a p).or (shapeAt b p)) : compatP r c := by
  intro p x y hx hy
  rw [hs p] at hx
  cases ha : shapeAt a p with
  | some xa =>
    rw [ha] at hx
    simp at hx
    subst hx
    exact hac p _ _ ha hy
  | none =>
    rw [ha] at hx
    simp at hx
    exact hbc p _ _ hx hy

end AY
