/-
  AY.Lemmas.C07PipeEval — node-wise invariants and the positions the evaluator visits
  (helpers for AY.Props.C07_Pipeline).
-/
import AY.Lemmas.C07PipeOps
import AY.Lemmas.EvalLemmas
set_option linter.unusedVariables false
namespace AY.C07P

/-- a node placed in a tree all of whose nodes satisfy the predicates satisfies them, with its subtree -/
theorem placed_all {p : Flags → Bool} {q : CompKind → Bool} {root m : Node} {path : Path}
    (h : allN p q root = true) (hp : Placed root m path) : allN p q m = true := by
  induction hp with
  | root => exact h
  | child hpar hm ih =>
    rename_i f k cs pa key c
    exact (allL_iff cs).1 ((allN_comp f k cs).1 ih).2.2 (key, c) hm

end AY.C07P
