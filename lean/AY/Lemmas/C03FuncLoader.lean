/-
  AY.Lemmas.C03FuncLoader — the loader on "entry-shaped" documents: mappings of mappings whose
  leaves are scalars (untagged, or tagged with priority / metadata) or function nodes
  `!call:f {..}` / `!bind:f {..}` with scalar arguments (tags on the function node: priority,
  metadata, `!del` / `!merge`; on an argument: priority, metadata).

  * `esBuild env outer r`: closed form of the tree the loader builds (extends `dsBuild`): a function
    node carries `delete = True` unless told otherwise (`FunctionNode.__init__`), hands it down to
    its arguments, and — like every tagged container — writes its priority keyword into everything
    below it; `construct` returns exactly this tree, which is entry-shaped;
  * `rawInfoAt r p`: what a DOCUMENT writes at an entry path: effective priority (priority keyword of
    the outermost tagged ancestor-or-self that has one), value (the scalar, or the target name of a
    function node), user metadata; it agrees with `infoAt` of the constructed tree.
-/
import AY.Lemmas.C03FuncFold
set_option linter.unusedVariables false
set_option linter.unusedSimpArgs false
set_option linter.unnecessarySimpa false
namespace AY.C03F
open AY

/-! ### entry-shaped documents -/

/-- keywords of a function-node tag: priority, metadata, `delete` -/
def kwFN (kw : CtorKw) : Bool := kw.new.isNone && kw.safe.isNone

/-- an argument: a scalar, untagged or tagged with priority / metadata -/
def rawArg : Raw → Bool
  | .scalar t kw _ => kwDS t kw
  | _ => false

def rawArgs : List (Key × Raw) → Bool
  | [] => true
  | (_, r) :: rest => rawArg r && rawArgs rest

mutual
def rawEntShaped : Raw → Bool
  | .scalar t kw v => kwDS t kw && (v.toScalar != .str "")
  | .seq _ _ _ => false
  | .map t kw items =>
    match t with
    | .call f => kwFN kw && (f != "") && rawArgs items
    | .bind f => kwFN kw && (f != "") && rawArgs items
    | _ => kwDS t kw && keysNodup items && rawEntShapedMap items
def rawEntShapedMap : List (Key × Raw) → Bool
  | [] => true
  | (_, r) :: rest => rawEntShaped r && rawEntShapedMap rest
end

/-- an entry-shaped mapping document (the root is a plain mapping) -/
def rawEntDoc : Raw → Bool
  | .map .none kw items => rawEntShaped (.map .none kw items)
  | .map .plain kw items => rawEntShaped (.map .plain kw items)
  | _ => false

theorem kwDS_tag {t : TagKind} {kw : CtorKw} (h : kwDS t kw = true) : t = .none ∨ t = .plain := by
  rcases kwDS_cases h with ⟨h, _⟩ | ⟨h, _⟩
  · exact .inl h
  · exact .inr h

theorem res_map {t kw items} (h : rawEntShaped (.map t kw items) = true) :
    (∃ f, (t = .call f ∨ t = .bind f) ∧ kwFN kw = true ∧ f ≠ "" ∧ rawArgs items = true) ∨
    ((t = .none ∨ t = .plain) ∧ kwDS t kw = true ∧ keysNodup items = true ∧ rawEntShapedMap items = true) := by
  cases t <;> simp only [rawEntShaped, Bool.and_eq_true, bne_iff_ne, ne_eq] at h <;>
    first
    | exact .inl ⟨_, .inl rfl, h.1.1, h.1.2, h.2⟩
    | exact .inl ⟨_, .inr rfl, h.1.1, h.1.2, h.2⟩
    | exact .inr ⟨kwDS_tag h.1.1, h.1.1, h.1.2, h.2⟩

theorem res_lookup (k : Key) : ∀ (items : List (Key × Raw)), rawEntShapedMap items = true →
    ∀ c, alookup k items = some c → rawEntShaped c = true
  | [], _, c, h => by simp [alookup] at h
  | (k', r) :: rest, hp, c, h => by
    have h' : rawEntShaped r = true ∧ rawEntShapedMap rest = true := by simpa [rawEntShapedMap] using hp
    by_cases e : k' = k
    · simp [alookup, e] at h; subst h; exact h'.1
    · simp [alookup, e] at h; exact res_lookup k rest h'.2 c h

/-! ### the constructed tree in closed form -/

/-- flags of a constructed function node -/
def fnFlags (env : Env) (outer : Option Int) (kw : CtorKw) : Flags :=
  { dsFlags env (outer.or kw.prio) kw.md with del := kw.del.or (some Tables.funcCtorDelete) }

/-- an argument below a function node: priority `prio` if the function node (or something above
    it) imposes one, the inherited `delete` `d` -/
def esArg (env : Env) (prio : Option Int) (d : Option Bool) : Raw → Node
  | .scalar _ kw v => .leaf { dsFlags env (prio.or kw.prio) (leafMd kw v) with iDel := d } (.scalar v.toScalar)
  | _ => .leaf (dsFlags env none []) .required

def esArgs (env : Env) (prio : Option Int) (d : Option Bool) : List (Key × Raw) → List (Key × Node)
  | [] => []
  | (k, r) :: rest => (k, esArg env prio d r) :: esArgs env prio d rest

mutual
/-- the tree the loader builds, `outer` = priority imposed by an enclosing tagged container -/
def esBuild (env : Env) (outer : Option Int) : Raw → Node
  | .scalar _ kw v => .leaf (dsFlags env (outer.or kw.prio) (leafMd kw v)) (.scalar v.toScalar)
  | .seq _ _ _ => .leaf (dsFlags env outer []) .required
  | .map t kw items =>
    match t with
    | .call f => .comp (fnFlags env outer kw) (.call f)
        (esArgs env (outer.or kw.prio) (fnDel (fnFlags env outer kw)) items)
    | .bind f => .comp (fnFlags env outer kw) (.bind f)
        (esArgs env (outer.or kw.prio) (fnDel (fnFlags env outer kw)) items)
    | _ => .comp (dsFlags env (outer.or kw.prio) kw.md) .dict (esBuildMap env (outer.or kw.prio) items)
def esBuildMap (env : Env) (outer : Option Int) : List (Key × Raw) → List (Key × Node)
  | [] => []
  | (k, r) :: rest => (k, esBuild env outer r) :: esBuildMap env outer rest
end

theorem esBuild_dict (env : Env) (o : Option Int) {t : TagKind} (ht : t = .none ∨ t = .plain) (kw : CtorKw)
    (items : List (Key × Raw)) :
    esBuild env o (.map t kw items) =
      .comp (dsFlags env (o.or kw.prio) kw.md) .dict (esBuildMap env (o.or kw.prio) items) := by
  rcases ht with rfl | rfl <;> rfl

theorem flagsFN_fnFlags (env : Env) (o : Option Int) {kw : CtorKw} (h : kwFN kw = true) :
    flagsFN (fnFlags env o kw) = true := by
  simp only [kwFN, Bool.and_eq_true, Option.isNone_iff_eq_none] at h
  simp [flagsFN, fnFlags, dsFlags, bareFlags]

theorem argsS_esArgs (env : Env) (p : Option Int) (d : Option Bool) : ∀ {items : List (Key × Raw)},
    rawArgs items = true → argsS d (esArgs env p d items) = true
  | [], _ => rfl
  | (k, r) :: rest, h => by
    have h' : rawArg r = true ∧ rawArgs rest = true := by simpa [rawArgs] using h
    cases r with
    | scalar t kw v => simp [esArgs, esArg, argsS, argS, dsFlags, bareFlags, argsS_esArgs env p d h'.2]
    | seq t kw items => simp [rawArg] at h'
    | map t kw items => simp [rawArg] at h'

theorem akeys_esBuildMap (env : Env) (o : Option Int) : ∀ items : List (Key × Raw),
    akeys (esBuildMap env o items) = akeys items
  | [] => rfl
  | (k, r) :: rest => by simp [esBuildMap, akeys, akeys_esBuildMap env o rest]

theorem alookup_esBuildMap (env : Env) (o : Option Int) (k : Key) : ∀ items : List (Key × Raw),
    alookup k (esBuildMap env o items) = (alookup k items).map (esBuild env o)
  | [] => rfl
  | (k', r) :: rest => by
    by_cases e : k' = k <;> simp [esBuildMap, alookup, e, alookup_esBuildMap env o k rest]

mutual
theorem esBuild_ES (env : Env) : ∀ (o : Option Int) (r : Raw), rawEntShaped r = true →
    entShaped (esBuild env o r) = true
  | o, .scalar t kw v, h => by
    have h' : kwDS t kw = true ∧ v.toScalar ≠ .str "" := by simpa [rawEntShaped] using h
    simp [esBuild, entShaped, flagsDS_dsFlags, h'.2]
  | o, .seq t kw items, h => by simp [rawEntShaped] at h
  | o, .map t kw items, h => by
    rcases res_map h with ⟨f, ht, hkw, hf, hargs⟩ | ⟨ht, _, hnd, hit⟩
    · have hfl := flagsFN_fnFlags env o hkw
      rcases ht with rfl | rfl
      · exact es_mk_func (t := f) rfl hfl hf (argsS_esArgs env _ _ hargs)
      · exact es_mk_func (t := f) rfl hfl hf (argsS_esArgs env _ _ hargs)
    · rw [esBuild_dict env o ht]
      exact es_mk_map (flagsDS_dsFlags _ _ _)
        (by rw [keysNodup_congr _ _ (akeys_esBuildMap env _ items)]; exact hnd)
        (esBuildMap_ES env _ items hit)
theorem esBuildMap_ES (env : Env) : ∀ (o : Option Int) (items : List (Key × Raw)),
    rawEntShapedMap items = true → entShapedList (esBuildMap env o items) = true
  | _, [], _ => rfl
  | o, (k, r) :: rest, h => by
    have h' : rawEntShaped r = true ∧ rawEntShapedMap rest = true := by simpa [rawEntShapedMap] using h
    simp [esBuildMap, entShapedList, esBuild_ES env o r h'.1, esBuildMap_ES env o rest h'.2]
end

theorem setPrioAllList_esArgs (env : Env) (p : Int) (q : Option Int) (d : Option Bool) : ∀ items : List (Key × Raw),
    rawArgs items = true → setPrioAllList p (esArgs env q d items) = esArgs env (some p) d items
  | [], _ => rfl
  | (k, r) :: rest, h => by
    have h' : rawArg r = true ∧ rawArgs rest = true := by simpa [rawArgs] using h
    cases r with
    | scalar t kw v =>
      simp only [esArgs, setPrioAllList, setPrioAllList_esArgs env p q d rest h'.2]
      rfl
    | seq t kw items => simp [rawArg] at h'
    | map t kw items => simp [rawArg] at h'

mutual
/-- `priority = p` written into every node = the same document below an outer priority `p` -/
theorem setPrioAll_esBuild (env : Env) (p : Int) : ∀ (o : Option Int) (r : Raw), rawEntShaped r = true →
    setPrioAll p (esBuild env o r) = esBuild env (some p) r
  | o, .scalar t kw v, _ => rfl
  | o, .seq t kw items, _ => rfl
  | o, .map t kw items, h => by
    rcases res_map h with ⟨f, ht, hkw, hf, hargs⟩ | ⟨ht, _, hnd, hit⟩
    · rcases ht with rfl | rfl
      · simp only [esBuild, setPrioAll, setPrioAllList_esArgs env p _ _ items hargs]; rfl
      · simp only [esBuild, setPrioAll, setPrioAllList_esArgs env p _ _ items hargs]; rfl
    · rw [esBuild_dict env o ht, esBuild_dict env (some p) ht]
      simp only [setPrioAll, setPrioAllList_esBuildMap env p _ items hit]
      rfl
theorem setPrioAllList_esBuildMap (env : Env) (p : Int) : ∀ (o : Option Int) (items : List (Key × Raw)),
    rawEntShapedMap items = true → setPrioAllList p (esBuildMap env o items) = esBuildMap env (some p) items
  | _, [], _ => rfl
  | o, (k, r) :: rest, h => by
    have h' : rawEntShaped r = true ∧ rawEntShapedMap rest = true := by simpa [rawEntShapedMap] using h
    simp only [esBuildMap, setPrioAllList, setPrioAll_esBuild env p o r h'.1, setPrioAllList_esBuildMap env p o rest h'.2]
end

/-- what a plain-mapping constructor with the (optional) keyword `priority = q` and nothing to
    inherit does to an already built child -/
theorem inheritInto_esBuild (env : Env) (q : Option Int) (r : Raw) (h : rawEntShaped r = true) :
    inheritInto q (some kwN) (esBuild env none r) = esBuild env q r := by
  cases q with
  | none =>
    have hd := esBuild_ES env none r h
    simp only [inheritInto, updFlags_FN (es_flagsFN hd), setFlags_flags, propagate_ES hd]
  | some p =>
    have hd := esBuild_ES env (some p) r h
    simp only [inheritInto, setPrioAll_esBuild env p none r h, updFlags_FN (es_flagsFN hd), setFlags_flags, propagate_ES hd]

theorem initChildren_esBuildMap (env : Env) {f : Flags} (hf : flagsDS f = true) (q : Option Int) :
    ∀ items : List (Key × Raw), rawEntShapedMap items = true →
      initChildren f .dict q (esBuildMap env none items) = esBuildMap env q items
  | [], _ => rfl
  | (k, r) :: rest, h => by
    have h' : rawEntShaped r = true ∧ rawEntShapedMap rest = true := by simpa [rawEntShapedMap] using h
    have ih := initChildren_esBuildMap env hf q rest h'.2
    simp only [initChildren, esBuildMap, List.map_cons, childKw_DS hf] at ih ⊢
    rw [inheritInto_esBuild env q r h'.1, ih]

theorem wrapMap_es (env : Env) {t : TagKind} {kw : CtorKw} (items : List (Key × Raw)) (h : kwDS t kw = true)
    (hit : rawEntShapedMap items = true) :
    wrapMap env t kw (esBuildMap env none items) = .ok (esBuild env none (.map t kw items)) := by
  rcases kwDS_cases h with ⟨rfl, rfl⟩ | ⟨rfl, h1, h2, h3⟩
  · simp only [wrapMap, esBuild]
    rw [initChildren_esBuildMap env (f := bareFlags env) rfl none items hit]
    rfl
  · simp only [wrapMap, esBuild, mkFlags_DS env h1 h2 h3]
    rw [initChildren_esBuildMap env (flagsDS_dsFlags _ _ _) kw.prio items hit]
    rfl

/-! ### a function node and its arguments -/

/-- the arguments as `construct_mapping(deep=True)` hands them to `FunctionNode.__init__` -/
def dsArgs (env : Env) : List (Key × Raw) → List (Key × Node)
  | [] => []
  | (k, r) :: rest => (k, dsBuild env none r) :: dsArgs env rest

theorem constructDeepMap_args (env : Env) : ∀ (items : List (Key × Raw)), rawArgs items = true →
    constructDeepMap env items = .ok (dsArgs env items)
  | [], _ => rfl
  | (k, r) :: rest, h => by
    have h' : rawArg r = true ∧ rawArgs rest = true := by simpa [rawArgs] using h
    cases r with
    | scalar t kw v =>
      have hw : constructDeep env (.scalar t kw v) = .ok (dsBuild env none (.scalar t kw v)) := by
        simp only [constructDeep]; exact wrapScalar_ds env v (by simpa [rawArg] using h'.1)
      simp only [constructDeepMap, hw, constructDeepMap_args env rest h'.2, dsArgs]
    | seq t kw items => simp [rawArg] at h'
    | map t kw items => simp [rawArg] at h'

theorem initChildren_args (env : Env) (fl : Flags) (k : CompKind) (q : Option Int) (hfl : flagsFN fl = true)
    (hk : k.isFunc = true) : ∀ (items : List (Key × Raw)), rawArgs items = true →
    initChildren fl k q (dsArgs env items) = esArgs env q (fnDel fl) items
  | [], _ => rfl
  | (key, r) :: rest, h => by
    have h' : rawArg r = true ∧ rawArgs rest = true := by simpa [rawArgs] using h
    have ih := initChildren_args env fl k q hfl hk rest h'.2
    cases r with
    | scalar t kw v =>
      simp only [initChildren, dsArgs, List.map_cons, esArgs] at ih ⊢
      rw [ih]
      congr 1
      cases q <;>
        simp [inheritInto, childKw_FN hfl hk, dsBuild, esArg, setPrioAll, Node.flags, Node.setFlags, propagate,
          updFlags, dsFlags, bareFlags]
    | seq t kw items => simp [rawArg] at h'
    | map t kw items => simp [rawArg] at h'

theorem mkFlags_fn (env : Env) {kw : CtorKw} (h : kwFN kw = true) :
    { mkFlags env kw with del := kw.del.or (some Tables.funcCtorDelete) } = fnFlags env none kw := by
  simp only [kwFN, Bool.and_eq_true, Option.isNone_iff_eq_none] at h
  simp [mkFlags, fnFlags, dsFlags, bareFlags, h.1, h.2]

theorem wrapMap_func (env : Env) (isCall : Bool) (f : String) {kw : CtorKw} (items : List (Key × Raw))
    (hkw : kwFN kw = true) (hf : f ≠ "") (hargs : rawArgs items = true) :
    wrapMap env (if isCall then .call f else .bind f) kw (dsArgs env items) =
      .ok (esBuild env none (.map (if isCall then .call f else .bind f) kw items)) := by
  have hfl := flagsFN_fnFlags env none hkw
  cases isCall with
  | true =>
    simp only [if_true, wrapMap, hf, if_false, mkFlags_fn env hkw, esBuild]
    rw [initChildren_args env _ (.call f) kw.prio hfl rfl items hargs]
    simp
  | false =>
    simp only [Bool.false_eq_true, if_false, wrapMap, hf, mkFlags_fn env hkw, esBuild]
    rw [initChildren_args env _ (.bind f) kw.prio hfl rfl items hargs]
    simp

/-! ### both construction modes return the closed form -/

mutual
theorem constructDeep_es (env : Env) : ∀ (r : Raw), rawEntShaped r = true →
    constructDeep env r = .ok (esBuild env none r)
  | .scalar t kw v, h => by
    simp only [constructDeep]
    exact wrapScalar_ds env v (by simpa [rawEntShaped] using (show _ ∧ _ by simpa [rawEntShaped] using h).1)
  | .seq t kw items, h => by simp [rawEntShaped] at h
  | .map t kw items, h => by
    rcases res_map h with ⟨f, ht, hkw, hf, hargs⟩ | ⟨ht, hkw, _, hit⟩
    · rcases ht with rfl | rfl
      · simp only [constructDeep, constructDeepMap_args env items hargs]
        exact wrapMap_func env true f items hkw hf hargs
      · simp only [constructDeep, constructDeepMap_args env items hargs]
        exact wrapMap_func env false f items hkw hf hargs
    · simp only [constructDeep, constructDeepMap_es env items hit]
      exact wrapMap_es env items hkw hit
theorem constructDeepMap_es (env : Env) : ∀ (items : List (Key × Raw)), rawEntShapedMap items = true →
    constructDeepMap env items = .ok (esBuildMap env none items)
  | [], _ => rfl
  | (k, r) :: rest, h => by
    have h' : rawEntShaped r = true ∧ rawEntShapedMap rest = true := by simpa [rawEntShapedMap] using h
    simp only [constructDeepMap, constructDeep_es env r h'.1, constructDeepMap_es env rest h'.2, esBuildMap]
end

theorem adoptBy_ES {parent : Option (Flags × CompKind)} (hp : ParentDS parent) {n : Node}
    (h : entShaped n = true) : adoptBy parent n = n := by
  cases parent with
  | none => rfl
  | some pr =>
    obtain ⟨pf, pk⟩ := pr
    obtain ⟨h1, h2⟩ := hp pf pk rfl
    subst h2
    exact adopt_ES h1 h

mutual
theorem constructTD_es (env : Env) : ∀ (r : Raw) (parent : Option (Flags × CompKind)),
    rawEntShaped r = true → ParentDS parent → constructTD env parent r = .ok (esBuild env none r)
  | .scalar t kw v, parent, h, hp => by
    have hkw : kwDS t kw = true := (show _ ∧ _ by simpa [rawEntShaped] using h).1
    have hd := esBuild_ES env none _ h
    have hw := wrapScalar_ds env v hkw
    rcases kwDS_cases hkw with ⟨rfl, rfl⟩ | ⟨rfl, _⟩
    · simp only [constructTD]
      have e : Node.leaf (bareFlags env) (.scalar v.toScalar) = esBuild env none (.scalar .none {} v) := by
        simp only [wrapScalar] at hw; injection hw
      rw [e, adoptBy_ES hp hd]
    · simp only [constructTD, hw]
      have e : dsBuild env none (.scalar .plain kw v) = esBuild env none (.scalar .plain kw v) := rfl
      rw [e, adoptBy_ES hp hd]
  | .seq t kw items, parent, h, hp => by simp [rawEntShaped] at h
  | .map t kw items, parent, h, hp => by
    have hd := esBuild_ES env none _ h
    rcases res_map h with ⟨f, ht, hkw, hf, hargs⟩ | ⟨ht, hkw, hnd, hit⟩
    · rcases ht with rfl | rfl
      · simp only [constructTD, constructDeep_es env _ h, adoptBy_ES hp hd]
      · simp only [constructTD, constructDeep_es env _ h, adoptBy_ES hp hd]
    · rcases kwDS_cases hkw with ⟨rfl, rfl⟩ | ⟨rfl, _⟩
      · have he : adoptBy parent (.comp (bareFlags env) .dict []) = .comp (bareFlags env) .dict [] :=
          adoptBy_ES hp (es_mk_map rfl rfl rfl)
        have hm := constructTDMap_es env (bareFlags env) rfl items [] hit hnd (fun _ _ => rfl)
        simp only [constructTD, he, hm, List.nil_append]
        rfl
      · simp only [constructTD, constructDeep_es env _ h, adoptBy_ES hp hd]
theorem constructTDMap_es (env : Env) (pf : Flags) (hpf : flagsDS pf = true) :
    ∀ (items : List (Key × Raw)) (acc : List (Key × Node)), rawEntShapedMap items = true →
    keysNodup items = true → (∀ k, k ∈ akeys items → alookup k acc = none) →
    constructTDMap env pf .dict items acc = .ok (acc ++ esBuildMap env none items)
  | [], acc, _, _, _ => by simp [constructTDMap, esBuildMap]
  | (k, r) :: rest, acc, h, hnd, hfresh => by
    have h' : rawEntShaped r = true ∧ rawEntShapedMap rest = true := by simpa [rawEntShapedMap] using h
    have hnd' : (akeys rest).contains k = false ∧ keysNodup rest = true := by simpa [keysNodup] using hnd
    have h1 := constructTD_es env r (some (pf, .dict)) h'.1 (fun pf' pk' e => by cases e; exact ⟨hpf, rfl⟩)
    have hk : alookup k acc = none := hfresh k (by simp [akeys])
    have hfresh' : ∀ k', k' ∈ akeys rest → alookup k' (aset k (esBuild env none r) acc) = none := by
      intro k' hk'
      rw [aset_of_lookup_none k _ acc hk]
      apply alookup_append_none
      · exact hfresh k' (by simp [akeys, hk'])
      · have : k ≠ k' := by
          intro e; subst e
          have := hnd'.1
          simp at this
          exact this hk'
        simp [alookup, this]
    simp only [constructTDMap, h1, constructTDMap_es env pf hpf rest _ h'.2 hnd'.2 hfresh']
    rw [aset_of_lookup_none k _ acc hk]
    simp [esBuildMap]
end

/-- `yaml.parse` of an entry-shaped document -/
theorem construct_es (env : Env) (r : Raw) (h : rawEntShaped r = true) :
    construct env r = .ok (esBuild env none r) :=
  constructTD_es env r none h (fun _ _ e => by cases e)

end AY.C03F
