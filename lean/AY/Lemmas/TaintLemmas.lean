/-
  AY.Lemmas.TaintLemmas — the counter `unsafeSeen` is a sound and complete witness of "unsafe content
  was consumed" (C07, no laundering).

  * `evalNodeF_seen_mono`: the counter never decreases.
  * `evalNodeF_clean_strict`: a successful evaluation (in any mode) across which the counter did not
    move is *the same computation* as the evaluation under `require_all_safe`: running it with
    `rs = true` from the same state gives the same value and the same final state. Strict mode refuses
    every unsafe node and every tainted memo entry, so such an evaluation visited none and read none.
-/
import AY.Lemmas.EvalLemmas
namespace AY

/-- the counter never decreases -/
theorem evalNodeF_seen_mono (root : Node) (w : World) :
    ∀ (fuel : Nat) (rs : Bool) (n : Node) (path : Path) (st : EvSt) (v : Val) (st' : EvSt),
    evalNodeF root w fuel rs n path st = .ok (v, st') → st.unsafeSeen ≤ st'.unsafeSeen
  | 0, rs, n, path, st, v, st', h => by simp [evalNodeF] at h
  | fuel + 1, rs, n, path, st, v, st', h => by
    obtain ⟨_, hcase⟩ := evalNodeF_ok_inv h
    rcases hcase with ⟨_, _, rfl⟩ | ⟨_, _, st2, himpl, rfl⟩
    · exact le_hit_unsafeSeen n path st
    · obtain ⟨s1, extra, _, hR, rfl, _⟩ :=
        evalImpl_lift' (I := fun _ => True) (R := fun s s' => s.unsafeSeen ≤ s'.unsafeSeen)
          (fun _ => Nat.le_refl _) (fun _ _ _ h1 h2 => Nat.le_trans h1 h2)
          (fun _ _ _ => ⟨trivial, Nat.le_succ _⟩)
          (fun rs' m p s v s' _ _ hr => ⟨trivial, evalNodeF_seen_mono root w fuel rs' m p s v s' hr⟩)
          trivial himpl
      have := le_bump_unsafeSeen n st
      simp only [enter_unsafeSeen] at hR
      simp only [finish_unsafeSeen]
      omega

/-- what the clean-run argument needs of the recursive evaluator -/
structure CleanRec (rec : Rec) : Prop where
  mono : ∀ rs m p s v s', rec rs m p s = .ok (v, s') → s.unsafeSeen ≤ s'.unsafeSeen
  clean : ∀ rs m p s v s', rec rs m p s = .ok (v, s') → s'.unsafeSeen = s.unsafeSeen →
    rec true m p s = .ok (v, s')

theorem evalItems_mono {rec : Rec} (hr : CleanRec rec) {rs : Bool} {path : Path}
    {cs : List (Key × Node)} {st st' : EvSt} {items : List (Key × Val)}
    (h : evalItems rec rs path cs st = .ok (items, st')) : st.unsafeSeen ≤ st'.unsafeSeen :=
  (evalItems_lift (I := fun _ => True) (R := fun s s' => s.unsafeSeen ≤ s'.unsafeSeen)
    (fun _ => Nat.le_refl _) (fun _ _ _ h1 h2 => Nat.le_trans h1 h2) cs st items st'
    (fun _ c s v s' _ _ hc => ⟨trivial, hr.mono rs c _ s v s' hc⟩) trivial h).2

theorem evalItems_clean {rec : Rec} (hr : CleanRec rec) {rs : Bool} {path : Path} :
    ∀ (cs : List (Key × Node)) (st : EvSt) (items : List (Key × Val)) (st' : EvSt),
    evalItems rec rs path cs st = .ok (items, st') → st'.unsafeSeen = st.unsafeSeen →
    evalItems rec true path cs st = .ok (items, st')
  | [], st, items, st', h, _ => by
    simpa [evalItems] using h
  | (k, c) :: rest, st, items, st', h, hs => by
    unfold evalItems at h
    split at h
    · cases h
    · rename_i v st1 h1
      split at h
      · cases h
      · rename_i vs st2 h2
        cases h
        have m1 := hr.mono rs c _ st v st1 h1
        have m2 := evalItems_mono hr h2
        have c1 := hr.clean rs c _ st v st1 h1 (by omega)
        have c2 := evalItems_clean hr rest st1 vs st' h2 (by omega)
        simp only [evalItems, c1, c2]

theorem xrefLoop_mono {rec : Rec} (hr : CleanRec rec) {root : Node} {rs : Bool} {self : Path}
    {fuel : Nat} {cur : String} {chain : List String} {st st' : EvSt} {v : Val}
    (h : xrefLoop rec root rs self fuel cur chain st = .ok (v, st')) :
    st.unsafeSeen ≤ st'.unsafeSeen :=
  (xrefLoop_lift (I := fun _ => True) (R := fun s s' => s.unsafeSeen ≤ s'.unsafeSeen)
    (fun _ => Nat.le_refl _) (fun _ _ _ => Nat.le_trans) (fun _ _ _ => ⟨trivial, Nat.le_succ _⟩)
    (fun m tp s v s' _ _ hc => ⟨trivial, hr.mono rs m tp s v s' hc⟩) fuel cur chain st v st' trivial h).2

theorem xrefLoop_clean {rec : Rec} (hr : CleanRec rec) {root : Node} {rs : Bool} {self : Path} :
    ∀ (fuel : Nat) (cur : String) (chain : List String) (st : EvSt) (v : Val) (st' : EvSt),
    xrefLoop rec root rs self fuel cur chain st = .ok (v, st') → st'.unsafeSeen = st.unsafeSeen →
    xrefLoop rec root true self fuel cur chain st = .ok (v, st')
  | 0, cur, chain, st, v, st', h, _ => by simp [xrefLoop] at h
  | fuel + 1, cur, chain, st, v, st', h, hs => by
    unfold xrefLoop at h ⊢
    split at h
    · cases h
    · rename_i tp htp
      cases hg : ctxGetNode root rs tp st with
      | error e => simp [hg] at h
      | ok r =>
        obtain ⟨g, st1⟩ := r
        rw [hg] at h
        -- the lookup did not read a tainted entry, hence it is the strict lookup
        have hstrict : st1 = st ∧ ctxGetNode root true tp st = .ok (g, st) := by
          have hm : st1.unsafeSeen ≤ st'.unsafeSeen := by
            cases g with
            | value v0 =>
              simp only at h
              split at h
              · cases h
              · cases h; exact Nat.le_refl _
            | node n0 =>
              simp only at h
              split at h
              · cases h
              · split at h
                · split at h
                  · split at h
                    · cases h
                    · have := xrefLoop_mono hr h
                      simp only at this; omega
                  · exact xrefLoop_mono hr h
                · exact hr.mono _ _ _ _ _ _ h
          rcases ctxGetNode_ok_inv hg with ⟨v0, rfl, hv, ⟨ht, rfl⟩ | ⟨_, _, rfl⟩⟩ | ⟨n0, rfl, hv, hn, rfl⟩
          · exact ⟨rfl, by simp [ctxGetNode, hv, ht]⟩
          · simp only [seeTaint_unsafeSeen] at hm; omega
          · exact ⟨rfl, by simp [ctxGetNode, hv, hn]⟩
        obtain ⟨rfl, hg'⟩ := hstrict
        rw [hg']
        cases g with
        | value v0 => exact h
        | node n0 =>
          simp only at h ⊢
          split at h
          · cases h
          · rename_i hc
            simp only [hc]
            cases n0 with
            | leaf f lk =>
              cases lk with
              | xref nx =>
                simp only at h ⊢
                split at h
                · split at h
                  · cases h
                  · have := xrefLoop_mono hr h
                    simp only at this; omega
                · rename_i hsafe
                  simp only [hsafe]
                  exact xrefLoop_clean hr fuel _ _ _ v st' h hs
              | _ => exact hr.clean _ _ _ _ _ _ h hs
            | comp f k cs => exact hr.clean _ _ _ _ _ _ h hs

/-- `on_evaluate_impl` across which the counter did not move is the strict `on_evaluate_impl` -/
theorem evalImpl_clean {rec : Rec} (hr : CleanRec rec) {root : Node} {w : World} {rs : Bool} {n : Node}
    {path : Path} {st st' : EvSt} {v : Val}
    (h : evalImpl rec root w rs n path st = .ok (v, st')) (hs : st'.unsafeSeen = st.unsafeSeen) :
    evalImpl rec root w true n path st = .ok (v, st') := by
  have items : ∀ {cs : List (Key × Node)} {its : List (Key × Val)} {st1 : EvSt},
      evalItems rec rs path cs st = .ok (its, st1) → st1.unsafeSeen = st'.unsafeSeen →
      evalItems rec true path cs st = .ok (its, st1) :=
    fun he e => evalItems_clean hr _ st _ _ he (e.trans hs)
  cases n with
  | leaf f lk =>
    cases lk with
    | xref t =>
      simp only [evalImpl] at h ⊢
      exact xrefLoop_clean hr _ _ _ _ _ _ h hs
    | _ => exact h
  | comp f k cs =>
    cases k with
    | call fn => exact h
    | bind fn => exact h
    | dict =>
      simp only [evalImpl] at h ⊢
      cases he : evalItems rec rs path cs st with
      | error e => simp [he] at h
      | ok r =>
        obtain ⟨its, st1⟩ := r
        rw [he] at h
        have e : st1 = st' := by cases h; rfl
        rw [items he (by rw [e])]
        exact h
    | list =>
      simp only [evalImpl] at h ⊢
      cases he : evalItems rec rs path cs st with
      | error e => simp [he] at h
      | ok r =>
        obtain ⟨its, st1⟩ := r
        rw [he] at h
        have e : st1 = st' := by cases h; rfl
        rw [items he (by rw [e])]
        exact h
    | append =>
      simp only [evalImpl] at h ⊢
      cases he : evalItems rec rs path cs st with
      | error e => simp [he] at h
      | ok r =>
        obtain ⟨its, st1⟩ := r
        rw [he] at h
        have e : st1 = st' := by cases h; rfl
        rw [items he (by rw [e])]
        exact h
    | extend =>
      simp only [evalImpl] at h ⊢
      cases he : evalItems rec rs path cs st with
      | error e => simp [he] at h
      | ok r =>
        obtain ⟨its, st1⟩ := r
        rw [he] at h
        have e : st1 = st' := by cases h; rfl
        rw [items he (by rw [e])]
        exact h
    | stream =>
      simp only [evalImpl] at h ⊢
      cases he : evalItems rec rs path cs st with
      | error e => simp [he] at h
      | ok r =>
        obtain ⟨its, st1⟩ := r
        rw [he] at h
        have e : st1 = st' := by cases h; rfl
        rw [items he (by rw [e])]
        exact h
    | path ref =>
      simp only [evalImpl] at h ⊢
      cases he : evalItems rec rs path cs st with
      | error e => simp [he] at h
      | ok r =>
        obtain ⟨its, st1⟩ := r
        rw [he] at h
        have e : st1 = st' := by
          simp only at h
          split at h
          · cases h
          · split at h
            · cases h
            · cases h; rfl
        rw [items he (by rw [e])]
        exact h

/-- A successful evaluation across which the counter did not move is the strict evaluation. -/
theorem evalNodeF_clean_strict (root : Node) (w : World) :
    ∀ (fuel : Nat) (rs : Bool) (n : Node) (path : Path) (st : EvSt) (v : Val) (st' : EvSt),
    evalNodeF root w fuel rs n path st = .ok (v, st') → st'.unsafeSeen = st.unsafeSeen →
    evalNodeF root w fuel true n path st = .ok (v, st')
  | 0, rs, n, path, st, v, st', h, _ => by simp [evalNodeF] at h
  | fuel + 1, rs, n, path, st, v, st', h, hs => by
    have hr : CleanRec (evalNodeF root w fuel) :=
      ⟨fun rs m p s v s' => evalNodeF_seen_mono root w fuel rs m p s v s',
       fun rs m p s v s' => evalNodeF_clean_strict root w fuel rs m p s v s'⟩
    obtain ⟨_, hcase⟩ := evalNodeF_ok_inv h
    have hb := le_bump_unsafeSeen n st
    -- the node is safe, since otherwise the counter moved
    have hsafe : ∀ s2 : EvSt, (bump n st).unsafeSeen ≤ s2.unsafeSeen → s2.unsafeSeen = st.unsafeSeen →
        eSafe n.flags = true := by
      intro s2 h1 h2
      cases hsf : eSafe n.flags with
      | true => rfl
      | false => rw [bump_unsafeSeen, hsf] at h1; simp at h1; omega
    rcases hcase with ⟨hv, _, rfl⟩ | ⟨hnone, hnip, st2, himpl, rfl⟩
    · have h1 : (bump n st).unsafeSeen ≤ (hit n path st).unsafeSeen := by
        rw [hit_unsafeSeen]; omega
      have hsf := hsafe _ h1 hs
      have hnt : path ∉ st.tainted := by
        intro ht
        rw [hit_unsafeSeen, if_pos ht] at hs; omega
      rw [evalNodeF_succ]
      simp [hsf, bump_safe hsf, hv, hnt, hit_untainted hnt]
    · have hm : (enter path (bump n st)).unsafeSeen ≤ st2.unsafeSeen := by
        obtain ⟨s1, extra, _, hR, rfl, _⟩ :=
          evalImpl_lift' (I := fun _ => True) (R := fun s s' => s.unsafeSeen ≤ s'.unsafeSeen)
            (fun _ => Nat.le_refl _) (fun _ _ _ h1 h2 => Nat.le_trans h1 h2)
            (fun _ _ _ => ⟨trivial, Nat.le_succ _⟩)
            (fun rs' m p s v s' _ _ hc => ⟨trivial, hr.mono rs' m p s v s' hc⟩) trivial himpl
        exact hR
      simp only [enter_unsafeSeen] at hm
      simp only [finish_unsafeSeen] at hs
      have hsf := hsafe st2 hm hs
      have hbs : bump n st = st := bump_safe hsf st
      rw [hbs] at himpl hm
      have himpl' := evalImpl_clean hr himpl (by simp only [enter_unsafeSeen]; exact hs)
      rw [evalNodeF_succ]
      simp [hsf, hbs, hnone, hnip, himpl']

end AY
