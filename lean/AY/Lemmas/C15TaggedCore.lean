/-
  AY.Lemmas.C15TaggedCore — trees of mappings up to the order of keys AND up to the flags the merge
  never reads on the older side (`PermC`), for the idempotence clause of property C15.

  `core n` keeps, on every node, the effective priority and the explicit `delete` flag (what
  `has_priority_over` and the remove-this-key test read) and forgets inherited flags, `allow_new`,
  safety, metadata and source.  `PermC a b := PermD (core a) (core b)`: the same data up to the order
  of keys, the same priority and explicit `delete` on every node.

  * the flag bookkeeping (`applyKw`, `propagate`, `adopt`, re-parenting) does not change `core`;
  * `filter_nodes` with a condition that reads priorities only commutes with `core`, is a congruence
    for `PermC` and is idempotent.
-/
import AY.Lemmas.C15TaggedMerge
namespace AY.C15T

/-! ### `core` -/

/-- effective priority and explicit `delete`, nothing else -/
def coreF (f : Flags) : Flags := { prio := some (ePrio f), del := f.del }

mutual
def core : Node → Node
  | .leaf f k => .leaf (coreF f) k
  | .comp f k cs => .comp (coreF f) k (coreList cs)
def coreList : List (Key × Node) → List (Key × Node)
  | [] => []
  | (k, c) :: rest => (k, core c) :: coreList rest
end

theorem ePrio_coreF (f : Flags) : ePrio (coreF f) = ePrio f := by
  simp [coreF, ePrio]

theorem coreF_idem (f : Flags) : coreF (coreF f) = coreF f := by
  simp [coreF, ePrio]

theorem coreF_eq_iff {f g : Flags} : coreF f = coreF g ↔ ePrio f = ePrio g ∧ f.del = g.del := by
  simp only [coreF]
  constructor
  · intro h
    injection h with h1 h2
    exact ⟨by simpa using h1, h2⟩
  · rintro ⟨h1, h2⟩
    rw [h1, h2]

theorem hasPrio_coreF_left (f g : Flags) (e : Bool) : hasPrio (coreF f) g e = hasPrio f g e := by
  simp only [hasPrio, ePrio_coreF]

theorem hasPrio_of_coreF {f f' g g' : Flags} (h : coreF f = coreF f') (h' : coreF g = coreF g') (e : Bool) :
    hasPrio f g e = hasPrio f' g' e := by
  simp only [hasPrio, (coreF_eq_iff.1 h).1, (coreF_eq_iff.1 h').1]

theorem alookup_coreList (k : Key) : ∀ cs : List (Key × Node), alookup k (coreList cs) = (alookup k cs).map core
  | [] => rfl
  | (k', c) :: rest => by
    by_cases h : k' = k <;> simp [coreList, alookup, h, alookup_coreList k rest]

theorem akeys_coreList : ∀ cs : List (Key × Node), akeys (coreList cs) = akeys cs
  | [] => rfl
  | (k, c) :: rest => by simp [coreList, akeys, akeys_coreList rest]

theorem keysNodup_coreList (cs : List (Key × Node)) : keysNodup (coreList cs) = keysNodup cs :=
  keysNodup_congr _ _ (akeys_coreList cs)

theorem isEmpty_coreList (cs : List (Key × Node)) : (coreList cs).isEmpty = cs.isEmpty := by
  cases cs with
  | nil => rfl
  | cons kv rest => obtain ⟨k, c⟩ := kv; rfl

theorem core_flags (n : Node) : (core n).flags = coreF n.flags := by
  cases n <;> rfl

theorem core_isComp (n : Node) : (core n).isComp = n.isComp := by
  cases n <;> rfl

theorem core_children (n : Node) : (core n).children = coreList n.children := by
  cases n <;> rfl

theorem core_truthy (n : Node) : (core n).truthy = n.truthy := by
  cases n with
  | leaf f k => rfl
  | comp f k cs =>
    simp only [core, Node.truthy]
    split
    · rfl
    · rw [isEmpty_coreList]

theorem core_setFlags (n : Node) (g : Flags) : core (n.setFlags g) = (core n).setFlags (coreF g) := by
  cases n <;> rfl

mutual
theorem dictTree_core : ∀ n : Node, dictTree (core n) = dictTree n
  | .leaf f k => rfl
  | .comp f k cs => by simp only [core, dictTree, keysNodup_coreList, dictTreeList_core cs]
theorem dictTreeList_core : ∀ cs : List (Key × Node), dictTreeList (coreList cs) = dictTreeList cs
  | [] => rfl
  | (k, c) :: rest => by simp only [coreList, dictTreeList, dictTree_core c, dictTreeList_core rest]
end

mutual
theorem core_core : ∀ n : Node, core (core n) = core n
  | .leaf f k => by simp only [core, coreF_idem]
  | .comp f k cs => by simp only [core, coreF_idem, coreList_coreList cs]
theorem coreList_coreList : ∀ cs : List (Key × Node), coreList (coreList cs) = coreList cs
  | [] => rfl
  | (k, c) :: rest => by simp only [coreList, core_core c, coreList_coreList rest]
end

/-! ### the flag bookkeeping does not change `core` -/

theorem coreF_updFlags (kw : ChildKw) (f : Flags) : coreF (updFlags kw f) = coreF f := rfl

mutual
theorem core_applyKw : ∀ (kw : ChildKw) (n : Node), core (applyKw kw n) = core n
  | kw, .leaf f k => by simp only [applyKw, core, coreF_updFlags]
  | kw, .comp f k cs => by
    simp only [applyKw]
    split
    · split
      · simp only [core, coreF_updFlags]
      · simp only [core, coreF_updFlags, coreList_applyKwList]
    · rfl
theorem coreList_applyKwList : ∀ (kw : ChildKw) (cs : List (Key × Node)), coreList (applyKwList kw cs) = coreList cs
  | _, [] => rfl
  | kw, (k, c) :: rest => by simp only [applyKwList, coreList, core_applyKw kw c, coreList_applyKwList kw rest]
end

theorem core_propagate (n : Node) : core (propagate n) = core n := by
  cases n with
  | leaf f k => rfl
  | comp f k cs =>
    simp only [propagate]
    split
    · rfl
    · simp only [core, coreList_applyKwList]

theorem core_adopt (pf : Flags) (pk : CompKind) (n : Node) : core (adopt pf pk n) = core n := by
  simp only [adopt, inheritInto]
  split
  · rw [core_propagate, core_propagate, core_setFlags, coreF_updFlags, ← core_flags]
    cases n <;> rfl
  · rw [core_propagate]

theorem coreF_replaceOtherFlags (w l : Flags) : coreF (replaceOtherFlags w l) = coreF w := rfl

theorem coreF_replaceSelfFlags (s o : Flags) : coreF (replaceSelfFlags s o) = coreF o := rfl

theorem coreF_finishFlags (sf of : Flags) :
    coreF (finishFlags sf of) = if hasPrio of sf true then coreF of else coreF sf := by
  simp only [finishFlags]
  split <;> rfl

/-! ### the relation -/

/-- the same data up to the order of keys, the same priority and explicit `delete` on every node -/
def PermC (a b : Node) : Prop := PermD (core a) (core b)

theorem PermC.symm {a b : Node} (h : PermC a b) : PermC b a := PermD.symm h

theorem PermC.refl {n : Node} (h : dictTree n = true) : PermC n n :=
  PermD.refl (by rw [dictTree_core]; exact h)

theorem PermD.trans {a b : Node} (h : PermD a b) : ∀ {c : Node}, PermD b c → PermD a c := by
  refine PermD.ind (motive := fun a b => ∀ {c : Node}, PermD b c → PermD a c) ?_ ?_ h
  · intro f k c hc
    exact hc
  · intro f cs cs' h1 h2 h3 ih c hc
    obtain ⟨_, cs'', rfl, _, h4, h5⟩ := hc.comp_inv
    refine .dict f h1 h4 ?_
    intro k
    have r1 := h3 k
    have r2 := h5 k
    cases hc1 : alookup k cs with
    | none =>
      rw [hc1] at r1
      rw [r1.noneL] at r2
      rw [r2.noneL]
      exact .none
    | some x =>
      rw [hc1] at r1
      obtain ⟨x', hx', _⟩ := r1.someL
      rw [hx'] at r2
      obtain ⟨x'', hx'', hr2⟩ := r2.someL
      rw [hx'']
      exact .some (ih k x x' hc1 hx' hr2)

theorem PermC.trans {a b c : Node} (h : PermC a b) (h' : PermC b c) : PermC a c := PermD.trans h h'

theorem PermD.toPermC {a b : Node} (h : PermD a b) : PermC a b := by
  refine PermD.ind (motive := fun a b => PermC a b) ?_ ?_ h
  · intro f k
    exact PermD.leaf _ k
  · intro f cs cs' h1 h2 h3 ih
    refine PermD.dict _ (by rw [keysNodup_coreList]; exact h1) (by rw [keysNodup_coreList]; exact h2) ?_
    intro k
    rw [alookup_coreList, alookup_coreList]
    have := h3 k
    cases hc : alookup k cs with
    | none => rw [hc] at this; rw [this.noneL]; exact .none
    | some c =>
      rw [hc] at this
      obtain ⟨c', hc', _⟩ := this.someL
      rw [hc']
      exact .some (ih k c c' hc hc')

theorem PermC.dictTree_left {a b : Node} (h : PermC a b) : dictTree a = true := by
  rw [← dictTree_core]; exact PermD.dictTree_left h

theorem PermC.dictTree_right {a b : Node} (h : PermC a b) : dictTree b = true := h.symm.dictTree_left

theorem PermC.coreF_eq {a b : Node} (h : PermC a b) : coreF a.flags = coreF b.flags := by
  have := PermD.flags_eq h
  rw [core_flags, core_flags] at this
  exact this.symm

theorem PermC.isComp_eq {a b : Node} (h : PermC a b) : b.isComp = a.isComp := by
  have := PermD.isComp_eq h
  rwa [core_isComp, core_isComp] at this

theorem PermC.truthy_eq {a b : Node} (h : PermC a b) : b.truthy = a.truthy := by
  have := PermD.truthy_eq h
  rwa [core_truthy, core_truthy] at this

theorem PermC.del_eq {a b : Node} (h : PermC a b) : b.flags.del = a.flags.del :=
  ((coreF_eq_iff.1 h.coreF_eq).2).symm

theorem PermC.hasPrio_left {a b : Node} (h : PermC a b) (g : Flags) (e : Bool) :
    hasPrio b.flags g e = hasPrio a.flags g e :=
  (hasPrio_of_coreF h.coreF_eq rfl e).symm

theorem PermC.hasPrio_right {a b : Node} (h : PermC a b) (g : Flags) (e : Bool) :
    hasPrio g b.flags e = hasPrio g a.flags e :=
  (hasPrio_of_coreF rfl h.coreF_eq e).symm

theorem PermC.children_isEmpty {a b : Node} (h : PermC a b) : b.children.isEmpty = a.children.isEmpty := by
  have := PermD.children_isEmpty h
  rwa [core_children, core_children, isEmpty_coreList, isEmpty_coreList] at this

/-- flag bookkeeping on either side -/
theorem PermC.of_core_eq {a a' b b' : Node} (h : PermC a b) (ha : core a' = core a) (hb : core b' = core b) :
    PermC a' b' := by
  unfold PermC
  rw [ha, hb]
  exact h

theorem PermC.adopt_left {a b : Node} (h : PermC a b) (pf : Flags) : PermC (adopt pf .dict a) b :=
  h.of_core_eq (core_adopt pf .dict a) rfl

theorem PermC.adopt_right {a b : Node} (h : PermC a b) (pf : Flags) : PermC a (adopt pf .dict b) :=
  h.of_core_eq rfl (core_adopt pf .dict b)

theorem PermC.leaf_intro {f f' : Flags} (k : LeafKind) (h : coreF f = coreF f') : PermC (.leaf f k) (.leaf f' k) := by
  unfold PermC
  simp only [core, h]
  exact .leaf _ k

theorem OptRel_map_core {x y : Option Node} (h : OptRel PermC x y) : OptRel PermD (x.map core) (y.map core) := by
  cases h with
  | none => exact .none
  | some hr => exact .some hr

theorem OptRel_of_map_core {x y : Option Node} (h : OptRel PermD (x.map core) (y.map core)) : OptRel PermC x y := by
  cases x with
  | none =>
    cases y with
    | none => exact .none
    | some b => simp only [Option.map] at h; cases h
  | some a =>
    cases y with
    | none => simp only [Option.map] at h; cases h
    | some b =>
      simp only [Option.map] at h
      cases h with
      | some hr => exact .some hr

theorem PermC.dict_intro {f f' : Flags} {cs cs' : List (Key × Node)} (hf : coreF f = coreF f')
    (h1 : keysNodup cs = true) (h2 : keysNodup cs' = true)
    (h3 : ∀ k, OptRel PermC (alookup k cs) (alookup k cs')) : PermC (.comp f .dict cs) (.comp f' .dict cs') := by
  unfold PermC
  simp only [core, hf]
  refine .dict _ (by rw [keysNodup_coreList]; exact h1) (by rw [keysNodup_coreList]; exact h2) ?_
  intro k
  rw [alookup_coreList, alookup_coreList]
  exact OptRel_map_core (h3 k)

theorem _root_.AY.OptRel.flipR {α : Type} {R : α → α → Prop} (hs : ∀ a b, R a b → R b a) {x y : Option α}
    (h : OptRel R x y) : OptRel R y x := by
  cases h with
  | none => exact .none
  | some hr => exact .some (hs _ _ hr)

theorem PermC.dict_inv {f : Flags} {kd : CompKind} {cs : List (Key × Node)} {n' : Node}
    (h : PermC (.comp f kd cs) n') :
    kd = .dict ∧ ∃ f' cs', n' = .comp f' .dict cs' ∧ coreF f = coreF f' ∧ keysNodup cs = true ∧
      keysNodup cs' = true ∧ ∀ k, OptRel PermC (alookup k cs) (alookup k cs') := by
  unfold PermC at h
  cases n' with
  | leaf f' k' =>
    simp only [core] at h
    cases h
  | comp f' kd' cs' =>
    simp only [core] at h
    obtain ⟨rfl, X, hX, g1, g2, g3⟩ := h.comp_inv
    injection hX with e1 e2 e3
    subst e2
    refine ⟨rfl, f', cs', rfl, e1.symm, by rw [← keysNodup_coreList]; exact g1, ?_, ?_⟩
    · rw [← keysNodup_coreList, e3]; exact g2
    · intro k
      have := g3 k
      rw [← e3, alookup_coreList, alookup_coreList] at this
      exact OptRel_of_map_core this

theorem PermC.dict_inv' {f' : Flags} {kd : CompKind} {cs' : List (Key × Node)} {n : Node}
    (h : PermC n (.comp f' kd cs')) :
    kd = .dict ∧ ∃ f cs, n = .comp f .dict cs ∧ coreF f = coreF f' ∧ keysNodup cs = true ∧
      keysNodup cs' = true ∧ ∀ k, OptRel PermC (alookup k cs) (alookup k cs') := by
  obtain ⟨hk, f, cs, e, hf, h1, h2, h3⟩ := h.symm.dict_inv
  refine ⟨hk, f, cs, e, hf.symm, h2, h1, ?_⟩
  intro k
  exact OptRel.flipR (fun _ _ hr => PermC.symm hr) (h3 k)

theorem PermC.leaf_inv {f : Flags} {k : LeafKind} {n' : Node} (h : PermC (.leaf f k) n') :
    ∃ f', n' = .leaf f' k ∧ coreF f = coreF f' := by
  unfold PermC at h
  cases n' with
  | leaf f' k' =>
    simp only [core] at h
    have := h.leaf_inv
    injection this with e1 e2
    subst e2
    exact ⟨f', rfl, e1.symm⟩
  | comp f' kd' cs' =>
    simp only [core] at h
    have := h.leaf_inv
    cases this

theorem PermC.leaf_inv' {f' : Flags} {k : LeafKind} {n : Node} (h : PermC n (.leaf f' k)) :
    ∃ f, n = .leaf f k ∧ coreF f = coreF f' := by
  obtain ⟨f, e, hf⟩ := h.symm.leaf_inv
  exact ⟨f, e, hf.symm⟩

/-- `setFlags` with core-equal flags -/
theorem PermC.setFlags {a b : Node} (h : PermC a b) {g g' : Flags} (hg : coreF g = coreF g') :
    PermC (a.setFlags g) (b.setFlags g') := by
  unfold PermC
  rw [core_setFlags, core_setFlags, hg]
  exact PermD.setFlags h _

theorem PermC.propagate_left {a b : Node} (h : PermC a b) : PermC (propagate a) b :=
  h.of_core_eq (core_propagate a) rfl

theorem PermC.propagate_right {a b : Node} (h : PermC a b) : PermC a (propagate b) :=
  h.of_core_eq rfl (core_propagate b)

/-! ### `filter_nodes` and `core` -/

/-- the keep-or-drop decision and result of `filter_nodes` for a node stored at path `p` -/
def pruneAt (cond : Path → Node → Bool) (p : Path) (c : Node) : Option Node :=
  if cond p c || (c.isComp && !(filterNode cond p c).1.children.isEmpty) then
    some (filterNode cond p c).1
  else none

theorem keptAtP_eq (cond : Path → Node → Bool) (pre : Path) (k : Key) (c : Node) :
    keptAtP cond pre k c = pruneAt cond (pre ++ [k]) c := rfl

/-- a condition that reads the priority of the node only -/
def CoreCond (cond : Path → Node → Bool) : Prop :=
  ∀ p (n n' : Node), coreF n'.flags = coreF n.flags → cond p n' = cond p n

theorem CoreCond.core {cond : Path → Node → Bool} (h : CoreCond cond) (p : Path) (n : Node) :
    cond p (core n) = cond p n :=
  h p n (AY.C15T.core n) (by rw [core_flags, coreF_idem])

theorem CoreCond.flags {cond : Path → Node → Bool} (h : CoreCond cond) (p : Path) (n n' : Node)
    (hf : n'.flags = n.flags) : cond p n' = cond p n := h p n n' (by rw [hf])

theorem maybeKeep_coreCond (o : Node) : CoreCond (maybeKeep o) := by
  intro p n n' h
  simp only [maybeKeep]
  exact hasPrio_of_coreF h rfl false

/-- `filter_nodes` commutes with `core` on trees of mappings with distinct keys -/
theorem core_filterNode {cond : Path → Node → Bool} (hc : CoreCond cond) :
    ∀ (d : Nat) (n : Node), n.depth ≤ d → dictTree n = true → ∀ pre,
      core (filterNode cond pre n).1 = (filterNode cond pre (core n)).1 := by
  intro d
  induction d with
  | zero =>
    intro n hd _ pre
    cases n with
    | leaf f k => rfl
    | comp f k cs => simp [Node.depth] at hd
  | succ d ih =>
    intro n hd ht pre
    cases n with
    | leaf f k => rfl
    | comp f k cs =>
      obtain ⟨rfl, hn, hl⟩ := dictTree_comp ht
      have hdl : depthList cs ≤ d := by simp only [Node.depth] at hd; omega
      simp only [AY.C15T.core]
      rw [c04_filterNode_dict_kept cond pre f .dict cs rfl hn,
        c04_filterNode_dict_kept cond pre (coreF f) .dict (coreList cs) rfl (by rw [keysNodup_coreList]; exact hn)]
      simp only [AY.C15T.core]
      congr 1
      -- the kept children, entry by entry
      have key : ∀ (l : List (Key × Node)), depthList l ≤ d → dictTreeList l = true →
          coreList (keptChildren cond pre l) = keptChildren cond pre (coreList l) := by
        intro l
        induction l with
        | nil => intro _ _; rfl
        | cons kv rest ihl =>
          obtain ⟨name, child⟩ := kv
          intro hdl' hl'
          have hd1 : child.depth ≤ d ∧ depthList rest ≤ d := by simp only [depthList] at hdl'; omega
          have hl1 : dictTree child = true ∧ dictTreeList rest = true := by simpa [dictTreeList] using hl'
          have e1 := ih child hd1.1 hl1.1 (pre ++ [name])
          simp only [keptChildren, coreList]
          rw [← e1, hc.core, core_isComp, core_children, isEmpty_coreList]
          split
          · simp only [coreList, ihl hd1.2 hl1.2]
          · exact ihl hd1.2 hl1.2
      exact key cs hdl hl

theorem core_filterNode' {cond : Path → Node → Bool} (hc : CoreCond cond) {n : Node} (ht : dictTree n = true)
    (pre : Path) : core (filterNode cond pre n).1 = (filterNode cond pre (core n)).1 :=
  core_filterNode hc n.depth n (Nat.le_refl _) ht pre

/-- `filter_nodes` is a congruence for `PermC` -/
theorem PermC.filterNode {cond : Path → Node → Bool} (hc : CoreCond cond) {a b : Node} (h : PermC a b)
    (pre : Path) : PermC (filterNode cond pre a).1 (filterNode cond pre b).1 := by
  unfold PermC
  rw [core_filterNode' hc h.dictTree_left, core_filterNode' hc h.dictTree_right]
  exact (PermD.filterNode cond (fun p n n' hf => hc.flags p n n' hf) h pre).1

theorem PermC.pruneAt {cond : Path → Node → Bool} (hc : CoreCond cond) {a b : Node} (h : PermC a b)
    (p : Path) : OptRel PermC (pruneAt cond p a) (pruneAt cond p b) := by
  have hf := h.filterNode hc p
  simp only [AY.C15T.pruneAt, hc p a b h.coreF_eq.symm, h.isComp_eq, hf.children_isEmpty]
  split
  · exact .some hf
  · exact .none

/-- the trees `filter_nodes` produces stay in the domain -/
theorem dictTree_filterNode {cond : Path → Node → Bool} (hc : CoreCond cond) {n : Node} (ht : dictTree n = true)
    (pre : Path) : dictTree (filterNode cond pre n).1 = true :=
  ((PermD.refl ht).filterNode cond (fun p n n' hf => hc.flags p n n' hf) pre).1.dictTree_left

end AY.C15T
