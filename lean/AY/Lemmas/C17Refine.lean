/-
  AY.Lemmas.C17Refine — lemmas for the refinement part of C17 (Props/C17_Refine.lean):
  every operation of the two-view container model (`Container.step`) does to the builtin storage
  what the plain Python `list` / `dict` of `Spec/Builtin.lean` does, and reports the same outcome.

    §1  attributes, objects, arguments
    §2  list: index arithmetic, `_set`, the shifting loop of `_del`, `insert`, `remove`, `extend`
    §3  dict: the association-list functions against `dget / dput / ddel`
    §4  one step, sequences, construction

  Names live in `AY.C17R`.
-/
import AY.Spec.Builtin
import AY.Lemmas.C17Lemmas
namespace AY
namespace C17R
open Container Builtin

/-! ### 1. attributes, objects, arguments -/

theorem underscore_eq (name : String) : underscore name = isPrivate name := by
  unfold underscore isPrivate
  cases name.toList with
  | nil => rfl
  | cons c cs =>
    by_cases h : c = '_'
    · subst h; simp
    · simp [h]

theorem setattr_eq (name : String) (attrs : List String) : setPlainAttr name attrs = setattr name attrs := by
  unfold setPlainAttr setattr
  simp

theorem eraseStr_eq (name : String) (attrs : List String) : eraseStr name attrs = attrs.erase name := by
  induction attrs with
  | nil => rfl
  | cons a as ih =>
    simp only [eraseStr, List.erase_cons]
    by_cases h : a = name
    · simp [h]
    · simp [h, ih]

/-- the state and the outcome of the model, seen as a builtin -/
def absR (r : CState × Outcome) : Spec × Out := (Builtin.abs r.1, outAbs r.2)

theorem delattr_eq (name : String) (attrs : List String) :
    delPlainAttr name attrs =
      (match delattr name attrs with
       | some a => (a, .ok none)
       | none => (attrs, .exc .attributeError)) := by
  unfold delPlainAttr delattr
  by_cases h : name ∈ attrs
  · simp [h, eraseStr_eq]
  · simp [h]

theorem objOf_toNode (e : Entry) : objOf (toNode e) = objOf e := rfl

theorem objOf_resolveIn (st : List Entry) (v : Val) :
    objOf (resolveIn st v) = argObj (st.map objOf) v := by
  cases v with
  | raw id eqc => rfl
  | ref pos id eqc =>
    simp only [resolveIn, argObj, List.length_map, List.getElem?_map]
    cases st[pos % st.length]? <;> rfl

theorem values_abs (s : CState) : (Builtin.abs s).values = s.storage.map objOf := by
  cases s with
  | dict d attrs => simp [Builtin.abs, Spec.values, CState.storage, List.map_map, Function.comp_def]
  | list l attrs => rfl

theorem mapOp_resolve (st : List Entry) (op : Op Val) :
    mapOp objOf (op.resolve st) = mapOp (argObj (st.map objOf)) op := by
  cases op <;> simp [Op.resolve, mapOp, objOf_resolveIn, resolvePair, List.map_map, Function.comp_def]

/-! ### 2. list -/

theorem validateIdx_strict (len : Nat) (i : Int) :
    validateIdx len true (.int i) =
      (match index? len i with
       | some j => .ok j
       | none => .error .indexError) := by
  unfold validateIdx index?
  by_cases h1 : 0 ≤ i ∧ i < (len : Int)
  · have hc : ((decide (i.natAbs > len) || decide (i = (len : Int))) && true) = false := by
      simp; omega
    have hn : ¬ i < 0 := by omega
    simp only [hc, if_pos h1, if_neg hn, Bool.false_eq_true, if_false]
    congr 1
    omega
  · by_cases h2 : i < 0 ∧ -(len : Int) ≤ i
    · have hc : ((decide (i.natAbs > len) || decide (i = (len : Int))) && true) = false := by
        simp; omega
      simp only [hc, if_neg h1, if_pos h2, if_pos h2.1, Bool.false_eq_true, if_false]
      congr 1
      omega
    · have hc : ((decide (i.natAbs > len) || decide (i = (len : Int))) && true) = true := by
        simp; omega
      simp only [hc, if_neg h1, if_neg h2]
      rfl

theorem index?_lt (len : Nat) (i : Int) (j : Nat) (h : index? len i = some j) : j < len := by
  unfold index? at h
  split at h
  · injection h with h; omega
  · split at h
    · injection h with h; omega
    · cases h

theorem index?_nat (len j : Nat) (h : j < len) : index? len (j : Int) = some j := by
  unfold index?
  have : 0 ≤ (j : Int) ∧ (j : Int) < (len : Int) := by omega
  simp [this]

theorem validateIdx_clamp (len : Nat) (i : Int) : validateIdx len false (.int i) = .ok (clamp len i) := by
  unfold validateIdx clamp
  simp only [Bool.and_false, Bool.false_eq_true, if_false]
  congr 1
  by_cases h : i < 0
  · simp only [if_pos h]
    repeat' split
    all_goals omega
  · simp only [if_neg h]
    repeat' split
    all_goals omega

theorem clamp_le (len : Nat) (i : Int) : clamp len i ≤ len := by
  unfold clamp
  by_cases h : i < 0
  · simp only [if_pos h]
    repeat' split
    all_goals omega
  · simp only [if_neg h]
    repeat' split
    all_goals omega

/-- `_set` at a validated position: the list storage and the outcome (the child map does not matter) -/
theorem listSet_ok (strict : Bool) (k : Key) (v : Entry) (s : LSt) (i : Nat)
    (hv : validateIdx s.items.length strict k = .ok i) :
    (listSet strict k v s).1.items
        = (if i = s.items.length then s.items ++ [toNode v] else s.items.set i (toNode v))
      ∧ (listSet strict k v s).2 = .ok none := by
  have hi := validateIdx_le _ _ _ _ hv
  unfold listSet
  simp only [hv]
  by_cases hlen : i = s.items.length
  · simp [hlen]
  · have hlt : i < s.items.length := by omega
    simp [hlen, pySetItem, hlt]

theorem listSet_err (strict : Bool) (k : Key) (v : Entry) (s : LSt) (x : Exc)
    (hv : validateIdx s.items.length strict k = .error x) :
    listSet strict k v s = (s, .exc x) := by
  unfold listSet
  simp only [hv]

/-- one round of the loop in `_del` -/
theorem shiftStep_ok (j : Nat) (s : LSt) (h1 : 1 ≤ j) (h2 : j < s.items.length) :
    ∃ e, s.items[j]? = some e ∧ (shiftStep j s).1.items = s.items.set (j - 1) (toNode e)
      ∧ (shiftStep j s).2 = .ok none := by
  have hv : validateIdx s.items.length true (.int (j : Int)) = .ok j := by
    rw [validateIdx_strict, index?_nat _ _ h2]
  have hv' : validateIdx s.items.length true (.int ((j : Int) - 1)) = .ok (j - 1) := by
    rw [show ((j : Int) - 1) = ((j - 1 : Nat) : Int) by omega, validateIdx_strict,
      index?_nat _ _ (by omega)]
  refine ⟨s.items[j], List.getElem?_eq_getElem h2, ?_⟩
  have hg : listGet (.int (j : Int)) s = .ok s.items[j] := by
    unfold listGet
    simp only [hv, List.getElem?_eq_getElem h2]
  unfold shiftStep
  simp only [hg]
  have := listSet_ok true (.int ((j : Int) - 1)) s.items[j] s (j - 1) hv'
  have hne : ¬ (j - 1 = s.items.length) := by omega
  simpa [hne] using this

/-- the whole loop `for j in range(i+1, i+1+c): self[j-1] = self[j]`: positions `i … i+c-1`
    receive their right neighbours, nothing else moves, no exception -/
theorem shiftLoop_ok (c : Nat) : ∀ (i : Nat) (s : LSt), i + 1 + c ≤ s.items.length →
    ∃ s', shiftLoop (List.range' (i + 1) c) s = (s', .ok none) ∧ s'.items.length = s.items.length ∧
      ∀ k, (s'.items[k]?).map objOf
        = if i ≤ k ∧ k < i + c then (s.items[k + 1]?).map objOf else (s.items[k]?).map objOf := by
  induction c with
  | zero =>
    intro i s _
    refine ⟨s, rfl, rfl, ?_⟩
    intro k
    have : ¬ (i ≤ k ∧ k < i + 0) := by omega
    rw [if_neg this]
  | succ c ih =>
    intro i s h
    obtain ⟨e, he, hitems, hout⟩ := shiftStep_ok (i + 1) s (by omega) (by omega)
    have hlen1 : (shiftStep (i + 1) s).1.items.length = s.items.length := by
      rw [hitems]; simp
    obtain ⟨s', hloop, hlen', hk⟩ := ih (i + 1) (shiftStep (i + 1) s).1 (by omega)
    refine ⟨s', ?_, by omega, ?_⟩
    · rw [List.range'_succ]
      unfold shiftLoop
      have : shiftStep (i + 1) s = ((shiftStep (i + 1) s).1, .ok none) := by
        rw [← hout]
      rw [this]
      exact hloop
    · intro k
      rw [hk k, hitems]
      simp only [Nat.add_sub_cancel, List.getElem?_set]
      by_cases hk1 : i + 1 ≤ k ∧ k < i + 1 + c
      · have hk2 : i ≤ k ∧ k < i + (c + 1) := by omega
        have hne : ¬ (i = k + 1) := by omega
        simp [hk1, hk2, hne]
      · by_cases hki : k = i
        · subst hki
          have hk2 : k ≤ k ∧ k < k + (c + 1) := by omega
          have hlt : k < s.items.length := by omega
          simp [hk1, hk2, hlt, he, objOf_toNode]
        · have hk2 : ¬ (i ≤ k ∧ k < i + (c + 1)) := by omega
          have hne : ¬ (i = k) := by omega
          simp [hk1, hk2, hne]

/-- `_del` at a valid position is `pop` on the storage -/
theorem listDel_ok (k : Key) (s : LSt) (i : Nat) (hv : validateIdx s.items.length true k = .ok i)
    (hi : i < s.items.length) :
    (listDel k s).1.items.map objOf = (s.items.map objOf).eraseIdx i
      ∧ (listDel k s).2 = .ok s.items[i]? := by
  obtain ⟨s1, hloop, hlen, hk⟩ := shiftLoop_ok (s.items.length - (i + 1)) i s (by omega)
  unfold listDel
  simp only [hv, hloop]
  cases hs1 : s1.items with
  | nil => rw [hs1] at hlen; simp at hlen; omega
  | cons y ys =>
    simp only
    refine ⟨?_, by first | rfl | trivial⟩
    apply List.ext_getElem?
    intro j
    rw [← hs1, List.getElem?_map, List.getElem?_dropLast, List.getElem?_eraseIdx, hlen]
    by_cases hj : j < s.items.length - 1
    · simp only [if_pos hj, hk j, List.getElem?_map]
      by_cases hji : j < i
      · have : ¬ (i ≤ j ∧ j < i + (s.items.length - (i + 1))) := by omega
        simp [this, hji]
      · have : i ≤ j ∧ j < i + (s.items.length - (i + 1)) := by omega
        simp [this, hji]
    · simp only [if_neg hj, Option.map_none]
      by_cases hji : j < i
      · omega
      · simp only [if_neg hji, List.getElem?_map]
        have : s.items[j + 1]? = none := by rw [List.getElem?_eq_none_iff]; omega
        rw [this]; rfl

theorem listDel_err (k : Key) (s : LSt) (x : Exc) (hv : validateIdx s.items.length true k = .error x) :
    listDel k s = (s, .exc x) := by
  unfold listDel
  simp only [hv]

/-- `_del(i)` against `list.pop(i)` -/
theorem listDel_int (i : Int) (s : LSt) (attrs : List String) :
    absR (.list (listDel (.int i) s).1 attrs, (listDel (.int i) s).2)
      = listPop (s.items.map objOf) attrs i := by
  have hv := validateIdx_strict s.items.length i
  unfold listPop
  simp only [List.length_map]
  cases hix : index? s.items.length i with
  | none =>
    rw [hix] at hv
    rw [listDel_err _ _ _ hv]
    rfl
  | some j =>
    rw [hix] at hv
    have hj := index?_lt _ _ _ hix
    obtain ⟨h1, h2⟩ := listDel_ok _ s j hv hj
    simp only [absR, Builtin.abs, h1, h2, List.getElem?_map]
    rw [List.getElem?_eq_getElem hj]
    rfl

theorem validateIdx_nonint (len : Nat) (strict : Bool) (k : Key) (h : ∀ i, k ≠ .int i) :
    validateIdx len strict k = .error .typeError := by
  cases k with
  | int i => exact absurd rfl (h i)
  | str _ => rfl
  | float _ => rfl

theorem insertAt_insertIdx (c : Nat) (n : Entry) (xs : List Entry) (h : c ≤ xs.length) :
    insertAt c n xs = xs.insertIdx c n := by
  induction xs generalizing c with
  | nil =>
    have : c = 0 := by simpa using h
    subst this; rfl
  | cons x xs ih =>
    cases c with
    | zero => rfl
    | succ c =>
      simp only [insertAt, List.insertIdx_succ_cons]
      rw [ih c (by simpa using h)]

/-- `insert`: the storage, and (with the invariant) no exception from the rebuilt child map -/
theorem listInsert_ok (i : Int) (v : Entry) (s : LSt) (h : linv s = true) :
    (listInsert (.int i) v s).1.items = s.items.insertIdx (clamp s.items.length i) (toNode v)
      ∧ (listInsert (.int i) v s).2 = .ok none := by
  rw [linv_iff] at h
  obtain ⟨h1, _⟩ := h
  have hv := validateIdx_clamp s.items.length i
  have hi := clamp_le s.items.length i
  generalize clamp s.items.length i = c at hv hi
  have hreb : rebuildFrom 0 (insertAt c (toNode v) s.items).length
      (aset (Key.int (c : Int)) (toNode v) (s.ch.map (shiftEntry c)))
      = some (renum (insertAt c (toNode v) s.items)) := by
    rw [h1, insert_children c (toNode v) s.items hi, insertAt_eq]
    apply rebuildFrom_eq
    intro j hj
    rw [Nat.zero_add]
    exact insert_lookup c (toNode v) s.items hi j hj
  unfold listInsert
  simp only [hv, hreb]
  exact ⟨insertAt_insertIdx c (toNode v) s.items hi, by first | rfl | trivial⟩

theorem indexOfEq_findIdx (q : Nat) (es : List Entry) :
    indexOfEq q es = (es.map objOf).findIdx? (fun x => x.eqc = q) := by
  induction es with
  | nil => rfl
  | cons e es ih =>
    simp only [indexOfEq, List.map_cons, List.findIdx?_cons]
    by_cases h : e.eqc = q
    · simp [h, objOf]
    · simp only [h, if_false, objOf, decide_false]
      rw [ih]
      cases (es.map objOf).findIdx? (fun x => decide (x.eqc = q)) <;> rfl

theorem indexOfEq_lt (q : Nat) (es : List Entry) (i : Nat) (h : indexOfEq q es = some i) :
    i < es.length := by
  induction es generalizing i with
  | nil => cases h
  | cons e es ih =>
    simp only [indexOfEq] at h
    split at h
    · injection h with h; subst h; simp
    · split at h
      · cases h
      · rename_i j hj
        injection h with h; subst h
        have := ih j hj
        simp only [List.length_cons]; omega

theorem listExtend_items (vs : List Entry) (s : LSt) :
    (listExtend vs s).items = s.items ++ vs.map toNode := by
  induction vs generalizing s with
  | nil => simp [listExtend]
  | cons v vs ih =>
    simp only [listExtend, List.map_cons]
    rw [ih]
    simp [listAppend]

/-! ### 3. dict -/

/-- the storage of a dict, entry by entry, as the builtin sees it -/
def absKV (l : List (Key × Entry)) : List (Key × Obj) := l.map (fun kv => (kv.1, objOf kv.2))

theorem absKV_cons (k : Key) (e : Entry) (l : List (Key × Entry)) :
    absKV ((k, e) :: l) = (k, objOf e) :: absKV l := rfl

theorem dget_absKV (k : Key) (l : List (Key × Entry)) : dget k (absKV l) = (alookup k l).map objOf := by
  induction l with
  | nil => rfl
  | cons hd tl ih =>
    obtain ⟨k', e⟩ := hd
    unfold dget at ih ⊢
    simp only [absKV_cons, List.find?_cons, alookup_cons]
    by_cases h : k' = k
    · simp [h]
    · simp only [h, decide_false, if_false]
      exact ih

theorem dhas_absKV (k : Key) (l : List (Key × Entry)) : dhas k (absKV l) = ahas k l := by
  unfold dhas ahas
  rw [dget_absKV]
  cases alookup k l <;> rfl

theorem ddel_absKV_not_has (k : Key) (l : List (Key × Entry)) (h : ahas k l = false) :
    ddel k (absKV l) = absKV l := by
  induction l with
  | nil => rfl
  | cons hd tl ih =>
    obtain ⟨k', e⟩ := hd
    rw [ahas_cons] at h
    have hne : ¬ k' = k := by
      intro hk; simp [hk] at h
    have ht : ahas k tl = false := by simpa [hne] using h
    unfold ddel at ih ⊢
    simp only [absKV_cons, List.filter_cons, ne_eq, hne, not_false_eq_true, decide_true, if_true]
    rw [ih ht]

theorem ddel_absKV (k : Key) (l : List (Key × Entry)) (hn : nodupKeys l = true) :
    ddel k (absKV l) = absKV (aerase k l) := by
  induction l with
  | nil => rfl
  | cons hd tl ih =>
    obtain ⟨k', e⟩ := hd
    rw [nodupKeys_cons, Bool.and_eq_true] at hn
    by_cases hk : k' = k
    · subst hk
      have ht : ahas k' tl = false := by simpa using hn.1
      have := ddel_absKV_not_has k' tl ht
      unfold ddel at this ⊢
      simp only [absKV_cons, List.filter_cons, ne_eq, not_true_eq_false, decide_false, aerase, if_true]
      simpa using this
    · have := ih hn.2
      unfold ddel at this ⊢
      simp only [absKV_cons, List.filter_cons, ne_eq, hk, not_false_eq_true, decide_true, aerase, if_true,
        if_false]
      rw [this]

theorem map_absKV_not_has (k : Key) (o : Obj) (l : List (Key × Entry)) (h : ahas k l = false) :
    (absKV l).map (fun kv => if kv.1 = k then (k, o) else kv) = absKV l := by
  induction l with
  | nil => rfl
  | cons hd tl ih =>
    obtain ⟨k', e⟩ := hd
    rw [ahas_cons] at h
    have hne : ¬ k' = k := by
      intro hk; simp [hk] at h
    have ht : ahas k tl = false := by simpa [hne] using h
    simp only [absKV_cons, List.map_cons, hne, if_false]
    rw [ih ht]

theorem dput_absKV (k : Key) (e : Entry) (l : List (Key × Entry)) (hn : nodupKeys l = true) :
    dput k (objOf e) (absKV l) = absKV (aset k e l) := by
  unfold dput
  rw [dhas_absKV]
  induction l with
  | nil => rfl
  | cons hd tl ih =>
    obtain ⟨k', e'⟩ := hd
    rw [nodupKeys_cons, Bool.and_eq_true] at hn
    by_cases hk : k' = k
    · subst hk
      have ht : ahas k' tl = false := by simpa using hn.1
      have hc : ahas k' ((k', e') :: tl) = true := by simp [ahas_cons]
      rw [hc]
      simp only [if_true, absKV_cons, List.map_cons, aset]
      rw [map_absKV_not_has k' (objOf e) tl ht]
    · have := ih hn.2
      have hc : ahas k ((k', e') :: tl) = ahas k tl := by simp [ahas_cons, hk]
      rw [hc]
      simp only [absKV_cons, List.map_cons, aset, hk, if_false, List.cons_append]
      by_cases hh : ahas k tl = true
      · simp only [hh, if_true] at this ⊢
        rw [this]
      · have hh' : ahas k tl = false := by simpa using hh
        simp only [hh', Bool.false_eq_true, if_false] at this ⊢
        rw [this]

theorem noValue_outAbs (s : Spec) (o : Outcome) : noValue (s, outAbs o) = (s, outAbs (dropRet o)) := by
  cases o with
  | ok r => cases r <;> rfl
  | exc x => rfl

/-- `_set` with a name that shadows nothing is `d[k] = v` -/
theorem dictSet_abs (k : Key) (v : Entry) (d : DSt) (h : dinv d = true) (hr : isReserved k = false) :
    absKV (dictSet k v d).1.items = dput k (objOf v) (absKV d.items)
      ∧ (dictSet k v d).2 = .ok (some (toNode v)) := by
  rw [dinv_iff] at h
  unfold dictSet
  simp only [hr, Bool.false_eq_true, if_false]
  exact ⟨by rw [← dput_absKV k (toNode v) d.items h.2.1, objOf_toNode], by first | rfl | trivial⟩

/-- `_del` is `d.pop(k)` -/
theorem dictDel_abs (k : Key) (d : DSt) (attrs : List String) (h : dinv d = true) :
    absR (.dict (dictDel k d).1 attrs, (dictDel k d).2) = Builtin.dictPop (absKV d.items) attrs k false := by
  rw [dinv_iff] at h
  obtain ⟨h1, h2, _⟩ := h
  unfold dictDel Builtin.dictPop
  rw [dget_absKV, h1]
  unfold ahas
  cases hl : alookup k d.items with
  | none => rfl
  | some e =>
    simp only [Option.isSome_some, if_true, Option.map_some, absR, Builtin.abs, outAbs]
    rw [ddel_absKV k d.items h2]
    rfl

theorem dictPop_abs (k : Key) (dflt : Bool) (d : DSt) (attrs : List String) (h : dinv d = true) :
    absR (.dict (Container.dictPop k dflt d).1 attrs, (Container.dictPop k dflt d).2)
      = Builtin.dictPop (absKV d.items) attrs k dflt := by
  rw [dinv_iff] at h
  obtain ⟨h1, h2, _⟩ := h
  unfold Container.dictPop Builtin.dictPop
  rw [dget_absKV, h1]
  cases hl : alookup k d.items with
  | none =>
    have hh : ahas k d.items = false := by unfold ahas; rw [hl]; rfl
    cases dflt
    · rfl
    · simp only [hh, Bool.false_eq_true, if_false, if_true, Option.map_none]
      rfl
  | some e =>
    simp only [Option.map_some, absR, Builtin.abs, outAbs]
    rw [ddel_absKV k d.items h2]
    rfl

theorem dictSetdefault_abs (k : Key) (v : Entry) (d : DSt) (attrs : List String) (h : dinv d = true)
    (hr : isReserved k = false) :
    absR (.dict (dictSetdefault k v d).1 attrs, (dictSetdefault k v d).2)
      = (match dget k (absKV d.items) with
         | some x => (.dict (absKV d.items) attrs, .ok (some x))
         | none => (.dict (dput k (objOf v) (absKV d.items)) attrs, .ok (some (objOf v)))) := by
  have h0 := h
  rw [dinv_iff] at h
  obtain ⟨h1, _, _⟩ := h
  unfold dictSetdefault
  rw [dget_absKV, h1]
  unfold ahas
  cases hl : alookup k d.items with
  | none =>
    obtain ⟨ha, hb⟩ := dictSet_abs k v d h0 hr
    simp only [Option.isSome_none, Bool.not_false, if_true, Option.map_none, absR, Builtin.abs]
    rw [hb]
    show (Spec.dict (absKV (dictSet k v d).1.items) attrs, _) = _
    rw [ha]
    rfl
  | some e => rfl

theorem dictRename_abs (o n : Key) (d : DSt) (attrs : List String) (h : dinv d = true) :
    absR (.dict (dictRename o n d).1 attrs, (dictRename o n d).2)
      = (match dget o (absKV d.items) with
         | none => (.dict (absKV d.items) attrs, .exc .valueError)
         | some x =>
           if dhas n (absKV d.items) then (.dict (absKV d.items) attrs, .exc .valueError)
           else (.dict (dput n x (ddel o (absKV d.items))) attrs, .ok (some x))) := by
  rw [dinv_iff] at h
  obtain ⟨h1, h2, _⟩ := h
  unfold dictRename
  rw [dget_absKV, dhas_absKV, h1]
  cases hl : alookup o d.items with
  | none =>
    have hh : ahas o d.items = false := by unfold ahas; rw [hl]; rfl
    simp only [hh, Bool.not_false, if_true, Option.map_none]
    rfl
  | some c =>
    have hh : ahas o d.items = true := by unfold ahas; rw [hl]; rfl
    simp only [hh, Bool.not_true, Bool.false_eq_true, if_false, Option.map_some, if_true]
    by_cases hn : ahas n d.items = true
    · simp only [hn, if_true]
      rfl
    · have hn' : ahas n d.items = false := by simpa using hn
      simp only [hn', Bool.false_eq_true, if_false, absR, Builtin.abs, outAbs]
      rw [ddel_absKV o d.items h2, dput_absKV n c _ (nodupKeys_aerase o d.items h2)]
      rfl

/-- the keys an operation stores under (on a dict) -/
def writtenKeys {β : Type} : Op β → List Key
  | .setItem k _ | .setChild k _ | .setdefault k _ => [k]
  | .setAttr name _ => if isPrivate name then [] else [.str name]
  | .update kvs => kvs.map (·.1)
  | _ => []

/-- No key the operation stores under is the name of a method or attribute of `ConfigDict`. -/
def shadowFree {β : Type} (op : Op β) : Bool := (writtenKeys op).all (fun k => !isReserved k)

theorem dictUpdate_abs (kvs : List (Key × Entry)) (d : DSt) (h : dinv d = true)
    (hr : ∀ kv ∈ kvs, isReserved kv.1 = false) :
    absKV (dictUpdate kvs d).1.items
        = (kvs.map (fun kv => (kv.1, objOf kv.2))).foldl (fun m kv => dput kv.1 kv.2 m) (absKV d.items)
      ∧ (dictUpdate kvs d).2 = .ok none := by
  induction kvs generalizing d with
  | nil => exact ⟨rfl, rfl⟩
  | cons kv rest ih =>
    obtain ⟨k, v⟩ := kv
    have hk : isReserved k = false := hr (k, v) (by simp)
    obtain ⟨ha, hb⟩ := dictSet_abs k v d h hk
    have hd1 := dictSet_inv k v d h
    have := ih (dictSet k v d).1 hd1 (fun kv hkv => hr kv (by simp [hkv]))
    unfold dictUpdate
    have hpair : dictSet k v d = ((dictSet k v d).1, .ok (some (toNode v))) := by rw [← hb]
    rw [hpair]
    simp only [List.map_cons, List.foldl_cons]
    rw [← ha]
    exact this

/-! ### 4. one step, sequences, construction -/

theorem map_insertIdx' {α β : Type} (f : α → β) (xs : List α) (c : Nat) (n : α) :
    (xs.insertIdx c n).map f = (xs.map f).insertIdx c (f n) := by
  induction xs generalizing c with
  | nil => cases c <;> simp
  | cons x xs ih =>
    cases c with
    | zero => simp
    | succ c => simp only [List.insertIdx_succ_cons, List.map_cons, ih c]

/-- the model of `ConfigList` against the builtin `list`, operation by operation -/
theorem stepList_refines (l : LSt) (attrs : List String) (op : Op Entry) (h : linv l = true) :
    absR (stepList l attrs op) = listStep (l.items.map objOf) attrs (mapOp objOf op) := by
  cases op with
  | setItem k v =>
    cases k with
    | int i =>
      have hv := validateIdx_strict l.items.length i
      simp only [stepList, listWith, mapOp, listStep, List.length_map]
      cases hix : index? l.items.length i with
      | none =>
        rw [hix] at hv
        rw [listSet_err _ _ _ _ _ hv]
        rfl
      | some j =>
        rw [hix] at hv
        have hj := index?_lt _ _ _ hix
        obtain ⟨h1, h2⟩ := listSet_ok true (.int i) v l j hv
        have hne : ¬ j = l.items.length := by omega
        simp only [hne, if_false] at h1
        simp only [absR, Builtin.abs, h1, h2, List.map_set, objOf_toNode]
        rfl
    | str s => rfl
    | float r => rfl
  | delItem k =>
    cases k with
    | int i =>
      have := listDel_int i l attrs
      simp only [stepList, mapOp, listStep]
      rw [← this, absR, absR, noValue_outAbs]
    | str s => rfl
    | float r => rfl
  | setAttr name v => simp only [stepList, mapOp, listStep, setattr_eq]; rfl
  | delAttr name =>
    simp only [stepList, mapOp, listStep, delattr_eq]
    cases delattr name attrs <;> rfl
  | setChild k v =>
    cases k with
    | int i =>
      have hv := validateIdx_clamp l.items.length i
      obtain ⟨h1, h2⟩ := listSet_ok false (.int i) v l _ hv
      simp only [stepList, listWith, mapOp, listStep, List.length_map, absR, Builtin.abs, h1, h2]
      split <;> simp [objOf_toNode, outAbs]
    | str s => rfl
    | float r => rfl
  | removeChild k =>
    cases k with
    | int i => exact listDel_int i l attrs
    | str s => rfl
    | float r => rfl
  | renameChild o n => rfl
  | clear => rfl
  | append v => simp [stepList, mapOp, listStep, listAppend, absR, Builtin.abs, objOf_toNode, outAbs]
  | extend vs =>
    simp [stepList, mapOp, listStep, listExtend_items, absR, Builtin.abs, outAbs, Function.comp_def, objOf_toNode]
  | insert k v =>
    cases k with
    | int i =>
      obtain ⟨h1, h2⟩ := listInsert_ok i v l h
      simp only [stepList, listWith, mapOp, listStep, List.length_map, absR, Builtin.abs, h1, h2,
        map_insertIdx', objOf_toNode]
      rfl
    | str s => rfl
    | float r => rfl
  | remove v =>
    simp only [stepList, mapOp, listStep, listRemove]
    rw [indexOfEq_findIdx]
    have he : (objOf v).eqc = v.eqc := rfl
    simp only [he]
    cases hf : (l.items.map objOf).findIdx? (fun x => decide (x.eqc = v.eqc)) with
    | none => rfl
    | some j =>
      have hj : j < l.items.length := indexOfEq_lt v.eqc l.items j (by rw [indexOfEq_findIdx]; exact hf)
      have := listDel_int (j : Int) l attrs
      unfold listPop at this
      simp only [List.length_map, index?_nat _ _ hj] at this
      simp only [absR] at this ⊢
      injection this with ha hb
      rw [ha]
      have : outAbs (dropRet (listDel (Key.int ↑j) l).2) = .ok none := by
        cases hd : (listDel (Key.int ↑j) l).2 with
        | ok r => cases r <;> rfl
        | exc x => rw [hd] at hb; cases hb
      rw [this]
  | pop k d =>
    cases d with
    | true => cases k with
      | none => rfl
      | some k => cases k <;> rfl
    | false =>
      cases k with
      | none => exact listDel_int (-1) l attrs
      | some k =>
        cases k with
        | int i => exact listDel_int i l attrs
        | str s => rfl
        | float r => rfl
  | update kvs => rfl
  | setdefault k v => rfl


theorem abs_dict (d : DSt) (attrs : List String) : Builtin.abs (.dict d attrs) = .dict (absKV d.items) attrs := rfl

/-- `d[k] = v` through `_set`, the returned node dropped -/
theorem dictSet_step (k : Key) (v : Entry) (d : DSt) (attrs : List String) (h : dinv d = true)
    (hr : isReserved k = false) :
    absR (.dict (dictSet k v d).1 attrs, dropRet (dictSet k v d).2)
      = (.dict (dput k (objOf v) (absKV d.items)) attrs, .ok none) := by
  obtain ⟨ha, hb⟩ := dictSet_abs k v d h hr
  simp only [absR, abs_dict, ha, hb]
  rfl

/-- the model of `ConfigDict` against the builtin `dict`, operation by operation; the operation
    must not store under a name that `ConfigDict._set` refuses -/
theorem stepDict_refines (d : DSt) (attrs : List String) (op : Op Entry) (h : dinv d = true)
    (hr : shadowFree op = true) :
    absR (stepDict d attrs op) = dictStep (absKV d.items) attrs (mapOp objOf op) := by
  cases op with
  | setItem k v =>
    have hk : isReserved k = false := by simpa [shadowFree, writtenKeys] using hr
    exact dictSet_step k v d attrs h hk
  | delItem k =>
    have := dictDel_abs k d attrs h
    simp only [stepDict, mapOp, dictStep]
    rw [← this, absR, absR, noValue_outAbs]
  | setAttr name v =>
    simp only [stepDict, mapOp, dictStep, underscore_eq]
    by_cases hp : isPrivate name = true
    · simp only [hp, if_true, setattr_eq]; rfl
    · have hp' : isPrivate name = false := by simpa using hp
      have hk : isReserved (.str name) = false := by simpa [shadowFree, writtenKeys, hp'] using hr
      simp only [hp', Bool.false_eq_true, if_false]
      exact dictSet_step (.str name) v d attrs h hk
  | delAttr name =>
    simp only [stepDict, mapOp, dictStep, underscore_eq]
    by_cases hp : isPrivate name = true
    · simp only [hp, if_true, delattr_eq]
      cases delattr name attrs <;> rfl
    · have hp' : isPrivate name = false := by simpa using hp
      simp only [hp', Bool.false_eq_true, if_false]
      have := dictDel_abs (.str name) d attrs h
      rw [← this, absR, absR, noValue_outAbs]
  | setChild k v =>
    have hk : isReserved k = false := by simpa [shadowFree, writtenKeys] using hr
    exact dictSet_step k v d attrs h hk
  | removeChild k => exact dictDel_abs k d attrs h
  | renameChild o n => exact dictRename_abs o n d attrs h
  | clear => rfl
  | append v => rfl
  | extend vs => rfl
  | insert k v => rfl
  | remove v => rfl
  | pop k dflt =>
    cases k with
    | none => rfl
    | some k => exact dictPop_abs k dflt d attrs h
  | update kvs =>
    have hk : ∀ kv ∈ kvs, isReserved kv.1 = false := by
      intro kv hkv
      simp only [shadowFree, writtenKeys, List.all_map, List.all_eq_true] at hr
      simpa using hr kv hkv
    obtain ⟨ha, hb⟩ := dictUpdate_abs kvs d h hk
    simp only [stepDict, dictWith, mapOp, dictStep, absR, abs_dict, ha, hb]
    rfl
  | setdefault k v =>
    have hk : isReserved k = false := by simpa [shadowFree, writtenKeys] using hr
    exact dictSetdefault_abs k v d attrs h hk

/-- operations on which the model is claimed to behave like the builtin: everything on a list;
    on a dict everything that does not store under a method/attribute name of the class -/
def builtinLike {β : Type} (s : CState) (op : Op β) : Bool :=
  match s with
  | .list _ _ => true
  | .dict _ _ => shadowFree op

theorem stepE_refines (s : CState) (op : Op Entry) (h : inv s = true) (hr : builtinLike s op = true) :
    absR (stepE s op) = specStepO (Builtin.abs s) (mapOp objOf op) := by
  cases s with
  | dict d attrs => exact stepDict_refines d attrs op h hr
  | list l attrs => exact stepList_refines l attrs op h

theorem shadowFree_resolve (st : List Entry) (op : Op Val) : shadowFree (op.resolve st) = shadowFree op := by
  cases op <;> simp [shadowFree, writtenKeys, Op.resolve, resolvePair, List.all_map, Function.comp_def]

theorem builtinLike_resolve (s : CState) (st : List Entry) (op : Op Val) :
    builtinLike s (op.resolve st) = builtinLike s op := by
  cases s with
  | dict d attrs => exact shadowFree_resolve st op
  | list l attrs => rfl

theorem step_refines (s : CState) (op : Op Val) (h : inv s = true) (hr : builtinLike s op = true) :
    absR (step s op) = specStep (Builtin.abs s) op := by
  unfold step specStep
  rw [stepE_refines s _ h (by rw [builtinLike_resolve]; exact hr), mapOp_resolve, values_abs]

/-- the class of the container never changes -/
theorem stepDict_isDict (d : DSt) (attrs : List String) (op : Op Entry) :
    ∃ d' a', (stepDict d attrs op).1 = .dict d' a' := by
  cases op with
  | setAttr name v => simp only [stepDict]; split <;> exact ⟨_, _, rfl⟩
  | delAttr name => simp only [stepDict]; split <;> exact ⟨_, _, rfl⟩
  | pop k dflt => cases k <;> exact ⟨_, _, rfl⟩
  | _ => exact ⟨_, _, rfl⟩

theorem stepList_isList (l : LSt) (attrs : List String) (op : Op Entry) :
    ∃ l' a', (stepList l attrs op).1 = .list l' a' := by
  cases op with
  | pop k dflt => cases k <;> cases dflt <;> exact ⟨_, _, rfl⟩
  | _ => exact ⟨_, _, rfl⟩

theorem builtinLike_step (s : CState) (op : Op Val) (op' : Op Val) :
    builtinLike (step s op).1 op' = builtinLike s op' := by
  cases s with
  | dict d attrs =>
    obtain ⟨d', a', h⟩ := stepDict_isDict d attrs (op.resolve (CState.dict d attrs).storage)
    show builtinLike (stepDict d attrs _).1 op' = _
    rw [h]; rfl
  | list l attrs =>
    obtain ⟨l', a', h⟩ := stepList_isList l attrs (op.resolve (CState.list l attrs).storage)
    show builtinLike (stepList l attrs _).1 op' = _
    rw [h]; rfl

theorem trace_refines (ops : List (Op Val)) (s : CState) (h : inv s = true)
    (hr : ∀ op ∈ ops, builtinLike s op = true) :
    (trace s ops).map absR = specTrace (Builtin.abs s) ops := by
  induction ops generalizing s with
  | nil => rfl
  | cons op ops ih =>
    have h1 := step_refines s op h (hr op (by simp))
    have hi := step_inv s op h
    have hr' : ∀ op' ∈ ops, builtinLike (step s op).1 op' = true := by
      intro op' hop'
      rw [builtinLike_step]
      exact hr op' (by simp [hop'])
    simp only [trace, specTrace, List.map_cons]
    rw [ih _ hi hr', h1]
    have : Builtin.abs (step s op).1 = (specStep (Builtin.abs s) op).1 := by rw [← h1]; rfl
    rw [this]

theorem run_refines (ops : List (Op Val)) (s : CState) (h : inv s = true)
    (hr : ∀ op ∈ ops, builtinLike s op = true) :
    Builtin.abs (run s ops) = specRun (Builtin.abs s) ops := by
  induction ops generalizing s with
  | nil => rfl
  | cons op ops ih =>
    have h1 := step_refines s op h (hr op (by simp))
    have hi := step_inv s op h
    have hr' : ∀ op' ∈ ops, builtinLike (step s op).1 op' = true := by
      intro op' hop'
      rw [builtinLike_step]
      exact hr op' (by simp [hop'])
    simp only [run, specRun]
    rw [ih _ hi hr']
    have : Builtin.abs (step s op).1 = (specStep (Builtin.abs s) op).1 := by rw [← h1]; rfl
    rw [this]

/-! #### construction -/

theorem map_objOf_nodeValues (vs : List Entry) : (nodeValues vs).map objOf = vs.map objOf := by
  induction vs with
  | nil => rfl
  | cons v vs ih => simp only [nodeValues, List.map_cons, ih, objOf_toNode]

theorem abs_initList (values : List Entry) :
    Builtin.abs (initList values) = specInitList (values.map objOf) := by
  simp only [initList, Builtin.abs, specInitList, renum, renumFrom_map_snd, map_objOf_nodeValues]

theorem absKV_nodePairs (l : List (Key × Entry)) : absKV (nodePairs l) = absKV l := by
  induction l with
  | nil => rfl
  | cons hd tl ih =>
    obtain ⟨k, v⟩ := hd
    simp only [nodePairs, absKV_cons, ih, objOf_toNode]

theorem absKV_dictOfPairs (pairs acc : List (Key × Entry)) (h : nodupKeys acc = true) :
    absKV (dictOfPairs acc pairs) = (absKV pairs).foldl (fun m kv => dput kv.1 kv.2 m) (absKV acc) := by
  induction pairs generalizing acc with
  | nil => rfl
  | cons hd tl ih =>
    obtain ⟨k, v⟩ := hd
    simp only [dictOfPairs, absKV_cons, List.foldl_cons]
    rw [ih _ (nodupKeys_aset k v acc h), dput_absKV k v acc h]

theorem abs_initDict (pairs : List (Key × Entry)) :
    Builtin.abs (initDict pairs) = specInitDict (absKV pairs) := by
  simp only [initDict, abs_dict, absKV_nodePairs, specInitDict]
  rw [absKV_dictOfPairs pairs [] rfl]
  rfl

end C17R
end AY
