/-
  AY.Lemmas.C17Lemmas — helper lemmas of property C17 (container consistency).

  1. association lists (`alookup/aset/aerase/ahas`, `nodupKeys`, `allNodesKV`)
  2. `ConfigDict` mutators preserve `dinv`
  3. numbered lists (`renumFrom`) and the `ConfigList` mutators preserve `linv`
  4. `stepE` preserves `inv`
  5. the tree walk
  6. the path round trip
-/
import AY.Model.Container
import AY.Model.Merge
namespace AY
namespace Container

/-! ### 1. association lists -/

section Assoc
variable {α : Type}

theorem alookup_cons (k k' : Key) (v : α) (l : List (Key × α)) :
    alookup k ((k', v) :: l) = if k' = k then some v else alookup k l := rfl

theorem ahas_nil (k : Key) : ahas k ([] : List (Key × α)) = false := rfl

theorem ahas_cons (k k' : Key) (v : α) (l : List (Key × α)) :
    ahas k ((k', v) :: l) = (decide (k' = k) || ahas k l) := by
  unfold ahas
  rw [alookup_cons]
  by_cases h : k' = k <;> simp [h]

theorem alookup_aset (k k' : Key) (v : α) (l : List (Key × α)) :
    alookup k (aset k' v l) = if k' = k then some v else alookup k l := by
  induction l with
  | nil => simp [aset, alookup]
  | cons hd tl ih =>
    obtain ⟨k0, v0⟩ := hd
    by_cases h0 : k0 = k'
    · subst h0
      simp only [aset, ↓reduceIte, alookup_cons]
      by_cases h1 : k0 = k <;> simp [h1]
    · simp only [aset, if_neg h0, alookup_cons, ih]
      by_cases h1 : k0 = k
      · subst h1
        simp [Ne.symm h0]
      · simp [h1]

theorem ahas_aset (k k' : Key) (v : α) (l : List (Key × α)) :
    ahas k (aset k' v l) = (decide (k' = k) || ahas k l) := by
  unfold ahas
  rw [alookup_aset]
  by_cases h : k' = k <;> simp [h]

theorem ahas_aerase_imp (k k' : Key) (l : List (Key × α)) :
    ahas k (aerase k' l) = true → ahas k l = true := by
  induction l with
  | nil => simp [aerase]
  | cons hd tl ih =>
    obtain ⟨k0, v0⟩ := hd
    by_cases h0 : k0 = k'
    · simp only [aerase, if_pos h0, ahas_cons]
      intro h; simp [h]
    · simp only [aerase, if_neg h0, ahas_cons, Bool.or_eq_true, decide_eq_true_eq]
      intro h
      cases h with
      | inl h => exact Or.inl h
      | inr h => exact Or.inr (ih h)

theorem aerase_of_not_has (k : Key) (l : List (Key × α)) (h : ahas k l = false) : aerase k l = l := by
  induction l with
  | nil => rfl
  | cons hd tl ih =>
    obtain ⟨k0, v0⟩ := hd
    rw [ahas_cons] at h
    simp only [Bool.or_eq_false_iff, decide_eq_false_iff_not] at h
    simp only [aerase, if_neg h.1, ih h.2]

theorem aset_of_not_has (k : Key) (v : α) (l : List (Key × α)) (h : ahas k l = false) :
    aset k v l = l ++ [(k, v)] := by
  induction l with
  | nil => rfl
  | cons hd tl ih =>
    obtain ⟨k0, v0⟩ := hd
    rw [ahas_cons] at h
    simp only [Bool.or_eq_false_iff, decide_eq_false_iff_not] at h
    simp only [aset, if_neg h.1, ih h.2, List.cons_append]

theorem nodupKeys_cons (k : Key) (v : α) (l : List (Key × α)) :
    nodupKeys ((k, v) :: l) = (!ahas k l && nodupKeys l) := rfl

theorem nodupKeys_aset (k : Key) (v : α) (l : List (Key × α)) (h : nodupKeys l = true) :
    nodupKeys (aset k v l) = true := by
  induction l with
  | nil => simp [aset, nodupKeys, ahas_nil]
  | cons hd tl ih =>
    obtain ⟨k0, v0⟩ := hd
    rw [nodupKeys_cons] at h
    simp only [Bool.and_eq_true, Bool.not_eq_true'] at h
    by_cases h0 : k0 = k
    · subst h0
      simp only [aset, ↓reduceIte, nodupKeys_cons, h.1, h.2, Bool.not_false, Bool.and_self]
    · simp only [aset, if_neg h0, nodupKeys_cons, ahas_aset, ih h.2, h.1, Bool.and_true,
        Bool.or_false, Bool.not_eq_true', decide_eq_false_iff_not]
      exact fun e => h0 e.symm

theorem nodupKeys_aerase (k : Key) (l : List (Key × α)) (h : nodupKeys l = true) :
    nodupKeys (aerase k l) = true := by
  induction l with
  | nil => rfl
  | cons hd tl ih =>
    obtain ⟨k0, v0⟩ := hd
    rw [nodupKeys_cons] at h
    simp only [Bool.and_eq_true, Bool.not_eq_true'] at h
    by_cases h0 : k0 = k
    · simp only [aerase, if_pos h0, h.2]
    · simp only [aerase, if_neg h0, nodupKeys_cons, ih h.2, Bool.and_true, Bool.not_eq_true']
      cases hh : ahas k0 (aerase k tl) with
      | false => rfl
      | true => rw [ahas_aerase_imp _ _ _ hh] at h; exact absurd h.1 (by simp)

/-- with distinct keys every listed pair is the one found by lookup -/
theorem alookup_of_mem_nodup (k : Key) (v : α) (l : List (Key × α)) (hn : nodupKeys l = true)
    (hm : (k, v) ∈ l) : alookup k l = some v := by
  induction l with
  | nil => cases hm
  | cons hd tl ih =>
    obtain ⟨k0, v0⟩ := hd
    rw [nodupKeys_cons] at hn
    simp only [Bool.and_eq_true, Bool.not_eq_true'] at hn
    rw [alookup_cons]
    cases hm with
    | head => simp
    | tail _ hm =>
      have h1 := ih hn.2 hm
      by_cases h0 : k0 = k
      · subst h0
        have : ahas k0 tl = true := by simp [ahas, h1]
        rw [this] at hn; exact absurd hn.1 (by simp)
      · simp [h0, h1]

end Assoc

theorem allNodesKV_cons (kv : Key × Entry) (l : List (Key × Entry)) :
    allNodesKV (kv :: l) = (kv.2.node && allNodesKV l) := rfl

theorem allNodesKV_aset (k : Key) (n : Entry) (l : List (Key × Entry)) (hn : n.node = true)
    (h : allNodesKV l = true) : allNodesKV (aset k n l) = true := by
  induction l with
  | nil => simp [aset, allNodesKV, hn]
  | cons hd tl ih =>
    obtain ⟨k0, v0⟩ := hd
    rw [allNodesKV_cons] at h
    simp only [Bool.and_eq_true] at h
    by_cases h0 : k0 = k
    · simp only [aset, if_pos h0, allNodesKV_cons, hn, h.2, Bool.and_self]
    · simp only [aset, if_neg h0, allNodesKV_cons, h.1, ih h.2, Bool.and_self]

theorem allNodesKV_aerase (k : Key) (l : List (Key × Entry)) (h : allNodesKV l = true) :
    allNodesKV (aerase k l) = true := by
  induction l with
  | nil => rfl
  | cons hd tl ih =>
    obtain ⟨k0, v0⟩ := hd
    rw [allNodesKV_cons] at h
    simp only [Bool.and_eq_true] at h
    by_cases h0 : k0 = k
    · simp only [aerase, if_pos h0, h.2]
    · simp only [aerase, if_neg h0, allNodesKV_cons, h.1, ih h.2, Bool.and_self]

theorem node_of_alookup (k : Key) (c : Entry) (l : List (Key × Entry)) (h : allNodesKV l = true)
    (hl : alookup k l = some c) : c.node = true := by
  induction l with
  | nil => cases hl
  | cons hd tl ih =>
    obtain ⟨k0, v0⟩ := hd
    rw [allNodesKV_cons] at h
    simp only [Bool.and_eq_true] at h
    rw [alookup_cons] at hl
    by_cases h0 : k0 = k
    · rw [if_pos h0] at hl; cases hl; exact h.1
    · rw [if_neg h0] at hl; exact ih h.2 hl

theorem toNode_node (e : Entry) : (toNode e).node = true := rfl

/-! ### 2. `ConfigDict` -/

theorem dinv_iff (d : DSt) :
    dinv d = true ↔ d.ch = d.items ∧ nodupKeys d.items = true ∧ allNodesKV d.items = true := by
  simp [dinv, Bool.and_eq_true, and_assoc]

theorem dinv_mk (items : List (Key × Entry)) (h1 : nodupKeys items = true) (h2 : allNodesKV items = true) :
    dinv { items := items, ch := items } = true := by
  rw [dinv_iff]; exact ⟨rfl, h1, h2⟩

theorem dictSet_inv (k : Key) (v : Entry) (d : DSt) (h : dinv d = true) : dinv (dictSet k v d).1 = true := by
  rw [dinv_iff] at h
  obtain ⟨h1, h2, h3⟩ := h
  unfold dictSet
  split
  · rw [dinv_iff]; exact ⟨h1, h2, h3⟩
  · simp only [h1]
    exact dinv_mk _ (nodupKeys_aset _ _ _ h2) (allNodesKV_aset _ _ _ (toNode_node v) h3)

theorem dictDel_inv (k : Key) (d : DSt) (h : dinv d = true) : dinv (dictDel k d).1 = true := by
  rw [dinv_iff] at h
  obtain ⟨h1, h2, h3⟩ := h
  unfold dictDel
  simp only [h1]
  split
  · exact dinv_mk _ (nodupKeys_aerase _ _ h2) (allNodesKV_aerase _ _ h3)
  · rename_i hh
    simp only [Bool.not_eq_true] at hh
    rw [aerase_of_not_has _ _ hh]
    exact dinv_mk _ h2 h3

theorem dictRename_inv (o n : Key) (d : DSt) (h : dinv d = true) : dinv (dictRename o n d).1 = true := by
  have h0 := h
  rw [dinv_iff] at h
  obtain ⟨h1, h2, h3⟩ := h
  unfold dictRename
  simp only [h1]
  split
  · exact h0
  · split
    · exact h0
    · split
      · exact h0
      · rename_i c hc
        have hold' : ahas o d.items = true := by simp [ahas, hc]
        simp only [hold', if_true]
        exact dinv_mk _ (nodupKeys_aset _ _ _ (nodupKeys_aerase _ _ h2))
          (allNodesKV_aset _ _ _ (node_of_alookup _ _ _ h3 hc) (allNodesKV_aerase _ _ h3))

theorem dictSetdefault_inv (k : Key) (v : Entry) (d : DSt) (h : dinv d = true) :
    dinv (dictSetdefault k v d).1 = true := by
  unfold dictSetdefault
  split
  · exact dictSet_inv k v d h
  · split <;> exact h

theorem dictPop_inv (k : Key) (b : Bool) (d : DSt) (h : dinv d = true) : dinv (dictPop k b d).1 = true := by
  have h0 := h
  rw [dinv_iff] at h
  obtain ⟨h1, h2, h3⟩ := h
  unfold dictPop
  simp only [h1]
  split
  · rename_i e he
    have : ahas k d.items = true := by simp [ahas, he]
    simp only [this, if_true]
    exact dinv_mk _ (nodupKeys_aerase _ _ h2) (allNodesKV_aerase _ _ h3)
  · rename_i he
    have : ahas k d.items = false := by simp [ahas, he]
    split
    · simp only [this, Bool.false_eq_true, if_false]
      exact dinv_mk _ h2 h3
    · exact h0

theorem dictUpdate_inv (kvs : List (Key × Entry)) (d : DSt) (h : dinv d = true) :
    dinv (dictUpdate kvs d).1 = true := by
  induction kvs generalizing d with
  | nil => exact h
  | cons kv rest ih =>
    obtain ⟨k, v⟩ := kv
    have hs := dictSet_inv k v d h
    unfold dictUpdate
    split
    · rename_i d1 _ heq
      rw [heq] at hs
      exact ih d1 hs
    · rename_i d1 x heq
      rw [heq] at hs
      exact hs

theorem dictClear_inv (d : DSt) : dinv (dictClear d) = true := rfl

/-! ### 3. numbered lists and `ConfigList` -/

section Renum
variable {α : Type}

theorem renumFrom_cons (s : Nat) (x : α) (xs : List α) :
    renumFrom s (x :: xs) = (Key.int s, x) :: renumFrom (s + 1) xs := rfl

theorem keyInt_eq_iff (a b : Nat) : (Key.int (a : Int) = Key.int (b : Int)) ↔ a = b := by
  constructor
  · intro h; injection h with h; omega
  · intro h; rw [h]

theorem renumFrom_append (s : Nat) (a b : List α) :
    renumFrom s (a ++ b) = renumFrom s a ++ renumFrom (s + a.length) b := by
  induction a generalizing s with
  | nil => simp [renumFrom]
  | cons x xs ih =>
    simp only [List.cons_append, renumFrom_cons, ih, List.length_cons]
    rw [show s + 1 + xs.length = s + (xs.length + 1) by omega]

theorem renumFrom_length (s : Nat) (xs : List α) : (renumFrom s xs).length = xs.length := by
  induction xs generalizing s with
  | nil => rfl
  | cons x xs ih => simp [renumFrom_cons, ih]

theorem renumFrom_map_snd (s : Nat) (xs : List α) : (renumFrom s xs).map (·.2) = xs := by
  induction xs generalizing s with
  | nil => rfl
  | cons x xs ih => simp [renumFrom_cons, ih]

theorem alookup_renumFrom (j s : Nat) (xs : List α) :
    alookup (Key.int (j : Int)) (renumFrom s xs) = if s ≤ j then xs[j - s]? else none := by
  induction xs generalizing s with
  | nil => simp [renumFrom, alookup]
  | cons x xs ih =>
    rw [renumFrom_cons, alookup_cons, ih]
    by_cases h : s = j
    · subst h; simp
    · have h' : ¬ (Key.int (s : Int) = Key.int (j : Int)) := by rw [keyInt_eq_iff]; exact h
      rw [if_neg h']
      by_cases h2 : s + 1 ≤ j
      · have h3 : s ≤ j := by omega
        rw [if_pos h2, if_pos h3]
        rw [show j - s = (j - (s + 1)) + 1 by omega]
        simp
      · have h3 : ¬ s ≤ j := by omega
        rw [if_neg h2, if_neg h3]

theorem ahas_renumFrom (j s : Nat) (xs : List α) :
    ahas (Key.int (j : Int)) (renumFrom s xs) = decide (s ≤ j ∧ j < s + xs.length) := by
  unfold ahas
  rw [alookup_renumFrom]
  by_cases h : s ≤ j
  · rw [if_pos h]
    by_cases h2 : j < s + xs.length
    · have : j - s < xs.length := by omega
      simp [h, h2, this]
    · have : xs.length ≤ j - s := by omega
      simp [h2, this]
  · simp [h]

theorem aset_renumFrom_end (s : Nat) (xs : List α) (n : α) :
    aset (Key.int ((s + xs.length : Nat) : Int)) n (renumFrom s xs) = renumFrom s (xs ++ [n]) := by
  rw [aset_of_not_has, renumFrom_append]
  · rfl
  · rw [ahas_renumFrom]; simp

theorem aset_renumFrom_set (s i : Nat) (xs : List α) (n : α) (h : i < xs.length) :
    aset (Key.int ((s + i : Nat) : Int)) n (renumFrom s xs) = renumFrom s (xs.set i n) := by
  induction xs generalizing s i with
  | nil => cases h
  | cons x xs ih =>
    cases i with
    | zero => simp [renumFrom_cons, aset]
    | succ i =>
      have h' : ¬ (Key.int (s : Int) = Key.int ((s + (i + 1) : Nat) : Int)) := by
        rw [keyInt_eq_iff]; omega
      simp only [renumFrom_cons, aset, if_neg h', List.set_cons_succ]
      rw [show s + (i + 1) = (s + 1) + i by omega, ih (s + 1) i (by simpa using h)]

theorem aerase_renumFrom_last (s : Nat) (xs : List α) (h : xs ≠ []) :
    aerase (Key.int ((s : Int) + (xs.length : Int) - 1)) (renumFrom s xs) = renumFrom s xs.dropLast := by
  induction xs generalizing s with
  | nil => exact absurd rfl h
  | cons x xs ih =>
    cases xs with
    | nil =>
      have : (s : Int) + (([x] : List α).length : Int) - 1 = (s : Int) := by simp
      rw [this]
      simp [renumFrom, aerase]
    | cons y ys =>
      have hne : ¬ (Key.int (s : Int) = Key.int ((s : Int) + ((x :: y :: ys).length : Int) - 1)) := by
        intro hh; injection hh with hh; simp only [List.length_cons] at hh; omega
      have hk : (s : Int) + ((x :: y :: ys).length : Int) - 1 = ((s + 1 : Nat) : Int) + ((y :: ys).length : Int) - 1 := by
        simp only [List.length_cons]; omega
      have e := ih (s + 1) (List.cons_ne_nil y ys)
      rw [← hk] at e
      rw [renumFrom_cons, aerase, if_neg hne, e, List.dropLast_cons_cons]
      rfl

theorem aset_renum_end (xs : List α) (n : α) :
    aset (Key.int (xs.length : Int)) n (renum xs) = renum (xs ++ [n]) := by
  have := aset_renumFrom_end 0 xs n
  simpa [renum] using this

theorem aset_renum_set (i : Nat) (xs : List α) (n : α) (h : i < xs.length) :
    aset (Key.int (i : Int)) n (renum xs) = renum (xs.set i n) := by
  have := aset_renumFrom_set 0 i xs n h
  simpa [renum] using this

theorem aerase_renum_last (xs : List α) (h : xs ≠ []) :
    aerase (Key.int ((xs.length : Int) - 1)) (renum xs) = renum xs.dropLast := by
  have := aerase_renumFrom_last 0 xs h
  simpa [renum] using this

end Renum

theorem allNodes_cons (e : Entry) (es : List Entry) : allNodes (e :: es) = (e.node && allNodes es) := rfl

theorem allNodes_append (a b : List Entry) : allNodes (a ++ b) = (allNodes a && allNodes b) := by
  induction a with
  | nil => simp [allNodes]
  | cons x xs ih => simp [allNodes_cons, ih, Bool.and_assoc]

theorem allNodes_set (xs : List Entry) (i : Nat) (n : Entry) (hn : n.node = true) (h : allNodes xs = true) :
    allNodes (xs.set i n) = true := by
  induction xs generalizing i with
  | nil => simp [allNodes]
  | cons x xs ih =>
    rw [allNodes_cons] at h
    simp only [Bool.and_eq_true] at h
    cases i with
    | zero => simp [allNodes_cons, hn, h.2]
    | succ i => simp [allNodes_cons, h.1, ih i h.2]

theorem allNodes_dropLast (xs : List Entry) (h : allNodes xs = true) : allNodes xs.dropLast = true := by
  induction xs with
  | nil => rfl
  | cons x xs ih =>
    rw [allNodes_cons] at h
    simp only [Bool.and_eq_true] at h
    cases xs with
    | nil => rfl
    | cons y ys => rw [List.dropLast_cons_cons, allNodes_cons, h.1, ih h.2]; rfl

theorem allNodes_insertAt (i : Nat) (n : Entry) (xs : List Entry) (hn : n.node = true)
    (h : allNodes xs = true) : allNodes (insertAt i n xs) = true := by
  induction xs generalizing i with
  | nil => cases i <;> simp [insertAt, allNodes, hn]
  | cons x xs ih =>
    rw [allNodes_cons] at h
    simp only [Bool.and_eq_true] at h
    cases i with
    | zero => simp [insertAt, allNodes_cons, hn, h.1, h.2]
    | succ i => simp [insertAt, allNodes_cons, h.1, ih i h.2]

theorem node_of_getElem? (xs : List Entry) (i : Nat) (e : Entry) (h : allNodes xs = true)
    (he : xs[i]? = some e) : e.node = true := by
  induction xs generalizing i with
  | nil => simp at he
  | cons x xs ih =>
    rw [allNodes_cons] at h
    simp only [Bool.and_eq_true] at h
    cases i with
    | zero => simp at he; rw [← he]; exact h.1
    | succ i => simp at he; exact ih i h.2 he

theorem validateIdx_le (len : Nat) (strict : Bool) (k : Key) (i : Nat)
    (h : validateIdx len strict k = .ok i) : i ≤ len := by
  unfold validateIdx at h
  split at h
  · split at h
    · cases h
    · injection h with h; rw [← h]; exact Nat.min_le_left _ _
  · cases h

/-- the model's `_validate_index` is the one of `AY.Model.Flags` with the exception class added -/
theorem validateIdx_toOption (len : Nat) (strict : Bool) (k : Key) :
    validateIndex len strict k = (match validateIdx len strict k with | .ok i => some i | .error _ => none) := by
  cases k with
  | int i => simp only [validateIndex, validateIdx]; split <;> rfl
  | str s => rfl
  | float r => rfl

theorem linv_iff (l : LSt) : linv l = true ↔ l.ch = renum l.items ∧ allNodes l.items = true := by
  simp [linv, Bool.and_eq_true]

theorem linv_mk (items : List Entry) (h : allNodes items = true) :
    linv { items := items, ch := renum items } = true := by
  rw [linv_iff]; exact ⟨rfl, h⟩

theorem listSet_inv (strict : Bool) (k : Key) (v : Entry) (s : LSt) (h : linv s = true) :
    linv (listSet strict k v s).1 = true := by
  have h0 := h
  rw [linv_iff] at h
  obtain ⟨h1, h2⟩ := h
  unfold listSet
  split
  · exact h0
  · rename_i i hv
    have hi := validateIdx_le _ _ _ _ hv
    simp only [h1]
    split
    · rename_i hlen
      subst hlen
      rw [aset_renum_end]
      exact linv_mk _ (by rw [allNodes_append, h2]; rfl)
    · rename_i hlen
      have hlt : i < s.items.length := by omega
      simp only [pySetItem, if_pos hlt]
      rw [aset_renum_set _ _ _ hlt]
      exact linv_mk _ (allNodes_set _ _ _ (toNode_node v) h2)

theorem shiftStep_inv (j : Nat) (s : LSt) (h : linv s = true) : linv (shiftStep j s).1 = true := by
  unfold shiftStep
  split
  · exact h
  · exact listSet_inv _ _ _ _ h

theorem shiftLoop_inv (js : List Nat) (s : LSt) (h : linv s = true) : linv (shiftLoop js s).1 = true := by
  induction js generalizing s with
  | nil => exact h
  | cons j js ih =>
    have hs := shiftStep_inv j s h
    unfold shiftLoop
    split
    · rename_i s1 _ heq
      rw [heq] at hs
      exact ih s1 hs
    · rename_i s1 x heq
      rw [heq] at hs
      exact hs

theorem listDel_inv (k : Key) (s : LSt) (h : linv s = true) : linv (listDel k s).1 = true := by
  unfold listDel
  split
  · exact h
  · rename_i i hv
    have hl := shiftLoop_inv (List.range' (i + 1) (s.items.length - (i + 1))) s h
    split
    · rename_i s1 x heq
      rw [heq] at hl
      exact hl
    · rename_i s1 _ heq
      rw [heq] at hl
      rw [linv_iff] at hl
      obtain ⟨h1, h2⟩ := hl
      have h1' : s1.ch = renum s1.items := h1
      have h2' : allNodes s1.items = true := h2
      split
      · rename_i hnil
        show linv { items := [], ch := aerase _ s1.ch } = true
        rw [h1', hnil]
        rfl
      · rename_i y ys hcons
        have hne : s1.items ≠ [] := by rw [hcons]; simp
        show linv { items := s1.items.dropLast, ch := aerase _ s1.ch } = true
        rw [h1', aerase_renum_last _ hne]
        exact linv_mk _ (allNodes_dropLast _ h2')

theorem listAppend_inv (v : Entry) (s : LSt) (h : linv s = true) : linv (listAppend v s) = true := by
  rw [linv_iff] at h
  obtain ⟨h1, h2⟩ := h
  unfold listAppend
  simp only [h1]
  rw [aset_renum_end]
  exact linv_mk _ (by rw [allNodes_append, h2]; rfl)

theorem listExtend_inv (vs : List Entry) (s : LSt) (h : linv s = true) : linv (listExtend vs s) = true := by
  induction vs generalizing s with
  | nil => exact h
  | cons v vs ih => exact ih _ (listAppend_inv v s h)

theorem listRemove_inv (v : Entry) (s : LSt) (h : linv s = true) : linv (listRemove v s).1 = true := by
  unfold listRemove
  split
  · exact h
  · exact listDel_inv _ _ h

theorem listClear_inv (s : LSt) : linv (listClear s) = true := rfl

/-! #### `insert` -/

theorem alookup_append {α : Type} (k : Key) (a b : List (Key × α)) :
    alookup k (a ++ b) = (alookup k a).or (alookup k b) := by
  induction a with
  | nil => simp [alookup]
  | cons hd tl ih =>
    obtain ⟨k0, v0⟩ := hd
    simp only [List.cons_append, alookup_cons]
    split <;> simp [ih]

theorem ahas_append {α : Type} (k : Key) (a b : List (Key × α)) :
    ahas k (a ++ b) = (ahas k a || ahas k b) := by
  unfold ahas
  rw [alookup_append]
  cases alookup k a <;> simp

/-- the renaming of `insert` is injective: the dict comprehension keeps every entry -/
theorem shiftKey_injective (i : Nat) (a b : Key) (h : shiftKey i a = shiftKey i b) : a = b := by
  cases a <;> cases b <;> simp only [shiftKey] at h
  · rename_i x y
    split at h <;> split at h <;> injection h with h <;> congr 1 <;> omega
  · split at h <;> cases h
  · split at h <;> cases h
  · split at h <;> cases h
  · exact h
  · cases h
  · split at h <;> cases h
  · cases h
  · exact h

theorem map_shift_low (i s : Nat) (a : List Entry) (h : s + a.length ≤ i) :
    (renumFrom s a).map (shiftEntry i) = renumFrom s a := by
  induction a generalizing s with
  | nil => rfl
  | cons x xs ih =>
    have hlt : ¬ ((s : Int) ≥ (i : Int)) := by simp only [List.length_cons] at h; omega
    simp only [renumFrom_cons, List.map_cons, shiftEntry, shiftKey, if_neg hlt]
    rw [ih (s + 1) (by simp only [List.length_cons] at h; omega)]

theorem map_shift_high (i s : Nat) (b : List Entry) (h : i ≤ s) :
    (renumFrom s b).map (shiftEntry i) = renumFrom (s + 1) b := by
  induction b generalizing s with
  | nil => rfl
  | cons x xs ih =>
    have hge : (s : Int) ≥ (i : Int) := by omega
    simp only [renumFrom_cons, List.map_cons, shiftEntry, shiftKey, if_pos hge]
    rw [ih (s + 1) (by omega)]
    have : ((s : Int) + 1) = ((s + 1 : Nat) : Int) := by omega
    rw [this]

theorem insertAt_eq (i : Nat) (n : Entry) (xs : List Entry) :
    insertAt i n xs = xs.take i ++ n :: xs.drop i := by
  induction xs generalizing i with
  | nil => cases i <;> simp [insertAt]
  | cons x xs ih =>
    cases i with
    | zero => simp [insertAt]
    | succ i => simp [insertAt, ih i]

theorem rebuildFrom_eq (xs : List Entry) (s : Nat) (ch : List (Key × Entry))
    (h : ∀ j, j < xs.length → alookup (Key.int ((s + j : Nat) : Int)) ch = xs[j]?) :
    rebuildFrom s xs.length ch = some (renumFrom s xs) := by
  induction xs generalizing s with
  | nil => rfl
  | cons x xs ih =>
    have h0 := h 0 (by simp)
    simp only [Nat.add_zero, List.getElem?_cons_zero] at h0
    have hrest : ∀ j, j < xs.length → alookup (Key.int ((s + 1 + j : Nat) : Int)) ch = xs[j]? := by
      intro j hj
      have := h (j + 1) (by simp only [List.length_cons]; omega)
      rw [show s + (j + 1) = s + 1 + j by omega] at this
      simpa using this
    simp only [List.length_cons, rebuildFrom, h0, ih (s + 1) hrest, renumFrom_cons]

/-- the child view after the three statements of `insert` that precede the rebuild -/
theorem insert_children (i : Nat) (n : Entry) (xs : List Entry) (hi : i ≤ xs.length) :
    aset (Key.int (i : Int)) n ((renum xs).map (shiftEntry i))
      = renumFrom 0 (xs.take i) ++ renumFrom (i + 1) (xs.drop i) ++ [(Key.int (i : Int), n)] := by
  have hlen : (xs.take i).length = i := by simp [List.length_take, Nat.min_eq_left hi]
  have hsplit : renum xs = renumFrom 0 (xs.take i) ++ renumFrom i (xs.drop i) := by
    have := renumFrom_append 0 (xs.take i) (xs.drop i)
    rw [List.take_append_drop, hlen, Nat.zero_add] at this
    exact this
  rw [hsplit, List.map_append, map_shift_low i 0 _ (by omega), map_shift_high i i _ (Nat.le_refl _)]
  rw [aset_of_not_has]
  rw [ahas_append, ahas_renumFrom, ahas_renumFrom]
  simp only [hlen, Nat.zero_add, Bool.or_eq_false_iff, decide_eq_false_iff_not]
  constructor <;> omega

theorem insert_lookup (i : Nat) (n : Entry) (xs : List Entry) (hi : i ≤ xs.length) (j : Nat)
    (hj : j < (xs.take i ++ n :: xs.drop i).length) :
    alookup (Key.int (j : Int))
        (renumFrom 0 (xs.take i) ++ renumFrom (i + 1) (xs.drop i) ++ [(Key.int (i : Int), n)])
      = (xs.take i ++ n :: xs.drop i)[j]? := by
  have hlen : (xs.take i).length = i := by simp [List.length_take, Nat.min_eq_left hi]
  rw [alookup_append, alookup_append, alookup_renumFrom, alookup_renumFrom]
  simp only [Nat.zero_le, if_true, Nat.sub_zero]
  by_cases h1 : j < i
  · have hj' : j < (xs.take i).length := by omega
    rw [List.getElem?_append_left hj']
    rw [List.getElem?_eq_getElem hj']
    simp
  · have hge : (xs.take i).length ≤ j := by omega
    rw [List.getElem?_append_right hge, hlen]
    have hnone : (xs.take i)[j]? = none := by
      rw [List.getElem?_eq_none_iff]; omega
    rw [hnone]
    by_cases h2 : j = i
    · subst h2
      have : ¬ (j + 1 ≤ j) := by omega
      simp [this, alookup]
    · have h3 : i + 1 ≤ j := by omega
      have hne : ¬ (Key.int (i : Int) = Key.int (j : Int)) := by
        rw [keyInt_eq_iff]; omega
      rw [if_pos h3, show j - i = (j - (i + 1)) + 1 by omega, List.getElem?_cons_succ]
      simp only [alookup, if_neg hne, Option.none_or, Option.or_none]

theorem listInsert_inv (k : Key) (v : Entry) (s : LSt) (h : linv s = true) :
    linv (listInsert k v s).1 = true := by
  have h0 := h
  rw [linv_iff] at h
  obtain ⟨h1, h2⟩ := h
  unfold listInsert
  split
  · exact h0
  · rename_i i hv
    have hi := validateIdx_le _ _ _ _ hv
    have hreb : rebuildFrom 0 (insertAt i (toNode v) s.items).length
        (aset (Key.int (i : Int)) (toNode v) (s.ch.map (shiftEntry i)))
        = some (renum (insertAt i (toNode v) s.items)) := by
      rw [h1, insert_children i (toNode v) s.items hi, insertAt_eq]
      apply rebuildFrom_eq
      intro j hj
      rw [Nat.zero_add]
      exact insert_lookup i (toNode v) s.items hi j hj
    simp only [hreb]
    exact linv_mk _ (allNodes_insertAt _ _ _ (toNode_node v) h2)

/-! ### 4. one step, construction, the readable invariant -/

theorem stepDict_inv (d : DSt) (attrs : List String) (op : Op Entry) (h : dinv d = true) :
    inv (stepDict d attrs op).1 = true := by
  cases op with
  | setItem k v => exact dictSet_inv k v d h
  | delItem k => exact dictDel_inv k d h
  | setAttr name v =>
    simp only [stepDict]
    split
    · exact h
    · exact dictSet_inv _ v d h
  | delAttr name =>
    simp only [stepDict]
    split
    · exact h
    · exact dictDel_inv _ d h
  | setChild k v => exact dictSet_inv k v d h
  | removeChild k => exact dictDel_inv k d h
  | renameChild o n => exact dictRename_inv o n d h
  | clear => exact dictClear_inv d
  | append v => exact h
  | extend vs => exact h
  | insert k v => exact h
  | remove v => exact h
  | pop k dflt =>
    cases k with
    | none => exact h
    | some k => exact dictPop_inv k dflt d h
  | update kvs => exact dictUpdate_inv kvs d h
  | setdefault k v => exact dictSetdefault_inv k v d h

theorem stepList_inv (l : LSt) (attrs : List String) (op : Op Entry) (h : linv l = true) :
    inv (stepList l attrs op).1 = true := by
  cases op with
  | setItem k v => exact listSet_inv true k v l h
  | delItem k => exact listDel_inv k l h
  | setAttr name v => exact h
  | delAttr name => exact h
  | setChild k v => exact listSet_inv false k v l h
  | removeChild k => exact listDel_inv k l h
  | renameChild o n => exact h
  | clear => exact listClear_inv l
  | append v => exact listAppend_inv v l h
  | extend vs => exact listExtend_inv vs l h
  | insert k v => exact listInsert_inv k v l h
  | remove v => exact listRemove_inv v l h
  | pop k dflt =>
    cases dflt with
    | true => cases k <;> exact h
    | false =>
      cases k with
      | none => exact listDel_inv _ l h
      | some k => exact listDel_inv k l h
  | update kvs => exact h
  | setdefault k v => exact h

theorem stepE_inv (s : CState) (op : Op Entry) (h : inv s = true) : inv (stepE s op).1 = true := by
  cases s with
  | dict d attrs => exact stepDict_inv d attrs op h
  | list l attrs => exact stepList_inv l attrs op h

theorem step_inv (s : CState) (op : Op Val) (h : inv s = true) : inv (step s op).1 = true :=
  stepE_inv s _ h

theorem run_inv (ops : List (Op Val)) (s : CState) (h : inv s = true) : inv (run s ops) = true := by
  induction ops generalizing s with
  | nil => exact h
  | cons op ops ih => exact ih _ (step_inv s op h)

theorem allNodes_nodeValues (vs : List Entry) : allNodes (nodeValues vs) = true := by
  induction vs with
  | nil => rfl
  | cons v vs ih => simp [nodeValues, allNodes_cons, ih, toNode]

theorem initList_inv (vs : List Entry) : inv (initList vs) = true := by
  show linv { items := (renum (nodeValues vs)).map (·.2), ch := renum (nodeValues vs) } = true
  rw [renum, renumFrom_map_snd]
  exact linv_mk _ (allNodes_nodeValues vs)

theorem ahas_nodePairs (k : Key) (l : List (Key × Entry)) : ahas k (nodePairs l) = ahas k l := by
  induction l with
  | nil => rfl
  | cons hd tl ih =>
    obtain ⟨k0, v0⟩ := hd
    simp only [nodePairs, ahas_cons, ih]

theorem nodupKeys_nodePairs (l : List (Key × Entry)) : nodupKeys (nodePairs l) = nodupKeys l := by
  induction l with
  | nil => rfl
  | cons hd tl ih =>
    obtain ⟨k0, v0⟩ := hd
    simp only [nodePairs, nodupKeys_cons, ahas_nodePairs, ih]

theorem allNodesKV_nodePairs (l : List (Key × Entry)) : allNodesKV (nodePairs l) = true := by
  induction l with
  | nil => rfl
  | cons hd tl ih =>
    obtain ⟨k0, v0⟩ := hd
    simp [nodePairs, allNodesKV_cons, ih, toNode]

theorem nodupKeys_dictOfPairs (pairs acc : List (Key × Entry)) (h : nodupKeys acc = true) :
    nodupKeys (dictOfPairs acc pairs) = true := by
  induction pairs generalizing acc with
  | nil => exact h
  | cons hd tl ih =>
    obtain ⟨k0, v0⟩ := hd
    exact ih _ (nodupKeys_aset k0 v0 acc h)

theorem initDict_inv (pairs : List (Key × Entry)) : inv (initDict pairs) = true := by
  show dinv { items := nodePairs (dictOfPairs [] pairs), ch := nodePairs (dictOfPairs [] pairs) } = true
  apply dinv_mk
  · rw [nodupKeys_nodePairs]; exact nodupKeys_dictOfPairs pairs [] rfl
  · exact allNodesKV_nodePairs _

theorem allNodes_iff (xs : List Entry) : allNodes xs = true ↔ ∀ e ∈ xs, e.node = true := by
  induction xs with
  | nil => simp [allNodes]
  | cons x xs ih => simp [allNodes_cons, ih]

theorem allNodesKV_iff (l : List (Key × Entry)) : allNodesKV l = true ↔ ∀ kv ∈ l, kv.2.node = true := by
  induction l with
  | nil => simp [allNodesKV]
  | cons x xs ih => simp [allNodesKV_cons, ih]

/-- the readable invariant and the executable one coincide -/
theorem Inv_iff_inv (s : CState) : Inv s ↔ inv s = true := by
  cases s with
  | dict d attrs =>
    show (d.ch = d.items ∧ nodupKeys d.items = true ∧ ∀ kv ∈ d.items, kv.2.node = true) ↔ dinv d = true
    rw [dinv_iff, allNodesKV_iff]
  | list l attrs =>
    show (l.ch = renum l.items ∧ ∀ e ∈ l.items, e.node = true) ↔ linv l = true
    rw [linv_iff, allNodes_iff]

instance (s : CState) : Decidable (Inv s) := decidable_of_iff _ (Inv_iff_inv s).symm

/-! ### 5. the tree walk -/

mutual
theorem walk_sound (n : Node) (pre p : Path) (m : Node) (hd : distinctKeys n = true)
    (hm : (p, m) ∈ walk pre n) : ∃ q, p = pre ++ q ∧ getNode n q = some m := by
  match n with
  | .leaf f k => simp [walk] at hm
  | .comp f kd cs =>
    simp only [distinctKeys, Bool.and_eq_true] at hd
    simp only [walk] at hm
    obtain ⟨k, c, q, hmem, hp, hg⟩ := walkL_sound cs pre p m hd.2 hm
    refine ⟨k :: q, hp, ?_⟩
    simp only [getNode, alookup_of_mem_nodup k c cs hd.1 hmem, hg]
theorem walkL_sound (cs : List (Key × Node)) (pre p : Path) (m : Node) (hd : distinctKeysL cs = true)
    (hm : (p, m) ∈ walkL pre cs) :
    ∃ k c q, (k, c) ∈ cs ∧ p = pre ++ k :: q ∧ getNode c q = some m := by
  match cs with
  | [] => simp [walkL] at hm
  | (k, c) :: rest =>
    simp only [distinctKeysL, Bool.and_eq_true] at hd
    simp only [walkL, List.cons_append, List.mem_cons, List.mem_append, Prod.mk.injEq] at hm
    rcases hm with ⟨hp, hmc⟩ | hm | hm
    · refine ⟨k, c, [], List.mem_cons_self, ?_, ?_⟩
      · rw [hp]
      · rw [hmc]; rfl
    · obtain ⟨q, hp, hg⟩ := walk_sound c (pre ++ [k]) p m hd.1 hm
      refine ⟨k, c, q, List.mem_cons_self, ?_, hg⟩
      rw [hp]; simp
    · obtain ⟨k', c', q, hmem, hp, hg⟩ := walkL_sound rest pre p m hd.2 hm
      exact ⟨k', c', q, List.mem_cons_of_mem _ hmem, hp, hg⟩
end


/-! ### 6. the path round trip -/

theorem natToDigits_eq (n : Nat) : natToDigits n = Nat.toDigits 10 n := by
  simp [natToDigits]

theorem digitsToNat_eq (ds : List Char) : digitsToNat ds = Nat.ofDigitChars 10 ds 0 := rfl

theorem natToDigits_isDigit (n : Nat) : ∀ c ∈ natToDigits n, c.isDigit = true := by
  intro c hc
  rw [natToDigits_eq] at hc
  exact Nat.isDigit_of_mem_toDigits (by decide) (by decide) hc

theorem natToDigits_ne_nil (n : Nat) : natToDigits n ≠ [] := by
  rw [natToDigits_eq]; exact Nat.toDigits_ne_nil

theorem digitsToNat_natToDigits (n : Nat) : digitsToNat (natToDigits n) = n := by
  rw [natToDigits_eq, digitsToNat_eq]; exact Nat.ofDigitChars_ten_toDigits

theorem isIdent_dot : isIdentChar '.' = false := by decide
theorem isIdent_lbr : isIdentChar '[' = false := by decide
theorem isDigit_rbr : (']' : Char).isDigit = false := by decide

theorem spanIdent_append (a r : List Char) (ha : a.all isIdentChar = true)
    (hr : r = [] ∨ ∃ c r', r = c :: r' ∧ isIdentChar c = false) : spanIdent (a ++ r) = (a, r) := by
  induction a with
  | nil =>
    rcases hr with hr | ⟨c, r', hr, hc⟩
    · rw [hr]; rfl
    · rw [hr]; simp [spanIdent, hc]
  | cons x xs ih =>
    simp only [List.all_cons, Bool.and_eq_true] at ha
    simp only [List.cons_append, spanIdent, ha.1, if_true, ih ha.2]

theorem spanDigits_append (ds r : List Char) (hd : ∀ c ∈ ds, c.isDigit = true) :
    spanDigits (ds ++ ']' :: r) = (ds, ']' :: r) := by
  induction ds with
  | nil => simp [spanDigits, isDigit_rbr]
  | cons x xs ih =>
    have hx := hd x List.mem_cons_self
    have hxs : ∀ c ∈ xs, c.isDigit = true := fun c hc => hd c (List.mem_cons_of_mem _ hc)
    simp only [List.cons_append, spanDigits, hx, if_true, ih hxs]

theorem splitRest_dot (f : Nat) (cs : List Char) :
    splitRest (f + 1) ('.' :: cs) =
      (match spanIdent cs with
      | ([], _) => none
      | (nm, rest) =>
        match splitRest f rest with
        | none => none
        | some p => some (Key.str (String.ofList nm) :: p)) := by
  rw [splitRest]
  rfl

theorem splitRest_lbr (f : Nat) (cs : List Char) :
    splitRest (f + 1) ('[' :: cs) =
      (match parseIndex ('[' :: cs) with
      | none => none
      | some (i, rest) =>
        match splitRest f rest with
        | none => none
        | some p => some (Key.int i :: p)) := by
  rw [splitRest]
  · rfl
  · intro h; cases h
  · intro cs' h
    injection h with h _
    exact absurd h (by decide)

theorem parseIndex_neg_eq (cs : List Char) :
    parseIndex ('[' :: '-' :: cs) =
      (match spanDigits cs with
      | ([], _) => none
      | (ds, ']' :: rest) => some (- (digitsToNat ds : Int), rest)
      | _ => none) := by
  rw [parseIndex]
  rfl

theorem parseIndex_pos_eq (c : Char) (cs : List Char) (h : c ≠ '-') :
    parseIndex ('[' :: c :: cs) =
      (match spanDigits (c :: cs) with
      | ([], _) => none
      | (ds, ']' :: rest) => some ((digitsToNat ds : Int), rest)
      | _ => none) := by
  rw [parseIndex]
  · rfl
  · intro cs' h'
    injection h' with h' _
    exact absurd h' h

theorem parseIndex_pos (d : Char) (ds r : List Char) (hd : ∀ c ∈ d :: ds, c.isDigit = true) :
    parseIndex ('[' :: d :: (ds ++ ']' :: r)) = some ((digitsToNat (d :: ds) : Int), r) := by
  have hd0 : d ≠ '-' := by
    intro h; have := hd d List.mem_cons_self; rw [h] at this; exact absurd this (by decide)
  have hsp := spanDigits_append (d :: ds) r hd
  rw [List.cons_append] at hsp
  rw [parseIndex_pos_eq _ _ hd0, hsp]
  rfl

theorem parseIndex_neg (d : Char) (ds r : List Char) (hd : ∀ c ∈ d :: ds, c.isDigit = true) :
    parseIndex ('[' :: '-' :: d :: (ds ++ ']' :: r)) = some (- (digitsToNat (d :: ds) : Int), r) := by
  have hsp := spanDigits_append (d :: ds) r hd
  rw [List.cons_append] at hsp
  rw [parseIndex_neg_eq, hsp]
  rfl

theorem parseIndex_int (i : Int) (r : List Char) :
    parseIndex ('[' :: (intToChars i ++ ']' :: r)) = some (i, r) := by
  unfold intToChars
  split
  · rename_i hneg
    have hne := natToDigits_ne_nil i.natAbs
    have hdig := natToDigits_isDigit i.natAbs
    have hval := digitsToNat_natToDigits i.natAbs
    generalize natToDigits i.natAbs = D at hne hdig hval
    cases D with
    | nil => exact absurd rfl hne
    | cons d ds =>
      rw [List.cons_append, List.cons_append, parseIndex_neg d ds r hdig, hval]
      congr 2
      omega
  · rename_i hneg
    have hne := natToDigits_ne_nil i.toNat
    have hdig := natToDigits_isDigit i.toNat
    have hval := digitsToNat_natToDigits i.toNat
    generalize natToDigits i.toNat = D at hne hdig hval
    cases D with
    | nil => exact absurd rfl hne
    | cons d ds =>
      rw [List.cons_append, parseIndex_pos d ds r hdig, hval]
      congr 2
      omega

/-- what `join_path` writes after the first component -/
def restChars : Path → List Char
  | [] => []
  | k :: ks => childAccessor true k ++ restChars ks

theorem joinPathAux_eq (acc : List Char) (ks : Path) (h : acc ≠ []) :
    joinPathAux acc ks = acc ++ restChars ks := by
  induction ks generalizing acc with
  | nil => simp [joinPathAux, restChars]
  | cons k ks ih =>
    have he : acc.isEmpty = false := by cases acc with | nil => exact absurd rfl h | cons _ _ => rfl
    rw [joinPathAux, he, ih _ (by simp [h]), restChars]
    simp

theorem restChars_head (ks : Path) :
    restChars ks = [] ∨ ∃ c r', restChars ks = c :: r' ∧ isIdentChar c = false := by
  cases ks with
  | nil => exact Or.inl rfl
  | cons k ks =>
    right
    cases k with
    | int i => exact ⟨'[', intToChars i ++ ']' :: restChars ks, by simp [restChars, childAccessor], isIdent_lbr⟩
    | str s => exact ⟨'.', s.toList ++ restChars ks, by simp [restChars, childAccessor], isIdent_dot⟩
    | float s => exact ⟨'.', s.toList ++ restChars ks, by simp [restChars, childAccessor], isIdent_dot⟩

theorem length_le_restChars (ks : Path) : ks.length ≤ (restChars ks).length := by
  induction ks with
  | nil => simp
  | cons k ks ih =>
    cases k <;> simp [restChars, childAccessor] <;> omega

theorem splitRest_rest (p : Path) (hv : ValidComponents p) (fuel : Nat) (hf : p.length ≤ fuel) :
    splitRest fuel (restChars p) = some p := by
  induction p generalizing fuel with
  | nil => cases fuel <;> rfl
  | cons k ks ih =>
    have hk : validKey k = true := hv k List.mem_cons_self
    have hks : ValidComponents ks := fun k' h' => hv k' (List.mem_cons_of_mem _ h')
    cases fuel with
    | zero => simp at hf
    | succ f =>
      have hrec := ih hks f (by simp at hf; omega)
      cases k with
      | int i =>
        have e : restChars (Key.int i :: ks) = '[' :: (intToChars i ++ ']' :: restChars ks) := by
          simp [restChars, childAccessor]
        rw [e, splitRest_lbr, parseIndex_int]
        simp only [hrec]
      | str s =>
        simp only [validKey, Bool.and_eq_true, Bool.not_eq_true', List.isEmpty_eq_false_iff] at hk
        have e : restChars (Key.str s :: ks) = '.' :: (s.toList ++ restChars ks) := by
          simp [restChars, childAccessor]
        have hsp := spanIdent_append s.toList (restChars ks) hk.2 (restChars_head ks)
        have hof : String.ofList s.toList = s := String.ofList_toList
        rw [e]
        generalize s.toList = nm at hk hsp hof
        cases nm with
        | nil => exact absurd rfl hk.1
        | cons c cs =>
          rw [splitRest_dot, hsp]
          simp only [hrec, hof]
      | float s => simp [validKey] at hk

theorem splitPathChars_joinPathChars (p : Path) (hv : ValidComponents p) :
    splitPathChars (joinPathChars p) = some p := by
  cases p with
  | nil => rfl
  | cons k ks =>
    have hk : validKey k = true := hv k List.mem_cons_self
    have hks : ValidComponents ks := fun k' h' => hv k' (List.mem_cons_of_mem _ h')
    cases k with
    | int i =>
      have e : joinPathChars (Key.int i :: ks) = '[' :: (intToChars i ++ ']' :: restChars ks) := by
        unfold joinPathChars
        rw [joinPathAux, joinPathAux_eq _ _ (by simp [childAccessor])]
        simp [childAccessor]
      rw [e]
      have hrec := splitRest_rest ks hks ('[' :: (intToChars i ++ ']' :: restChars ks)).length
        (by have := length_le_restChars ks; simp; omega)
      simp only [splitPathChars, spanIdent, isIdent_lbr, Bool.false_eq_true, if_false, parseIndex_int, hrec]
    | str s =>
      simp only [validKey, Bool.and_eq_true, Bool.not_eq_true', List.isEmpty_eq_false_iff] at hk
      have e : joinPathChars (Key.str s :: ks) = s.toList ++ restChars ks := by
        unfold joinPathChars
        rw [joinPathAux, joinPathAux_eq _ _ (by simpa [childAccessor] using hk.1)]
        simp [childAccessor]
      have hsp := spanIdent_append s.toList (restChars ks) hk.2 (restChars_head ks)
      have hof : String.ofList s.toList = s := String.ofList_toList
      have hrec := splitRest_rest ks hks (s.toList ++ restChars ks).length
        (by have := length_le_restChars ks; simp; omega)
      rw [e]
      generalize s.toList = nm at hk hsp hof hrec
      cases nm with
      | nil => exact absurd rfl hk.1
      | cons c cs =>
        rw [List.cons_append] at hsp hrec ⊢
        simp only [splitPathChars, hsp, hrec, hof]
    | float s => simp [validKey] at hk

end Container
end AY
