/-
  AY.Lemmas.RefExact — exactness of the reference errors (C09): the dependency graph of a tree
  (reference → target, container → child) and the strict denotation.

    `depthOk_of_sden`     a node with a strict denotation has bounded dependency depth (any tree)
    `noCycle_of_evaluate` a tree that builds has no dependency cycle (any tree)
    `acyclicDeps_iff`     `acyclicDeps t` ⇔ no node of `t` reaches itself
    `sden_of_depthOk`     in a tree of plain data and references whose references resolve and whose
                          dependencies are acyclic every node has a strict denotation
    `xrefResolve_size`    a chain of references that ends, ends within `t.size` steps
-/
import AY.Lemmas.RefExactDefs
namespace AY

/-! ### the predicates along a path -/

theorem refTreeList_mem {key : Key} {c : Node} : ∀ {cs : List (Key × Node)}, refTreeList cs = true →
    (key, c) ∈ cs → refTree c = true
  | [], _, h => by cases h
  | (k', c') :: rest, hr, hm => by
    simp only [refTreeList, Bool.and_eq_true] at hr
    rcases List.mem_cons.1 hm with heq | hm
    · cases heq; exact hr.1
    · exact refTreeList_mem hr.2 hm

theorem refTree_kids {f : Flags} {k : CompKind} {cs : List (Key × Node)}
    (h : refTree (.comp f k cs) = true) : (k = .dict ∨ k = .list) ∧ refTreeList cs = true := by
  cases k <;> simp [refTree] at h ⊢ <;> exact h

theorem refTree_getNode : ∀ (q : Path) {n m : Node}, refTree n = true → getNode n q = some m →
    refTree m = true
  | [], n, m, h, hg => by simp [getNode] at hg; subst hg; exact h
  | _ :: _, .leaf .., _, _, hg => by simp [getNode] at hg
  | key :: rest, .comp f k cs, m, h, hg => by
    unfold getNode at hg
    split at hg
    · cases hg
    · rename_i c hc
      exact refTree_getNode rest (refTreeList_mem (refTree_kids h).2 (alookup_mem hc)) hg

theorem resolvesList_mem {root : Node} {key : Key} {c : Node} : ∀ {cs : List (Key × Node)},
    resolvesList root cs = true → (key, c) ∈ cs → resolvesIn root c = true
  | [], _, h => by cases h
  | (k', c') :: rest, hr, hm => by
    simp only [resolvesList, Bool.and_eq_true] at hr
    rcases List.mem_cons.1 hm with heq | hm
    · cases heq; exact hr.1
    · exact resolvesList_mem hr.2 hm

theorem resolvesIn_getNode {root : Node} : ∀ (q : Path) {n m : Node}, resolvesIn root n = true →
    getNode n q = some m → resolvesIn root m = true
  | [], n, m, h, hg => by simp [getNode] at hg; subst hg; exact h
  | _ :: _, .leaf .., _, _, hg => by simp [getNode] at hg
  | key :: rest, .comp f k cs, m, h, hg => by
    unfold getNode at hg
    split at hg
    · cases hg
    · rename_i c hc
      simp only [resolvesIn] at h
      exact resolvesIn_getNode rest (resolvesList_mem h (alookup_mem hc)) hg

/-- what `resolves` says about one reference -/
theorem resolves_xref {t : Node} (h : resolves t = true) {q : Path} {fl : Flags} {text : String}
    (hg : getNode t q = some (.leaf fl (.xref text))) :
    ∃ tp m, splitPath text = some tp ∧ getNode t tp = some m := by
  have := resolvesIn_getNode q h hg
  simp only [resolvesIn] at this
  split at this
  · rename_i tp htp
    cases hm : getNode t tp with
    | none => simp [hm] at this
    | some m => exact ⟨tp, m, htp, hm⟩
  · cases this

mutual
theorem resolvesIn_of_all (root : Node) : ∀ (n : Node), uniqueKeys n = true →
    (∀ q fl text, getNode n q = some (.leaf fl (.xref text)) →
      ∃ tp m, splitPath text = some tp ∧ getNode root tp = some m) → resolvesIn root n = true
  | .leaf fl lk, _, h => by
    cases lk with
    | xref text =>
      obtain ⟨tp, m, htp, hm⟩ := h [] fl text rfl
      simp [resolvesIn, htp, hm]
    | _ => rfl
  | .comp f k cs, huk, h => by
    simp only [resolvesIn]
    have hu : uniqueKeysList cs = true := by simpa [uniqueKeys] using huk
    exact resolvesList_of_all root cs hu (fun key c hm q fl text hg =>
      h (key :: q) fl text (by simp only [getNode, (uniqueKeysList_mem hu hm).2]; exact hg))
theorem resolvesList_of_all (root : Node) : ∀ (cs : List (Key × Node)), uniqueKeysList cs = true →
    (∀ key c, (key, c) ∈ cs → ∀ q fl text, getNode c q = some (.leaf fl (.xref text)) →
      ∃ tp m, splitPath text = some tp ∧ getNode root tp = some m) → resolvesList root cs = true
  | [], _, _ => rfl
  | (k, c) :: rest, hu, h => by
    have hu' := hu
    simp only [uniqueKeysList, Bool.and_eq_true] at hu'
    simp only [resolvesList, Bool.and_eq_true]
    exact ⟨resolvesIn_of_all root c hu'.1.2 (h k c List.mem_cons_self),
      resolvesList_of_all root rest hu'.2 (fun key c' hm => h key c' (List.mem_cons_of_mem _ hm))⟩
end

/-! ### dependency steps and depth -/

theorem depthOk_pos {t : Node} {F : Nat} {p : Path} (h : depthOk t F p = true) : ∃ F1, F = F1 + 1 := by
  cases F with
  | zero => simp [depthOk] at h
  | succ F1 => exact ⟨F1, rfl⟩

theorem depthOk_succ {t : Node} {F : Nat} {p : Path} {n : Node} (hg : getNode t p = some n) :
    depthOk t (F + 1) p = true ↔ ∀ q, q ∈ deps n p → depthOk t F q = true := by
  simp only [depthOk, hg, List.all_eq_true]

theorem depthOk_mono {t : Node} : ∀ {F F' : Nat} {p : Path}, F ≤ F' → depthOk t F p = true →
    depthOk t F' p = true
  | 0, _, _, _, h => by simp [depthOk] at h
  | F + 1, 0, _, hle, _ => by omega
  | F + 1, F' + 1, p, hle, h => by
    cases hg : getNode t p with
    | none => simp [depthOk, hg]
    | some n =>
      rw [depthOk_succ hg] at h ⊢
      intro q hq
      exact depthOk_mono (by omega) (h q hq)

theorem Dep.depth {t : Node} {p q : Path} (h : Dep t p q) {F : Nat} (hd : depthOk t F p = true) :
    ∃ F1, F = F1 + 1 ∧ depthOk t F1 q = true := by
  obtain ⟨F1, rfl⟩ := depthOk_pos hd
  obtain ⟨n, hg, hq⟩ := h
  exact ⟨F1, rfl, (depthOk_succ hg).1 hd q hq⟩

theorem DepPlus.depth {t : Node} {p q : Path} (h : DepPlus t p q) :
    ∀ {F : Nat}, depthOk t F p = true → ∃ F', F' < F ∧ depthOk t F' q = true := by
  induction h with
  | single hd =>
    intro F h
    obtain ⟨F1, rfl, h1⟩ := hd.depth h
    exact ⟨F1, Nat.lt_succ_self _, h1⟩
  | tail _ hd ih =>
    intro F h
    obtain ⟨F', hlt, h'⟩ := ih h
    obtain ⟨F1, rfl, h1⟩ := hd.depth h'
    exact ⟨F1, by omega, h1⟩

/-- a node on a dependency cycle has no bounded depth -/
theorem DepPlus.cycle_depth {t : Node} {p : Path} (h : DepPlus t p p) :
    ∀ F, depthOk t F p ≠ true := by
  intro F
  induction F using Nat.strongRecOn with
  | ind F ih =>
    intro hd
    obtain ⟨F', hlt, h'⟩ := h.depth hd
    exact ih F' hlt h'

theorem DepPlus.head {t : Node} {p q r : Path} (h : Dep t p q) (h' : DepPlus t q r) : DepPlus t p r := by
  induction h' with
  | single hd => exact .tail (.single h) hd
  | tail _ hd ih => exact .tail ih hd

theorem DepPlus.exists_left {t : Node} {p q : Path} (h : DepPlus t p q) : ∃ n, getNode t p = some n := by
  induction h with
  | single hd => obtain ⟨n, hg, _⟩ := hd; exact ⟨n, hg⟩
  | tail _ _ ih => exact ih

/-- a container depends on its children -/
theorem Dep.child {t : Node} {p : Path} {f : Flags} {k : CompKind} {cs : List (Key × Node)} {key : Key}
    {c : Node} (hg : getNode t p = some (.comp f k cs)) (hm : (key, c) ∈ cs) : Dep t p (p ++ [key]) :=
  ⟨_, hg, by simp only [deps, List.mem_map]; exact ⟨(key, c), hm, rfl⟩⟩

/-- a reference depends on the path its text names -/
theorem Dep.xref {t : Node} {p tp : Path} {fl : Flags} {text : String}
    (hg : getNode t p = some (.leaf fl (.xref text))) (htp : splitPath text = some tp) : Dep t p tp :=
  ⟨_, hg, by simp [deps, htp]⟩

/-- every node below `p` is reached from `p` -/
theorem DepPlus.under {t : Node} : ∀ (q : Path) (p : Path) {m : Node}, q ≠ [] →
    getNode t (p ++ q) = some m → DepPlus t p (p ++ q)
  | [], _, _, hne, _ => absurd rfl hne
  | key :: rest, p, m, _, hg => by
    have hg' := hg
    rw [show p ++ key :: rest = (p ++ [key]) ++ rest by simp, getNode_append] at hg'
    cases hk : getNode t (p ++ [key]) with
    | none => simp [hk] at hg'
    | some c =>
      have hstep : Dep t p (p ++ [key]) := by
        rw [getNode_append] at hk
        cases hp : getNode t p with
        | none => simp [hp] at hk
        | some n =>
          simp only [hp] at hk
          cases n with
          | leaf fl lk => simp [getNode] at hk
          | comp f k cs =>
            unfold getNode at hk
            split at hk
            · cases hk
            · rename_i c' hc'
              exact Dep.child hp (alookup_mem hc')
      cases rest with
      | nil => exact .single hstep
      | cons k2 rest2 =>
        have := DepPlus.under (k2 :: rest2) (p ++ [key]) (by simp) (by simpa using hg)
        simpa using DepPlus.head hstep this

/-- no node reaches itself -/
def NoCycle (t : Node) : Prop := ∀ p, ¬ DepPlus t p p

/-- in an acyclic tree no reference names the root (the root contains the reference) -/
theorem NoCycle.no_root_ref {t : Node} (h : NoCycle t) {q : Path} {fl : Flags} {text : String}
    (hg : getNode t q = some (.leaf fl (.xref text))) : splitPath text ≠ some [] := by
  intro htp
  have hd := Dep.xref hg htp
  cases q with
  | nil => exact h [] (.single hd)
  | cons k rest =>
    have := DepPlus.under (k :: rest) [] (by simp) (by simpa using hg)
    exact h [] (.tail (by simpa using this) hd)

theorem noCycle_of_acyclicDeps {t : Node} (h : acyclicDeps t = true) : NoCycle t := by
  intro p hc
  obtain ⟨n, hn⟩ := hc.exists_left
  cases p with
  | nil => exact hc.cycle_depth _ h
  | cons k rest =>
    have hb := DepPlus.under (k :: rest) [] (by simp) (by simpa using hn)
    obtain ⟨F', _, h'⟩ := hb.depth h
    exact hc.cycle_depth F' (by simpa using h')

/-- the walk argument: with the nodes `seen` on the walk so far, `size + 1 - |seen|` more fuel
    suffices -/
theorem depthOk_of_noCycle {t : Node} (h : NoCycle t) : ∀ (F : Nat) (p : Path) (seen : List Path),
    seen.Nodup → (∀ s, s ∈ seen → (∃ m, getNode t s = some m) ∧ DepPlus t s p) →
    t.size + 1 ≤ F + seen.length → depthOk t F p = true
  | 0, p, seen, hnd, hs, hF => by
    have := paths_length_le hnd (fun s hm => (hs s hm).1)
    omega
  | F + 1, p, seen, hnd, hs, hF => by
    cases hg : getNode t p with
    | none => simp [depthOk, hg]
    | some n =>
      rw [depthOk_succ hg]
      intro q hq
      have hd : Dep t p q := ⟨n, hg, hq⟩
      apply depthOk_of_noCycle h F q (p :: seen)
      · exact List.nodup_cons.2 ⟨fun hm => h p (hs p hm).2, hnd⟩
      · intro s hm
        rcases List.mem_cons.1 hm with rfl | hm
        · exact ⟨⟨n, hg⟩, .single hd⟩
        · exact ⟨(hs s hm).1, .tail (hs s hm).2 hd⟩
      · simp only [List.length_cons]; omega

theorem acyclicDeps_of_noCycle {t : Node} (h : NoCycle t) : acyclicDeps t = true :=
  depthOk_of_noCycle h (t.size + 1) [] [] List.nodup_nil (by intro s hs; cases hs) (by simp)

theorem acyclicDeps_iff (t : Node) : acyclicDeps t = true ↔ NoCycle t :=
  ⟨noCycle_of_acyclicDeps, acyclicDeps_of_noCycle⟩

/-! ### a node with a strict denotation has bounded depth -/

theorem exists_bound {α : Type} {P : Nat → α → Prop} (hmono : ∀ F F' x, F ≤ F' → P F x → P F' x) :
    ∀ (l : List α), (∀ x, x ∈ l → ∃ F, P F x) → ∃ F, ∀ x, x ∈ l → P F x
  | [], _ => ⟨0, by intro x hx; cases hx⟩
  | a :: l, h => by
    obtain ⟨F1, h1⟩ := h a List.mem_cons_self
    obtain ⟨F2, h2⟩ := exists_bound hmono l (fun x hx => h x (List.mem_cons_of_mem _ hx))
    refine ⟨max F1 F2, ?_⟩
    intro x hx
    rcases List.mem_cons.1 hx with rfl | hx
    · exact hmono _ _ _ (Nat.le_max_left _ _) h1
    · exact hmono _ _ _ (Nat.le_max_right _ _) (h2 x hx)

def RecDepth (t : Node) (r : SRec) : Prop :=
  ∀ rs n p v, getNode t p = some n → r rs n p = some v → ∃ F, depthOk t F p = true

theorem depthOk_of_sdenXref {t : Node} {r : SRec} (h : RecDepth t r) (rs : Bool) :
    ∀ (xf : Nat) (text : String) (v : Val), sdenXref r t rs xf text = some v →
    ∃ tp m F, splitPath text = some tp ∧ getNode t tp = some m ∧ depthOk t F tp = true
  | 0, _, _, hx => by simp [sdenXref] at hx
  | xf + 1, text, v, hx => by
    obtain ⟨tp, n, htp, hg⟩ := sdenXref_inv hx
    by_cases hxr : ∃ fl next, n = .leaf fl (.xref next)
    · obtain ⟨fl, next, rfl⟩ := hxr
      rw [sdenXref_step_link htp hg] at hx
      split at hx
      · cases hx
      · obtain ⟨tp', m', F, htp', _, hF⟩ := depthOk_of_sdenXref h rs xf next v hx
        refine ⟨tp, _, F + 1, htp, hg, ?_⟩
        rw [depthOk_succ hg]
        intro q hq
        simp [deps, htp'] at hq
        subst hq
        exact hF
    · rw [sdenXref_step_end htp hg (fun fl t e => hxr ⟨fl, t, e⟩)] at hx
      split at hx
      · cases hx
      · obtain ⟨F, hF⟩ := h _ _ _ _ hg hx
        exact ⟨tp, n, F, htp, hg, hF⟩

theorem depthOk_of_sden (t : Node) (w : World) (huk : uniqueKeys t = true) :
    ∀ g, RecDepth t (sden t w g)
  | 0 => by intro rs n p v _ h; simp [sden] at h
  | g + 1 => by
    intro rs n p v hg hv
    rw [sden_succ] at hv
    split at hv
    · cases hv
    cases n with
    | comp f k cs =>
      simp only [sdenImpl] at hv
      split at hv
      · cases hv
      · split at hv
        · cases hv
        · rename_i items hi
          have hall : ∀ kc, kc ∈ cs → ∃ F, depthOk t F (p ++ [kc.1]) = true := by
            intro kc hm
            obtain ⟨a, ha⟩ := sdenItems_mem hi kc.1 kc.2 hm
            have hgc : getNode t (p ++ [kc.1]) = some kc.2 :=
              ((Placed.child (Placed.of_getNode hg) hm).getNode_uniq huk).1
            exact depthOk_of_sden t w huk g _ _ _ _ hgc ha
          obtain ⟨F, hF⟩ := exists_bound (P := fun F (kc : Key × Node) => depthOk t F (p ++ [kc.1]) = true)
            (fun F F' _ hle h => depthOk_mono hle h) cs hall
          refine ⟨F + 1, ?_⟩
          rw [depthOk_succ hg]
          intro q hq
          simp only [deps, List.mem_map] at hq
          obtain ⟨kc, hm, rfl⟩ := hq
          exact hF kc hm
    | leaf fl lk =>
      cases lk with
      | xref text =>
        simp only [sdenImpl] at hv
        obtain ⟨tp, m, F, htp, _, hF⟩ := depthOk_of_sdenXref (depthOk_of_sden t w huk g) rs g text v hv
        refine ⟨F + 1, ?_⟩
        rw [depthOk_succ hg]
        intro q hq
        simp [deps, htp] at hq
        subst hq
        exact hF
      | _ => exact ⟨1, by rw [depthOk_succ hg]; intro q hq; simp [deps] at hq⟩

/-- every node of a tree whose root has a strict denotation has one -/
theorem sden_below {t : Node} {w : World} : ∀ (q : Path) {f : Nat} {rs : Bool} {n : Node} {p : Path}
    {v : Val} {m : Node}, sden t w f rs n p = some v → getNode n q = some m →
    ∃ f' rs' v', sden t w f' rs' m (p ++ q) = some v'
  | [], f, rs, n, p, v, m, hv, hg => by
    simp [getNode] at hg; subst hg
    exact ⟨f, rs, v, by simpa using hv⟩
  | _ :: _, _, _, .leaf .., _, _, _, _, hg => by simp [getNode] at hg
  | key :: rest, f, rs, .comp fl k cs, p, v, m, hv, hg => by
    unfold getNode at hg
    split at hg
    · cases hg
    · rename_i c hc
      obtain ⟨g, rfl⟩ := sden_pos hv
      rw [sden_succ] at hv
      split at hv
      · cases hv
      simp only [sdenImpl] at hv
      split at hv
      · cases hv
      · split at hv
        · cases hv
        · rename_i items hi
          obtain ⟨a, ha⟩ := sdenItems_mem hi key c (alookup_mem hc)
          obtain ⟨f', rs', v', h'⟩ := sden_below rest ha hg
          exact ⟨f', rs', v', by simpa using h'⟩

/-- every node of a tree that builds has a strict denotation -/
theorem evaluate_sden_all {w : World} {t : Node} {v : Val} {st : EvSt} (huk : uniqueKeys t = true)
    (h : evaluate w t = .ok (v, st)) {q : Path} {m : Node} (hg : getNode t q = some m) :
    ∃ f rs v', sden t w f rs m q = some v' := by
  obtain ⟨f, hf⟩ := evaluate_sden huk h
  simpa using sden_below q hf hg

theorem noCycle_of_evaluate {w : World} {t : Node} {v : Val} {st : EvSt} (huk : uniqueKeys t = true)
    (h : evaluate w t = .ok (v, st)) : NoCycle t := by
  intro p hc
  obtain ⟨n, hn⟩ := hc.exists_left
  obtain ⟨f, rs, v', hv⟩ := evaluate_sden_all huk h hn
  obtain ⟨F, hF⟩ := depthOk_of_sden t w huk f rs n p v' hn hv
  exact hc.cycle_depth F hF

theorem xref_resolves_of_evaluate {w : World} {t : Node} {v : Val} {st : EvSt}
    (huk : uniqueKeys t = true) (h : evaluate w t = .ok (v, st)) {q : Path} {fl : Flags} {text : String}
    (hg : getNode t q = some (.leaf fl (.xref text))) :
    ∃ tp m, splitPath text = some tp ∧ getNode t tp = some m := by
  obtain ⟨f, rs, v', hv⟩ := evaluate_sden_all huk h hg
  obtain ⟨g, rfl⟩ := sden_pos hv
  rw [sden_succ] at hv
  split at hv
  · cases hv
  · simp only [sdenImpl] at hv
    exact sdenXref_inv hv

/-! ### plain data and references: bounded depth gives a denotation -/

theorem sden_of_depthOk (t : Node) (w : World) (huk : uniqueKeys t = true) (hr : refTree t = true)
    (hres : resolves t = true) (hnc : NoCycle t) :
    ∀ (F : Nat) (n : Node) (p : Path), getNode t p = some n → depthOk t F p = true →
    ∃ v, sden t w F false n p = some v := by
  intro F
  induction F using Nat.strongRecOn with
  | ind F ih =>
    intro n p hg hd
    obtain ⟨F1, rfl⟩ := depthOk_pos hd
    have hrn := refTree_getNode p hr hg
    rw [sden_succ]
    simp only [Bool.false_and, Bool.false_eq_true, if_false]
    -- the chain of references starting with a text of the tree
    have chain : ∀ (xf : Nat) (text : String) (tp : Path), xf ≤ F1 → splitPath text = some tp →
        tp ≠ [] → (∃ m, getNode t tp = some m) → depthOk t xf tp = true →
        ∃ v, sdenXref (sden t w F1) t false xf text = some v := by
      intro xf
      induction xf with
      | zero => intro text tp _ _ _ _ h0; simp [depthOk] at h0
      | succ xf ihx =>
        intro text tp hle htp hne hex h1
        obtain ⟨m, hm⟩ := hex
        by_cases hxr : ∃ fl next, m = .leaf fl (.xref next)
        · obtain ⟨fl, next, rfl⟩ := hxr
          obtain ⟨tp', m', htp', hm'⟩ := resolves_xref hres hm
          rw [sdenXref_step_link htp hm]
          simp only [Bool.false_and, Bool.false_eq_true, if_false]
          have h2 : depthOk t xf tp' = true :=
            (depthOk_succ hm).1 h1 tp' (by simp [deps, htp'])
          exact ihx next tp' (by omega) htp' (fun e => hnc.no_root_ref hm (e ▸ htp')) ⟨m', hm'⟩ h2
        · rw [sdenXref_step_end htp hm (fun fl tx e => hxr ⟨fl, tx, e⟩), if_neg hne]
          obtain ⟨v, hv⟩ := ih (xf + 1) (by omega) m tp hm h1
          exact ⟨v, sden_mono t w hle false m tp v hv⟩
    cases n with
    | leaf fl lk =>
      cases lk with
      | scalar s => exact ⟨_, rfl⟩
      | xref text =>
        obtain ⟨tp, m, htp, hm⟩ := resolves_xref hres hg
        have h2 : depthOk t F1 tp = true := (depthOk_succ hg).1 hd tp (by simp [deps, htp])
        simp only [sdenImpl]
        exact chain F1 text tp (Nat.le_refl _) htp (fun e => hnc.no_root_ref hg (e ▸ htp)) ⟨m, hm⟩ h2
      | _ => simp [refTree] at hrn
    | comp f k cs =>
      obtain ⟨hk, _⟩ := refTree_kids hrn
      have hall : ∀ key c, (key, c) ∈ cs → ∃ a, sden t w F1 false c (p ++ [key]) = some a := by
        intro key c hm
        have hgc : getNode t (p ++ [key]) = some c :=
          ((Placed.child (Placed.of_getNode hg) hm).getNode_uniq huk).1
        have h2 : depthOk t F1 (p ++ [key]) = true :=
          (depthOk_succ hg).1 hd _ (by simp only [deps, List.mem_map]; exact ⟨(key, c), hm, rfl⟩)
        exact ih F1 (Nat.lt_succ_self _) c _ hgc h2
      obtain ⟨items, hi⟩ := sdenItems_of_all (rec := sden t w F1) (rs := false) (path := p) cs hall
      rcases hk with rfl | rfl
      · exact ⟨_, by simp only [sdenImpl, CompKind.isFunc, Bool.false_and, Bool.false_eq_true, if_false,
          Bool.or_false, hi, denFinish]; rfl⟩
      · exact ⟨_, by simp only [sdenImpl, CompKind.isFunc, Bool.false_and, Bool.false_eq_true, if_false,
          Bool.or_false, hi, denFinish]; rfl⟩

/-! ### the end of a chain, within `size` steps -/

theorem xrefResolve_link {root : Node} {a b : String} (h : XLink root a b) (f : Nat) :
    xrefResolve root (f + 1) a = xrefResolve root f b := by
  obtain ⟨tp, fl, htp, hg⟩ := h
  exact xrefResolve_step htp hg

theorem xrefResolve_plus {root : Node} {a b : String} (h : XPlus root a b) :
    ∀ (f : Nat) (tp : Path), xrefResolve root f a = some tp →
      ∃ f', f' < f ∧ xrefResolve root f' b = some tp := by
  induction h with
  | single hl =>
    intro f tp hx
    cases f with
    | zero => simp [xrefResolve] at hx
    | succ f => exact ⟨f, Nat.lt_succ_self _, by rw [← xrefResolve_link hl]; exact hx⟩
  | tail _ hl ih =>
    intro f tp hx
    obtain ⟨f', hlt, h'⟩ := ih f tp hx
    cases f' with
    | zero => simp [xrefResolve] at h'
    | succ f'' => exact ⟨f'', by omega, by rw [← xrefResolve_link hl]; exact h'⟩

theorem xrefResolve_acyclic {root : Node} {a : String} (h : XPlus root a a) :
    ∀ (f : Nat) (tp : Path), xrefResolve root f a ≠ some tp := by
  intro f
  induction f using Nat.strongRecOn with
  | ind f ih =>
    intro tp hx
    obtain ⟨f', hlt, h'⟩ := xrefResolve_plus h f tp hx
    exact ih f' hlt tp h'

/-- a chain that ends with some fuel ends with every fuel that covers the reference texts not yet
    on the chain -/
theorem xrefResolve_bound (root : Node) : ∀ (fuel F : Nat) (cur : String) (chain : List String)
    (tp : Path), xrefResolve root fuel cur = some tp → chain.Nodup →
    (∀ c, c ∈ chain → c ∈ xrefTexts root ∧ XPlus root c cur) → cur ∈ xrefTexts root →
    (xrefTexts root).length ≤ F + chain.length → xrefResolve root F cur = some tp
  | 0, _, _, _, _, hx, _, _, _, _ => by simp [xrefResolve] at hx
  | fuel + 1, F, cur, chain, tp, hx, hnd, hch, hcur, hF => by
    have hnc : cur ∉ chain := fun hm => xrefResolve_acyclic (hch cur hm).2 _ _ hx
    have hlen : (cur :: chain).length ≤ (xrefTexts root).length := by
      apply nodup_subset_length_le _ _ (List.nodup_cons.2 ⟨hnc, hnd⟩)
      intro a ha
      rcases List.mem_cons.1 ha with rfl | ha
      · exact hcur
      · exact (hch a ha).1
    simp only [List.length_cons] at hlen
    obtain ⟨F', rfl⟩ : ∃ F', F = F' + 1 := by
      cases F with
      | zero => omega
      | succ F' => exact ⟨F', rfl⟩
    unfold xrefResolve at hx ⊢
    split at hx
    · cases hx
    · rename_i tp0 htp
      split at hx
      · rename_i fl next hg
        have hl : XLink root cur next := ⟨tp0, fl, htp, hg⟩
        apply xrefResolve_bound root fuel F' next (cur :: chain) tp hx
          (List.nodup_cons.2 ⟨hnc, hnd⟩)
        · intro c hc
          rcases List.mem_cons.1 hc with rfl | hc
          · exact ⟨hcur, .single hl⟩
          · exact ⟨(hch c hc).1, .tail (hch c hc).2 hl⟩
        · exact getNode_xref_mem tp0 root hg
        · simp only [List.length_cons]; omega
      · rename_i m hnx hg
        cases hx
        cases m with
        | comp f k cs => rfl
        | leaf fl lk =>
          cases lk with
          | xref next => exact absurd rfl (hnx fl next)
          | _ => rfl
      · cases hx

/-- the chain of a reference of the tree that ends, ends within `root.size` steps -/
theorem xrefResolve_size {root : Node} {p : Path} {fl : Flags} {text : String}
    (hg : getNode root p = some (.leaf fl (.xref text))) {fuel : Nat} {tp : Path}
    (hx : xrefResolve root fuel text = some tp) : chainEnd root text = some tp :=
  xrefResolve_bound root fuel root.size text [] tp hx List.nodup_nil (by intro c hc; cases hc)
    (getNode_xref_mem p root hg) (by have := xrefTexts_length_le root; simp; omega)

end AY
