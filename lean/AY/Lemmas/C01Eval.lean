/-
  AY.Lemmas.C01Eval — the evaluator on trees of plain mappings, lists and scalars (`dataT`, any
  flags): evaluation succeeds and returns the data of the tree.  The memo tables of the evaluation
  context are handled by the invariant `Fresh` (no cached / in-progress path lies at or below the
  node about to be evaluated).
-/
import AY.Model.Eval
import AY.Lemmas.DataTree
namespace AY

mutual
/-- the plain data of an evaluated value (object identities dropped) -/
def valData : Val → Plain
  | .scalar s => .scalar s
  | .dict _ items => .dict (valDataD items)
  | .list _ items => .list (valDataL items)
  | _ => .scalar .null
def valDataD : List (Key × Val) → List (Key × Plain)
  | [] => []
  | (k, v) :: rest => (k, valData v) :: valDataD rest
def valDataL : List Val → List Plain
  | [] => []
  | v :: rest => valData v :: valDataL rest
end

def cachePaths (st : EvSt) : List Path := st.cache.map (·.1)

/-- nothing at or below `p` is cached or being evaluated -/
def Fresh (p : Path) (st : EvSt) : Prop :=
  (∀ x, x ∈ cachePaths st → ¬ p <+: x) ∧ (∀ x, x ∈ st.inProgress → ¬ p <+: x)

/-- evaluation of the node at `p` only adds cache entries at or below `p` -/
def Grow (p : Path) (st st' : EvSt) : Prop :=
  (∀ x, x ∈ cachePaths st' → x ∈ cachePaths st ∨ p <+: x) ∧ st'.inProgress = st.inProgress

def RecEv (d : Nat) (rec : Rec) : Prop :=
  ∀ c q st, dataT c = true → c.depth < d → Fresh q st →
    ∃ v st', rec false c q st = .ok (v, st') ∧ valData v = native c ∧ Grow q st st'

theorem plookup_none (p : Path) : ∀ l : List (Path × Val), (∀ x, x ∈ l.map (·.1) → x ≠ p) → plookup p l = none
  | [], _ => rfl
  | (q, v) :: rest, h => by
    have hq : q ≠ p := h q (by simp)
    simp only [plookup, hq, if_false]
    exact plookup_none p rest (fun x hx => h x (by simp only [List.map_cons, List.mem_cons]; exact .inr hx))

theorem prefix_snoc_left {p x : Path} {k : Key} (h : (p ++ [k]) <+: x) : p <+: x :=
  (List.prefix_append p [k]).trans h

theorem prefix_snoc_inj {p x : Path} {k₁ k₂ : Key} (h₁ : (p ++ [k₁]) <+: x) (h₂ : (p ++ [k₂]) <+: x) :
    k₁ = k₂ := by
  obtain ⟨t₁, e₁⟩ := h₁
  obtain ⟨t₂, e₂⟩ := h₂
  have : p ++ (k₁ :: t₁) = p ++ (k₂ :: t₂) := by
    simpa [List.append_assoc] using e₁.trans e₂.symm
  have := List.append_cancel_left this
  injection this

theorem not_prefix_snoc_self (p : Path) (k : Key) : ¬ (p ++ [k]) <+: p := by
  intro h
  have := h.length_le
  simp at this
  omega

theorem fresh_child {p : Path} {st0 st1 : EvSt} (hf : Fresh p st0) (hc : st1.cache = st0.cache)
    (hi : st1.inProgress = p :: st0.inProgress) (k : Key) : Fresh (p ++ [k]) st1 := by
  refine ⟨?_, ?_⟩
  · intro x hx hp
    have hx' : x ∈ cachePaths st0 := by simpa [cachePaths, hc] using hx
    exact hf.1 x hx' (prefix_snoc_left hp)
  · intro x hx hp
    rw [hi] at hx
    rcases List.mem_cons.1 hx with hx | hx
    · subst hx; exact not_prefix_snoc_self _ k hp
    · exact hf.2 x hx (prefix_snoc_left hp)

/-- the children of a container -/
theorem evalItems_data {d : Nat} {rec : Rec} (H : RecEv d rec) (p : Path) :
    ∀ (cs : List (Key × Node)) (st : EvSt), dataTList cs = true → keysNodup cs = true →
      depthList cs < d → (∀ k, k ∈ akeys cs → Fresh (p ++ [k]) st) →
      ∃ items st', evalItems rec false p cs st = .ok (items, st') ∧
        valDataD items = nativeList cs ∧ valDataL (items.map (·.2)) = nativeVals cs ∧
        (∀ x, x ∈ cachePaths st' → x ∈ cachePaths st ∨ p <+: x) ∧ st'.inProgress = st.inProgress
  | [], st, _, _, _, _ => ⟨[], st, rfl, rfl, rfl, fun _ h => .inl h, rfl⟩
  | (k₁, c₁) :: rest, st, hcs, hnd, hd, hf => by
    have hcs' : dataT c₁ = true ∧ dataTList rest = true := by simpa [dataTList] using hcs
    have hnd' : (akeys rest).contains k₁ = false ∧ keysNodup rest = true := by
      simpa [keysNodup] using hnd
    have hd' : c₁.depth < d ∧ depthList rest < d := by simp only [depthList] at hd; omega
    obtain ⟨v, st1, he, hv, hg, hip⟩ := H c₁ (p ++ [k₁]) st hcs'.1 hd'.1 (hf k₁ (by simp [akeys]))
    have hf1 : ∀ k, k ∈ akeys rest → Fresh (p ++ [k]) st1 := by
      intro k hk
      have hfk := hf k (by simp [akeys, hk])
      refine ⟨?_, ?_⟩
      · intro x hx hp
        rcases hg x hx with hx' | hx'
        · exact hfk.1 x hx' hp
        · have : k₁ = k := prefix_snoc_inj hx' hp
          subst this
          have := hnd'.1
          simp at this
          exact this hk
      · intro x hx hp
        rw [hip] at hx
        exact hfk.2 x hx hp
    obtain ⟨items, st2, he2, hv2, hv2', hg2, hip2⟩ := evalItems_data H p rest st1 hcs'.2 hnd'.2 hd'.2 hf1
    refine ⟨(k₁, v) :: items, st2, by simp only [evalItems, he, he2], by simp [valDataD, nativeList, hv, hv2],
      by simp [valDataL, nativeVals, hv, hv2'], ?_, by rw [hip2, hip]⟩
    intro x hx
    rcases hg2 x hx with hx' | hx'
    · rcases hg x hx' with hx'' | hx''
      · exact .inl hx''
      · exact .inr (prefix_snoc_left hx'')
    · exact .inr hx'

/-- `on_evaluate_impl` of plain mappings, plain lists and scalars -/
theorem evalImpl_data {d : Nat} {rec : Rec} (H : RecEv d rec) (root : Node) (w : World) (n : Node)
    (p : Path) (st1 : EvSt) (r : EvR Val) (he : evalImpl rec root w false n p st1 = r)
    (hn : dataT n = true) (hd : n.depth ≤ d) (hf : ∀ k, Fresh (p ++ [k]) st1) :
    ∃ v st2, r = .ok (v, st2) ∧ valData v = native n ∧
      (∀ x, x ∈ cachePaths st2 → x ∈ cachePaths st1 ∨ p <+: x) ∧ st2.inProgress = st1.inProgress := by
  subst he
  cases n with
  | leaf f lk =>
    obtain ⟨v, rfl⟩ := dataT_leaf hn
    exact ⟨.scalar v, st1, rfl, rfl, fun _ h => .inl h, rfl⟩
  | comp f k cs =>
    obtain ⟨hk, hnd, hcs⟩ := dataT_comp hn
    have hd' : depthList cs < d := by simp only [Node.depth] at hd; omega
    obtain ⟨items, st2, he, hv, hv', hg, hip⟩ := evalItems_data H p cs st1 hcs hnd hd' (fun k _ => hf k)
    rcases hk with hk | hk <;> subst hk
    · exact ⟨.dict p items, st2, by simp only [evalImpl, he], by simp [valData, native, CompKind.isDictFam, hv],
        hg, hip⟩
    · exact ⟨.list p (items.map (·.2)), st2, by simp only [evalImpl, he],
        by simp [valData, native, CompKind.isDictFam, hv'], hg, hip⟩

/-- `ctx.evaluate_node` without `require_all_safe` -/
theorem evalNodeF_data (root : Node) (w : World) : ∀ (fuel : Nat) (n : Node) (p : Path) (st : EvSt),
    dataT n = true → n.depth < fuel → Fresh p st →
    ∃ v st', evalNodeF root w fuel false n p st = .ok (v, st') ∧ valData v = native n ∧ Grow p st st' := by
  intro fuel
  induction fuel with
  | zero => intro n p st _ h; omega
  | succ fuel ih =>
    intro n p st hn hd hf
    have H : RecEv fuel (evalNodeF root w fuel) := fun c q st' hc hdc hfq => ih c q st' hc hdc hfq
    have hp : plookup p st.cache = none :=
      plookup_none p st.cache (fun x hx e => hf.1 x hx (e ▸ List.prefix_refl _))
    have hip : st.inProgress.contains p = false := by
      apply Bool.eq_false_iff.2
      intro hc
      exact hf.2 p (by simpa using hc) (List.prefix_refl _)
    simp only [evalNodeF, Bool.false_and, Bool.false_eq_true, if_false]
    by_cases hs : eSafe n.flags = true
    · simp only [hs, Bool.not_true, Bool.false_eq_true, if_false, hp, hip]
      split
      · rename_i e heq
        obtain ⟨v, st2, hr, _⟩ := evalImpl_data H root w n p _ _ heq hn (by omega) (fresh_child hf rfl rfl)
        cases hr
      · rename_i v st2 heq
        obtain ⟨v', st2', hr, hv, hg, hi⟩ := evalImpl_data H root w n p _ _ heq hn (by omega)
          (fresh_child hf rfl rfl)
        injection hr with hr
        injection hr with hr1 hr2
        subst hr1; subst hr2
        refine ⟨_, _, rfl, hv, ?_, ?_⟩
        · intro x hx
          simp only [cachePaths, List.map_cons, List.mem_cons] at hx
          rcases hx with hx | hx
          · exact .inr (hx ▸ List.prefix_refl _)
          · exact hg x hx
        · simp only [hi, List.erase_cons_head]
    · have hs' : eSafe n.flags = false := by simpa using hs
      simp only [hs', Bool.not_false, if_true, hp, hip, Bool.false_eq_true, if_false]
      split
      · rename_i e heq
        obtain ⟨v, st2, hr, _⟩ := evalImpl_data H root w n p _ _ heq hn (by omega) (fresh_child hf rfl rfl)
        cases hr
      · rename_i v st2 heq
        obtain ⟨v', st2', hr, hv, hg, hi⟩ := evalImpl_data H root w n p _ _ heq hn (by omega)
          (fresh_child hf rfl rfl)
        injection hr with hr
        injection hr with hr1 hr2
        subst hr1; subst hr2
        refine ⟨_, _, rfl, hv, ?_, ?_⟩
        · intro x hx
          simp only [cachePaths, List.map_cons, List.mem_cons] at hx
          rcases hx with hx | hx
          · exact .inr (hx ▸ List.prefix_refl _)
          · exact hg x hx
        · simp only [hi, List.erase_cons_head]

/-! ### `Config(root)` -/

mutual
theorem requiredPaths_dataT : ∀ (p : Path) (n : Node), dataT n = true → requiredPaths p n = []
  | p, .leaf f lk, h => by obtain ⟨v, rfl⟩ := dataT_leaf h; rfl
  | p, .comp f k cs, h => by
    simp only [requiredPaths]
    exact requiredPathsList_dataT p cs (dataT_comp h).2.2
theorem requiredPathsList_dataT : ∀ (p : Path) (cs : List (Key × Node)), dataTList cs = true →
    requiredPathsList p cs = []
  | _, [], _ => rfl
  | p, (k, c) :: rest, h => by
    have h' : dataT c = true ∧ dataTList rest = true := by simpa [dataTList] using h
    simp [requiredPathsList, requiredPaths_dataT (p ++ [k]) c h'.1, requiredPathsList_dataT p rest h'.2]
end

mutual
theorem depth_le_size : ∀ n : Node, n.depth ≤ n.size
  | .leaf .. => by simp [Node.depth, Node.size]
  | .comp _ _ cs => by
    have := depthList_le_sizeList cs
    simp only [Node.depth, Node.size]; omega
theorem depthList_le_sizeList : ∀ cs : List (Key × Node), depthList cs ≤ sizeList cs
  | [] => by simp [depthList, sizeList]
  | (_, c) :: rest => by
    have h1 := depth_le_size c
    have h2 := depthList_le_sizeList rest
    simp only [depthList, sizeList]; omega
end

theorem fresh_init : Fresh [] {} := ⟨fun _ h => by simp [cachePaths] at h, fun _ h => by cases h⟩

/-- `Config(root)` on a mapping tree of plain containers and scalars returns its data -/
theorem config_data (w : World) (n : Node) (hn : dataT n = true) (hd : n.isDict = true) :
    ∃ v st, config w n = .ok (v, st) ∧ valData v = native n := by
  cases n with
  | leaf f lk => simp [Node.isDict] at hd
  | comp f k cs =>
    have hk : k = .dict := by
      rcases (dataT_comp hn).1 with h | h
      · exact h
      · subst h; simp [Node.isDict, CompKind.isDictFam] at hd
    subst hk
    cases cs with
    | nil => exact ⟨.dict [] [], {}, rfl, rfl⟩
    | cons kv rest =>
      have hlt : (Node.comp f .dict (kv :: rest)).depth < 2 * (Node.comp f .dict (kv :: rest)).size + 10 := by
        have := depth_le_size (.comp f .dict (kv :: rest)); omega
      obtain ⟨v, st, he, hv, _⟩ := evalNodeF_data (.comp f .dict (kv :: rest)) w _ _ [] {} hn hlt fresh_init
      refine ⟨v, st, ?_, hv⟩
      simp only [config, requiredPaths_dataT [] _ hn, evaluate, he]

/-! ### the builder on a single stage -/

theorem premergeChildren_dataT {d : Nat} {rec : Node → Path → Option Node → PM}
    (H : ∀ c p into, dataT c = true → c.depth < d → rec c p into = .ok (c, true, into)) (path : Path) :
    ∀ (cs : List (Key × Node)) (into : Option Node), dataTList cs = true → depthList cs < d →
      premergeChildren rec path cs into = .ok (cs, [], into)
  | [], into, _, _ => rfl
  | (k, c) :: rest, into, h, hd => by
    have h' : dataT c = true ∧ dataTList rest = true := by simpa [dataTList] using h
    have hd' : c.depth < d ∧ depthList rest < d := by simp only [depthList] at hd; omega
    simp [premergeChildren, H c _ into h'.1 hd'.1, premergeChildren_dataT H path rest into h'.2 hd'.2]

/-- the pre-merge pass is the identity on trees of plain containers and scalars (any flags) -/
theorem premergeF_dataT : ∀ (fuel : Nat) (n : Node) (path : Path) (into : Option Node),
    dataT n = true → n.depth < fuel → premergeF fuel n path into = .ok (n, true, into) := by
  intro fuel
  induction fuel with
  | zero => intro n _ _ _ h; omega
  | succ fuel ih =>
    intro n path into hn hd
    cases n with
    | leaf f lk =>
      obtain ⟨v, rfl⟩ := dataT_leaf hn
      simp [premergeF]
    | comp f k cs =>
      obtain ⟨hk, _, hcs⟩ := dataT_comp hn
      have hlt : depthList cs < fuel := by simp only [Node.depth] at hd; omega
      have hch := premergeChildren_dataT (fun c p into hc hdc => ih c p into hc hdc) path cs into hcs hlt
      rcases hk with hk | hk <;> subst hk <;> simp [premergeF, hch, applyResets]

/-- `Builder.flatten` of a single stage: only the `allow_new` check of the first stage can fail -/
theorem flatten_single_dataT (n : Node) (hn : dataT n = true) (hd : n.isDict = true) :
    flatten [n] = match reqNew [] [] n with
      | some p => .error (.notnew p)
      | none => .ok n := by
  have hfuel : n.depth < stagesFuel [n] := by simp [stagesFuel]; omega
  simp only [flatten, flattenWith, List.all_cons, List.all_nil, hd, Bool.and_self, Bool.not_true,
    Bool.false_eq_true, if_false, premergeF_dataT _ n [] none hn hfuel]
  cases reqNew [] [] n <;> rfl

end AY
