/-
  AY.Lemmas.C15WholeConstruct — erasing the `safe` / `new` keywords of the tags of a document
  (`Raw.eraseSN`) before loading it is erasing `safe` / `allow_new` on the loaded tree (`eraseSN`):
      construct env.eraseSN r.eraseSN = (construct env r).map eraseSN       (for `!notnew`-free `r`)
  and the loader produces `!notnew`-free trees (`NN`) from `!notnew`-free documents.
-/
import AY.Lemmas.C15WholeFlatten
set_option linter.unusedVariables false
set_option linter.unusedSimpArgs false
namespace AY
open AY.C15W

/-- forget `!unsafe` (`safe`) and `!new` (`new = True`) of a tag; `!notnew` is not in the domain of the clause
    and is left alone -/
def CtorKw.eraseSN (kw : CtorKw) : CtorKw :=
  { kw with safe := none, new := if kw.new = some false then some false else none }

/-- the tag is not `!notnew` -/
def CtorKw.nn (kw : CtorKw) : Bool := kw.new != some false

mutual
/-- the same document without `!unsafe` / `!new` marks -/
def Raw.eraseSN : Raw → Raw
  | .scalar t kw v => .scalar t kw.eraseSN v
  | .seq t kw items => .seq t kw.eraseSN (Raw.eraseSNList items)
  | .map t kw items => .map t kw.eraseSN (Raw.eraseSNMap items)
def Raw.eraseSNList : List Raw → List Raw
  | [] => []
  | r :: rest => Raw.eraseSN r :: Raw.eraseSNList rest
def Raw.eraseSNMap : List (Key × Raw) → List (Key × Raw)
  | [] => []
  | (k, r) :: rest => (k, Raw.eraseSN r) :: Raw.eraseSNMap rest
end

mutual
/-- no tag of the document is `!notnew` -/
def Raw.nn : Raw → Bool
  | .scalar _ kw _ => kw.nn
  | .seq _ kw items => kw.nn && Raw.nnList items
  | .map _ kw items => kw.nn && Raw.nnMap items
def Raw.nnList : List Raw → Bool
  | [] => true
  | r :: rest => Raw.nn r && Raw.nnList rest
def Raw.nnMap : List (Key × Raw) → Bool
  | [] => true
  | (_, r) :: rest => Raw.nn r && Raw.nnMap rest
end

/-- a source whose file-level default is "safe" -/
def Env.eraseSN (env : Env) : Env := { env with dSafe := true }

/-! ### flags built by the constructors -/

theorem mkFlags_erase (env : Env) {kw : CtorKw} (hk : kw.nn = true) :
    mkFlags env.eraseSN kw.eraseSN = eraseF (mkFlags env kw) := by
  cases kw with
  | mk prio del new safe md =>
    simp only [CtorKw.nn, bne_iff_ne, ne_eq] at hk
    simp [mkFlags, eraseF, CtorKw.eraseSN, Env.eraseSN, hk]

theorem bareFlags_erase (env : Env) : bareFlags env.eraseSN = eraseF (bareFlags env) := rfl

theorem prio_eraseKw (kw : CtorKw) : kw.eraseSN.prio = kw.prio := rfl
theorem del_eraseKw (kw : CtorKw) : kw.eraseSN.del = kw.del := rfl

theorem nnF_mkFlags (env : Env) {kw : CtorKw} (hk : kw.nn = true) : nnF (mkFlags env kw) = true := by
  simp only [CtorKw.nn] at hk
  simp [nnF, mkFlags, hk]

theorem nnF_bareFlags (env : Env) : nnF (bareFlags env) = true := rfl

/-! ### class constructors -/

theorem mapInherit_eraseSN (p? : Option Int) (kw? : Option ChildKw) : ∀ (cs : List (Key × Node)),
    allConsistent cs = true →
    (eraseSNList cs).map (fun kv => (kv.1, inheritInto p? (kw?.map eraseKw) kv.2)) =
      eraseSNList (cs.map (fun kv => (kv.1, inheritInto p? kw? kv.2)))
  | [], _ => rfl
  | (key, c) :: rest, h => by
    rw [allConsistent_cons] at h
    simp only [eraseSNList, List.map_cons, mapInherit_eraseSN p? kw? rest h.2, inheritInto_eraseSN p? kw? h.1]

theorem initChildren_eraseSN (f : Flags) (k : CompKind) (p? : Option Int) (cs : List (Key × Node))
    (h : allConsistent cs = true) :
    initChildren (eraseF f) k p? (eraseSNList cs) = eraseSNList (initChildren f k p? cs) := by
  simp only [initChildren, childKw_eraseF']
  exact mapInherit_eraseSN p? (childKw f k) cs h

theorem initChildren_nn {f : Flags} (k : CompKind) (p? : Option Int) (hf : nnF f = true) : ∀ (cs : List (Key × Node)),
    nnList cs = true → nnList (initChildren f k p? cs) = true
  | [], _ => rfl
  | (key, c) :: rest, h => by
    rw [nnList_cons] at h
    have ih := initChildren_nn k p? hf rest h.2
    simp only [initChildren] at ih
    simp only [initChildren, List.map_cons]
    rw [nnList_cons]
    exact ⟨inheritInto_nn p? (fun kw e => nnKw_childKw hf e) h.1, ih⟩

theorem comp_init_eraseSN (f : Flags) (k : CompKind) (p? : Option Int) {cs : List (Key × Node)}
    (h : allConsistent cs = true) :
    Node.comp (eraseF f) k (initChildren (eraseF f) k p? (eraseSNList cs)) =
      eraseSN (.comp f k (initChildren f k p? cs)) := by
  simp only [eraseSN, initChildren_eraseSN f k p? cs h]

theorem comp_init_nn {f : Flags} (k : CompKind) (p? : Option Int) (hf : nnF f = true) {cs : List (Key × Node)}
    (h : nnList cs = true) : NN (.comp f k (initChildren f k p? cs)) = true :=
  (NN_comp _ _ _).2 ⟨hf, initChildren_nn k p? hf cs h⟩

theorem funcFlags_erase (env : Env) {kw : CtorKw} (hk : kw.nn = true) :
    { mkFlags env.eraseSN kw.eraseSN with del := kw.eraseSN.del.or (some Tables.funcCtorDelete) } =
      eraseF { mkFlags env kw with del := kw.del.or (some Tables.funcCtorDelete) } := by
  rw [mkFlags_erase env hk]; rfl

theorem nnF_funcFlags (env : Env) {kw : CtorKw} (hk : kw.nn = true) :
    nnF { mkFlags env kw with del := kw.del.or (some Tables.funcCtorDelete) } = true := by
  have := nnF_mkFlags env hk
  simpa [nnF] using this

theorem wrapSeq_eraseSN (env : Env) (t : TagKind) {kw : CtorKw} (hk : kw.nn = true) {cs : List (Key × Node)}
    (h : allConsistent cs = true) :
    wrapSeq env.eraseSN t kw.eraseSN (eraseSNList cs) = (wrapSeq env t kw cs).map eraseSN := by
  cases t
  case call f =>
    simp only [wrapSeq, funcFlags_erase env hk, prio_eraseKw, comp_init_eraseSN _ _ _ h, Except.map]
    split <;> rfl
  case bind f =>
    simp only [wrapSeq, funcFlags_erase env hk, prio_eraseKw, comp_init_eraseSN _ _ _ h, Except.map]
    split <;> rfl
  all_goals
    simp only [wrapSeq, mkFlags_erase env hk, bareFlags_erase, prio_eraseKw, comp_init_eraseSN _ _ _ h, Except.map]

theorem wrapMap_eraseSN (env : Env) (t : TagKind) {kw : CtorKw} (hk : kw.nn = true) {cs : List (Key × Node)}
    (h : allConsistent cs = true) :
    wrapMap env.eraseSN t kw.eraseSN (eraseSNList cs) = (wrapMap env t kw cs).map eraseSN := by
  cases t
  case call f =>
    simp only [wrapMap, funcFlags_erase env hk, prio_eraseKw, comp_init_eraseSN _ _ _ h, Except.map]
    split <;> rfl
  case bind f =>
    simp only [wrapMap, funcFlags_erase env hk, prio_eraseKw, comp_init_eraseSN _ _ _ h, Except.map]
    split <;> rfl
  all_goals
    simp only [wrapMap, mkFlags_erase env hk, bareFlags_erase, prio_eraseKw, comp_init_eraseSN _ _ _ h, Except.map]

theorem wrapSeq_nn {env : Env} {t : TagKind} {kw : CtorKw} (hk : kw.nn = true) {cs : List (Key × Node)} {n : Node}
    (hc : nnList cs = true) (h : wrapSeq env t kw cs = .ok n) : NN n = true := by
  have h1 := nnF_mkFlags env hk
  have h2 := nnF_funcFlags env hk
  simp only [wrapSeq] at h
  split at h
  all_goals first
    | (cases h; exact comp_init_nn _ _ (nnF_bareFlags env) hc)
    | (cases h; exact comp_init_nn _ _ h1 hc)
    | (split at h
       · cases h
       · cases h; exact comp_init_nn _ _ h2 hc)
    | cases h

theorem wrapMap_nn {env : Env} {t : TagKind} {kw : CtorKw} (hk : kw.nn = true) {cs : List (Key × Node)} {n : Node}
    (hc : nnList cs = true) (h : wrapMap env t kw cs = .ok n) : NN n = true := by
  have h1 := nnF_mkFlags env hk
  have h2 := nnF_funcFlags env hk
  simp only [wrapMap] at h
  split at h
  all_goals first
    | (cases h; exact comp_init_nn _ _ (nnF_bareFlags env) hc)
    | (cases h; exact comp_init_nn _ _ h1 hc)
    | (split at h
       · cases h
       · cases h; exact comp_init_nn _ _ h2 hc)
    | cases h

theorem scalarAsItems_eraseSN (env : Env) (v : RVal) :
    scalarAsItems env.eraseSN v = eraseSNList (scalarAsItems env v) := by
  cases v <;> rfl

theorem scalarAsItems_nn (env : Env) (v : RVal) : nnList (scalarAsItems env v) = true := by
  cases v <;> rfl

theorem wrapScalar_eraseSN (env : Env) (t : TagKind) {kw : CtorKw} (hk : kw.nn = true) (v : RVal) :
    wrapScalar env.eraseSN t kw.eraseSN v = (wrapScalar env t kw v).map eraseSN := by
  have hs := fun t' => wrapSeq_eraseSN env t' hk (scalarAsItems_cons env v)
  have hm := fun t' => wrapMap_eraseSN env t' hk (scalarAsItems_cons env v)
  have hs0 := fun t' => wrapSeq_eraseSN env t' hk nil_cons
  have hm0 := fun t' => wrapMap_eraseSN env t' hk nil_cons
  simp only [← scalarAsItems_eraseSN] at hs hm
  simp only [eraseSNList] at hs0 hm0
  cases t
  case plain =>
    simp only [wrapScalar, mkFlags_erase env hk, bareFlags_erase, prio_eraseKw]
    split <;> rfl
  case path r =>
    simp only [wrapScalar, hs, hs0]
    split
    · rfl
    · split <;> rfl
    · rfl
  case call f =>
    simp only [wrapScalar, hm, hm0]
    split <;> rfl
  case bind f =>
    simp only [wrapScalar, hm, hm0]
    split <;> rfl
  case callName =>
    simp only [wrapScalar, hm0]
    split <;> rfl
  case bindName =>
    simp only [wrapScalar, hm0]
    split <;> rfl
  all_goals
    simp only [wrapScalar, mkFlags_erase env hk, bareFlags_erase, hs, hm]
    try (first
      | rfl
      | (split <;> rfl))

theorem wrapScalar_nn {env : Env} {t : TagKind} {kw : CtorKw} (hk : kw.nn = true) {v : RVal} {n : Node}
    (h : wrapScalar env t kw v = .ok n) : NN n = true := by
  have h1 := nnF_mkFlags env hk
  have hb := nnF_bareFlags env
  have hbp : nnF { bareFlags env with prio := kw.prio } = true := rfl
  simp only [wrapScalar] at h
  split at h
  all_goals first
    | exact wrapSeq_nn hk (scalarAsItems_nn _ _) h
    | (cases h; first | exact hb | exact h1 | exact hbp)
    | (split at h
       all_goals first
         | exact wrapSeq_nn hk (scalarAsItems_nn _ _) h
         | exact wrapMap_nn hk (scalarAsItems_nn _ _) h
         | exact wrapSeq_nn hk nnList_nil h
         | exact wrapMap_nn hk nnList_nil h
         | (cases h; first | exact hb | exact h1 | exact hbp)
         | (cases h; done)
         | (split at h
            · exact wrapSeq_nn hk (scalarAsItems_nn _ _) h
            · exact wrapSeq_nn hk nnList_nil h))

/-! ### the loader: bottom-up construction below a tag -/

theorem nodeStr_eraseSN (n : Node) : nodeStr? (eraseSN n) = nodeStr? n := by
  cases n with
  | leaf f k =>
    cases k with
    | scalar v => cases v <;> rfl
    | _ => rfl
  | comp f k cs => rfl

theorem allStrs_eraseSN : ∀ cs : List (Key × Node), allStrs (eraseSNList cs) = allStrs cs
  | [] => rfl
  | (k, c) :: rest => by simp only [eraseSNList, allStrs, nodeStr_eraseSN, allStrs_eraseSN rest]

mutual
theorem constructDeep_eraseSN (env : Env) : ∀ (r : Raw), r.nn = true →
    constructDeep env.eraseSN r.eraseSN = (constructDeep env r).map eraseSN
  | .scalar t kw v, h => by
    simp only [Raw.nn] at h
    simp only [Raw.eraseSN, constructDeep, wrapScalar_eraseSN env t h v]
  | .seq t kw items, h => by
    simp only [Raw.nn, Bool.and_eq_true] at h
    simp only [Raw.eraseSN, constructDeep, constructDeepList_eraseSN env 0 items h.2]
    cases hcs : constructDeepList env 0 items with
    | error e => rfl
    | ok cs =>
      have hall := constructDeepList_cons env 0 items cs hcs
      simp only [Except.map]
      cases t
      case incl =>
        simp only [allStrs_eraseSN, mkFlags_erase env h.1]
        cases allStrs cs <;> rfl
      all_goals exact wrapSeq_eraseSN env _ h.1 hall
  | .map t kw items, h => by
    simp only [Raw.nn, Bool.and_eq_true] at h
    simp only [Raw.eraseSN, constructDeep, constructDeepMap_eraseSN env items h.2]
    cases hcs : constructDeepMap env items with
    | error e => rfl
    | ok cs =>
      simp only [Except.map]
      exact wrapMap_eraseSN env t h.1 (constructDeepMap_cons env items cs hcs)
theorem constructDeepList_eraseSN (env : Env) : ∀ (i : Nat) (items : List Raw), Raw.nnList items = true →
    constructDeepList env.eraseSN i (Raw.eraseSNList items) = (constructDeepList env i items).map eraseSNList
  | _, [], _ => rfl
  | i, r :: rest, h => by
    simp only [Raw.nnList, Bool.and_eq_true] at h
    simp only [Raw.eraseSNList, constructDeepList, constructDeep_eraseSN env r h.1,
      constructDeepList_eraseSN env (i + 1) rest h.2]
    cases constructDeep env r with
    | error e => rfl
    | ok n =>
      simp only [Except.map]
      cases constructDeepList env (i + 1) rest <;> rfl
theorem constructDeepMap_eraseSN (env : Env) : ∀ (items : List (Key × Raw)), Raw.nnMap items = true →
    constructDeepMap env.eraseSN (Raw.eraseSNMap items) = (constructDeepMap env items).map eraseSNList
  | [], _ => rfl
  | (k, r) :: rest, h => by
    simp only [Raw.nnMap, Bool.and_eq_true] at h
    simp only [Raw.eraseSNMap, constructDeepMap, constructDeep_eraseSN env r h.1,
      constructDeepMap_eraseSN env rest h.2]
    cases constructDeep env r with
    | error e => rfl
    | ok n =>
      simp only [Except.map]
      cases constructDeepMap env rest <;> rfl
end

mutual
theorem constructDeep_nn (env : Env) : ∀ (r : Raw) (n : Node), r.nn = true →
    constructDeep env r = .ok n → NN n = true
  | .scalar t kw v, n, hk, h => by
    simp only [Raw.nn] at hk
    simp only [constructDeep] at h
    exact wrapScalar_nn hk h
  | .seq t kw items, n, hk, h => by
    simp only [Raw.nn, Bool.and_eq_true] at hk
    simp only [constructDeep] at h
    split at h
    · cases h
    · rename_i cs hcs
      have hall := constructDeepList_nn env 0 items cs hk.2 hcs
      split at h
      · split at h
        · cases h; exact nnF_mkFlags env hk.1
        · cases h
      · exact wrapSeq_nn hk.1 hall h
  | .map t kw items, n, hk, h => by
    simp only [Raw.nn, Bool.and_eq_true] at hk
    simp only [constructDeep] at h
    split at h
    · cases h
    · rename_i cs hcs
      exact wrapMap_nn hk.1 (constructDeepMap_nn env items cs hk.2 hcs) h
theorem constructDeepList_nn (env : Env) : ∀ (i : Nat) (items : List Raw) (cs : List (Key × Node)),
    Raw.nnList items = true → constructDeepList env i items = .ok cs → nnList cs = true
  | _, [], cs, _, h => by simp only [constructDeepList] at h; cases h; rfl
  | i, r :: rest, cs, hk, h => by
    simp only [Raw.nnList, Bool.and_eq_true] at hk
    simp only [constructDeepList] at h
    split at h
    · cases h
    · rename_i n hn
      split at h
      · cases h
      · rename_i ns hns
        cases h
        rw [nnList_cons]
        exact ⟨constructDeep_nn env r n hk.1 hn, constructDeepList_nn env (i + 1) rest ns hk.2 hns⟩
theorem constructDeepMap_nn (env : Env) : ∀ (items : List (Key × Raw)) (cs : List (Key × Node)),
    Raw.nnMap items = true → constructDeepMap env items = .ok cs → nnList cs = true
  | [], cs, _, h => by simp only [constructDeepMap] at h; cases h; rfl
  | (k, r) :: rest, cs, hk, h => by
    simp only [Raw.nnMap, Bool.and_eq_true] at hk
    simp only [constructDeepMap] at h
    split at h
    · cases h
    · rename_i n hn
      split at h
      · cases h
      · rename_i ns hns
        cases h
        rw [nnList_cons]
        exact ⟨constructDeep_nn env r n hk.1 hn, constructDeepMap_nn env rest ns hk.2 hns⟩
end

/-! ### the loader: top-down construction of the untagged region -/

def eraseParent (parent : Option (Flags × CompKind)) : Option (Flags × CompKind) :=
  parent.map (fun p => (eraseF p.1, p.2))

theorem adoptBy_eraseSN (parent : Option (Flags × CompKind)) {n : Node} (h : FlagsConsistent n = true) :
    adoptBy (eraseParent parent) (eraseSN n) = eraseSN (adoptBy parent n) := by
  cases parent with
  | none => rfl
  | some pr => obtain ⟨pf, pk⟩ := pr; exact (adopt_eraseSN pf pk h).symm

def ParentNN (parent : Option (Flags × CompKind)) : Prop := ∀ pf pk, parent = some (pf, pk) → nnF pf = true

theorem adoptBy_nn {parent : Option (Flags × CompKind)} (hp : ParentNN parent) {n : Node} (h : NN n = true) :
    NN (adoptBy parent n) = true := by
  cases parent with
  | none => exact h
  | some pr => obtain ⟨pf, pk⟩ := pr; exact adopt_nn pk (hp pf pk rfl) h

theorem constructTD_scalar_tagged (env : Env) (parent : Option (Flags × CompKind)) {t : TagKind} (ht : t ≠ .none)
    (kw : CtorKw) (v : RVal) :
    constructTD env parent (.scalar t kw v) =
      match wrapScalar env t kw v with
      | .error e => .error e
      | .ok n => .ok (adoptBy parent n) := by
  cases t <;> first | exact absurd rfl ht | (simp only [constructTD]; rfl)

theorem constructTD_seq_tagged (env : Env) (parent : Option (Flags × CompKind)) {t : TagKind} (ht : t ≠ .none)
    (kw : CtorKw) (items : List Raw) :
    constructTD env parent (.seq t kw items) =
      match constructDeep env (.seq t kw items) with
      | .error e => .error e
      | .ok n => .ok (adoptBy parent n) := by
  cases t <;> first | exact absurd rfl ht | (simp only [constructTD]; rfl)

theorem constructTD_map_tagged (env : Env) (parent : Option (Flags × CompKind)) {t : TagKind} (ht : t ≠ .none)
    (kw : CtorKw) (items : List (Key × Raw)) :
    constructTD env parent (.map t kw items) =
      match constructDeep env (.map t kw items) with
      | .error e => .error e
      | .ok n => .ok (adoptBy parent n) := by
  cases t <;> first | exact absurd rfl ht | (simp only [constructTD]; rfl)

mutual
theorem constructTD_eraseSN (env : Env) : ∀ (parent : Option (Flags × CompKind)) (r : Raw), r.nn = true →
    constructTD env.eraseSN (eraseParent parent) r.eraseSN = (constructTD env parent r).map eraseSN
  | parent, .scalar t kw v, h => by
    simp only [Raw.nn] at h
    by_cases ht : t = .none
    · subst ht
      have := adoptBy_eraseSN parent (n := .leaf (bareFlags env) (.scalar v.toScalar)) rfl
      simp only [eraseSN] at this
      simp only [Raw.eraseSN, constructTD, bareFlags_erase, this, Except.map]
    · simp only [Raw.eraseSN, constructTD_scalar_tagged _ _ ht, wrapScalar_eraseSN env _ h v]
      cases hm : wrapScalar env t kw v with
      | error e => rfl
      | ok m => simp only [Except.map, adoptBy_eraseSN parent (wrapScalar_cons hm)]
  | parent, .seq t kw items, h => by
    have hd := constructDeep_eraseSN env (.seq t kw items) h
    simp only [Raw.nn, Bool.and_eq_true] at h
    by_cases ht : t = .none
    · subst ht
      have ha := adoptBy_eraseSN parent (n := .comp (bareFlags env) .list []) rfl
      simp only [eraseSN, eraseSNList] at ha
      simp only [Raw.eraseSN, constructTD, bareFlags_erase, ha]
      cases hb : adoptBy parent (.comp (bareFlags env) .list []) with
      | leaf f k => rfl
      | comp f k cs0 =>
        have := constructTDList_eraseSN env f k 0 items h.2
        simp only [eraseSN, this]
        cases constructTDList env f k 0 items <;> rfl
    · simp only [Raw.eraseSN] at hd
      simp only [Raw.eraseSN, constructTD_seq_tagged _ _ ht, hd]
      cases hm : constructDeep env (.seq t kw items) with
      | error e => rfl
      | ok m => simp only [Except.map, adoptBy_eraseSN parent (constructDeep_cons env _ m hm)]
  | parent, .map t kw items, h => by
    have hd := constructDeep_eraseSN env (.map t kw items) h
    simp only [Raw.nn, Bool.and_eq_true] at h
    by_cases ht : t = .none
    · subst ht
      have ha := adoptBy_eraseSN parent (n := .comp (bareFlags env) .dict []) rfl
      simp only [eraseSN, eraseSNList] at ha
      simp only [Raw.eraseSN, constructTD, bareFlags_erase, ha]
      cases hb : adoptBy parent (.comp (bareFlags env) .dict []) with
      | leaf f k => rfl
      | comp f k cs0 =>
        have := constructTDMap_eraseSN env f k items [] h.2 nil_cons
        simp only [eraseSNList] at this
        simp only [eraseSN, this]
        cases constructTDMap env f k items [] <;> rfl
    · simp only [Raw.eraseSN] at hd
      simp only [Raw.eraseSN, constructTD_map_tagged _ _ ht, hd]
      cases hm : constructDeep env (.map t kw items) with
      | error e => rfl
      | ok m => simp only [Except.map, adoptBy_eraseSN parent (constructDeep_cons env _ m hm)]
theorem constructTDList_eraseSN (env : Env) (pf : Flags) (pk : CompKind) :
    ∀ (i : Nat) (items : List Raw), Raw.nnList items = true →
    constructTDList env.eraseSN (eraseF pf) pk i (Raw.eraseSNList items) =
      (constructTDList env pf pk i items).map eraseSNList
  | _, [], _ => rfl
  | i, r :: rest, h => by
    simp only [Raw.nnList, Bool.and_eq_true] at h
    have := constructTD_eraseSN env (some (pf, pk)) r h.1
    simp only [eraseParent, Option.map_some] at this
    simp only [Raw.eraseSNList, constructTDList, this, constructTDList_eraseSN env pf pk (i + 1) rest h.2]
    cases constructTD env (some (pf, pk)) r with
    | error e => rfl
    | ok n =>
      simp only [Except.map]
      cases constructTDList env pf pk (i + 1) rest <;> rfl
theorem constructTDMap_eraseSN (env : Env) (pf : Flags) (pk : CompKind) :
    ∀ (items : List (Key × Raw)) (acc : List (Key × Node)), Raw.nnMap items = true → allConsistent acc = true →
    constructTDMap env.eraseSN (eraseF pf) pk (Raw.eraseSNMap items) (eraseSNList acc) =
      (constructTDMap env pf pk items acc).map eraseSNList
  | [], acc, _, _ => rfl
  | (k, r) :: rest, acc, h, hacc => by
    simp only [Raw.nnMap, Bool.and_eq_true] at h
    have := constructTD_eraseSN env (some (pf, pk)) r h.1
    simp only [eraseParent, Option.map_some] at this
    simp only [Raw.eraseSNMap, constructTDMap, this]
    cases hn : constructTD env (some (pf, pk)) r with
    | error e => rfl
    | ok n =>
      have hc := constructTD_cons env (some (pf, pk)) r n hn
      simp only [Except.map, ← eraseSNList_aset]
      exact constructTDMap_eraseSN env pf pk rest (aset k n acc) h.2
        (aset_consistent hc.1 (fun kw' e => by cases e) hacc)
end

mutual
theorem constructTD_nn (env : Env) : ∀ (parent : Option (Flags × CompKind)) (r : Raw) (n : Node), r.nn = true →
    ParentNN parent → constructTD env parent r = .ok n → NN n = true
  | parent, .scalar t kw v, n, hk, hp, h => by
    simp only [Raw.nn] at hk
    cases t
    case none =>
      simp only [constructTD] at h
      cases h
      exact adoptBy_nn hp (nnF_bareFlags env)
    all_goals
      simp only [constructTD] at h
      split at h
      · cases h
      · rename_i m hm
        cases h
        exact adoptBy_nn hp (wrapScalar_nn hk hm)
  | parent, .seq t kw items, n, hk, hp, h => by
    simp only [Raw.nn, Bool.and_eq_true] at hk
    cases t
    case none =>
      simp only [constructTD] at h
      have ha := adoptBy_nn hp (n := .comp (bareFlags env) .list []) ((NN_comp _ _ _).2 ⟨nnF_bareFlags env, rfl⟩)
      split at h
      · rename_i f k cs0 heq
        split at h
        · cases h
        · rename_i cs hcs
          cases h
          rw [heq] at ha
          have hf := ((NN_comp _ _ _).1 ha).1
          exact (NN_comp _ _ _).2 ⟨hf, constructTDList_nn env f k hf 0 items cs hk.2 hcs⟩
      · cases h; exact ha
    all_goals
      simp only [constructTD] at h
      split at h
      · cases h
      · rename_i m hm
        cases h
        exact adoptBy_nn hp (constructDeep_nn env _ m (by simp only [Raw.nn, Bool.and_eq_true]; exact hk) hm)
  | parent, .map t kw items, n, hk, hp, h => by
    simp only [Raw.nn, Bool.and_eq_true] at hk
    cases t
    case none =>
      simp only [constructTD] at h
      have ha := adoptBy_nn hp (n := .comp (bareFlags env) .dict []) ((NN_comp _ _ _).2 ⟨nnF_bareFlags env, rfl⟩)
      split at h
      · rename_i f k cs0 heq
        split at h
        · cases h
        · rename_i cs hcs
          cases h
          rw [heq] at ha
          have hf := ((NN_comp _ _ _).1 ha).1
          exact (NN_comp _ _ _).2 ⟨hf, constructTDMap_nn env f k hf items [] cs hk.2 rfl hcs⟩
      · cases h; exact ha
    all_goals
      simp only [constructTD] at h
      split at h
      · cases h
      · rename_i m hm
        cases h
        exact adoptBy_nn hp (constructDeep_nn env _ m (by simp only [Raw.nn, Bool.and_eq_true]; exact hk) hm)
theorem constructTDList_nn (env : Env) (pf : Flags) (pk : CompKind) (hpf : nnF pf = true) :
    ∀ (i : Nat) (items : List Raw) (cs : List (Key × Node)), Raw.nnList items = true →
    constructTDList env pf pk i items = .ok cs → nnList cs = true
  | _, [], cs, _, h => by simp only [constructTDList] at h; cases h; rfl
  | i, r :: rest, cs, hk, h => by
    simp only [Raw.nnList, Bool.and_eq_true] at hk
    simp only [constructTDList] at h
    split at h
    · cases h
    · rename_i n hn
      split at h
      · cases h
      · rename_i ns hns
        cases h
        rw [nnList_cons]
        exact ⟨constructTD_nn env (some (pf, pk)) r n hk.1 (fun _ _ e => by cases e; exact hpf) hn,
          constructTDList_nn env pf pk hpf (i + 1) rest ns hk.2 hns⟩
theorem constructTDMap_nn (env : Env) (pf : Flags) (pk : CompKind) (hpf : nnF pf = true) :
    ∀ (items : List (Key × Raw)) (acc cs : List (Key × Node)), Raw.nnMap items = true → nnList acc = true →
    constructTDMap env pf pk items acc = .ok cs → nnList cs = true
  | [], acc, cs, _, hacc, h => by simp only [constructTDMap] at h; cases h; exact hacc
  | (k, r) :: rest, acc, cs, hk, hacc, h => by
    simp only [Raw.nnMap, Bool.and_eq_true] at hk
    simp only [constructTDMap] at h
    split at h
    · cases h
    · rename_i n hn
      have hc := constructTD_nn env (some (pf, pk)) r n hk.1 (fun _ _ e => by cases e; exact hpf) hn
      exact constructTDMap_nn env pf pk hpf rest _ cs hk.2 (aset_nn hc hacc) h
end

/-- `yaml.parse` commutes with erasing the `!unsafe` / `!new` marks -/
theorem construct_eraseSN (env : Env) (r : Raw) (h : r.nn = true) :
    construct env.eraseSN r.eraseSN = (construct env r).map eraseSN :=
  constructTD_eraseSN env none r h

theorem construct_nn (env : Env) (r : Raw) (n : Node) (h : r.nn = true) (hc : construct env r = .ok n) :
    NN n = true :=
  constructTD_nn env none r n h (fun _ _ e => by cases e) hc

theorem construct_cons (env : Env) (r : Raw) (n : Node) (hc : construct env r = .ok n) :
    FlagsConsistent n = true :=
  (constructTD_cons env none r n hc).1

end AY
