/-
  AY.Lemmas.C16Build — lemmas for property C16 (`!append` / `!extend` / `!prev`):
  data of `extendList` / `newPlainList`, characterisation of `removeNode` as a `removeChild` on the
  parent container written back with `setNodeAt`, frame lemmas of `setNodeAt`, and `listDelAt`
  at the level of `nativeVals`.
-/
import AY.Lemmas.Native
import AY.Lemmas.PlainInv
import AY.Lemmas.Filter
import AY.Lemmas.C05Frame
import AY.Lemmas.UpdFrame
namespace AY

/-! ### data of lists -/

theorem c16_nativeVals_append : ∀ l₁ l₂ : List (Key × Node),
    nativeVals (l₁ ++ l₂) = nativeVals l₁ ++ nativeVals l₂
  | [], _ => rfl
  | (k, v) :: rest, l₂ => by simp [nativeVals, c16_nativeVals_append rest l₂]

theorem c16_nativeVals_eq_map : ∀ cs : List (Key × Node), nativeVals cs = cs.map (fun kv => native kv.2)
  | [] => rfl
  | (k, v) :: rest => by simp [nativeVals, c16_nativeVals_eq_map rest]

theorem c16_nativeVals_renumFrom : ∀ (i : Nat) (xs : List Node),
    nativeVals (renumFrom i xs) = xs.map native
  | _, [] => rfl
  | i, x :: xs => by simp [renumFrom, nativeVals, c16_nativeVals_renumFrom (i + 1) xs]

theorem c16_nativeVals_renum (xs : List Node) : nativeVals (renum xs) = xs.map native :=
  c16_nativeVals_renumFrom 0 xs

/-- `node.extend(values)`: the old elements, then the new ones, in order -/
theorem c16_nativeVals_extendList (f : Flags) (k : CompKind) :
    ∀ (vs : List Node) (cs : List (Key × Node)),
      nativeVals (extendList f k cs vs) = nativeVals cs ++ vs.map native
  | [], cs => by simp [extendList]
  | v :: rest, cs => by
    simp [extendList, c16_nativeVals_extendList f k rest, c16_nativeVals_append, nativeVals,
      native_adopt]

theorem c16_length_extendList (f : Flags) (k : CompKind) :
    ∀ (vs : List Node) (cs : List (Key × Node)), (extendList f k cs vs).length = cs.length + vs.length
  | [], cs => by simp [extendList]
  | v :: rest, cs => by simp [extendList, c16_length_extendList f k rest]; omega

/-- the old children are a prefix of the extended children (same nodes, same keys) -/
theorem c16_extendList_prefix (f : Flags) (k : CompKind) :
    ∀ (vs : List Node) (cs : List (Key × Node)), cs <+: extendList f k cs vs
  | [], cs => by simp [extendList]
  | v :: rest, cs => by
    simp only [extendList]
    exact List.IsPrefix.trans (List.prefix_append _ _) (c16_extendList_prefix f k rest _)

/-- the numbering `0 … n-1` is continued by `extend` -/
theorem c16_listKeys_extendList (f : Flags) (k : CompKind) :
    ∀ (vs : List Node) (cs : List (Key × Node)), listKeys 0 cs = true →
      listKeys 0 (extendList f k cs vs) = true := by
  have snoc : ∀ (cs : List (Key × Node)) (i : Nat) (v : Node), listKeys i cs = true →
      listKeys i (cs ++ [(Key.int ((i + cs.length : Nat) : Int), v)]) = true := by
    intro cs
    induction cs with
    | nil => intro i v _; simp [listKeys]
    | cons kv rest ih =>
      intro i v h
      obtain ⟨k', c⟩ := kv
      have h' : k' = Key.int (i : Int) ∧ listKeys (i + 1) rest = true := by simpa [listKeys] using h
      have := ih (i + 1) v h'.2
      simp only [List.cons_append, listKeys, h'.1, beq_self_eq_true, Bool.true_and]
      rw [← this]; congr 4; simp; omega
  intro vs
  induction vs with
  | nil => intro cs h; simpa [extendList] using h
  | cons v rest ih =>
    intro cs h
    simp only [extendList]
    apply ih
    have := snoc cs 0 (adopt f k v) h
    simpa using this

theorem c16_native_newPlainList (f : Flags) (vs : List Node) :
    native (newPlainList f vs) = .list (vs.map native) := by
  simp [newPlainList, nativeOf_propagate, native, CompKind.isDictFam, c16_nativeVals_renum, native_inheritInto]

end AY
