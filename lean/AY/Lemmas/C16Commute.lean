/-
  AY.Lemmas.C16Commute — two `remove_node` calls at disjoint paths whose parents are mappings
  commute (same detached nodes, same final tree).
-/
import AY.Lemmas.C16Ops
namespace AY

theorem c16_aerase_comm {α : Type} (k1 k2 : Key) (hne : k1 ≠ k2) : ∀ cs : List (Key × α),
    aerase k1 (aerase k2 cs) = aerase k2 (aerase k1 cs)
  | [] => rfl
  | (k', v) :: rest => by
    by_cases h1 : k' = k1
    · subst h1
      simp [aerase, hne]
    · by_cases h2 : k' = k2
      · subst h2
        simp [aerase, h1]
      · simp [aerase, h1, h2, c16_aerase_comm k1 k2 hne rest]

theorem c16_aerase_aset {α : Type} (k1 k2 : Key) (v : α) (hne : k1 ≠ k2) : ∀ cs : List (Key × α),
    aerase k1 (aset k2 v cs) = aset k2 v (aerase k1 cs)
  | [] => by
    have : ¬ k2 = k1 := fun e => hne e.symm
    simp [aset, aerase, this]
  | (k', v') :: rest => by
    have hne' : ¬ k2 = k1 := fun e => hne e.symm
    by_cases h2 : k' = k2
    · subst h2
      simp [aset, aerase, hne']
    · by_cases h1 : k' = k1
      · subst h1
        simp [aset, aerase, h2]
      · simp [aset, aerase, h1, h2, c16_aerase_aset k1 k2 v hne rest]

theorem c16_aset_aset_ne {α : Type} (k1 k2 : Key) (v1 v2 : α) (hne : k1 ≠ k2) :
    ∀ cs : List (Key × α), (alookup k1 cs).isSome = true →
      aset k2 v2 (aset k1 v1 cs) = aset k1 v1 (aset k2 v2 cs)
  | [], h => by simp [alookup] at h
  | (k', v') :: rest, h => by
    have hne' : ¬ k2 = k1 := fun e => hne e.symm
    by_cases h1 : k' = k1
    · subst h1
      simp [aset, hne]
    · by_cases h2 : k' = k2
      · subst h2
        simp [aset, h1]
      · simp only [alookup, h1, if_false] at h
        simp [aset, h1, h2, c16_aset_aset_ne k1 k2 v1 v2 hne rest h]

theorem c16_aset_aset_same {α : Type} (k : Key) (v v' : α) : ∀ cs : List (Key × α),
    aset k v (aset k v' cs) = aset k v cs
  | [] => by simp [aset]
  | (k', w) :: rest => by
    by_cases h : k' = k
    · simp [aset, h]
    · simp [aset, h, c16_aset_aset_same k v v' rest]

/-- the parent of the node addressed by the path is a container of the mapping family -/
def c16_dictParent : Node → Path → Bool
  | .comp _ k _, [_] => k.isDictFam
  | .comp _ _ cs, key :: k2 :: rest =>
    match alookup key cs with
    | some c => c16_dictParent c (k2 :: rest)
    | none => false
  | _, _ => false

theorem c16_dictParent_of_getNode : ∀ (pp : Path) (key : Key) (root : Node) (pf : Flags)
    (pk : CompKind) (pcs : List (Key × Node)), getNode root pp = some (.comp pf pk pcs) →
    pk.isDictFam = true → c16_dictParent root (pp ++ [key]) = true
  | [], key, root, pf, pk, pcs, hg, hk => by
    simp only [getNode, Option.some.injEq] at hg
    subst hg
    simpa [c16_dictParent] using hk
  | k1 :: rest, key, .leaf .., pf, pk, pcs, hg, _ => by simp [getNode] at hg
  | k1 :: rest, key, .comp f k cs, pf, pk, pcs, hg, hk => by
    simp only [getNode] at hg
    cases hc : alookup k1 cs with
    | none => simp [hc] at hg
    | some c =>
      simp only [hc] at hg
      have ih := c16_dictParent_of_getNode rest key c pf pk pcs hg hk
      cases hrest : rest ++ [key] with
      | nil => simp at hrest
      | cons a b =>
        rw [hrest] at ih
        simp only [List.cons_append, hrest, c16_dictParent, hc, ih]

theorem c16_removeNode_single_dict (f : Flags) (k : CompKind) (cs : List (Key × Node)) (key : Key)
    (hk : k.isDictFam = true) :
    removeNode (.comp f k cs) [key] =
      match alookup key cs with
      | none => none
      | some c => some (c, .comp f k (aerase key cs)) := by
  cases h : alookup key cs with
  | none => simp [removeNode, h]
  | some c => simp [removeNode, removeChild, hk, ahas, h]

theorem c16_removeNode_deep (f : Flags) (k : CompKind) (cs : List (Key × Node)) (key a : Key)
    (t : Path) :
    removeNode (.comp f k cs) (key :: a :: t) =
      match alookup key cs with
      | none => none
      | some c =>
        match removeNode c (a :: t) with
        | none => none
        | some (d, c') => some (d, .comp f k (aset key c' cs)) := rfl

/-- two removals at disjoint paths below mapping parents commute -/
theorem c16_removeNode_comm : ∀ (p1 p2 : Path) (root d1 r1 d2 r12 : Node),
    ¬ p1 <+: p2 → ¬ p2 <+: p1 →
    c16_dictParent root p1 = true → c16_dictParent root p2 = true →
    removeNode root p1 = some (d1, r1) → removeNode r1 p2 = some (d2, r12) →
    ∃ r2, removeNode root p2 = some (d2, r2) ∧ removeNode r2 p1 = some (d1, r12)
  | [], _, _, _, _, _, _, h, _, _, _, _, _ => absurd List.nil_prefix h
  | _ :: _, [], _, _, _, _, _, _, h, _, _, _, _ => absurd List.nil_prefix h
  | _ :: _, _ :: _, .leaf .., _, _, _, _, _, _, _, _, h, _ => by simp [removeNode] at h
  -- both at this level
  | [k1], [k2], .comp f k cs, d1, r1, d2, r12, hp1, _, hd1, _, h1, h2 => by
    have hk : k.isDictFam = true := by simpa [c16_dictParent] using hd1
    have hne : k1 ≠ k2 := by intro e; subst e; exact hp1 (List.prefix_refl _)
    rw [c16_removeNode_single_dict f k cs k1 hk] at h1
    cases hc1 : alookup k1 cs with
    | none => simp [hc1] at h1
    | some c1 =>
      simp only [hc1, Option.some.injEq, Prod.mk.injEq] at h1
      obtain ⟨rfl, rfl⟩ := h1
      rw [c16_removeNode_single_dict f k _ k2 hk, alookup_aerase k2 k1 hne] at h2
      cases hc2 : alookup k2 cs with
      | none => simp [hc2] at h2
      | some c2 =>
        simp only [hc2, Option.some.injEq, Prod.mk.injEq] at h2
        obtain ⟨rfl, rfl⟩ := h2
        refine ⟨.comp f k (aerase k2 cs), ?_, ?_⟩
        · rw [c16_removeNode_single_dict f k cs k2 hk, hc2]
        · rw [c16_removeNode_single_dict f k _ k1 hk, alookup_aerase k1 k2 (Ne.symm hne), hc1,
            c16_aerase_comm k1 k2 hne]
  -- first here, second deeper
  | [k1], k2 :: b :: t2, .comp f k cs, d1, r1, d2, r12, hp1, _, hd1, _, h1, h2 => by
    have hk : k.isDictFam = true := by simpa [c16_dictParent] using hd1
    have hne : k1 ≠ k2 := by
      intro e; subst e
      exact hp1 ((List.cons_prefix_cons).2 ⟨rfl, List.nil_prefix⟩)
    rw [c16_removeNode_single_dict f k cs k1 hk] at h1
    cases hc1 : alookup k1 cs with
    | none => simp [hc1] at h1
    | some c1 =>
      simp only [hc1, Option.some.injEq, Prod.mk.injEq] at h1
      obtain ⟨rfl, rfl⟩ := h1
      rw [c16_removeNode_deep, alookup_aerase k2 k1 hne] at h2
      cases hc2 : alookup k2 cs with
      | none => simp [hc2] at h2
      | some c2 =>
        simp only [hc2] at h2
        cases hr : removeNode c2 (b :: t2) with
        | none => simp [hr] at h2
        | some res =>
          obtain ⟨d, c2'⟩ := res
          simp only [hr, Option.some.injEq, Prod.mk.injEq] at h2
          obtain ⟨rfl, rfl⟩ := h2
          refine ⟨.comp f k (aset k2 c2' cs), ?_, ?_⟩
          · rw [c16_removeNode_deep, hc2]; simp only [hr]
          · rw [c16_removeNode_single_dict f k _ k1 hk, alookup_aset]
            simp only [Ne.symm hne, if_false, hc1, c16_aerase_aset k1 k2 c2' hne]
  -- first deeper, second here
  | k1 :: a :: t1, [k2], .comp f k cs, d1, r1, d2, r12, _, hp2, _, hd2, h1, h2 => by
    have hk : k.isDictFam = true := by simpa [c16_dictParent] using hd2
    have hne : k1 ≠ k2 := by
      intro e; subst e
      exact hp2 ((List.cons_prefix_cons).2 ⟨rfl, List.nil_prefix⟩)
    rw [c16_removeNode_deep] at h1
    cases hc1 : alookup k1 cs with
    | none => simp [hc1] at h1
    | some c1 =>
      simp only [hc1] at h1
      cases hr : removeNode c1 (a :: t1) with
      | none => simp [hr] at h1
      | some res =>
        obtain ⟨d, c1'⟩ := res
        simp only [hr, Option.some.injEq, Prod.mk.injEq] at h1
        obtain ⟨rfl, rfl⟩ := h1
        rw [c16_removeNode_single_dict f k _ k2 hk, alookup_aset] at h2
        simp only [hne, if_false] at h2
        cases hc2 : alookup k2 cs with
        | none => simp [hc2] at h2
        | some c2 =>
          simp only [hc2, Option.some.injEq, Prod.mk.injEq] at h2
          obtain ⟨rfl, rfl⟩ := h2
          refine ⟨.comp f k (aerase k2 cs), ?_, ?_⟩
          · rw [c16_removeNode_single_dict f k cs k2 hk, hc2]
          · rw [c16_removeNode_deep, alookup_aerase k1 k2 (Ne.symm hne), hc1]
            simp only [hr, c16_aerase_aset k2 k1 c1' (Ne.symm hne)]
  -- both deeper
  | k1 :: a :: t1, k2 :: b :: t2, .comp f k cs, d1, r1, d2, r12, hp1, hp2, hd1, hd2, h1, h2 => by
    rw [c16_removeNode_deep] at h1
    cases hc1 : alookup k1 cs with
    | none => simp [hc1] at h1
    | some c1 =>
      simp only [hc1] at h1
      cases hr1 : removeNode c1 (a :: t1) with
      | none => simp [hr1] at h1
      | some res =>
        obtain ⟨d, c1'⟩ := res
        simp only [hr1, Option.some.injEq, Prod.mk.injEq] at h1
        obtain ⟨rfl, rfl⟩ := h1
        rw [c16_removeNode_deep, alookup_aset] at h2
        by_cases hk12 : k1 = k2
        · subst hk12
          simp only [if_true] at h2
          cases hr2 : removeNode c1' (b :: t2) with
          | none => simp [hr2] at h2
          | some res2 =>
            obtain ⟨d', c12⟩ := res2
            simp only [hr2, Option.some.injEq, Prod.mk.injEq] at h2
            obtain ⟨rfl, rfl⟩ := h2
            have hd1' : c16_dictParent c1 (a :: t1) = true := by
              simpa [c16_dictParent, hc1] using hd1
            have hd2' : c16_dictParent c1 (b :: t2) = true := by
              simpa [c16_dictParent, hc1] using hd2
            obtain ⟨c2, e1, e2⟩ := c16_removeNode_comm (a :: t1) (b :: t2) c1 d c1' d' c12
              (fun hp => hp1 ((List.cons_prefix_cons).2 ⟨rfl, hp⟩))
              (fun hp => hp2 ((List.cons_prefix_cons).2 ⟨rfl, hp⟩)) hd1' hd2' hr1 hr2
            refine ⟨.comp f k (aset k1 c2 cs), ?_, ?_⟩
            · rw [c16_removeNode_deep, hc1]; simp only [e1]
            · rw [c16_removeNode_deep, alookup_aset]
              simp only [if_true, e2, c16_aset_aset_same]
        · simp only [hk12, if_false] at h2
          cases hc2 : alookup k2 cs with
          | none => simp [hc2] at h2
          | some c2 =>
            simp only [hc2] at h2
            cases hr2 : removeNode c2 (b :: t2) with
            | none => simp [hr2] at h2
            | some res2 =>
              obtain ⟨d', c2'⟩ := res2
              simp only [hr2, Option.some.injEq, Prod.mk.injEq] at h2
              obtain ⟨rfl, rfl⟩ := h2
              refine ⟨.comp f k (aset k2 c2' cs), ?_, ?_⟩
              · rw [c16_removeNode_deep, hc2]; simp only [hr2]
              · rw [c16_removeNode_deep, alookup_aset]
                have : ¬ k2 = k1 := fun e => hk12 e.symm
                simp only [this, if_false, hc1, hr1]
                rw [c16_aset_aset_ne k1 k2 c1' c2' hk12 cs (by simp [hc1])]

end AY
