/-
  AY.Lemmas.C08List — command-line overrides whose path also runs through list indices
  (`a.b[i].c=value`): `c08_getPlainAtL` / `c08_setPlainAtL` and the success induction.
-/
import AY.Lemmas.C08Deep
import AY.Lemmas.C02Main
namespace AY

/-- value at a path through mappings (keys) and lists (existing, possibly negative, indices) -/
def c08_getPlainAtL : Plain → List Key → Option Plain
  | t, [] => some t
  | .dict items, k :: ks =>
    match alookup k items with
    | none => none
    | some c => c08_getPlainAtL c ks
  | .list xs, k :: ks =>
    match listIndex xs.length k with
    | none => none
    | some i =>
      match xs[i]? with
      | none => none
      | some c => c08_getPlainAtL c ks
  | .scalar _, _ :: _ => none

/-- replace the value at an existing path through mappings and lists (anything else: unchanged) -/
def c08_setPlainAtL : Plain → List Key → Plain → Plain
  | _, [], x => x
  | .dict items, k :: ks, x =>
    match alookup k items with
    | none => .dict items
    | some c => .dict (aset k (c08_setPlainAtL c ks x) items)
  | .list xs, k :: ks, x =>
    match listIndex xs.length k with
    | none => .list xs
    | some i =>
      match xs[i]? with
      | none => .list xs
      | some c => .list (setAt i (c08_setPlainAtL c ks x) xs)
  | .scalar s, _ :: _, _ => .scalar s

/-! ### the override document passes the list-side filter unchanged -/

theorem c08_eDel_nest (f : Flags) (env : Env) (ks : List Key) (v : Scalar) (h1 : f.del = none)
    (h2 : f.iDel = none) : eDel (c08_nest f env ks v) = false := by
  cases ks <;>
    simp [c08_nest, eDel, Node.flags, h1, h2, Node.defaultDel, defaultDelete, Tables.defaultDeleteDict,
      Tables.defaultDeleteNode]

theorem c08_filter_nest (s : Node) (env : Env) (v : Scalar) : ∀ (ks : List Key) (p : Path) (f : Flags),
    (filterNode (keepIfExists s) p (c08_nest f env ks v)).1 = c08_nest f env ks v
  | [], _, _ => rfl
  | k :: ks, p, f => by
    have ih := c08_filter_nest s env v ks (p ++ [k]) (c08_inFlags env)
    have hk : keepIfExists s (p ++ [k]) (c08_nest (c08_inFlags env) env ks v) = true := by
      simp [keepIfExists, c08_eDel_nest (c08_inFlags env) env ks v rfl rfl]
    simp [c08_nest, filterNode, filterList, ih, hk, notKeptNames, dropMarks, removeMany]

/-! ### one list level -/

theorem c08_mergeF_list (n : Nat) (sf : Flags) (scs : List (Key × Node)) (o : Node) :
    mergeF (n + 1) (.comp sf .list scs) o = listMerge (mergeF n) sf .list scs o := rfl

theorem c08_listMerge_level (n : Nat) {sf of : Flags} (hs : flagsPlain sf = true)
    (ho : c08_docFlags of = true) (scs : List (Key × Node)) (env : Env) (k : Key) (ks : List Key)
    (v : Scalar) (i : Nat) (hi : validateIndex scs.length true k = some i) :
    mergeF (n + 1) (.comp sf .list scs) (c08_nest of env (k :: ks) v) =
      match mergeStep (mergeF n) sf .list [] scs (k, c08_nest (c08_inFlags env) env ks v) with
      | .error e => .error e
      | .ok scs' => .ok (propagate (.comp (replaceSelfFlags sf of) .list scs'), true) := by
  have hf := c08_filter_nest (.comp sf .list scs) env v (k :: ks) [] of
  rw [c08_mergeF_list]
  simp only [c08_nest] at hf
  simp only [c08_nest, listMerge, hf, CompKind.isDictFam, c08_eDel_doc ho, listKeysValid, hi,
    Bool.not_true, Bool.and_false, Bool.false_eq_true, if_false, compMerge, mergeLoop]
  cases mergeStep (mergeF n) sf .list [] scs (k, c08_nest (c08_inFlags env) env ks v) with
  | error e => rfl
  | ok scs' =>
    simp [finishMerge, Node.flags, (c08_hasPrio_doc hs ho true).1, maybePromote, CompKind.sameClass,
      CompKind.strictSub, CompKind.isPlain]

theorem c08_lstep_inplace (rec : Node → Node → Except Err (Node × Bool)) (sf : Flags)
    (scs : List (Key × Node)) (k : Key) (i : Nat) (o c nw : Node)
    (hi : validateIndex scs.length true k = some i) (hl : alookup (.int (i : Int)) scs = some c)
    (hr : rec c o = .ok (nw, true)) (hc : c.isComp = true) (hd : o.flags.del = none) :
    mergeStep rec sf .list [] scs (k, o) = .ok (aset (.int (i : Int)) nw scs) := by
  simp [mergeStep, getChild, CompKind.isDictFam, hi, hl, hr, hc, hd, replaceChild]

theorem c08_lstep_replace_leaf (rec : Node → Node → Except Err (Node × Bool)) (sf : Flags)
    (scs : List (Key × Node)) (k : Key) (i : Nat) (o c : Node) (f : Flags) (lk : LeafKind)
    (hi : validateIndex scs.length true k = some i) (hl : alookup (.int (i : Int)) scs = some c)
    (hr : rec c o = .ok (.leaf f lk, false)) (hd : o.flags.del = none) (hfd : f.del = none) :
    mergeStep rec sf .list [] scs (k, o) = .ok (aset (.int (i : Int)) (adopt sf .list (.leaf f lk)) scs) := by
  have hfd' : (Node.leaf f lk).flags.del = none := hfd
  have hi2 := validateIndex_lax_of_strict hi
  cases hc : c.isComp <;>
    simp [mergeStep, getChild, CompKind.isDictFam, hi, hi2, hl, hr, hc, hd, hfd', reqNewBelow, setChild]

theorem c08_adopt_leaf_list (sf : Flags) (kw : ChildKw) (e : childKw sf .list = some kw) (f : Flags)
    (lk : LeafKind) : adopt sf .list (.leaf f lk) = .leaf (updFlags kw f) lk := by
  simp [adopt, e, inheritInto, propagate, Node.setFlags, Node.flags]

/-! ### success through mappings and lists -/

theorem c08_override_ok_L (env : Env) (v : Scalar) : ∀ (ks : List Key) (k : Key) (a : Node) (n : Nat)
    (of : Flags) (t : Plain), plainT a = true → c08_docFlags of = true → ks.length < n →
    c08_getPlainAtL (native a) (k :: ks) = some t →
    ∃ r, mergeF (n + 1) a (c08_nest of env (k :: ks) v) = .ok (r, true) ∧ plainT r = true ∧
      native r = c08_setPlainAtL (native a) (k :: ks) (.scalar v)
  | ks, k, a, n, of, t, ha, ho, hn, hg => by
    obtain ⟨n', rfl⟩ : ∃ n', n = n' + 1 := ⟨n - 1, by omega⟩
    have hin : c08_nnFlags (c08_inFlags env) = true := rfl
    cases a with
    | leaf fa la =>
      obtain ⟨x, rfl, _⟩ := plainT_leaf ha
      simp [native, c08_getPlainAtL] at hg
    | comp sf kk scs =>
      obtain ⟨hsf, hkk, hscs⟩ := plainT_comp ha
      -- what the recursive call returns, by the shape of the rest of the path
      have hrec : ∀ c, plainT c = true → c08_getPlainAtL (native c) ks = some t →
          (ks = [] ∧ mergeF (n' + 1) c (c08_nest (c08_inFlags env) env ks v) =
              .ok (.leaf (replaceOtherFlags (c08_inFlags env) c.flags) (.scalar v), false)) ∨
          (c.isComp = true ∧ ∃ r', mergeF (n' + 1) c (c08_nest (c08_inFlags env) env ks v) = .ok (r', true) ∧
              plainT r' = true ∧ native r' = c08_setPlainAtL (native c) ks (.scalar v)) := by
        intro c hcT hgc
        cases ks with
        | nil => exact .inl ⟨rfl, c08_mergeF_leaf n' c hcT env v⟩
        | cons k2 ks' =>
          right
          have hn' : ks'.length < n' := by simp at hn; omega
          refine ⟨?_, c08_override_ok_L env v ks' k2 c n' (c08_inFlags env) t hcT (c08_docFlags_in env) hn' hgc⟩
          cases c with
          | leaf f lk => cases lk <;> simp [native, c08_getPlainAtL] at hgc
          | comp f kk cs => rfl
      have hdel : ∀ c : Node, (replaceOtherFlags (c08_inFlags env) c.flags).del = none := by
        intro c; simp [replaceOtherFlags, mergeSafe, c08_inFlags]
      rcases hkk with hkk | ⟨hkk, hkeys⟩
      · -- mapping
        subst hkk
        simp only [native, CompKind.isDictFam, if_true, c08_getPlainAtL] at hg
        cases hl0 : alookup k (nativeList scs) with
        | none => simp [hl0] at hg
        | some ct =>
          simp only [hl0] at hg
          obtain ⟨c, hl, rfl⟩ := c08_alookup_native hl0
          have hcT : plainT c = true := alookup_plainT k scs hscs c hl
          simp only [c08_nest, c08_mergeF_dict, c08_compMerge_level (mergeF (n' + 1)) hsf ho, c08_setPlainAtL,
            native, CompKind.isDictFam, if_true, hl0]
          rcases hrec c hcT hg with ⟨rfl, hm⟩ | ⟨hcomp, r', hr', hrT, hrN⟩
          · simp only [c08_nest] at hm ⊢
            rw [c08_step_replace_leaf (mergeF (n' + 1)) sf scs k _ c _ _ hl hm rfl (hdel c)]
            refine ⟨_, rfl, ?_, ?_⟩
            · exact c08_level_plainT hsf ho
                (aset_plainT k _ (c08_adopt_leaf_plain env v hsf (plainT_flags hcT)) scs hscs)
            · rw [c08_level_native, nativeList_aset, native_adopt]; rfl
          · rw [c08_step_inplace (mergeF (n' + 1)) sf scs k _ c r' hl hr' hcomp
              (by rw [c08_nest_flags]; rfl)]
            refine ⟨_, rfl, ?_, ?_⟩
            · exact c08_level_plainT hsf ho (aset_plainT k _ hrT scs hscs)
            · rw [c08_level_native, nativeList_aset, hrN]
      · -- list
        subst hkk
        simp only [native, CompKind.isDictFam, Bool.false_eq_true, if_false, c08_getPlainAtL,
          length_nativeVals] at hg
        cases hli : listIndex scs.length k with
        | none => simp [hli] at hg
        | some i =>
          simp only [hli] at hg
          have hlt : i < scs.length := listIndex_lt hli
          have hvi : validateIndex scs.length true k = some i := by rw [validateIndex_strict]; exact hli
          obtain ⟨c, hl, hnv⟩ := listKeys_lookup scs 0 i hkeys hlt
          rw [Nat.zero_add] at hl
          rw [hnv] at hg
          simp only at hg
          have hcT : plainT c = true := alookup_plainT _ scs hscs c hl
          have hsome : (alookup (.int (i : Int)) scs).isSome = true := by rw [hl]; rfl
          obtain ⟨kw, ekw, hkw, _⟩ := childKw_plain hsf (.inr rfl)
          have hres : ∀ x, plainT x = true →
              plainT (propagate (.comp (replaceSelfFlags sf of) .list (aset (.int (i : Int)) x scs))) = true ∧
              native (propagate (.comp (replaceSelfFlags sf of) .list (aset (.int (i : Int)) x scs))) =
                .list (setAt i (native x) (nativeVals scs)) := by
            intro x hx
            constructor
            · apply plainT_propagate
              simp [plainT, c08_replaceSelfFlags_plain hsf ho, aset_plainT _ x hx scs hscs,
                listKeys_aset _ x 0 scs hkeys hsome]
            · have := listKeys_nativeVals_aset x scs 0 i hkeys hlt
              rw [Nat.zero_add] at this
              simp [nativeOf_propagate, native, CompKind.isDictFam, this]
          rw [c08_listMerge_level (n' + 1) hsf ho scs env k ks v i hvi]
          simp only [c08_setPlainAtL, native, CompKind.isDictFam, Bool.false_eq_true, if_false,
            length_nativeVals, hli, hnv]
          rcases hrec c hcT hg with ⟨rfl, hm⟩ | ⟨hcomp, r', hr', hrT, hrN⟩
          · simp only [c08_nest] at hm ⊢
            rw [c08_lstep_replace_leaf (mergeF (n' + 1)) sf scs k i _ c _ _ hvi hl hm rfl (hdel c),
              c08_adopt_leaf_list sf kw ekw]
            have hx : plainT (.leaf (updFlags kw (replaceOtherFlags (c08_inFlags env) c.flags)) (.scalar v)) = true := by
              simpa [plainT] using c08_updFlags_nn hkw hin (plainT_flags hcT)
            obtain ⟨h1, h2⟩ := hres _ hx
            exact ⟨_, rfl, h1, by rw [h2]; rfl⟩
          · rw [c08_lstep_inplace (mergeF (n' + 1)) sf scs k i _ c r' hvi hl hr' hcomp
              (by rw [c08_nest_flags]; rfl)]
            obtain ⟨h1, h2⟩ := hres _ hrT
            exact ⟨_, rfl, h1, by rw [h2, hrN]⟩

/-! ### failure: a key that is no existing index of a list -/

theorem c08_lstep_error (rec : Node → Node → Except Err (Node × Bool)) (sf : Flags)
    (scs : List (Key × Node)) (k : Key) (i : Nat) (o c : Node) (e : Err)
    (hi : validateIndex scs.length true k = some i) (hl : alookup (.int (i : Int)) scs = some c)
    (hr : rec c o = .error e) :
    mergeStep rec sf .list [] scs (k, o) = .error (e.prepend k) := by
  simp [mergeStep, getChild, CompKind.isDictFam, hi, hl, hr]

theorem c08_override_bad_index (env : Env) (v : Scalar) : ∀ (pre : List Key) (k : Key) (post : List Key)
    (a : Node) (n : Nat) (of : Flags) (xs : List Plain), plainT a = true → c08_docFlags of = true →
    (pre ++ k :: post).length ≤ n → c08_getPlainAtL (native a) pre = some (.list xs) →
    listIndex xs.length k = none →
    mergeF (n + 1) a (c08_nest of env (pre ++ k :: post) v) = .error .merge
  | [], k, post, a, n, of, xs, ha, ho, hn, hg, hk => by
    simp only [c08_getPlainAtL, Option.some.injEq] at hg
    cases a with
    | leaf fa la => obtain ⟨x, rfl, _⟩ := plainT_leaf ha; simp [native] at hg
    | comp sf kk scs =>
      obtain ⟨hsf, hkk, hscs⟩ := plainT_comp ha
      rcases hkk with hkk | ⟨hkk, hkeys⟩ <;> subst hkk
      · simp [native, CompKind.isDictFam] at hg
      · simp only [native, CompKind.isDictFam, Bool.false_eq_true, if_false, Plain.list.injEq] at hg
        subst hg
        rw [length_nativeVals] at hk
        have hvi : validateIndex scs.length true k = none := by rw [validateIndex_strict]; exact hk
        simp [c08_mergeF_list, listMerge, c08_nest, CompKind.isDictFam, c08_eDel_doc ho, listKeysValid, hvi]
  | k0 :: pre', k, post, a, n, of, xs, ha, ho, hn, hg, hk => by
    obtain ⟨n', rfl⟩ : ∃ n', n = n' + 1 := ⟨n - 1, by simp at hn; omega⟩
    have hn' : (pre' ++ k :: post).length ≤ n' := by simp at hn ⊢; omega
    cases a with
    | leaf fa la => obtain ⟨x, rfl, _⟩ := plainT_leaf ha; simp [native, c08_getPlainAtL] at hg
    | comp sf kk scs =>
      obtain ⟨hsf, hkk, hscs⟩ := plainT_comp ha
      rcases hkk with hkk | ⟨hkk, hkeys⟩
      · subst hkk
        simp only [native, CompKind.isDictFam, if_true, c08_getPlainAtL] at hg
        cases hl0 : alookup k0 (nativeList scs) with
        | none => simp [hl0] at hg
        | some ct =>
          simp only [hl0] at hg
          obtain ⟨c, hl, rfl⟩ := c08_alookup_native hl0
          have hcT : plainT c = true := alookup_plainT k0 scs hscs c hl
          have ih := c08_override_bad_index env v pre' k post c n' (c08_inFlags env) xs hcT
            (c08_docFlags_in env) hn' hg hk
          simp only [List.cons_append, c08_nest, c08_mergeF_dict,
            c08_compMerge_level (mergeF (n' + 1)) hsf ho]
          rw [c08_step_error (mergeF (n' + 1)) sf scs k0 _ c _ hl ih]
          rfl
      · subst hkk
        simp only [native, CompKind.isDictFam, Bool.false_eq_true, if_false, c08_getPlainAtL,
          length_nativeVals] at hg
        cases hli : listIndex scs.length k0 with
        | none => simp [hli] at hg
        | some i =>
          simp only [hli] at hg
          have hlt : i < scs.length := listIndex_lt hli
          have hvi : validateIndex scs.length true k0 = some i := by rw [validateIndex_strict]; exact hli
          obtain ⟨c, hl, hnv⟩ := listKeys_lookup scs 0 i hkeys hlt
          rw [Nat.zero_add] at hl
          rw [hnv] at hg
          simp only at hg
          have hcT : plainT c = true := alookup_plainT _ scs hscs c hl
          have ih := c08_override_bad_index env v pre' k post c n' (c08_inFlags env) xs hcT
            (c08_docFlags_in env) hn' hg hk
          simp only [List.cons_append]
          rw [c08_listMerge_level (n' + 1) hsf ho scs env k0 (pre' ++ k :: post) v i hvi,
            c08_lstep_error (mergeF (n' + 1)) sf scs k0 i _ c _ hvi hl ih]
          rfl

end AY
