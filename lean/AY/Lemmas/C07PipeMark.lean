/-
  AY.Lemmas.C07PipeMark — the safety marks through the pipeline (helpers for AY.Props.C07_Pipeline).

  * instances of the node-wise invariant of AY.Lemmas.C07PipeAll: `isUnsafeF` (the node is unsafe),
    `srcMarkF L` (a node object created while a source of the label set `L` was read is unsafe),
    `notStream` (no `StreamNode` in the tree);
  * the loader: every node of a document carries the source-level flag and the file name of its source;
  * below a node that hands down `implicit_safe = False` everything is unsafe (consistent, stream-free trees);
  * what `on_merge` returns carries one of the three flag combinations of `_replace_self` /
    `_replace_other`; the pre-merge pass never changes the flags of the accumulated root nor of a mapping
    stage; hence an explicit `safe=False` on the root of any stage ends up on the root of the build;
  * the pre-merge operators `!append` / `!extend`: what they contribute stays unsafe.
-/
import AY.Lemmas.C07PipeAll
import AY.Lemmas.SafeFlagLemmas
set_option linter.unusedVariables false
namespace AY.C07P
open AY.C15W (FlagsConsistent consistentList childFlagsOK childFlagsOK_iff consistentList_cons)

/-! ### the predicates -/

/-- the node is unsafe (`not node.ayns.safe`) -/
def isUnsafeF (f : Flags) : Bool := !eSafe f
def anyKind (_ : CompKind) : Bool := true
/-- not a `StreamNode` -/
def notStream (k : CompKind) : Bool := k != .stream
def anyFlags (_ : Flags) : Bool := true
/-- a node whose `_source_file` is one of the labels `L` is unsafe -/
def srcMarkF (L : Option String → Bool) (f : Flags) : Bool := !L f.src || !eSafe f
/-- the source-level flag is `False` -/
def dUnsafeF (f : Flags) : Bool := !f.dSafe

/-- every node of the tree is unsafe -/
def allUnsafe (n : Node) : Bool := allN isUnsafeF anyKind n
/-- no `StreamNode` anywhere in the tree -/
def streamFree (n : Node) : Bool := allN anyFlags notStream n

theorem eSafe_updFlags_false {kw : ChildKw} {f : Flags} (h : eSafe f = false) : eSafe (updFlags kw f) = false := by
  obtain ⟨_, _, _, s, _, _, i, d, _, _⟩ := f
  simp only [eSafe, updFlags] at h ⊢
  cases s with
  | none =>
    cases i with
    | none => cases d <;> simp_all
    | some b => cases b <;> cases d <;> simp_all
  | some a =>
    cases a
    · simp
    · cases i with
      | none => cases d <;> simp_all
      | some b => cases b <;> cases d <;> simp_all

theorem eSafe_mergeSafe_false {w : Flags} (l : Flags) (h : eSafe w = false) : eSafe (mergeSafe w l) = false := by
  obtain ⟨_, _, _, ws, _, _, wi, wd, _, _⟩ := w
  obtain ⟨_, _, _, ls, _, _, li, ld, _, _⟩ := l
  simp only [eSafe, mergeSafe] at h ⊢
  cases ls with
  | none => cases hs : ws.getD true <;> cases hi : wi.getD true <;> cases wd <;> cases ld <;> simp_all
  | some b =>
    cases b <;> cases hs : ws.getD true <;> cases hi : wi.getD true <;> cases wd <;> cases ld <;> simp_all

theorem notStream_setFunc (k : CompKind) (g : String) (h : notStream k = true) : notStream (k.setFunc g) = true := by
  cases k <;> simp_all [notStream, CompKind.setFunc]

theorem stable_isUnsafe (q : CompKind → Bool) (hq : ∀ k g, q k = true → q (k.setFunc g) = true) :
    Stable isUnsafeF q where
  upd := fun kw f h => by
    simp only [isUnsafeF, Bool.not_eq_true'] at h ⊢; exact eSafe_updFlags_false h
  prio := fun x f h => by simpa [isUnsafeF, eSafe] using h
  ro := fun w l h => by
    simp only [isUnsafeF, Bool.not_eq_true'] at h ⊢
    exact eSafe_mergeSafe_false l h
  rs := fun w l h => by
    simp only [isUnsafeF, Bool.not_eq_true'] at h ⊢
    exact eSafe_mergeSafe_false l h
  promo := fun w l h => by
    simp only [isUnsafeF, Bool.not_eq_true'] at h ⊢
    rw [eSafe_promotedFlags, h]; rfl
  fn := hq

theorem stable_isUnsafe_any : Stable isUnsafeF anyKind := stable_isUnsafe anyKind (fun _ _ _ => rfl)

theorem stable_srcMark (L : Option String → Bool) : Stable (srcMarkF L) anyKind where
  upd := fun kw f h => by
    simp only [srcMarkF, Bool.or_eq_true, Bool.not_eq_true'] at h ⊢
    rcases h with h | h
    · exact .inl (by simpa [updFlags] using h)
    · exact .inr (eSafe_updFlags_false h)
  prio := fun x f h => by simpa [srcMarkF, eSafe] using h
  ro := fun w l h => by
    simp only [srcMarkF, Bool.or_eq_true, Bool.not_eq_true'] at h ⊢
    rcases h with h | h
    · exact .inl (by simpa [replaceOtherFlags, mergeSafe] using h)
    · exact .inr (eSafe_mergeSafe_false l h)
  rs := fun w l h => by
    simp only [srcMarkF, Bool.or_eq_true, Bool.not_eq_true'] at h ⊢
    rcases h with h | h
    · exact .inl (by simpa [replaceSelfFlags, mergeSafe] using h)
    · exact .inr (eSafe_mergeSafe_false l h)
  promo := fun w l h => by
    simp only [srcMarkF, Bool.or_eq_true, Bool.not_eq_true'] at h ⊢
    rcases h with h | h
    · exact .inl (by unfold promotedFlags; split <;> simpa using h)
    · exact .inr (by rw [eSafe_promotedFlags, h]; rfl)
  fn := fun _ _ _ => rfl

theorem fresh_srcMark {L : Option String → Bool} (h : L none = false) : FreshOK (srcMarkF L) anyKind where
  flags := by simp [srcMarkF, freshFlags, h]
  kind := rfl

theorem stable_notStream : Stable anyFlags notStream where
  upd := fun _ _ _ => rfl
  prio := fun _ _ _ => rfl
  ro := fun _ _ _ => rfl
  rs := fun _ _ _ => rfl
  promo := fun _ _ _ => rfl
  fn := notStream_setFunc

theorem fresh_notStream : FreshOK anyFlags notStream where
  flags := rfl
  kind := rfl

theorem stable_dUnsafe : Stable dUnsafeF anyKind where
  upd := fun kw f h => by simpa [dUnsafeF, updFlags] using h
  prio := fun x f h => by simpa [dUnsafeF] using h
  ro := fun w l h => by
    simp only [dUnsafeF, Bool.not_eq_true'] at h
    simp [dUnsafeF, replaceOtherFlags, mergeSafe, h]
  rs := fun w l h => by
    simp only [dUnsafeF, Bool.not_eq_true'] at h
    simp [dUnsafeF, replaceSelfFlags, mergeSafe, h]
  promo := fun w l h => by
    simp only [dUnsafeF, Bool.not_eq_true'] at h ⊢
    rw [promotedFlags_dSafe]; exact h
  fn := fun _ _ _ => rfl

/-! ### the loader -/

/-- the flags the loader creates: source-level attributes of `env`, anything else -/
def BaseOK (env : Env) (p : Flags → Bool) : Prop := ∀ f : Flags, f.dSafe = env.dSafe → f.src = env.src → p f = true
def KindOK (q : CompKind → Bool) : Prop := ∀ k : CompKind, k ≠ .stream → q k = true

variable {p : Flags → Bool} {q : CompKind → Bool}

theorem initChildren_all (hS : Stable p q) (f : Flags) (k : CompKind) (x? : Option Int) : ∀ (cs : List (Key × Node)),
    allL p q cs = true → allL p q (initChildren f k x? cs) = true
  | [], _ => rfl
  | (key, c) :: rest, h => by
    rw [allL_cons] at h
    have ih := initChildren_all hS f k x? rest h.2
    simp only [initChildren, List.map_cons] at ih ⊢
    rw [allL_cons]
    exact ⟨inheritInto_all hS x? _ h.1, ih⟩

theorem comp_init_all (hS : Stable p q) {f : Flags} {k : CompKind} (x? : Option Int) {cs : List (Key × Node)}
    (hf : p f = true) (hk : q k = true) (h : allL p q cs = true) :
    allN p q (.comp f k (initChildren f k x? cs)) = true :=
  (allN_comp _ _ _).2 ⟨hf, hk, initChildren_all hS f k x? cs h⟩

theorem wrapSeq_all (hS : Stable p q) {env : Env} (hB : BaseOK env p) (hK : KindOK q) {t : TagKind} {kw : CtorKw}
    {cs : List (Key × Node)} {n : Node} (hc : allL p q cs = true) (h : wrapSeq env t kw cs = .ok n) :
    allN p q n = true := by
  simp only [wrapSeq] at h
  split at h
  all_goals first
    | (cases h; exact comp_init_all hS _ (hB _ rfl rfl) (hK _ (by simp)) hc)
    | (split at h
       · cases h
       · cases h; exact comp_init_all hS _ (hB _ rfl rfl) (hK _ (by simp)) hc)
    | cases h

theorem wrapMap_all (hS : Stable p q) {env : Env} (hB : BaseOK env p) (hK : KindOK q) {t : TagKind} {kw : CtorKw}
    {cs : List (Key × Node)} {n : Node} (hc : allL p q cs = true) (h : wrapMap env t kw cs = .ok n) :
    allN p q n = true := by
  simp only [wrapMap] at h
  split at h
  all_goals first
    | (cases h; exact comp_init_all hS _ (hB _ rfl rfl) (hK _ (by simp)) hc)
    | (split at h
       · cases h
       · cases h; exact comp_init_all hS _ (hB _ rfl rfl) (hK _ (by simp)) hc)
    | cases h

theorem scalarAsItems_all {env : Env} (hB : BaseOK env p) (v : RVal) : allL p q (scalarAsItems env v) = true := by
  cases v <;> simp only [scalarAsItems, allL, allN, rawChild, Bool.and_true] <;> exact hB _ rfl rfl

theorem wrapScalar_all (hS : Stable p q) {env : Env} (hB : BaseOK env p) (hK : KindOK q) {t : TagKind} {kw : CtorKw}
    {v : RVal} {n : Node} (h : wrapScalar env t kw v = .ok n) : allN p q n = true := by
  simp only [wrapScalar] at h
  split at h
  all_goals first
    | exact wrapSeq_all hS hB hK (scalarAsItems_all hB _) h
    | (cases h; exact hB _ rfl rfl)
    | (split at h
       all_goals first
         | exact wrapSeq_all hS hB hK (scalarAsItems_all hB _) h
         | exact wrapMap_all hS hB hK (scalarAsItems_all hB _) h
         | exact wrapSeq_all hS hB hK allL_nil h
         | exact wrapMap_all hS hB hK allL_nil h
         | (cases h; exact hB _ rfl rfl)
         | (cases h <;> done)
         | (split at h
            · exact wrapSeq_all hS hB hK (scalarAsItems_all hB _) h
            · exact wrapSeq_all hS hB hK allL_nil h))

mutual
theorem constructDeep_all (hS : Stable p q) {env : Env} (hB : BaseOK env p) (hK : KindOK q) : ∀ (r : Raw) (n : Node),
    constructDeep env r = .ok n → allN p q n = true
  | .scalar t kw v, n, h => by
    simp only [constructDeep] at h
    exact wrapScalar_all hS hB hK h
  | .seq t kw items, n, h => by
    simp only [constructDeep] at h
    split at h
    · cases h
    · rename_i cs hcs
      have hall := constructDeepList_all hS hB hK 0 items cs hcs
      split at h
      · split at h
        · cases h; exact hB _ rfl rfl
        · cases h
      · exact wrapSeq_all hS hB hK hall h
  | .map t kw items, n, h => by
    simp only [constructDeep] at h
    split at h
    · cases h
    · rename_i cs hcs
      exact wrapMap_all hS hB hK (constructDeepMap_all hS hB hK items cs hcs) h
theorem constructDeepList_all (hS : Stable p q) {env : Env} (hB : BaseOK env p) (hK : KindOK q) :
    ∀ (i : Nat) (items : List Raw) (cs : List (Key × Node)),
    constructDeepList env i items = .ok cs → allL p q cs = true
  | _, [], cs, h => by simp only [constructDeepList] at h; cases h; rfl
  | i, r :: rest, cs, h => by
    simp only [constructDeepList] at h
    split at h
    · cases h
    · rename_i n hn
      split at h
      · cases h
      · rename_i ns hns
        cases h
        rw [allL_cons]
        exact ⟨constructDeep_all hS hB hK r n hn, constructDeepList_all hS hB hK (i + 1) rest ns hns⟩
theorem constructDeepMap_all (hS : Stable p q) {env : Env} (hB : BaseOK env p) (hK : KindOK q) :
    ∀ (items : List (Key × Raw)) (cs : List (Key × Node)),
    constructDeepMap env items = .ok cs → allL p q cs = true
  | [], cs, h => by simp only [constructDeepMap] at h; cases h; rfl
  | (k, r) :: rest, cs, h => by
    simp only [constructDeepMap] at h
    split at h
    · cases h
    · rename_i n hn
      split at h
      · cases h
      · rename_i ns hns
        cases h
        rw [allL_cons]
        exact ⟨constructDeep_all hS hB hK r n hn, constructDeepMap_all hS hB hK rest ns hns⟩
end

theorem adoptBy_all (hS : Stable p q) (parent : Option (Flags × CompKind)) {n : Node} (h : allN p q n = true) :
    allN p q (adoptBy parent n) = true := by
  cases parent with
  | none => exact h
  | some pr => exact adopt_all hS pr.1 pr.2 h

mutual
theorem constructTD_all (hS : Stable p q) {env : Env} (hB : BaseOK env p) (hK : KindOK q) :
    ∀ (parent : Option (Flags × CompKind)) (r : Raw) (n : Node),
    constructTD env parent r = .ok n → allN p q n = true
  | parent, .scalar t kw v, n, h => by
    cases t
    case none =>
      simp only [constructTD] at h
      cases h
      exact adoptBy_all hS parent (hB _ rfl rfl)
    all_goals
      simp only [constructTD] at h
      split at h
      · cases h
      · rename_i m hm
        cases h
        exact adoptBy_all hS parent (wrapScalar_all hS hB hK hm)
  | parent, .seq t kw items, n, h => by
    cases t
    case none =>
      simp only [constructTD] at h
      have ha : allN p q (adoptBy parent (.comp (bareFlags env) .list [])) = true :=
        adoptBy_all hS parent ((allN_comp _ _ _).2 ⟨hB _ rfl rfl, hK _ (by simp), rfl⟩)
      split at h
      · rename_i f k cs0 heq
        split at h
        · cases h
        · rename_i cs hcs
          cases h
          rw [heq] at ha
          have ha' := (allN_comp _ _ _).1 ha
          exact (allN_comp _ _ _).2 ⟨ha'.1, ha'.2.1, constructTDList_all hS hB hK f k 0 items cs hcs⟩
      · cases h; exact ha
    all_goals
      simp only [constructTD] at h
      split at h
      · cases h
      · rename_i m hm
        cases h
        exact adoptBy_all hS parent (constructDeep_all hS hB hK _ m hm)
  | parent, .map t kw items, n, h => by
    cases t
    case none =>
      simp only [constructTD] at h
      have ha : allN p q (adoptBy parent (.comp (bareFlags env) .dict [])) = true :=
        adoptBy_all hS parent ((allN_comp _ _ _).2 ⟨hB _ rfl rfl, hK _ (by simp), rfl⟩)
      split at h
      · rename_i f k cs0 heq
        split at h
        · cases h
        · rename_i cs hcs
          cases h
          rw [heq] at ha
          have ha' := (allN_comp _ _ _).1 ha
          exact (allN_comp _ _ _).2 ⟨ha'.1, ha'.2.1, constructTDMap_all hS hB hK f k items [] cs rfl hcs⟩
      · cases h; exact ha
    all_goals
      simp only [constructTD] at h
      split at h
      · cases h
      · rename_i m hm
        cases h
        exact adoptBy_all hS parent (constructDeep_all hS hB hK _ m hm)
theorem constructTDList_all (hS : Stable p q) {env : Env} (hB : BaseOK env p) (hK : KindOK q) (pf : Flags) (pk : CompKind) :
    ∀ (i : Nat) (items : List Raw) (cs : List (Key × Node)),
    constructTDList env pf pk i items = .ok cs → allL p q cs = true
  | _, [], cs, h => by simp only [constructTDList] at h; cases h; rfl
  | i, r :: rest, cs, h => by
    simp only [constructTDList] at h
    split at h
    · cases h
    · rename_i n hn
      split at h
      · cases h
      · rename_i ns hns
        cases h
        rw [allL_cons]
        exact ⟨constructTD_all hS hB hK (some (pf, pk)) r n hn, constructTDList_all hS hB hK pf pk (i + 1) rest ns hns⟩
theorem constructTDMap_all (hS : Stable p q) {env : Env} (hB : BaseOK env p) (hK : KindOK q) (pf : Flags) (pk : CompKind) :
    ∀ (items : List (Key × Raw)) (acc cs : List (Key × Node)),
    allL p q acc = true → constructTDMap env pf pk items acc = .ok cs → allL p q cs = true
  | [], acc, cs, hacc, h => by simp only [constructTDMap] at h; cases h; exact hacc
  | (k, r) :: rest, acc, cs, hacc, h => by
    simp only [constructTDMap] at h
    split at h
    · cases h
    · rename_i n hn
      exact constructTDMap_all hS hB hK pf pk rest _ cs
        (aset_all (constructTD_all hS hB hK (some (pf, pk)) r n hn) hacc) h
end

/-- `yaml.parse`: every node of the document satisfies a stable predicate that holds of the flags the
    loader creates for this source -/
theorem construct_all (hS : Stable p q) {env : Env} (hB : BaseOK env p) (hK : KindOK q) {r : Raw} {n : Node}
    (h : construct env r = .ok n) : allN p q n = true :=
  constructTD_all hS hB hK none r n h

theorem kindOK_any : KindOK anyKind := fun _ _ => rfl
theorem kindOK_notStream : KindOK notStream := fun k hk => by simpa [notStream] using hk

/-- a document never contains a `StreamNode` -/
theorem construct_streamFree {env : Env} {r : Raw} {n : Node} (h : construct env r = .ok n) : streamFree n = true :=
  construct_all stable_notStream (fun _ _ _ => rfl) kindOK_notStream h

/-- a document read from a source added with `safe=False`: every node is unsafe -/
theorem construct_allUnsafe {env : Env} (he : env.dSafe = false) {r : Raw} {n : Node}
    (h : construct env r = .ok n) : allUnsafe n = true :=
  construct_all stable_isUnsafe_any (fun f hd _ => by simp [isUnsafeF, eSafe, hd, he]) kindOK_any h

theorem construct_srcMark {L : Option String → Bool} {env : Env} (he : L env.src = true → env.dSafe = false)
    {r : Raw} {n : Node} (h : construct env r = .ok n) : allN (srcMarkF L) anyKind n = true :=
  construct_all (stable_srcMark L) (fun f hd hs => by
    simp only [srcMarkF, Bool.or_eq_true, Bool.not_eq_true']
    cases hL : L env.src with
    | false => exact .inl (by rw [hs]; exact hL)
    | true => exact .inr (by simp [eSafe, hd, he hL])) kindOK_any h

/-! ### below an unsafe node -/

mutual
/-- in a consistent stream-free tree a node with an inherited `safe=False` has only unsafe nodes below it -/
theorem inherited_allUnsafe : ∀ (c : Node), FlagsConsistent c = true → streamFree c = true →
    c.flags.iSafe = some false → allUnsafe c = true
  | .leaf f k, _, _, hi => by
    simp only [allUnsafe, allN, isUnsafeF, Bool.not_eq_true']
    exact eSafe_of_iSafe_false hi
  | .comp f k cs, hc, hs, hi => by
    have hs' := (allN_comp (p := anyFlags) (q := notStream) f k cs).1 hs
    obtain ⟨kw, hk⟩ : ∃ kw, childKw f k = some kw := by
      cases k <;> first | exact ⟨_, rfl⟩ | simp [notStream] at hs'
    have hkw : kw.iSafe = some false := by
      rw [childKw_iSafe_eq hk]; simp only [Node.flags] at hi; simp [hi]
    simp only [allUnsafe]
    rw [allN_comp]
    refine ⟨by simp only [isUnsafeF, Bool.not_eq_true']; exact eSafe_of_iSafe_false hi, rfl, ?_⟩
    simp only [FlagsConsistent, hk] at hc
    exact inherited_allUnsafeL kw hkw cs hc hs'.2.2
theorem inherited_allUnsafeL (kw : ChildKw) (hkw : kw.iSafe = some false) : ∀ (cs : List (Key × Node)),
    consistentList (some kw) cs = true → allL anyFlags notStream cs = true → allL isUnsafeF anyKind cs = true
  | [], _, _ => rfl
  | (key, c) :: rest, hc, hs => by
    rw [consistentList_cons] at hc
    rw [allL_cons] at hs ⊢
    have hok := (childFlagsOK_iff kw c.flags).1 (hc.1 kw rfl)
    have hi : c.flags.iSafe = some false := by
      rcases hok.2.2 with h | h
      · rw [h]; exact hkw
      · exact h
    exact ⟨inherited_allUnsafe c hc.2.1 hs.1 hi, inherited_allUnsafeL kw hkw rest hc.2.2 hs.2⟩
end

/-- … and a container that is explicitly `!unsafe`, or unsafe by inheritance, has only unsafe nodes below it -/
theorem below_mark_allUnsafe {f : Flags} {k : CompKind} {cs : List (Key × Node)}
    (hc : FlagsConsistent (.comp f k cs) = true) (hs : streamFree (.comp f k cs) = true)
    (hm : f.safe = some false ∨ f.iSafe = some false) : allL isUnsafeF anyKind cs = true := by
  have hs' := (allN_comp (p := anyFlags) (q := notStream) f k cs).1 hs
  obtain ⟨kw, hk⟩ : ∃ kw, childKw f k = some kw := by
    cases k <;> first | exact ⟨_, rfl⟩ | simp [notStream] at hs'
  have hkw : kw.iSafe = some false := by
    rw [childKw_iSafe_eq hk]
    rcases hm with h | h
    · split
      · rfl
      · simp [h, Option.or]
    · simp [h]
  simp only [FlagsConsistent, hk] at hc
  exact inherited_allUnsafeL kw hkw cs hc hs'.2.2

/-- the whole tree at and below a node carrying an explicit `safe=False` is unsafe -/
theorem marked_allUnsafe {n : Node} (hc : FlagsConsistent n = true) (hs : streamFree n = true)
    (hm : n.flags.safe = some false) : allUnsafe n = true := by
  cases n with
  | leaf f k =>
    simp only [Node.flags] at hm
    simp [allUnsafe, allN, isUnsafeF, eSafe, hm]
  | comp f k cs =>
    simp only [Node.flags] at hm
    simp only [allUnsafe]
    rw [allN_comp]
    exact ⟨by simp [isUnsafeF, eSafe, hm], rfl, below_mark_allUnsafe hc hs (.inl hm)⟩

end AY.C07P
