/-
  AY.Lemmas.OutcomeNestedEx — the example trees of AY.Props.C10_Nested and the proofs that they are
  related by `PermTree`.
-/
import AY.Props.C10
import AY.Lemmas.OutcomeNested
namespace AY

/-- `a` holds a nested mapping `a.x` (depth 2) with a reference into its sibling; the `!call` `c`
    consumes `a.x`; `u` is unsafe; `r` refers to the call -/
def c10NestA : Node := .comp {} .dict [
  (.str "x", .comp {} .dict [(.str "p", .leaf {} (.scalar (.int 1))), (.str "q", .leaf {} (.xref "a.y"))]),
  (.str "y", .leaf {} (.scalar (.int 2)))]

/-- `a` with its entries swapped and the entries of `a.x` swapped -/
def c10NestA' : Node := .comp {} .dict [
  (.str "y", .leaf {} (.scalar (.int 2))),
  (.str "x", .comp {} .dict [(.str "q", .leaf {} (.xref "a.y")), (.str "p", .leaf {} (.scalar (.int 1)))])]

def c10NestRest : List (Key × Node) := [
  (.str "c", .comp {} (.call "f") [(.str "a", .leaf {} (.xref "a.x"))]),
  (.str "u", .leaf { safe := some false } (.scalar (.str "s")))]

def c10NestR : Key × Node := (.str "r", .leaf {} (.xref "c"))

/-- the tree as written … -/
def c10NestTree : Node := .comp {} .dict ((.str "a", c10NestA) :: c10NestRest ++ [c10NestR])
/-- … and with the keys of the root, of `a` and of `a.x` written in another order -/
def c10NestTree' : Node := .comp {} .dict (c10NestR :: (.str "a", c10NestA') :: c10NestRest)

theorem c10NestA_perm : PermTree c10NestA c10NestA' :=
  .dict {} (.cons (.dict {} (PermTree.refl_kids _) (.swap _ _ _)) (PermTree.refl_kids _)) (.swap _ _ _)

theorem c10NestTree_perm : PermTree c10NestTree c10NestTree' :=
  .dict {} (.cons c10NestA_perm (PermTree.refl_kids _))
    (show (((Key.str "a", c10NestA') :: c10NestRest) ++ [c10NestR]).Perm
        ([c10NestR] ++ ((Key.str "a", c10NestA') :: c10NestRest)) from List.perm_append_comm)

/-- one more entry: a `!call` consuming the unsafe scalar (refused in every order) -/
def c10NestBad : Key × Node :=
  (.str "g", .comp {} (.call "f") [(.str "a", .leaf {} (.xref "u"))])

end AY
