/-
  AY.Lemmas.C16PipePremerge — the pre-merge pass of a stage that holds ONE operator at a path below plain
  mappings and no other pre-merge operator (`soleAt`): the operator runs on the accumulated tree, the stage
  keeps its shape and receives the operator's result at the path (`replaceAt`); what `replaceAt` preserves.
  Helpers for AY.Props.C16_Pipeline.
-/
import AY.Lemmas.C16PipeDefs
namespace AY.C16P
open AY.C04P
open AY.C07P (opFree opFreeL premergeChildren_opFree premergeF_opFree)

/-! ### shape lemmas -/

theorem soleAt_cons {k : Key} {q : Path} {n : Node} (h : soleAt (k :: q) n = true) :
    ∃ f cs c, n = .comp f .dict cs ∧ alookup k cs = some c ∧ soleAt q c = true ∧
      opFreeL (aerase k cs) = true := by
  cases n with
  | leaf f lk => simp [soleAt] at h
  | comp f ck cs =>
    cases ck <;> try (simp [soleAt] at h; done)
    simp only [soleAt, Bool.and_eq_true] at h
    cases hl : alookup k cs with
    | none => simp [hl] at h
    | some c =>
      rw [hl] at h
      exact ⟨f, cs, c, rfl, hl, h.1, h.2⟩

/-- flags of the mapping that holds the last key of the path -/
def parentFlags : Path → Node → Flags
  | [], _ => {}
  | [_], n => n.flags
  | k :: k1 :: q, n =>
    match n with
    | .leaf .. => {}
    | .comp _ _ cs =>
      match alookup k cs with
      | none => {}
      | some c => parentFlags (k1 :: q) c

/-! ### the loop of the pre-merge pass when one child fails -/

theorem premergeChildren_one_err {d : Nat} {rec : Node → Path → Option Node → PM}
    (H : ∀ c pa into, opFree c = true → c.depth < d → rec c pa into = .ok (c, true, into)) (path : Path)
    (k : Key) (c : Node) (e : Err) :
    ∀ (cs : List (Key × Node)) (into : Option Node), alookup k cs = some c →
      opFreeL (aerase k cs) = true → depthList cs < d →
      rec c (path ++ [k]) into = .error e →
      premergeChildren rec path cs into = .error e
  | [], _, h, _, _, _ => by simp [alookup] at h
  | (k0, c0) :: rest, into, hl, hop, hd, hrec => by
    have hd' : c0.depth < d ∧ depthList rest < d := by simp only [depthList] at hd; omega
    by_cases e0 : k0 = k
    · subst e0
      simp only [alookup, if_true, Option.some.injEq] at hl
      subst hl
      simp only [premergeChildren, hrec]
    · simp only [alookup, e0, if_false] at hl
      simp only [aerase, e0, if_false, opFreeL, Bool.and_eq_true] at hop
      have ih := premergeChildren_one_err H path k c e rest into hl hop.2 hd'.2 hrec
      simp only [premergeChildren, H c0 _ into hop.1 hd'.1, ih]

/-! ### the pre-merge pass of a stage with a sole operator -/

/-- THE PRE-MERGE PASS, success: the operator `op` at `k :: q` (absolute path `pre ++ k :: q`) returns the
    node `v` (another object) and leaves the accumulated tree `into'`: the stage stays the same object, holds
    `v` (adopted) where the operator was, and the accumulated tree is what the operator left -/
theorem premergeF_sole_ok (v : Node) (into' : Option Node) (root : Node) :
    ∀ (q : Path) (k : Key) (fuel : Nat) (n : Node) (pre : Path) (op : Node),
    soleAt (k :: q) n = true → n.depth < fuel → getNode n (k :: q) = some op →
    (∀ fl, premergeF (fl + 1) op (pre ++ k :: q) (some root) = .ok (v, false, into')) →
    premergeF fuel n pre (some root) = .ok (replaceAt v (k :: q) n, true, into') := by
  intro q
  induction q with
  | nil =>
    intro k fuel n pre op hsp hd hg hop
    obtain ⟨f, cs, c, rfl, hl, _, hof⟩ := soleAt_cons hsp
    have hc : c = op := by simpa [getNode, hl] using hg
    subst hc
    cases fuel with
    | zero => omega
    | succ fuel =>
      have hdl : depthList cs < fuel := by simp only [Node.depth] at hd; omega
      cases fuel with
      | zero => omega
      | succ fuel =>
        have hch := premergeChildren_one (rec := premergeF (fuel + 1))
          (fun c pa into hc hdc => premergeF_opFree (fuel + 1) c pa into hc hdc) pre k _ _ false _ cs (some root)
          hl hof hdl (hop fuel)
        rw [premergeF_dict, hch]
        simp only [Bool.false_eq_true, if_false, applyResets, setChild, CompKind.isDictFam, if_true,
          replaceAt]
  | cons k1 q ih =>
    intro k fuel n pre op hsp hd hg hop
    obtain ⟨f, cs, c, rfl, hl, hc, hof⟩ := soleAt_cons hsp
    have hgc : getNode c (k1 :: q) = some op := by
      simp only [getNode, hl] at hg; exact hg
    cases fuel with
    | zero => omega
    | succ fuel =>
      have hdl : depthList cs < fuel := by simp only [Node.depth] at hd; omega
      have hcd : c.depth < fuel := Nat.lt_of_le_of_lt (depth_le_of_alookup hl) hdl
      have hop' : ∀ fl, premergeF (fl + 1) op ((pre ++ [k]) ++ k1 :: q) (some root) = .ok (v, false, into') := by
        intro fl; rw [List.append_assoc]; exact hop fl
      have hrec := ih k1 fuel c (pre ++ [k]) op hc hcd hgc hop'
      have hch := premergeChildren_one (rec := premergeF fuel)
        (fun c pa into hc hdc => premergeF_opFree fuel c pa into hc hdc) pre k _ _ true _ cs (some root)
        hl hof hdl hrec
      rw [premergeF_dict, hch]
      simp only [if_true, applyResets, replaceAt, hl]

/-- THE PRE-MERGE PASS, failure: the operator raises, so does the pass (nothing else in the stage can) -/
theorem premergeF_sole_err (e : Err) (root : Node) :
    ∀ (q : Path) (k : Key) (fuel : Nat) (n : Node) (pre : Path) (op : Node),
    soleAt (k :: q) n = true → n.depth < fuel → getNode n (k :: q) = some op →
    (∀ fl, premergeF (fl + 1) op (pre ++ k :: q) (some root) = .error e) →
    premergeF fuel n pre (some root) = .error e := by
  intro q
  induction q with
  | nil =>
    intro k fuel n pre op hsp hd hg hop
    obtain ⟨f, cs, c, rfl, hl, _, hof⟩ := soleAt_cons hsp
    have hc : c = op := by simpa [getNode, hl] using hg
    subst hc
    cases fuel with
    | zero => omega
    | succ fuel =>
      have hdl : depthList cs < fuel := by simp only [Node.depth] at hd; omega
      cases fuel with
      | zero => omega
      | succ fuel =>
        have hch := premergeChildren_one_err (rec := premergeF (fuel + 1))
          (fun c pa into hc hdc => premergeF_opFree (fuel + 1) c pa into hc hdc) pre k _ e cs (some root)
          hl hof hdl (hop fuel)
        rw [premergeF_dict, hch]
  | cons k1 q ih =>
    intro k fuel n pre op hsp hd hg hop
    obtain ⟨f, cs, c, rfl, hl, hc, hof⟩ := soleAt_cons hsp
    have hgc : getNode c (k1 :: q) = some op := by
      simp only [getNode, hl] at hg; exact hg
    cases fuel with
    | zero => omega
    | succ fuel =>
      have hdl : depthList cs < fuel := by simp only [Node.depth] at hd; omega
      have hcd : c.depth < fuel := Nat.lt_of_le_of_lt (depth_le_of_alookup hl) hdl
      have hop' : ∀ fl, premergeF (fl + 1) op ((pre ++ [k]) ++ k1 :: q) (some root) = .error e := by
        intro fl; rw [List.append_assoc]; exact hop fl
      have hrec := ih k1 fuel c (pre ++ [k]) op hc hcd hgc hop'
      have hch := premergeChildren_one_err (rec := premergeF fuel)
        (fun c pa into hc hdc => premergeF_opFree fuel c pa into hc hdc) pre k _ e cs (some root)
        hl hof hdl hrec
      rw [premergeF_dict, hch]

/-! ### what `replaceAt` preserves -/

theorem getNode_replaceAt (v : Node) : ∀ (q : Path) (k : Key) (n : Node), soleAt (k :: q) n = true →
    getNode (replaceAt v (k :: q) n) (k :: q) = some (adopt (parentFlags (k :: q) n) .dict v) := by
  intro q
  induction q with
  | nil =>
    intro k n hsp
    obtain ⟨f, cs, c, rfl, hlk, _, _⟩ := soleAt_cons hsp
    simp [replaceAt, getNode, alookup_aset, parentFlags, Node.flags]
  | cons k1 q ih =>
    intro k n hsp
    obtain ⟨f, cs, c, rfl, hlk, hc, _⟩ := soleAt_cons hsp
    simp only [replaceAt, hlk, getNode, alookup_aset, if_true, parentFlags]
    exact ih k1 c hc

theorem liveAlong_replaceAt (v : Node) : ∀ (q : Path) (k : Key) (n : Node), liveAlong (k :: q) n = true →
    soleAt (k :: q) n = true → liveAlong (k :: q) (replaceAt v (k :: q) n) = true := by
  intro q
  induction q with
  | nil =>
    intro k n hl hsp
    obtain ⟨f, cs, c, rfl, hlk, _, _⟩ := soleAt_cons hsp
    obtain ⟨_, _, hsh, hlive, hn, _⟩ := liveAlong_cons hl
    injection hsh with h1 _ h3
    subst h1; subst h3
    have hlive' : eDel (.comp f .dict (aset k (adopt f .dict v) cs)) = false := hlive
    simp only [replaceAt, liveAlong, hlive', keysNodup_aset k _ cs hn, alookup_aset, if_true, Bool.not_false,
      Bool.and_self]
  | cons k1 q ih =>
    intro k n hl hsp
    obtain ⟨f, cs, c, rfl, hlk, hc, _⟩ := soleAt_cons hsp
    obtain ⟨_, _, hsh, hlive, hn, hcc⟩ := liveAlong_cons hl
    injection hsh with h1 _ h3
    subst h1; subst h3
    have hlive' : eDel (.comp f .dict (aset k (replaceAt v (k1 :: q) c) cs)) = false := hlive
    simp only [replaceAt, hlk, liveAlong, hlive', keysNodup_aset k _ cs hn, alookup_aset, if_true, Bool.not_false,
      Bool.true_and]
    exact ih k1 c (hcc c hlk) hc

/-- no path leaves an operator node below a plain non-deleting mapping: it is not a plain mapping -/
theorem divergesLive_isOp {op : Node} (h : isOp op = true) : ∀ t, divergesLive t op = false := by
  intro t
  cases t with
  | nil => rfl
  | cons k t =>
    cases op with
    | leaf f lk => rfl
    | comp f ck cs => cases ck <;> first | rfl | simp [isOp] at h

/-- a path the stage does not mention is not mentioned after the pre-merge pass either -/
theorem divergesLive_replaceAt (v : Node) : ∀ (q : Path) (k : Key) (n : Node) (op : Node) (t : Path),
    soleAt (k :: q) n = true → getNode n (k :: q) = some op → (∀ t', divergesLive t' op = false) →
    divergesLive t n = true → divergesLive t (replaceAt v (k :: q) n) = true := by
  intro q
  induction q with
  | nil =>
    intro k n op t hsp hg hop ht
    obtain ⟨f, cs, c, rfl, hlk, _, _⟩ := soleAt_cons hsp
    have hc : c = op := by simpa [getNode, hlk] using hg
    subst hc
    cases t with
    | nil => simp [divergesLive] at ht
    | cons k' t' =>
      obtain ⟨_, _, hsh, hlive, hn, hcc⟩ := divergesLive_cons ht
      injection hsh with h1 _ h3
      subst h1; subst h3
      have hlive' : eDel (.comp f .dict (aset k (adopt f .dict v) cs)) = false := hlive
      simp only [replaceAt, divergesLive, hlive', keysNodup_aset k _ cs hn, alookup_aset, Bool.not_false,
        Bool.true_and]
      by_cases e : k = k'
      · subst e
        have := hcc c hlk
        rw [hop t'] at this
        cases this
      · simp only [e, if_false]
        cases hl' : alookup k' cs with
        | none => rfl
        | some c' => exact hcc c' hl'
  | cons k1 q ih =>
    intro k n op t hsp hg hop ht
    obtain ⟨f, cs, c, rfl, hlk, hc, _⟩ := soleAt_cons hsp
    have hgc : getNode c (k1 :: q) = some op := by
      simp only [getNode, hlk] at hg; exact hg
    cases t with
    | nil => simp [divergesLive] at ht
    | cons k' t' =>
      obtain ⟨_, _, hsh, hlive, hn, hcc⟩ := divergesLive_cons ht
      injection hsh with h1 _ h3
      subst h1; subst h3
      have hlive' : eDel (.comp f .dict (aset k (replaceAt v (k1 :: q) c) cs)) = false := hlive
      simp only [replaceAt, hlk, divergesLive, hlive', keysNodup_aset k _ cs hn, alookup_aset, Bool.not_false,
        Bool.true_and]
      by_cases e : k = k'
      · subst e
        simp only [if_true]
        exact ih k1 c op t' hc hgc hop (hcc c hlk)
      · simp only [e, if_false]
        cases hl' : alookup k' cs with
        | none => rfl
        | some c' => exact hcc c' hl'

end AY.C16P
