/-
  AY.Lemmas.OutcomeNestedDefs — key order at any depth (C10, last clause): the relations.

  * `AssocRel R` / `ListRel R` / `OptRel R`: association lists with the same keys in the same order
    (lists of the same length, options of the same shape) whose values are related by `R`.
  * `PermTree t t'`: the same tree except that the entries of `.dict` mappings — at any depth — may
    be written in a different order. Lists keep their order, and so do the arguments of `!call` /
    `!bind`: the order of keyword arguments is observable by the callee (`**kwargs` is an ordered
    dict; it is the order of `varkw` in an `app` record and of `kw` in a `part` record), so it is
    part of the evaluated config.
  * `PermVal v v'`: the same value except that the items of dicts — at any depth, also inside the
    argument records of `app` / `part` values, lists and tuples — may come in a different order. The
    object ids (paths) are equal.
  * `PermTree.symm`, `PermTree.getNode`: the relation is symmetric and, for trees with pairwise
    distinct keys, a path names related nodes in both trees.
-/
import AY.Lemmas.OutcomeComplete
namespace AY

/-! ### pointwise relations -/

inductive AssocRel {κ α : Type} (R : α → α → Prop) : List (κ × α) → List (κ × α) → Prop
  | nil : AssocRel R [] []
  | cons {k : κ} {v v' : α} {l l' : List (κ × α)} :
      R v v' → AssocRel R l l' → AssocRel R ((k, v) :: l) ((k, v') :: l')

inductive ListRel {α : Type} (R : α → α → Prop) : List α → List α → Prop
  | nil : ListRel R [] []
  | cons {v v' : α} {l l' : List α} : R v v' → ListRel R l l' → ListRel R (v :: l) (v' :: l')

inductive OptRel {α : Type} (R : α → α → Prop) : Option α → Option α → Prop
  | none : OptRel R none none
  | some {a a' : α} : R a a' → OptRel R (some a) (some a')

section rel
variable {κ α : Type} {R : α → α → Prop}

theorem AssocRel.length_eq {l l' : List (κ × α)} (h : AssocRel R l l') : l.length = l'.length := by
  induction h with
  | nil => rfl
  | cons _ _ ih => simp [ih]

theorem ListRel.length_eq {l l' : List α} (h : ListRel R l l') : l.length = l'.length := by
  induction h with
  | nil => rfl
  | cons _ _ ih => simp [ih]

theorem AssocRel.append {a a' b b' : List (κ × α)} (h1 : AssocRel R a a') (h2 : AssocRel R b b') :
    AssocRel R (a ++ b) (a' ++ b') := by
  induction h1 with
  | nil => exact h2
  | cons hr _ ih => exact .cons hr ih

theorem AssocRel.vals {l l' : List (κ × α)} (h : AssocRel R l l') :
    ListRel R (l.map (·.2)) (l'.map (·.2)) := by
  induction h with
  | nil => exact .nil
  | cons hr _ ih => exact .cons hr ih

/-- membership on the left -/
theorem AssocRel.mem_left {l l' : List (κ × α)} (h : AssocRel R l l') {k : κ} {v : α}
    (hm : (k, v) ∈ l) : ∃ v', (k, v') ∈ l' ∧ R v v' := by
  induction h with
  | nil => cases hm
  | cons hr _ ih =>
    rcases List.mem_cons.1 hm with heq | hm
    · cases heq; exact ⟨_, List.mem_cons_self, hr⟩
    · obtain ⟨v', hm', hr'⟩ := ih hm
      exact ⟨v', List.mem_cons_of_mem _ hm', hr'⟩

/-- membership on the right -/
theorem AssocRel.mem_right {l l' : List (κ × α)} (h : AssocRel R l l') {k : κ} {v' : α}
    (hm : (k, v') ∈ l') : ∃ v, (k, v) ∈ l ∧ R v v' := by
  induction h with
  | nil => cases hm
  | cons hr _ ih =>
    rcases List.mem_cons.1 hm with heq | hm
    · cases heq; exact ⟨_, List.mem_cons_self, hr⟩
    · obtain ⟨v, hm', hr'⟩ := ih hm
      exact ⟨v, List.mem_cons_of_mem _ hm', hr'⟩

theorem AssocRel.keys_eq {l l' : List (κ × α)} (h : AssocRel R l l') :
    l.map (·.1) = l'.map (·.1) := by
  induction h with
  | nil => rfl
  | cons _ _ ih => simp [ih]

/-- a pointwise relation commutes with permutations -/
theorem AssocRel.perm_comm {l₁ l₂ : List (κ × α)} (hp : l₁.Perm l₂) :
    ∀ {m₁ : List (κ × α)}, AssocRel R l₁ m₁ → ∃ m₂, AssocRel R l₂ m₂ ∧ m₁.Perm m₂ := by
  induction hp with
  | nil => intro m₁ h; cases h; exact ⟨[], .nil, .nil⟩
  | cons x _ ih =>
    intro m₁ h
    cases h with
    | cons hr ht =>
      obtain ⟨m₂, h2, hp2⟩ := ih ht
      exact ⟨_, .cons hr h2, hp2.cons _⟩
  | swap x y l =>
    intro m₁ h
    cases h with
    | cons hr1 ht =>
      cases ht with
      | cons hr2 ht2 => exact ⟨_, .cons hr2 (.cons hr1 ht2), .swap _ _ _⟩
  | trans _ _ ih1 ih2 =>
    intro m₁ h
    obtain ⟨m₂, h2, hp2⟩ := ih1 h
    obtain ⟨m₃, h3, hp3⟩ := ih2 h2
    exact ⟨m₃, h3, hp2.trans hp3⟩

end rel

/-! ### trees up to the order of mapping keys -/

/-- `PermTree t t'`: `t'` is `t` with the entries of some `.dict` mappings — at any depth — written in
    a different order -/
inductive PermTree : Node → Node → Prop
  | leaf (f : Flags) (k : LeafKind) : PermTree (.leaf f k) (.leaf f k)
  | comp (f : Flags) (k : CompKind) {cs cs' : List (Key × Node)} :
      AssocRel PermTree cs cs' → PermTree (.comp f k cs) (.comp f k cs')
  | dict (f : Flags) {cs mid cs' : List (Key × Node)} :
      AssocRel PermTree cs mid → mid.Perm cs' → PermTree (.comp f .dict cs) (.comp f .dict cs')

/-- `PermVal v v'`: `v'` is `v` with the items of some dicts — at any depth — in a different order;
    object ids are equal -/
inductive PermVal : Val → Val → Prop
  | scalar (s : Scalar) : PermVal (.scalar s) (.scalar s)
  | dict (oid : Path) {items mid items' : List (Key × Val)} :
      AssocRel PermVal items mid → mid.Perm items' → PermVal (.dict oid items) (.dict oid items')
  | list (oid : Path) {l l' : List Val} : ListRel PermVal l l' → PermVal (.list oid l) (.list oid l')
  | app (oid : Path) (f : String) {b b' : List (String × Val)} {va va' : List Val}
      {kw kw' : List (String × Val)} :
      AssocRel PermVal b b' → ListRel PermVal va va' → AssocRel PermVal kw kw' →
      PermVal (.app oid f b va kw) (.app oid f b' va' kw')
  | part (oid : Path) (f : String) {pos pos' : List Val} {kw kw' : List (String × Val)} :
      ListRel PermVal pos pos' → AssocRel PermVal kw kw' →
      PermVal (.part oid f pos kw) (.part oid f pos' kw')
  | tuple (oid : Path) {l l' : List Val} : ListRel PermVal l l' → PermVal (.tuple oid l) (.tuple oid l')
  | sym (name : String) : PermVal (.sym name) (.sym name)
  | pathv (s : String) : PermVal (.pathv s) (.pathv s)
  | strs (l : List String) : PermVal (.strs l) (.strs l)

/-! ### reflexivity and symmetry of `PermTree` -/

mutual
theorem PermTree.refl : ∀ n : Node, PermTree n n
  | .leaf f k => .leaf f k
  | .comp f k cs => .comp f k (PermTree.refl_kids cs)
theorem PermTree.refl_kids : ∀ cs : List (Key × Node), AssocRel PermTree cs cs
  | [] => .nil
  | (_, c) :: rest => .cons (PermTree.refl c) (PermTree.refl_kids rest)
end

mutual
theorem PermTree.symm : ∀ (n n' : Node), PermTree n n' → PermTree n' n
  | .leaf f k, _, h => by cases h; exact .leaf f k
  | .comp f k cs, _, h => by
    cases h with
    | comp _ _ hk => exact .comp f k (PermTree.symm_kids cs _ hk)
    | dict _ hk hp =>
      obtain ⟨m₂, h2, hp2⟩ := AssocRel.perm_comm hp (PermTree.symm_kids cs _ hk)
      exact .dict f h2 hp2.symm
theorem PermTree.symm_kids : ∀ (cs cs' : List (Key × Node)),
    AssocRel PermTree cs cs' → AssocRel PermTree cs' cs
  | [], _, h => by cases h; exact .nil
  | (_, c) :: rest, _, h => by
    cases h with
    | cons hr ht => exact .cons (PermTree.symm c _ hr) (PermTree.symm_kids rest _ ht)
end

/-! ### what the relation preserves -/

theorem PermTree.flags_eq {n n' : Node} (h : PermTree n n') : n'.flags = n.flags := by
  cases h <;> rfl

theorem PermTree.dynWhat_eq {n n' : Node} (h : PermTree n n') : dynWhat n' = dynWhat n := by
  cases h with
  | leaf f k => rfl
  | comp f k _ => cases k <;> rfl
  | dict f _ _ => rfl

/-- a reference is related to itself only -/
theorem PermTree.leaf_inv {f : Flags} {k : LeafKind} {n' : Node} (h : PermTree (.leaf f k) n') :
    n' = .leaf f k := by
  cases h; rfl

theorem PermTree.not_xref {n n' : Node} (h : PermTree n n') (hnx : ∀ fl t, n ≠ .leaf fl (.xref t)) :
    ∀ fl t, n' ≠ .leaf fl (.xref t) := by
  intro fl t e
  subst e
  have := (PermTree.symm _ _ h).leaf_inv
  exact hnx fl t this

/-- the children of related containers: an entry on the left has a related entry with the same key on
    the right -/
theorem PermTree.child {f f' : Flags} {k k' : CompKind} {cs cs' : List (Key × Node)}
    (h : PermTree (.comp f k cs) (.comp f' k' cs')) {key : Key} {c : Node} (hm : (key, c) ∈ cs) :
    ∃ c', (key, c') ∈ cs' ∧ PermTree c c' := by
  cases h with
  | comp _ _ hk => exact hk.mem_left hm
  | dict _ hk hp =>
    obtain ⟨c', hm', hr⟩ := hk.mem_left hm
    exact ⟨c', hp.mem_iff.1 hm', hr⟩

/-- in trees with pairwise distinct keys a path names related nodes -/
theorem PermTree.getNode : ∀ (q : Path) {n n' : Node}, PermTree n n' → uniqueKeys n' = true →
    ∀ {m : Node}, getNode n q = some m → ∃ m', AY.getNode n' q = some m' ∧ PermTree m m'
  | [], n, n', h, _, m, hg => by
    simp only [AY.getNode, Option.some.injEq] at hg
    subst hg
    exact ⟨n', rfl, h⟩
  | key :: rest, .leaf .., _, _, _, _, hg => by simp [AY.getNode] at hg
  | key :: rest, .comp f k cs, n', h, huk', m, hg => by
    unfold AY.getNode at hg
    split at hg
    · cases hg
    · rename_i c hc
      obtain ⟨cs', rfl⟩ : ∃ cs', n' = .comp f k cs' := by
        cases h with
        | comp _ _ _ => exact ⟨_, rfl⟩
        | dict _ _ _ => exact ⟨_, rfl⟩
      obtain ⟨c', hm', hr⟩ := h.child (alookup_mem hc)
      have hu' : uniqueKeysList cs' = true := by simpa [uniqueKeys] using huk'
      obtain ⟨huc', hl'⟩ := uniqueKeysList_mem hu' hm'
      obtain ⟨m', hg', hr'⟩ := PermTree.getNode rest hr huc' hg
      exact ⟨m', by simp only [AY.getNode, hl']; exact hg', hr'⟩

/-- the global correspondence between two related trees with pairwise distinct keys -/
structure Corr (t t' : Node) : Prop where
  fwd : ∀ p n, getNode t p = some n → ∃ n', getNode t' p = some n' ∧ PermTree n n'
  bwd : ∀ p n', getNode t' p = some n' → ∃ n, getNode t p = some n ∧ PermTree n n'

theorem PermTree.corr {t t' : Node} (h : PermTree t t') (huk : uniqueKeys t = true)
    (huk' : uniqueKeys t' = true) : Corr t t' :=
  ⟨fun p _ hg => PermTree.getNode p h huk' hg,
   fun p _ hg => by
     obtain ⟨n, hg', hr⟩ := PermTree.getNode p (PermTree.symm _ _ h) huk hg
     exact ⟨n, hg', PermTree.symm _ _ hr⟩⟩

theorem Corr.none {t t' : Node} (h : Corr t t') {p : Path} (hg : getNode t p = none) :
    getNode t' p = none := by
  cases hg' : getNode t' p with
  | none => rfl
  | some n' =>
    obtain ⟨n, hn, _⟩ := h.bwd p n' hg'
    rw [hg] at hn; cases hn

end AY
