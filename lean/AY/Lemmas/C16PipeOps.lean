/-
  AY.Lemmas.C16PipeOps — the three operators at a path of the last stage, through `flatten`:
  `grow_at` (`!append` / `!extend` on an existing list), `extend_fallback_at`, `prev_at`.
  Helpers for AY.Props.C16_Pipeline.
-/
import AY.Lemmas.C16PipeMerge
namespace AY.C16P
open AY.C04P

/-! ### paths the stage does not reach are independent of the operator's own path -/

theorem indep_cons_ne {k k' : Key} (h : k ≠ k') (a b : Path) : indep (k :: a) (k' :: b) = true := by
  have h' : k' ≠ k := fun e => h e.symm
  simp [indep, List.isPrefixOf, h, h']

/-- a path that leaves the stage below a plain non-deleting mapping is neither above nor below a path that
    ends, inside the stage, at a node that is not a plain mapping -/
theorem indep_of_diverges : ∀ (x : Path) (t : Path) (o op : Node), x ≠ [] → divergesLive t o = true →
    getNode o x = some op → (∀ t', divergesLive t' op = false) → indep t x = true
  | [], _, _, _, h, _, _, _ => absurd rfl h
  | k :: x, [], _, _, _, ht, _, _ => by simp [divergesLive] at ht
  | k :: x, k' :: t, o, op, _, ht, hg, hop => by
    obtain ⟨f, cs, rfl, _, _, hcc⟩ := divergesLive_cons ht
    obtain ⟨c, hl, hgc⟩ := getNode_cons_dict hg
    by_cases e : k' = k
    · subst e
      rw [indep_cons_same]
      have hc := hcc c hl
      cases x with
      | nil =>
        simp only [getNode, Option.some.injEq] at hgc
        subst hgc
        rw [hop t] at hc
        cases hc
      | cons k1 x' => exact indep_of_diverges (k1 :: x') t c op (by simp) hc hgc hop
    · exact indep_cons_ne e t x

theorem divergesLive_append_false (f : Flags) (ck : CompKind) (cs : List (Key × Node))
    (hck : ck = .append ∨ ck = .extend) : ∀ t, divergesLive t (.comp f ck cs) = false := by
  apply divergesLive_isOp
  rcases hck with rfl | rfl <;> rfl

theorem divergesLive_prev_false (f : Flags) (ps : String) : ∀ t, divergesLive t (.leaf f (.prev ps)) = false :=
  divergesLive_isOp rfl

/-! ### `!append` / `!extend` on an existing list -/

/-- the pre-merge result of `!append` / `!extend` when the list can be detached -/
theorem premergeF_grow (fl : Nat) (f : Flags) (ck : CompKind) (cs : List (Key × Node)) (path : Path)
    (root root' : Node) (tf : Flags) (tk : CompKind) (tcs : List (Key × Node))
    (hck : ck = .append ∨ ck = .extend)
    (hr : removeNode root path = some (.comp tf tk tcs, root')) (hk : tk.isListFam = true) :
    premergeF (fl + 1) (.comp f ck cs) path (some root) =
      .ok (.comp tf tk (extendList tf tk tcs (cs.map (·.2))), false, some root') := by
  have hg := c16_removeNode_getNode hr
  rcases hck with rfl | rfl
  · simp [premergeF, hr, hk]
  · simp [premergeF, hg, hr, hk]

/-- THE LIST GROWS AT THE PATH: the last stage holds `!append L` / `!extend L` at `k :: p` below plain
    non-deleting mappings and no other operator; the accumulated tree holds a list there (below mappings) -/
theorem grow_at (xs : List Node) (o s : Node) (k : Key) (p : Path) (f : Flags) (ck : CompKind)
    (cs : List (Key × Node)) (tf : Flags) (tk : CompKind) (tcs : List (Key × Node))
    (hck : ck = .append ∨ ck = .extend) (hx : xs ≠ [])
    (hs : flattenWith (premergeF (stagesFuel (xs ++ [o]))) xs = .ok s)
    (hsole : soleAt (k :: p) o = true) (ho : liveAlong (k :: p) o = true)
    (hop : getNode o (k :: p) = some (.comp f ck cs))
    (hsd : dictAlong (k :: p) s = true) (hse : getNode s (k :: p) = some (.comp tf tk tcs))
    (hk : tk.isListFam = true) :
    flatten (xs ++ [o]) = merge (eraseAt (k :: p) s)
      (replaceAt (.comp tf tk (extendList tf tk tcs (cs.map (·.2)))) (k :: p) o) ∧
    ∀ r, flatten (xs ++ [o]) = .ok r →
      (∀ q, (native r).at? (k :: p ++ q) =
        (Plain.list (nativeVals tcs ++ cs.map (fun kv => native kv.2))).at? q) ∧
      (∀ t, dictAlong t s = true → divergesLive t o = true → (native r).at? t = (native s).at? t) := by
  have hr := removeNode_dictAlong (k :: p) s _ (by simp) hsd hse
  have hfl := flatten_sole_ok xs o s k p _ _ _ hx hs hsole hop
    (fun fl => premergeF_grow fl f ck cs (k :: p) s _ tf tk tcs hck hr hk)
  refine ⟨hfl, ?_⟩
  intro r hb
  rw [hfl] at hb
  obtain ⟨b, hm⟩ := merge_ok hb
  have hopd := divergesLive_append_false f ck cs hck
  refine ⟨?_, ?_⟩
  · intro q
    have := at_new_path p k _ _ _ r b _ (dictAlong_eraseAt (k :: p) (k :: p) s hsd)
      (liveAlong_replaceAt _ p k o ho hsole) hm (getNode_eraseAt_self (k :: p) s (by simp) hsd)
      (getNode_replaceAt _ p k o hsole) q
    rw [this, native_adopt]
    have hd : tk.isDictFam = false := by simpa [CompKind.isListFam] using hk
    simp [native, hd, c16_nativeVals_extendList, List.map_map, Function.comp_def]
  · intro t ht htd
    rw [frame_diverges t _ _ _ r b (dictAlong_eraseAt (k :: p) t s ht)
      (divergesLive_replaceAt _ p k o _ t hsole hop hopd htd) hm]
    exact at_eraseAt_indep (k :: p) t s hsd (indep_of_diverges (k :: p) t o _ (by simp) htd hop hopd)

/-- "(and fails if there is no previous list)": no list-family node at the path — PremergeError -/
theorem append_fails_at (xs : List Node) (o s : Node) (k : Key) (p : Path) (f : Flags)
    (cs : List (Key × Node)) (hx : xs ≠ [])
    (hs : flattenWith (premergeF (stagesFuel (xs ++ [o]))) xs = .ok s)
    (hsole : soleAt (k :: p) o = true) (hop : getNode o (k :: p) = some (.comp f .append cs))
    (hno : ∀ tf tk tcs, getNode s (k :: p) = some (.comp tf tk tcs) → tk.isListFam = false) :
    flatten (xs ++ [o]) = .error .premerge := by
  apply flatten_sole_err xs o s k p _ .premerge hx hs hsole hop
  intro fl
  cases hr : removeNode s (k :: p) with
  | none => simp [premergeF, hr]
  | some res =>
    obtain ⟨d, s'⟩ := res
    have hg := c16_removeNode_getNode hr
    cases d with
    | leaf lf lk => simp [premergeF, hr]
    | comp tf tk tcs => simp [premergeF, hr, hno tf tk tcs hg]

/-! ### `!extend` with nothing to extend -/

theorem premergeF_extend_fallback (fl : Nat) (f : Flags) (cs : List (Key × Node)) (path : Path) (root : Node)
    (hg : ∀ tf tk tcs, getNode root path = some (.comp tf tk tcs) → tk.isListFam = false) :
    premergeF (fl + 1) (.comp f .extend cs) path (some root) =
      .ok (newPlainList f (cs.map (·.2)), false, some root) := by
  simp only [premergeF]
  cases hn : getNode root path with
  | none => rfl
  | some n =>
    cases n with
    | leaf lf lk => rfl
    | comp tf tk tcs => simp [hg tf tk tcs hn]

theorem del_adopt (pf : Flags) (pk : CompKind) (v : Node) : (adopt pf pk v).flags.del = v.flags.del := by
  simp only [adopt, inheritInto]
  cases childKw pf pk with
  | none => rw [c04_flags_propagate]
  | some kw =>
    rw [c04_flags_propagate, c04_flags_propagate, c04_flags_setFlags]
    rfl

theorem del_newPlainList (f : Flags) (vs : List Node) : (newPlainList f vs).flags.del = none := by
  simp only [newPlainList, c04_flags_propagate]
  rfl

theorem removedBy_adopt_newPlainList (pf f : Flags) (vs : List Node) :
    removedBy (adopt pf .dict (newPlainList f vs)) = false := by
  simp [removedBy, del_adopt, del_newPlainList]

/-- THE FALLBACK AT THE PATH: no list-family node at the path of an `!extend` — the stage is merged with the
    plain list `newPlainList f vals` in the operator's place, the accumulated tree is untouched -/
theorem extend_fallback_at (xs : List Node) (o s : Node) (k : Key) (p : Path) (f : Flags)
    (cs : List (Key × Node)) (hx : xs ≠ [])
    (hs : flattenWith (premergeF (stagesFuel (xs ++ [o]))) xs = .ok s)
    (hsole : soleAt (k :: p) o = true) (ho : liveAlong (k :: p) o = true)
    (hop : getNode o (k :: p) = some (.comp f .extend cs))
    (hno : ∀ tf tk tcs, getNode s (k :: p) = some (.comp tf tk tcs) → tk.isListFam = false) :
    flatten (xs ++ [o]) = merge s (replaceAt (newPlainList f (cs.map (·.2))) (k :: p) o) ∧
    ∀ r, flatten (xs ++ [o]) = .ok r →
      ∃ b, mergeF ((replaceAt (newPlainList f (cs.map (·.2))) (k :: p) o).depth + 1) s
          (replaceAt (newPlainList f (cs.map (·.2))) (k :: p) o) = .ok (r, b) ∧
        liveAlong (k :: p) (replaceAt (newPlainList f (cs.map (·.2))) (k :: p) o) = true ∧
        getNode (replaceAt (newPlainList f (cs.map (·.2))) (k :: p) o) (k :: p) =
          some (adopt (parentFlags (k :: p) o) .dict (newPlainList f (cs.map (·.2)))) ∧
        (∀ t, dictAlong t s = true → divergesLive t o = true → (native r).at? t = (native s).at? t) := by
  have hfl := flatten_sole_ok xs o s k p _ _ _ hx hs hsole hop
    (fun fl => premergeF_extend_fallback fl f cs (k :: p) s hno)
  refine ⟨hfl, ?_⟩
  intro r hb
  rw [hfl] at hb
  obtain ⟨b, hm⟩ := merge_ok hb
  refine ⟨b, hm, liveAlong_replaceAt _ p k o ho hsole, getNode_replaceAt _ p k o hsole, ?_⟩
  intro t ht htd
  exact frame_diverges t _ _ _ r b ht
    (divergesLive_replaceAt _ p k o _ t hsole hop (divergesLive_append_false f .extend cs (.inr rfl)) htd) hm

/-! ### `!prev` -/

theorem premergeF_prev (fl : Nat) (f : Flags) (ps : String) (path tp : Path) (root root' d : Node)
    (hsp : splitPath ps = some tp) (hr : removeNode root tp = some (d, root')) :
    premergeF (fl + 1) (.leaf f (.prev ps)) path (some root) = .ok (d, false, some root') := by
  simp [premergeF, hsp, hr]

/-- THE SUBTREE MOVES: the last stage holds `!prev "tp"` at `k :: p` below plain non-deleting mappings and no
    other operator; the accumulated tree can detach `d` at `tp`, leaving `s'` -/
theorem prev_at (xs : List Node) (o s s' : Node) (k : Key) (p : Path) (f : Flags) (ps : String) (tp : Path)
    (d : Node) (hx : xs ≠ [])
    (hs : flattenWith (premergeF (stagesFuel (xs ++ [o]))) xs = .ok s)
    (hsole : soleAt (k :: p) o = true) (ho : liveAlong (k :: p) o = true)
    (hop : getNode o (k :: p) = some (.leaf f (.prev ps)))
    (hsp : splitPath ps = some tp) (hr : removeNode s tp = some (d, s')) :
    flatten (xs ++ [o]) = merge s' (replaceAt d (k :: p) o) ∧
    ∀ r, flatten (xs ++ [o]) = .ok r →
      (dictAlong (k :: p) s' = true → getNode s' (k :: p) = none →
        ∀ q, (native r).at? (k :: p ++ q) = (native d).at? q) ∧
      (∀ e, dictAlong (k :: p) s' = true → getNode s' (k :: p) = some e →
        ∃ fuel' nw same, mergeF fuel' e (adopt (parentFlags (k :: p) o) .dict d) = .ok (nw, same) ∧
          ∀ q, (native r).at? (k :: p ++ q) =
            if stepRemovesB e (adopt (parentFlags (k :: p) o) .dict d) nw same then none else (native nw).at? q) ∧
      (∀ t, dictAlong t s' = true → divergesLive t o = true → (native r).at? t = (native s').at? t) := by
  have hfl := flatten_sole_ok xs o s k p _ _ _ hx hs hsole hop
    (fun fl => premergeF_prev fl f ps (k :: p) tp s s' d hsp hr)
  refine ⟨hfl, ?_⟩
  intro r hb
  rw [hfl] at hb
  obtain ⟨b, hm⟩ := merge_ok hb
  have hlo := liveAlong_replaceAt d p k o ho hsole
  have hgo := getNode_replaceAt d p k o hsole
  refine ⟨?_, ?_, ?_⟩
  · intro hd hn q
    rw [at_new_path p k _ _ _ r b _ hd hlo hm hn hgo q, native_adopt]
  · intro e hd he
    obtain ⟨fuel', sf, kl, x?, hx', hq⟩ := at_live_path p k _ _ _ r b e _ hd hlo hm he hgo
    obtain ⟨nw, same, hmr, hdata⟩ := stepAt_some_data hx'
    refine ⟨fuel', nw, same, hmr, ?_⟩
    intro q
    rw [hq q, hdata]
    split <;> rfl
  · intro t ht htd
    exact frame_diverges t _ _ _ r b ht
      (divergesLive_replaceAt _ p k o _ t hsole hop (divergesLive_prev_false f ps) htd) hm

/-- a `!prev` whose target cannot be detached (or is no valid path) — PremergeError -/
theorem prev_fails_at (xs : List Node) (o s : Node) (k : Key) (p : Path) (f : Flags) (ps : String) (hx : xs ≠ [])
    (hs : flattenWith (premergeF (stagesFuel (xs ++ [o]))) xs = .ok s)
    (hsole : soleAt (k :: p) o = true) (hop : getNode o (k :: p) = some (.leaf f (.prev ps)))
    (hno : ∀ tp, splitPath ps = some tp → removeNode s tp = none) :
    flatten (xs ++ [o]) = .error .premerge := by
  apply flatten_sole_err xs o s k p _ .premerge hx hs hsole hop
  intro fl
  cases hsp : splitPath ps with
  | none => simp [premergeF, hsp]
  | some tp => simp [premergeF, hsp, hno tp hsp]

/-- `getNode` after a removal along mappings: a path that was missing stays missing -/
theorem getNode_eraseAt_of_none : ∀ (tp t : Path) (s : Node), dictAlong tp s = true → getNode s t = none →
    getNode (eraseAt tp s) t = none
  | [], _, _, _, h => h
  | _ :: _, [], _, _, h => by simp [getNode] at h
  | k :: tp, k' :: t, s, hd, h => by
    obtain ⟨f, cs, rfl, hn, hc⟩ := dictAlong_cons hd
    cases tp with
    | nil =>
      simp only [eraseAt, getNode]
      by_cases e : k = k'
      · subst e; rw [alookup_aerase_self k cs hn]
      · rw [alookup_aerase k' k e]
        simpa [getNode] using h
    | cons k1 q =>
      simp only [eraseAt]
      cases hlk : alookup k cs with
      | none => exact h
      | some c =>
        simp only [getNode, alookup_aset]
        by_cases e : k = k'
        · subst e
          simp only [if_true]
          simp only [getNode, hlk] at h
          exact getNode_eraseAt_of_none (k1 :: q) t c (hc c hlk) h
        · simp only [e, if_false]
          simpa [getNode] using h

end AY.C16P
