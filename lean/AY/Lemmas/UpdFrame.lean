/-
  AY.Lemmas.UpdFrame — frame properties of the specification `updF` (data only):
  no key is lost, keys the newer mapping does not mention keep their value, common keys are
  updated recursively, new keys are taken over.
-/
import AY.Spec.Plain
import AY.Lemmas.Assoc
namespace AY

theorem alookup_aset {α : Type} (k k' : Key) (v : α) :
    ∀ l : List (Key × α), alookup k (aset k' v l) = if k' = k then some v else alookup k l
  | [] => by simp [aset, alookup]
  | (k'', v'') :: rest => by
    by_cases h : k'' = k'
    · subst h
      by_cases h2 : k'' = k <;> simp [aset, alookup, h2]
    · by_cases h2 : k'' = k
      · subst h2
        have : ¬ k' = k'' := fun e => h e.symm
        simp [aset, alookup, h, this]
      · simp [aset, alookup, h, h2, alookup_aset k k' v rest]

/-- one step of `updDict` written with `aset` in both cases -/
theorem updDict_cons (rec : Plain → Plain → Except Err Plain) (as : List (Key × Plain)) (k : Key)
    (vb : Plain) (rest : List (Key × Plain)) :
    updF.updDict rec as ((k, vb) :: rest) =
      match alookup k as with
      | none => updF.updDict rec (aset k vb as) rest
      | some va =>
        match rec va vb with
        | .error e => .error e
        | .ok v => updF.updDict rec (aset k v as) rest := by
  simp only [updF.updDict]
  cases h : alookup k as with
  | none => simp [aset_of_lookup_none k vb as h]
  | some va => rfl

/-- Pointwise description of a successful mapping update (newer mapping without duplicate keys):
    * a key the newer mapping does not mention keeps its (possibly absent) value,
    * a key only the newer mapping has gets the newer value,
    * a common key gets the recursive update of the two values. -/
theorem updDict_pointwise (rec : Plain → Plain → Except Err Plain) :
    ∀ (bs as rs : List (Key × Plain)), updF.updDict rec as bs = .ok rs → keysNodup bs = true →
      ∀ k, alookup k rs =
        match alookup k bs with
        | none => alookup k as
        | some vb =>
          match alookup k as with
          | none => some vb
          | some va => (rec va vb).toOption
  | [], as, rs, h, _, k => by
    simp only [updF.updDict] at h
    injection h with h; subst h; simp [alookup]
  | (k', vb) :: rest, as, rs, h, hnd, k => by
    have hnd' : (akeys rest).contains k' = false ∧ keysNodup rest = true := by
      simpa [keysNodup] using hnd
    have hk'rest : alookup k' rest = none := (alookup_none_iff k' rest).2 hnd'.1
    rw [updDict_cons] at h
    cases hl : alookup k' as with
    | none =>
      simp only [hl] at h
      have ih := updDict_pointwise rec rest _ rs h hnd'.2 k
      by_cases hk : k' = k
      · subst hk
        simp [ih, hk'rest, alookup, alookup_aset, hl]
      · simp [ih, alookup, hk, alookup_aset]
    | some va =>
      simp only [hl] at h
      cases hr : rec va vb with
      | error e => simp [hr] at h
      | ok v =>
        simp only [hr] at h
        have ih := updDict_pointwise rec rest _ rs h hnd'.2 k
        by_cases hk : k' = k
        · subst hk
          simp [ih, hk'rest, alookup, alookup_aset, hl, hr, Except.toOption]
        · simp [ih, alookup, hk, alookup_aset]

/-- no key of either mapping is lost, and no other key appears -/
theorem updDict_keys (rec : Plain → Plain → Except Err Plain) :
    ∀ (bs as rs : List (Key × Plain)), updF.updDict rec as bs = .ok rs →
      ∀ k, (alookup k rs).isSome = ((alookup k as).isSome || (alookup k bs).isSome)
  | [], as, rs, h, k => by
    simp only [updF.updDict] at h
    injection h with h; subst h; simp [alookup]
  | (k', vb) :: rest, as, rs, h, k => by
    rw [updDict_cons] at h
    cases hl : alookup k' as with
    | none =>
      simp only [hl] at h
      have ih := updDict_keys rec rest _ rs h k
      by_cases hk : k' = k
      · subst hk; simp [ih, alookup, alookup_aset]
      · simp [ih, alookup, hk, alookup_aset]
    | some va =>
      simp only [hl] at h
      cases hr : rec va vb with
      | error e => simp [hr] at h
      | ok v =>
        simp only [hr] at h
        have ih := updDict_keys rec rest _ rs h k
        by_cases hk : k' = k
        · subst hk; simp [ih, alookup, alookup_aset]
        · simp [ih, alookup, hk, alookup_aset]

/-- the keys of the older mapping keep their relative order and position: the result starts with
    exactly the keys of the older mapping -/
theorem keysOf_aset_some {α : Type} (k : Key) (v : α) :
    ∀ l : List (Key × α), (alookup k l).isSome = true → akeys (aset k v l) = akeys l :=
  keysOf_aset_of_some k v

theorem updDict_prefix (rec : Plain → Plain → Except Err Plain) :
    ∀ (bs as rs : List (Key × Plain)), updF.updDict rec as bs = .ok rs →
      ∃ extra, akeys rs = akeys as ++ extra
  | [], as, rs, h => by
    simp only [updF.updDict] at h
    injection h with h; subst h; exact ⟨[], by simp⟩
  | (k', vb) :: rest, as, rs, h => by
    simp only [updF.updDict] at h
    cases hl : alookup k' as with
    | none =>
      simp only [hl] at h
      obtain ⟨extra, he⟩ := updDict_prefix rec rest _ rs h
      exact ⟨k' :: extra, by rw [he, keysOf_append]; simp [akeys]⟩
    | some va =>
      simp only [hl] at h
      cases hr : rec va vb with
      | error e => simp [hr] at h
      | ok v =>
        simp only [hr] at h
        obtain ⟨extra, he⟩ := updDict_prefix rec rest _ rs h
        exact ⟨extra, by rw [he, keysOf_aset_of_some k' v as (by rw [hl]; rfl)]⟩

end AY
