/-
  AY.Lemmas.Native — the flag bookkeeping of the loader never changes the data of a tree:
  `applyKw`, `propagate`, `setPrioAll`, `inheritInto`, `adopt`, `setFlags` preserve `native`
  (and the children keys, the node class, the depth).
-/
import AY.Spec.Plain
import AY.Lemmas.Assoc
namespace AY

theorem native_leaf_flags (f f' : Flags) (k : LeafKind) : native (.leaf f k) = native (.leaf f' k) := by
  cases k <;> simp [native]

theorem native_comp_flags (f f' : Flags) (k : CompKind) (cs : List (Key × Node)) :
    native (.comp f k cs) = native (.comp f' k cs) := by
  simp [native]

theorem native_setFlags (n : Node) (f : Flags) : native (n.setFlags f) = native n := by
  cases n with
  | leaf g k => exact native_leaf_flags _ _ _
  | comp g k cs => exact native_comp_flags _ _ _ _

mutual
theorem nativeOf_applyKw : ∀ (kw : ChildKw) (n : Node), native (applyKw kw n) = native n
  | kw, .leaf f k => by simp only [applyKw]; exact native_leaf_flags _ _ _
  | kw, .comp f k cs => by
    simp only [applyKw]
    split
    · split
      · simp [native]
      · rename_i kw' _
        simp [native, nativeList_applyKwList kw' cs, nativeVals_applyKwList kw' cs]
    · rfl
theorem nativeList_applyKwList : ∀ (kw : ChildKw) (cs : List (Key × Node)),
    nativeList (applyKwList kw cs) = nativeList cs
  | _, [] => by simp [applyKwList]
  | kw, (k, c) :: rest => by
    simp [applyKwList, nativeList, nativeOf_applyKw kw c, nativeList_applyKwList kw rest]
theorem nativeVals_applyKwList : ∀ (kw : ChildKw) (cs : List (Key × Node)),
    nativeVals (applyKwList kw cs) = nativeVals cs
  | _, [] => by simp [applyKwList]
  | kw, (k, c) :: rest => by
    simp [applyKwList, nativeVals, nativeOf_applyKw kw c, nativeVals_applyKwList kw rest]
end

theorem nativeOf_propagate (n : Node) : native (propagate n) = native n := by
  cases n with
  | leaf f k => simp [propagate]
  | comp f k cs =>
    simp only [propagate]
    split
    · rfl
    · rename_i kw _
      simp [native, nativeList_applyKwList kw cs, nativeVals_applyKwList kw cs]

/-- `_propagate_implicit_values` keeps the keys, the order and the data of the children -/
theorem children_propagate (n : Node) :
    nativeList (propagate n).children = nativeList n.children ∧
    nativeVals (propagate n).children = nativeVals n.children := by
  cases n with
  | leaf f k => exact ⟨rfl, rfl⟩
  | comp f k cs =>
    simp only [propagate]
    split
    · exact ⟨rfl, rfl⟩
    · exact ⟨nativeList_applyKwList _ _, nativeVals_applyKwList _ _⟩

mutual
theorem native_setPrioAll : ∀ (p : Int) (n : Node), native (setPrioAll p n) = native n
  | p, .leaf f k => by simp only [setPrioAll]; exact native_leaf_flags _ _ _
  | p, .comp f k cs => by
    simp [setPrioAll, native, nativeList_setPrioAllList p cs, nativeVals_setPrioAllList p cs]
theorem nativeList_setPrioAllList : ∀ (p : Int) (cs : List (Key × Node)),
    nativeList (setPrioAllList p cs) = nativeList cs
  | _, [] => by simp [setPrioAllList]
  | p, (k, c) :: rest => by
    simp [setPrioAllList, nativeList, native_setPrioAll p c, nativeList_setPrioAllList p rest]
theorem nativeVals_setPrioAllList : ∀ (p : Int) (cs : List (Key × Node)),
    nativeVals (setPrioAllList p cs) = nativeVals cs
  | _, [] => by simp [setPrioAllList]
  | p, (k, c) :: rest => by
    simp [setPrioAllList, nativeVals, native_setPrioAll p c, nativeVals_setPrioAllList p rest]
end

theorem native_inheritInto (prio? : Option Int) (kw : Option ChildKw) (n : Node) :
    native (inheritInto prio? kw n) = native n := by
  cases prio? <;> cases kw <;>
    simp [inheritInto, nativeOf_propagate, native_setFlags, native_setPrioAll]

theorem native_adopt (pf : Flags) (pk : CompKind) (v : Node) : native (adopt pf pk v) = native v := by
  simp [adopt, nativeOf_propagate, native_inheritInto]

/-! ### `native` and the association-list primitives -/

theorem alookup_nativeList (k : Key) :
    ∀ cs : List (Key × Node), alookup k (nativeList cs) = (alookup k cs).map native
  | [] => rfl
  | (k', v) :: rest => by
    by_cases h : k' = k <;> simp [nativeList, alookup, h, alookup_nativeList k rest]

theorem nativeList_aset (k : Key) (v : Node) :
    ∀ cs : List (Key × Node), nativeList (aset k v cs) = aset k (native v) (nativeList cs)
  | [] => rfl
  | (k', v') :: rest => by
    by_cases h : k' = k <;> simp [nativeList, aset, h, nativeList_aset k v rest]

theorem length_nativeVals : ∀ cs : List (Key × Node), (nativeVals cs).length = cs.length
  | [] => rfl
  | (k, v) :: rest => by simp [nativeVals, length_nativeVals rest]

theorem length_nativeList : ∀ cs : List (Key × Node), (nativeList cs).length = cs.length
  | [] => rfl
  | (k, v) :: rest => by simp [nativeList, length_nativeList rest]

theorem nativeList_append : ∀ l₁ l₂ : List (Key × Node),
    nativeList (l₁ ++ l₂) = nativeList l₁ ++ nativeList l₂
  | [], _ => rfl
  | (k, v) :: rest, l₂ => by simp [nativeList, nativeList_append rest l₂]

/-! ### depth of the data = depth of the tree -/

mutual
theorem depth_native : ∀ n : Node, (native n).depth = n.depth
  | .leaf f k => by cases k <;> simp [native, Plain.depth, Node.depth]
  | .comp f k cs => by
    simp only [native, Node.depth]
    split
    · simp [Plain.depth, depthD_nativeList cs]
    · simp [Plain.depth, depthL_nativeVals cs]
theorem depthD_nativeList : ∀ cs : List (Key × Node), plainDepthD (nativeList cs) = depthList cs
  | [] => rfl
  | (k, c) :: rest => by simp [nativeList, plainDepthD, depthList, depth_native c, depthD_nativeList rest]
theorem depthL_nativeVals : ∀ cs : List (Key × Node), plainDepthL (nativeVals cs) = depthList cs
  | [] => rfl
  | (k, c) :: rest => by simp [nativeVals, plainDepthL, depthList, depth_native c, depthL_nativeVals rest]
end

end AY
