/-
  AY.Lemmas.C03FuncRead — reading an entry-shaped DOCUMENT at an entry path (`rawInfoAt`,
  `rawShapeE`), agreement with the constructed tree, parsing a list of documents, and the Boolean
  test for shape compatibility of documents.
-/
import AY.Lemmas.C03FuncLoader
set_option linter.unusedVariables false
set_option linter.unusedSimpArgs false
namespace AY.C03F
open AY

/-- the target of a function-node tag -/
def funcTag? : TagKind → Option String
  | .call f => some f
  | .bind f => some f
  | _ => none

/-- what a document writes at an entry path: (effective priority, value, user metadata); the value
    of a function node is its target name. `outer` = priority keyword of an enclosing tagged
    container: the effective priority is the `priority` keyword of the OUTERMOST tagged
    ancestor-or-self that has one, the default priority when there is none. Paths do not descend
    into function nodes. -/
def rawInfoFrom (outer : Option Int) : Raw → Path → Option LeafInfo
  | .scalar _ kw v, [] => some ((outer.or kw.prio).getD Tables.defaultPriority, v.toScalar, leafMd kw v)
  | .scalar _ _ _, _ :: _ => none
  | .seq _ _ _, _ => none
  | .map t kw _, [] =>
    match funcTag? t with
    | some f => some ((outer.or kw.prio).getD Tables.defaultPriority, .str f, kw.md)
    | none => none
  | .map t kw items, k :: rest =>
    match funcTag? t with
    | some _ => none
    | none =>
      match alookup k items with
      | none => none
      | some c => rawInfoFrom (outer.or kw.prio) c rest

def rawInfoAt (r : Raw) (p : Path) : Option LeafInfo := rawInfoFrom none r p

/-- `some true` = plain mapping, `some false` = entry (scalar or function node), `none` = no such path -/
def rawShapeE : Raw → Path → Option Bool
  | .scalar _ _ _, [] => some false
  | .scalar _ _ _, _ :: _ => none
  | .seq _ _ _, _ => none
  | .map t _ _, [] => some (funcTag? t).isNone
  | .map t _ items, k :: rest =>
    match funcTag? t with
    | some _ => none
    | none =>
      match alookup k items with
      | none => none
      | some c => rawShapeE c rest

/-- shape compatibility of two documents: a path existing in both is an entry in both or a mapping
    in both -/
def rawCompatE (a b : Raw) : Prop :=
  ∀ p x y, rawShapeE a p = some x → rawShapeE b p = some y → x = y

def rawPairwiseCompatE : List Raw → Prop
  | [] => True
  | d :: ds => (∀ c, c ∈ ds → rawCompatE d c) ∧ rawPairwiseCompatE ds

theorem ePrio_dsFlags (env : Env) (p : Option Int) (md : List (String × Scalar)) :
    ePrio (dsFlags env p md) = p.getD Tables.defaultPriority := rfl

theorem infoAt_esBuild (env : Env) : ∀ (p : Path) (o : Option Int) (r : Raw), rawEntShaped r = true →
    infoAt (esBuild env o r) p = rawInfoFrom o r p
  | [], o, .scalar t kw v, _ => rfl
  | [], o, .seq t kw items, h => by simp [rawEntShaped] at h
  | [], o, .map t kw items, h => by
    rcases res_map h with ⟨f, ht, _⟩ | ⟨ht, _⟩
    · rcases ht with rfl | rfl <;> rfl
    · rcases ht with rfl | rfl <;> rfl
  | k :: rest, o, .scalar t kw v, _ => rfl
  | k :: rest, o, .seq t kw items, h => by simp [rawEntShaped] at h
  | k :: rest, o, .map t kw items, h => by
    rcases res_map h with ⟨f, ht, _⟩ | ⟨ht, _, _, hit⟩
    · rcases ht with rfl | rfl <;> rfl
    · have hft : funcTag? t = none := by rcases ht with rfl | rfl <;> rfl
      rw [esBuild_dict env o ht, infoAt_map_cons rfl]
      simp only [alookup_esBuildMap, rawInfoFrom, hft]
      cases hl : alookup k items with
      | none => rfl
      | some c => exact infoAt_esBuild env rest _ c (res_lookup k items hit c hl)

theorem shapeE_esBuild (env : Env) : ∀ (p : Path) (o : Option Int) (r : Raw), rawEntShaped r = true →
    shapeE (esBuild env o r) p = rawShapeE r p
  | [], o, .scalar t kw v, _ => rfl
  | [], o, .seq t kw items, h => by simp [rawEntShaped] at h
  | [], o, .map t kw items, h => by
    rcases res_map h with ⟨f, ht, _⟩ | ⟨ht, _⟩
    · rcases ht with rfl | rfl <;> rfl
    · rcases ht with rfl | rfl <;> rfl
  | k :: rest, o, .scalar t kw v, _ => rfl
  | k :: rest, o, .seq t kw items, h => by simp [rawEntShaped] at h
  | k :: rest, o, .map t kw items, h => by
    rcases res_map h with ⟨f, ht, _⟩ | ⟨ht, _, _, hit⟩
    · rcases ht with rfl | rfl <;> rfl
    · have hft : funcTag? t = none := by rcases ht with rfl | rfl <;> rfl
      rw [esBuild_dict env o ht, shapeE_map_cons rfl]
      simp only [alookup_esBuildMap, rawShapeE, hft]
      cases hl : alookup k items with
      | none => rfl
      | some c => exact shapeE_esBuild env rest _ c (res_lookup k items hit c hl)

theorem compatE_esBuild (env env' : Env) {a b : Raw} (ha : rawEntShaped a = true) (hb : rawEntShaped b = true)
    (h : rawCompatE a b) : compatE (esBuild env none a) (esBuild env' none b) := by
  intro p x y hx hy
  rw [shapeE_esBuild env p none a ha] at hx
  rw [shapeE_esBuild env' p none b hb] at hy
  exact h p x y hx hy

/-! ### the kind of the entry a document writes -/

/-- the document writes a FUNCTION NODE at the entry path -/
def rawFuncAt : Raw → Path → Bool
  | .map t _ _, [] => (funcTag? t).isSome
  | .map t _ items, k :: rest =>
    match funcTag? t with
    | some _ => false
    | none =>
      match alookup k items with
      | none => false
      | some c => rawFuncAt c rest
  | .scalar _ _ _, _ => false
  | .seq _ _ _, _ => false

/-- the document writes nothing at the entry path, or a writer of a function entry: a function node
    or a string (naming a target) -/
def rawWriterAt : Raw → Path → Bool
  | .scalar _ _ v, [] => v.toScalar.isStr
  | .scalar _ _ _, _ :: _ => true
  | .seq _ _ _, _ => true
  | .map _ _ _, [] => true
  | .map t _ items, k :: rest =>
    match funcTag? t with
    | some _ => true
    | none =>
      match alookup k items with
      | none => true
      | some c => rawWriterAt c rest

theorem funcAt_map_cons {f k cs} (hk : k.isFunc = false) (key : Key) (rest : Path) :
    funcAt (.comp f k cs) (key :: rest) = (match alookup key cs with | none => false | some c => funcAt c rest) := by
  simp only [funcAt, entAt_map_cons hk]
  cases alookup key cs <;> rfl

theorem writerAt_map_cons {f k cs} (hk : k.isFunc = false) (key : Key) (rest : Path) :
    writerAt (.comp f k cs) (key :: rest) = (match alookup key cs with | none => true | some c => writerAt c rest) := by
  simp only [writerAt, entAt_map_cons hk]
  cases alookup key cs <;> rfl

theorem funcAt_esBuild (env : Env) : ∀ (p : Path) (o : Option Int) (r : Raw), rawEntShaped r = true →
    funcAt (esBuild env o r) p = rawFuncAt r p
  | [], o, .scalar t kw v, _ => rfl
  | [], o, .seq t kw items, h => by simp [rawEntShaped] at h
  | [], o, .map t kw items, h => by
    rcases res_map h with ⟨f, ht, _⟩ | ⟨ht, _⟩
    · rcases ht with rfl | rfl <;> rfl
    · rcases ht with rfl | rfl <;> rfl
  | k :: rest, o, .scalar t kw v, _ => rfl
  | k :: rest, o, .seq t kw items, h => by simp [rawEntShaped] at h
  | k :: rest, o, .map t kw items, h => by
    rcases res_map h with ⟨f, ht, _⟩ | ⟨ht, _, _, hit⟩
    · rcases ht with rfl | rfl <;> rfl
    · have hft : funcTag? t = none := by rcases ht with rfl | rfl <;> rfl
      rw [esBuild_dict env o ht, funcAt_map_cons rfl]
      simp only [alookup_esBuildMap, rawFuncAt, hft]
      cases hl : alookup k items with
      | none => rfl
      | some c => exact funcAt_esBuild env rest _ c (res_lookup k items hit c hl)

theorem writerAt_esBuild (env : Env) : ∀ (p : Path) (o : Option Int) (r : Raw), rawEntShaped r = true →
    writerAt (esBuild env o r) p = rawWriterAt r p
  | [], o, .scalar t kw v, _ => by
    simp only [esBuild, writerAt, entAt, isMap, Bool.false_eq_true, if_false, rawWriterAt]
    cases v.toScalar <;> rfl
  | [], o, .seq t kw items, h => by simp [rawEntShaped] at h
  | [], o, .map t kw items, h => by
    rcases res_map h with ⟨f, ht, _⟩ | ⟨ht, _⟩
    · rcases ht with rfl | rfl <;> rfl
    · rcases ht with rfl | rfl <;> rfl
  | k :: rest, o, .scalar t kw v, _ => rfl
  | k :: rest, o, .seq t kw items, h => by simp [rawEntShaped] at h
  | k :: rest, o, .map t kw items, h => by
    rcases res_map h with ⟨f, ht, _⟩ | ⟨ht, _, _, hit⟩
    · rcases ht with rfl | rfl <;> rfl
    · have hft : funcTag? t = none := by rcases ht with rfl | rfl <;> rfl
      rw [esBuild_dict env o ht, writerAt_map_cons rfl]
      simp only [alookup_esBuildMap, rawWriterAt, hft]
      cases hl : alookup k items with
      | none => rfl
      | some c => exact writerAt_esBuild env rest _ c (res_lookup k items hit c hl)

/-! ### parsing a list of documents -/

theorem constructAll_es : ∀ (docs : List (Env × Raw)), (∀ d, d ∈ docs → rawEntShaped d.2 = true) →
    constructAll docs = .ok (docs.map (fun d => esBuild d.1 none d.2))
  | [], _ => rfl
  | (env, r) :: rest, h => by
    simp only [constructAll, construct_es env r (h (env, r) List.mem_cons_self),
      constructAll_es rest (fun d hd => h d (List.mem_cons_of_mem _ hd)), List.map_cons]

theorem pairwiseCompatE_esBuild : ∀ (docs : List (Env × Raw)), (∀ d, d ∈ docs → rawEntShaped d.2 = true) →
    rawPairwiseCompatE (docs.map (·.2)) → pairwiseCompatE (docs.map (fun d => esBuild d.1 none d.2))
  | [], _, _ => trivial
  | d :: rest, h, hp => by
    simp only [List.map_cons, rawPairwiseCompatE] at hp
    refine ⟨?_, pairwiseCompatE_esBuild rest (fun x hx => h x (List.mem_cons_of_mem _ hx)) hp.2⟩
    intro c hc
    obtain ⟨x, hx, rfl⟩ := List.mem_map.1 hc
    exact compatE_esBuild d.1 x.1 (h d List.mem_cons_self) (h x (List.mem_cons_of_mem _ hx))
      (hp.1 x.2 (List.mem_map.2 ⟨x, hx, rfl⟩))

theorem rawEntShaped_of_doc {r : Raw} (h : rawEntDoc r = true) : rawEntShaped r = true := by
  cases r with
  | scalar t kw v => simp [rawEntDoc] at h
  | seq t kw items => simp [rawEntDoc] at h
  | map t kw items => cases t <;> first | exact h | simp [rawEntDoc] at h

theorem isMap_esBuild_doc (env : Env) {r : Raw} (h : rawEntDoc r = true) : isMap (esBuild env none r) = true := by
  cases r with
  | scalar t kw v => simp [rawEntDoc] at h
  | seq t kw items => simp [rawEntDoc] at h
  | map t kw items => cases t <;> first | rfl | simp [rawEntDoc] at h

/-! ### a Boolean test for shape compatibility of documents (for concrete examples) -/

def rawIsMap : Raw → Bool
  | .map t _ _ => (funcTag? t).isNone
  | _ => false

def rawItems : Raw → List (Key × Raw)
  | .map _ _ items => items
  | _ => []

mutual
def rawCompatEB : Raw → Raw → Bool
  | .scalar _ _ _, b => !rawIsMap b
  | .seq _ _ _, _ => true
  | .map t _ items, b =>
    match b with
    | .seq _ _ _ => true
    | _ =>
      if (funcTag? t).isSome then !rawIsMap b
      else rawIsMap b && rawCompatEBMap items (rawItems b)
def rawCompatEBMap : List (Key × Raw) → List (Key × Raw) → Bool
  | [], _ => true
  | (k, c) :: rest, ds =>
    (match alookup k ds with | none => true | some d => rawCompatEB c d) && rawCompatEBMap rest ds
end

theorem rawShapeE_seq (t kw items) (p : Path) : rawShapeE (.seq t kw items) p = none := by
  cases p <;> rfl

theorem rawShapeE_nil_of (b : Raw) (y : Bool) (h : rawShapeE b [] = some y) : y = rawIsMap b := by
  cases b with
  | scalar t kw v =>
    have h' : some false = some y := h
    injection h' with h'; rw [← h']; rfl
  | seq t kw items => simp [rawShapeE] at h
  | map t kw items =>
    have h' : some (funcTag? t).isNone = some y := h
    injection h' with h'; rw [← h']; rfl

mutual
theorem rawCompatE_of_B : ∀ (a b : Raw), rawCompatEB a b = true → rawCompatE a b
  | .scalar t kw v, b, h => by
    have hb : rawIsMap b = false := by simpa [rawCompatEB] using h
    intro p x y hx hy
    cases p with
    | nil =>
      have := rawShapeE_nil_of b y hy
      simp only [rawShapeE, Option.some.injEq] at hx
      rw [this, hb, ← hx]
    | cons k rest => simp [rawShapeE] at hx
  | .seq t kw items, b, _ => by
    intro p x y hx hy
    rw [rawShapeE_seq] at hx; cases hx
  | .map t kw items, b, h => by
    cases b with
    | seq t' kw' items' =>
      intro p x y hx hy
      rw [rawShapeE_seq] at hy; cases hy
    | scalar t' kw' v' =>
      simp only [rawCompatEB, rawIsMap, Bool.not_false, Bool.false_and] at h
      have hft : (funcTag? t).isSome = true := by
        cases hh : (funcTag? t).isSome
        · simp [hh] at h
        · rfl
      intro p x y hx hy
      cases p with
      | nil =>
        have hx' : some (funcTag? t).isNone = some x := hx
        have hy' : some false = some y := hy
        injection hx' with hx'; injection hy' with hy'
        rw [← hx', ← hy']
        cases hf : funcTag? t with
        | none => rw [hf] at hft; cases hft
        | some f => rfl
      | cons k rest => simp [rawShapeE] at hy
    | map t' kw' items' =>
      simp only [rawCompatEB, rawIsMap, rawItems] at h
      intro p x y hx hy
      cases hf : funcTag? t with
      | some f =>
        have hb : (funcTag? t').isNone = false := by simpa [hf] using h
        cases p with
        | nil =>
          have hx' : some (funcTag? t).isNone = some x := hx
          have hy' : some (funcTag? t').isNone = some y := hy
          injection hx' with hx'; injection hy' with hy'
          rw [← hx', ← hy', hf, hb]; rfl
        | cons k rest => simp [rawShapeE, hf] at hx
      | none =>
        have h' : (funcTag? t').isNone = true ∧ rawCompatEBMap items items' = true := by simpa [hf] using h
        have hf' : funcTag? t' = none := by simpa using h'.1
        cases p with
        | nil =>
          have hx' : some (funcTag? t).isNone = some x := hx
          have hy' : some (funcTag? t').isNone = some y := hy
          injection hx' with hx'; injection hy' with hy'
          rw [← hx', ← hy', hf, hf']
        | cons k rest =>
          simp only [rawShapeE, hf, hf'] at hx hy
          cases hc : alookup k items with
          | none => rw [hc] at hx; cases hx
          | some c =>
            cases hd : alookup k items' with
            | none => rw [hd] at hy; cases hy
            | some d =>
              rw [hc] at hx; rw [hd] at hy
              exact rawCompatE_of_BMap items items' h'.2 k c d hc hd rest x y hx hy
theorem rawCompatE_of_BMap : ∀ (cs ds : List (Key × Raw)), rawCompatEBMap cs ds = true →
    ∀ k c d, alookup k cs = some c → alookup k ds = some d → rawCompatE c d
  | [], _, _, k, c, d, hc, _ => by simp [alookup] at hc
  | (k', c') :: rest, ds, h, k, c, d, hc, hd => by
    simp only [rawCompatEBMap, Bool.and_eq_true] at h
    by_cases e : k' = k
    · subst e
      simp [alookup] at hc
      subst hc
      have h1 := h.1
      rw [hd] at h1
      exact rawCompatE_of_B c' d h1
    · simp [alookup, e] at hc
      exact rawCompatE_of_BMap rest ds h.2 k c d hc hd
end

def rawPairwiseCompatEB : List Raw → Bool
  | [] => true
  | d :: ds => ds.all (rawCompatEB d) && rawPairwiseCompatEB ds

theorem rawPairwiseCompatE_of_B : ∀ l : List Raw, rawPairwiseCompatEB l = true → rawPairwiseCompatE l
  | [], _ => trivial
  | d :: ds, h => by
    simp only [rawPairwiseCompatEB, Bool.and_eq_true, List.all_eq_true] at h
    exact ⟨fun c hc => rawCompatE_of_B d c (h.1 c hc), rawPairwiseCompatE_of_B ds h.2⟩

/-! ### dict-shaped documents are entry-shaped documents -/

mutual
/-- on a dict-shaped document (scalar leaves only, no empty strings) the two readings agree -/
theorem rawInfoFrom_eq_rawLeafAtFrom : ∀ (p : Path) (o : Option Int) (r : Raw), rawDictShaped r = true →
    rawInfoFrom o r p = rawLeafAtFrom o r p
  | [], o, .scalar t kw v, _ => rfl
  | [], o, .seq t kw items, _ => rfl
  | [], o, .map t kw items, h => by
    obtain ⟨hkw, _, _⟩ := rds_map h
    rcases kwDS_tag hkw with rfl | rfl <;> rfl
  | k :: rest, o, .scalar t kw v, _ => rfl
  | k :: rest, o, .seq t kw items, _ => rfl
  | k :: rest, o, .map t kw items, h => by
    obtain ⟨hkw, _, hit⟩ := rds_map h
    have hft : funcTag? t = none := by rcases kwDS_tag hkw with rfl | rfl <;> rfl
    simp only [rawInfoFrom, rawLeafAtFrom, hft]
    cases hl : alookup k items with
    | none => rfl
    | some c => exact rawInfoFrom_eq_rawLeafAtFrom rest _ c (rds_lookup k items hit c hl)
end

mutual
/-- no scalar of the document is the empty string (which cannot name a target) -/
def rawNoEmptyStr : Raw → Bool
  | .scalar _ _ v => v.toScalar != .str ""
  | .seq _ _ _ => true
  | .map _ _ items => rawNoEmptyStrMap items
def rawNoEmptyStrMap : List (Key × Raw) → Bool
  | [] => true
  | (_, r) :: rest => rawNoEmptyStr r && rawNoEmptyStrMap rest
end

mutual
/-- a dict-shaped document (AY/Lemmas/C03Loader.lean) without empty strings is entry-shaped -/
theorem rawEntShaped_of_DS : ∀ (r : Raw), rawDictShaped r = true → rawNoEmptyStr r = true → rawEntShaped r = true
  | .scalar t kw v, h, hn => by
    have h1 : kwDS t kw = true := by simpa [rawDictShaped] using h
    have h2 : v.toScalar ≠ .str "" := by simpa [rawNoEmptyStr] using hn
    simp [rawEntShaped, h1, h2]
  | .seq t kw items, h, _ => by simp [rawDictShaped] at h
  | .map t kw items, h, hn => by
    obtain ⟨hkw, hnd, hit⟩ := rds_map h
    have hn' : rawNoEmptyStrMap items = true := by simpa [rawNoEmptyStr] using hn
    rcases kwDS_tag hkw with rfl | rfl <;>
      simp [rawEntShaped, hkw, hnd, rawEntShapedMap_of_DS items hit hn']
theorem rawEntShapedMap_of_DS : ∀ (items : List (Key × Raw)), rawDictShapedMap items = true →
    rawNoEmptyStrMap items = true → rawEntShapedMap items = true
  | [], _, _ => rfl
  | (k, r) :: rest, h, hn => by
    have h' : rawDictShaped r = true ∧ rawDictShapedMap rest = true := by simpa [rawDictShapedMap] using h
    have hn' : rawNoEmptyStr r = true ∧ rawNoEmptyStrMap rest = true := by simpa [rawNoEmptyStrMap] using hn
    simp [rawEntShapedMap, rawEntShaped_of_DS r h'.1 hn'.1, rawEntShapedMap_of_DS rest h'.2 hn'.2]
end

end AY.C03F
