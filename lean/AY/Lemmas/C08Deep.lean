/-
  AY.Lemmas.C08Deep — the whole-tree statement of C08 for documents of mappings and scalars:
  merging a `!notnew` document (no nested `!new`) onto a tag-free tree of mappings and scalars
  either succeeds without creating any path, or fails naming a path that the document writes and
  the tree does not have.  Definitions: `c08_noListP`, `c08_nnFlags`, `c08_nnDoc`, `c08_sub`,
  `c08_DeepSpec`.
-/
import AY.Lemmas.C08Cmd
namespace AY

/-! ### definitions -/

mutual
/-- plain data without lists -/
def c08_noListP : Plain → Bool
  | .scalar _ => true
  | .list _ => false
  | .dict items => c08_noListPD items
def c08_noListPD : List (Key × Plain) → Bool
  | [] => true
  | (_, x) :: rest => c08_noListP x && c08_noListPD rest
end

/-- flags of a node below the `!notnew` root of a document without further tags: only
    `implicit_allow_new = False` is set (`dSafe`/`src` free) -/
def c08_nnFlags (f : Flags) : Bool :=
  f.prio.isNone && f.del.isNone && f.new.isNone && f.safe.isNone && f.iDel.isNone && f.iSafe.isNone
    && f.md.isEmpty && (f.iNew == some false)

mutual
/-- subtree of a `!notnew` document consisting of mappings and scalars, no further tags -/
def c08_nnDoc : Node → Bool
  | .leaf f (.scalar _) => c08_nnFlags f
  | .leaf _ _ => false
  | .comp f k cs => c08_nnFlags f && (k == .dict) && c08_nnDocList cs
def c08_nnDocList : List (Key × Node) → Bool
  | [] => true
  | (_, c) :: rest => c08_nnDoc c && c08_nnDocList rest
end

/-- every (mapping) path of `r` is a path of `a` -/
def c08_sub (r a : Plain) : Prop :=
  ∀ q, (getPlainAt r q).isSome = true → (getPlainAt a q).isSome = true

/-- what the merge of the `!notnew` document `b` onto `a` may produce -/
def c08_DeepSpec (a b : Node) (x : Except Err (Node × Bool)) : Prop :=
  match x with
  | .ok (r, s) => s = true ∧ plainT r = true ∧ c08_noListP (native r) = true ∧
      (∃ items, native r = .dict items) ∧ c08_sub (native r) (native a)
  | .error e => ∃ p, e = .notnew p ∧
      (c08_keysNodupH b = true → getPlainAt (native a) p = none ∧ ∃ m, c08_nodeAt b p m)

/-! ### small facts -/

theorem c08_nnFlags_iff (f : Flags) : c08_nnFlags f = true ↔
    f.prio = none ∧ f.del = none ∧ f.new = none ∧ f.safe = none ∧ f.iDel = none ∧ f.iSafe = none
      ∧ f.md = [] ∧ f.iNew = some false := by
  simp [c08_nnFlags, and_assoc]

theorem c08_nnFlags_doc {f : Flags} (h : c08_nnFlags f = true) : c08_docFlags f = true := by
  rw [c08_nnFlags_iff] at h; rw [c08_docFlags_iff]
  exact ⟨h.1, h.2.1, h.2.2.2.2.1, h.2.2.2.1, h.2.2.2.2.2.2.1⟩

theorem c08_nnFlags_eNew {f : Flags} (h : c08_nnFlags f = true) : eNew f = false := by
  rw [c08_nnFlags_iff] at h; simp [eNew, h.2.2.2.2.2.2.2]

theorem c08_nnDoc_eNew {o : Node} (h : c08_nnDoc o = true) : eNew o.flags = false := by
  cases o with
  | leaf f lk => cases lk <;> simp_all [c08_nnDoc, Node.flags, c08_nnFlags_eNew]
  | comp f k cs =>
    have : c08_nnFlags f = true := by simp [c08_nnDoc] at h; exact h.1.1
    exact c08_nnFlags_eNew this

theorem c08_sub_refl (a : Plain) : c08_sub a a := fun _ h => h
theorem c08_sub_trans {a b c : Plain} (h1 : c08_sub a b) (h2 : c08_sub b c) : c08_sub a c :=
  fun q h => h2 q (h1 q h)

theorem c08_sub_scalar (s : Scalar) (a : Plain) : c08_sub (.scalar s) a := by
  intro q h
  cases q with
  | nil => rfl
  | cons k q => simp [getPlainAt] at h

theorem c08_sub_emptyDict (a : Plain) : c08_sub (.dict []) a := by
  intro q h
  cases q with
  | nil => rfl
  | cons k q => simp [getPlainAt, alookup] at h

/-- replacing the value of an existing key by one with fewer paths -/
theorem c08_sub_aset (k : Key) (x c : Plain) (items : List (Key × Plain))
    (hl : alookup k items = some c) (hs : c08_sub x c) :
    c08_sub (.dict (aset k x items)) (.dict items) := by
  intro q h
  cases q with
  | nil => rfl
  | cons k1 q =>
    simp only [getPlainAt, alookup_aset] at h ⊢
    by_cases e : k = k1
    · subst e
      simp only [if_true] at h
      rw [hl]; exact hs q h
    · simpa [e] using h

theorem c08_noListPD_alookup (k : Key) : ∀ (items : List (Key × Plain)) (c : Plain),
    c08_noListPD items = true → alookup k items = some c → c08_noListP c = true
  | [], _, _, h => by simp [alookup] at h
  | (k', v') :: rest, c, hn, h => by
    have hn' : c08_noListP v' = true ∧ c08_noListPD rest = true := by simpa [c08_noListPD] using hn
    by_cases hk : k' = k
    · simp [alookup, hk] at h; subst h; exact hn'.1
    · simp [alookup, hk] at h; exact c08_noListPD_alookup k rest c hn'.2 h

theorem c08_noListPD_aset (k : Key) (x : Plain) (hx : c08_noListP x = true) :
    ∀ items : List (Key × Plain), c08_noListPD items = true → c08_noListPD (aset k x items) = true
  | [], _ => by simp [aset, c08_noListPD, hx]
  | (k', v') :: rest, hn => by
    have hn' : c08_noListP v' = true ∧ c08_noListPD rest = true := by simpa [c08_noListPD] using hn
    by_cases hk : k' = k <;>
      simp [aset, c08_noListPD, hk, hx, hn'.1, hn'.2, c08_noListPD_aset k x hx rest hn'.2]

/-- a tag-free container without lists in its data is a mapping -/
theorem c08_comp_is_dict {f : Flags} {kk : CompKind} {cs : List (Key × Node)}
    (h : plainT (.comp f kk cs) = true) (hn : c08_noListP (native (.comp f kk cs)) = true) : kk = .dict := by
  obtain ⟨_, hk, _⟩ := plainT_comp h
  rcases hk with hk | ⟨hk, _⟩
  · exact hk
  · subst hk; simp [native, CompKind.isDictFam, c08_noListP] at hn

theorem c08_updFlags_nn {kw : ChildKw} {fo cf : Flags} (hk : kwPlain kw) (hfo : c08_nnFlags fo = true)
    (hcf : flagsPlain cf = true) : flagsPlain (updFlags kw (replaceOtherFlags fo cf)) = true := by
  rw [c08_nnFlags_iff] at hfo
  rw [flagsPlain_iff] at hcf ⊢
  obtain ⟨k1, k2, k3⟩ := hk
  obtain ⟨f1, f2, f3, f4, f5, f6, f7, f8⟩ := hfo
  obtain ⟨h1, h2, h3, h4, h5, h6, h7, h8⟩ := hcf
  simp [updFlags, replaceOtherFlags, mergeSafe, mmerge, k1, k2, k3, f1, f2, f3, f4, f6, f7, h4, h7]

theorem c08_adopt_leaf (sf : Flags) (kw : ChildKw) (e : childKw sf .dict = some kw) (f : Flags) (lk : LeafKind) :
    adopt sf .dict (.leaf f lk) = .leaf (updFlags kw f) lk := by
  simp [adopt, e, inheritInto, propagate, Node.setFlags, Node.flags]

theorem c08_adopt_empty (sf : Flags) (kw : ChildKw) (e : childKw sf .dict = some kw) (f : Flags) :
    adopt sf .dict (.comp f .dict []) = .comp (updFlags kw f) .dict [] := by
  simp only [adopt, e, inheritInto, Node.setFlags, Node.flags]
  simp [propagate, childKw, applyKwList]

/-- a leaf of the document replaces any tag-free node -/
theorem c08_mergeF_leaf_gen (n : Nat) (a : Node) (ha : plainT a = true) (fo : Flags)
    (hfo : c08_nnFlags fo = true) (lk : LeafKind) :
    mergeF (n + 1) a (.leaf fo lk) = .ok (.leaf (replaceOtherFlags fo a.flags) lk, false) := by
  have hp := (c08_hasPrio_doc (plainT_flags ha) (c08_nnFlags_doc hfo) false).2
  cases a with
  | leaf fa ka =>
    simp only [mergeF, leafRule, Node.flags] at hp ⊢
    simp [hp, Node.setFlags, propagate]
  | comp fa ka ca =>
    obtain ⟨_, hk, _⟩ := plainT_comp ha
    simp only [Node.flags] at hp
    rcases hk with hk | ⟨hk, _⟩ <;> subst hk <;>
      simp [mergeF, listMerge, compMerge, leafRule, Node.flags, hp, Node.setFlags, propagate]

theorem c08_propagate_dict_native (f : Flags) (cs : List (Key × Node)) :
    native (propagate (.comp f .dict cs)) = .dict (nativeList cs) := c08_level_native f cs

theorem c08_noListPD_nativeList_aset {k : Key} {x : Node} {acc : List (Key × Node)}
    (hx : c08_noListP (native x) = true) (h : c08_noListPD (nativeList acc) = true) :
    c08_noListPD (nativeList (aset k x acc)) = true := by
  rw [nativeList_aset]; exact c08_noListPD_aset k _ hx _ h

/-! ### one step of the key loop -/

/-- specification of one step / of the loop -/
def c08_LoopSpec (acc : List (Key × Node)) (x : Except Err (List (Key × Node)))
    (written : Path → Prop) (nodup : Prop) : Prop :=
  match x with
  | .ok acc' => plainTList acc' = true ∧ c08_noListPD (nativeList acc') = true ∧
      c08_sub (.dict (nativeList acc')) (.dict (nativeList acc))
  | .error e => ∃ p, e = .notnew p ∧
      (nodup → getPlainAt (.dict (nativeList acc)) p = none ∧ written p)

theorem c08_deep_step (n : Nat)
    (IH : ∀ (sf : Flags) (scs : List (Key × Node)) (of : Flags) (ocs : List (Key × Node)),
      plainT (.comp sf .dict scs) = true → c08_noListP (native (.comp sf .dict scs)) = true →
      c08_docFlags of = true → c08_nnDocList ocs = true → (Node.comp of .dict ocs).depth < n →
      c08_DeepSpec (.comp sf .dict scs) (.comp of .dict ocs) (mergeF n (.comp sf .dict scs) (.comp of .dict ocs)))
    (sf : Flags) (hsf : flagsPlain sf = true) (acc : List (Key × Node)) (hacc : plainTList acc = true)
    (hnl : c08_noListPD (nativeList acc) = true) (k : Key) (o : Node) (ho : c08_nnDoc o = true)
    (hd : o.depth < n) :
    c08_LoopSpec acc (mergeStep (mergeF n) sf .dict [] acc (k, o))
      (fun p => ∃ q m, p = k :: q ∧ c08_nodeAt o q m) (c08_keysNodupH o = true) := by
  obtain ⟨n', rfl⟩ : ∃ n', n = n' + 1 := ⟨n - 1, by omega⟩
  obtain ⟨kw, ekw, hkw, _⟩ := childKw_plain hsf (.inl rfl)
  cases hl : alookup k acc with
  | none =>
    rw [c08_step_missing _ sf acc k o hl (c08_nnDoc_eNew ho)]
    refine ⟨[k], rfl, fun _ => ⟨?_, [], o, rfl, .root _⟩⟩
    simp [getPlainAt, alookup_nativeList, hl]
  | some c =>
    have hcT : plainT c = true := alookup_plainT k acc hacc c hl
    have hlN : alookup k (nativeList acc) = some (native c) := by rw [alookup_nativeList, hl]; rfl
    have hcN : c08_noListP (native c) = true := c08_noListPD_alookup k _ _ hnl hlN
    cases o with
    | leaf fo lk =>
      have hfo : c08_nnFlags fo = true ∧ ∃ v, lk = .scalar v := by
        cases lk <;> simp_all [c08_nnDoc]
      obtain ⟨hfo, v, rfl⟩ := hfo
      have hfd : (replaceOtherFlags fo c.flags).del = none := by
        have := ((c08_nnFlags_iff fo).1 hfo).2.1
        simp [replaceOtherFlags, mergeSafe, this]
      rw [c08_step_replace_leaf _ sf acc k _ c _ _ hl (c08_mergeF_leaf_gen n' c hcT fo hfo _)
        (((c08_nnFlags_iff fo).1 hfo).2.1) hfd, c08_adopt_leaf sf kw ekw]
      have hx : plainT (.leaf (updFlags kw (replaceOtherFlags fo c.flags)) (.scalar v)) = true := by
        simpa [plainT] using c08_updFlags_nn hkw hfo (plainT_flags hcT)
      refine ⟨aset_plainT k _ hx acc hacc, c08_noListPD_nativeList_aset (by simp [native, c08_noListP]) hnl, ?_⟩
      rw [nativeList_aset]
      exact c08_sub_aset k _ _ _ hlN (by simp only [native]; exact c08_sub_scalar _ _)
    | comp fo ko ocs =>
      have ho' : c08_nnFlags fo = true ∧ ko = .dict ∧ c08_nnDocList ocs = true := by
        simpa [c08_nnDoc, and_assoc] using ho
      obtain ⟨hfo, rfl, hocs⟩ := ho'
      cases c with
      | leaf cf clk =>
        obtain ⟨x, rfl, hcf⟩ := plainT_leaf hcT
        have hm := c08_mergeF_scalar_vs_map n' cf (.scalar x) hcf fo (c08_nnFlags_doc hfo) ocs
        cases ocs with
        | nil =>
          have hdel : (replaceOtherFlags fo cf).del = none := by
            have := ((c08_nnFlags_iff fo).1 hfo).2.1
            simp [replaceOtherFlags, mergeSafe, this]
          have hstep : mergeStep (mergeF (n' + 1)) sf .dict [] acc (k, .comp fo .dict []) =
              .ok (aset k (adopt sf .dict (.comp (replaceOtherFlags fo cf) .dict [])) acc) := by
            simp [mergeStep, getChild, CompKind.isDictFam, hl, hm, Node.isComp, reqNewBelow, reqNewList,
              Node.flags, hdel, setChild, propagate, childKw, applyKwList]
          rw [hstep, c08_adopt_empty sf kw ekw]
          have hx : plainT (.comp (updFlags kw (replaceOtherFlags fo cf)) .dict []) = true := by
            simp [plainT, plainTList, c08_updFlags_nn hkw hfo hcf]
          refine ⟨aset_plainT k _ hx acc hacc,
            c08_noListPD_nativeList_aset (by simp [native, CompKind.isDictFam, nativeList, c08_noListP, c08_noListPD]) hnl, ?_⟩
          rw [nativeList_aset]
          exact c08_sub_aset k _ _ _ hlN (by
            simp only [native, CompKind.isDictFam, if_true, nativeList]; exact c08_sub_emptyDict _)
        | cons kv2 rest2 =>
          obtain ⟨k2, o2⟩ := kv2
          have ho2 : c08_nnDoc o2 = true := by
            have : c08_nnDoc o2 = true ∧ c08_nnDocList rest2 = true := by simpa [c08_nnDocList] using hocs
            exact this.1
          have hb : reqNewBelow (propagate (.comp (replaceOtherFlags fo cf) .dict ((k2, o2) :: rest2))) =
              some [k2] := by
            have hnn := (c08_nnFlags_iff fo).1 hfo
            exact c08_reqNewBelow_propagate_blocked _
              (by simp [replaceOtherFlags, mergeSafe, hnn.2.2.1, hnn.2.2.2.2.2.2.2]) _ _ _
          rw [c08_step_scalar_blocks _ sf acc k _ _ _ [k2] hl rfl hm hb]
          refine ⟨[k, k2], rfl, fun _ => ⟨?_, [k2], o2, rfl, .child (by simp) (.root _)⟩⟩
          simp [getPlainAt, hlN, native]
      | comp cf ck ccs =>
        have hck : ck = .dict := c08_comp_is_dict hcT hcN
        subst hck
        have ih := IH cf ccs fo ocs hcT hcN (c08_nnFlags_doc hfo) hocs hd
        cases hm : mergeF (n' + 1) (.comp cf .dict ccs) (.comp fo .dict ocs) with
        | error e =>
          rw [hm] at ih
          obtain ⟨p, rfl, hp⟩ := ih
          rw [c08_step_error _ sf acc k _ _ _ hl hm]
          refine ⟨k :: p, rfl, fun hnd => ?_⟩
          obtain ⟨h1, m, h2⟩ := hp hnd
          refine ⟨?_, p, m, rfl, h2⟩
          simp only [getPlainAt, hlN]; exact h1
        | ok res =>
          obtain ⟨r, s⟩ := res
          rw [hm] at ih
          obtain ⟨rfl, hrT, hrN, _, hsub⟩ := ih
          rw [c08_step_inplace _ sf acc k _ _ r hl hm rfl (((c08_nnFlags_iff fo).1 hfo).2.1)]
          refine ⟨aset_plainT k _ hrT acc hacc, c08_noListPD_nativeList_aset hrN hnl, ?_⟩
          rw [nativeList_aset]
          exact c08_sub_aset k _ _ _ hlN hsub

/-! ### the loop -/

theorem c08_deep_loop (n : Nat)
    (IH : ∀ (sf : Flags) (scs : List (Key × Node)) (of : Flags) (ocs : List (Key × Node)),
      plainT (.comp sf .dict scs) = true → c08_noListP (native (.comp sf .dict scs)) = true →
      c08_docFlags of = true → c08_nnDocList ocs = true → (Node.comp of .dict ocs).depth < n →
      c08_DeepSpec (.comp sf .dict scs) (.comp of .dict ocs) (mergeF n (.comp sf .dict scs) (.comp of .dict ocs)))
    (sf : Flags) (hsf : flagsPlain sf = true) :
    ∀ (ocs acc : List (Key × Node)), plainTList acc = true → c08_noListPD (nativeList acc) = true →
      c08_nnDocList ocs = true → depthList ocs < n →
      c08_LoopSpec acc (mergeLoop (mergeF n) sf .dict [] acc ocs)
        (fun p => ∃ k c q m, p = k :: q ∧ (k, c) ∈ ocs ∧ c08_nodeAt c q m)
        (keysNodup ocs = true ∧ c08_keysNodupHList ocs = true)
  | [], acc, hacc, hnl, _, _ => by
    simp only [mergeLoop, c08_LoopSpec]
    exact ⟨hacc, hnl, c08_sub_refl _⟩
  | (k, o) :: rest, acc, hacc, hnl, hocs, hd => by
    have hocs' : c08_nnDoc o = true ∧ c08_nnDocList rest = true := by simpa [c08_nnDocList] using hocs
    have hd' : o.depth < n ∧ depthList rest < n := by simp only [depthList] at hd; omega
    have hstep := c08_deep_step n IH sf hsf acc hacc hnl k o hocs'.1 hd'.1
    simp only [mergeLoop]
    cases hs : mergeStep (mergeF n) sf .dict [] acc (k, o) with
    | error e =>
      rw [hs] at hstep
      obtain ⟨p, rfl, hp⟩ := hstep
      refine ⟨p, rfl, fun hnd => ?_⟩
      have hnd' : c08_keysNodupH o = true := by
        have := hnd.2; simp only [c08_keysNodupHList, Bool.and_eq_true] at this; exact this.1
      obtain ⟨h1, q, m, e, h2⟩ := hp hnd'
      exact ⟨h1, k, o, q, m, e, by simp, h2⟩
    | ok acc1 =>
      rw [hs] at hstep
      obtain ⟨h1, h2, h3⟩ := hstep
      have ih := c08_deep_loop n IH sf hsf rest acc1 h1 h2 hocs'.2 hd'.2
      show c08_LoopSpec acc (mergeLoop (mergeF n) sf .dict [] acc1 rest) _ _
      cases hl : mergeLoop (mergeF n) sf .dict [] acc1 rest with
      | error e =>
        rw [hl] at ih
        obtain ⟨p, rfl, hp⟩ := ih
        refine ⟨p, rfl, fun hnd => ?_⟩
        have hnd1 : (akeys rest).contains k = false ∧ keysNodup rest = true := by
          simpa [keysNodup] using hnd.1
        have hnd2 : c08_keysNodupH o = true ∧ c08_keysNodupHList rest = true := by
          simpa [c08_keysNodupHList] using hnd.2
        obtain ⟨g1, k', c, q, m, e, hmem, g2⟩ := hp ⟨hnd1.2, hnd2.2⟩
        refine ⟨?_, k', c, q, m, e, List.mem_cons_of_mem _ hmem, g2⟩
        subst e
        have hne : k ≠ k' := by
          intro e; subst e
          have := c08_mem_akeys k c rest hmem
          have h' := hnd1.1
          simp at h'
          exact h' this
        have hfr := mergeStep_frame (mergeF n) (sk := .dict) rfl hs k' hne
        simp only [getPlainAt, alookup_nativeList, hfr] at g1 ⊢
        exact g1
      | ok acc' =>
        rw [hl] at ih
        obtain ⟨g1, g2, g3⟩ := ih
        exact ⟨g1, g2, c08_sub_trans g3 h3⟩

/-! ### the whole tree -/

theorem c08_deep_main : ∀ (n : Nat) (sf : Flags) (scs : List (Key × Node)) (of : Flags)
    (ocs : List (Key × Node)),
    plainT (.comp sf .dict scs) = true → c08_noListP (native (.comp sf .dict scs)) = true →
    c08_docFlags of = true → c08_nnDocList ocs = true → (Node.comp of .dict ocs).depth < n →
    c08_DeepSpec (.comp sf .dict scs) (.comp of .dict ocs) (mergeF n (.comp sf .dict scs) (.comp of .dict ocs)) := by
  intro n
  induction n with
  | zero => intro _ _ _ _ _ _ _ _ h; omega
  | succ n ih =>
    intro sf scs of ocs ha hn ho hocs hd
    obtain ⟨hsf, _, hscs⟩ := plainT_comp ha
    have hnl : c08_noListPD (nativeList scs) = true := by
      simpa [native, CompKind.isDictFam, c08_noListP] using hn
    have hd' : depthList ocs < n := by simp only [Node.depth] at hd; omega
    have hloop := c08_deep_loop n ih sf hsf ocs scs hscs hnl hocs hd'
    rw [c08_mergeF_dict]
    simp only [compMerge, c08_eDel_doc ho, Bool.false_eq_true, if_false]
    cases hl : mergeLoop (mergeF n) sf .dict [] scs ocs with
    | error e =>
      rw [hl] at hloop
      obtain ⟨p, rfl, hp⟩ := hloop
      refine ⟨p, rfl, fun hnd => ?_⟩
      have hnd' : keysNodup ocs = true ∧ c08_keysNodupHList ocs = true := by
        simpa [c08_keysNodupH] using hnd
      obtain ⟨g1, k, c, q, m, e, hmem, g2⟩ := hp hnd'
      refine ⟨?_, m, ?_⟩
      · simpa [native, CompKind.isDictFam] using g1
      · subst e; exact .child hmem g2
    | ok scs' =>
      rw [hl] at hloop
      obtain ⟨g1, g2, g3⟩ := hloop
      have hfin : finishMerge sf .dict scs' (.comp of .dict ocs) =
          .ok (propagate (.comp (replaceSelfFlags sf of) .dict scs'), true) := by
        simp [finishMerge, Node.flags, (c08_hasPrio_doc hsf ho true).1, maybePromote, CompKind.sameClass]
      simp only [hfin, c08_DeepSpec, c08_propagate_dict_native]
      refine ⟨trivial, c08_level_plainT hsf ho g1, by simpa [c08_noListP] using g2, ⟨_, rfl⟩, ?_⟩
      simpa [native, CompKind.isDictFam] using g3

end AY
