/-
  AY.Lemmas.FromPyPlain — an API-built tree without keyword arguments (`fromPy env {} d`) satisfies the
  invariants of tag-free document trees (`plainT`, `plainO` of Lemmas/PlainInv.lean), so the C02 theorems
  about merging tag-free documents apply to it.
-/
import AY.Lemmas.FromPyData
import AY.Lemmas.C02Fold
namespace AY.FP

/-- keyword arguments as they occur inside a tree built from plain data without keywords: nothing explicit,
    nothing inherited except possibly `implicit_delete=True` (below a list) -/
def kwBare (kw : PyKw) : Prop :=
  kw.prio = none ∧ kw.del = none ∧ kw.new = none ∧ kw.safe = none ∧ kw.md = [] ∧ kw.iNew = none ∧
    kw.iSafe = none ∧ kw.iDel ≠ some false

theorem kwBare_empty : kwBare {} := by simp [kwBare]

theorem flagsPlain_pyFlags (env : Env) {kw : PyKw} (h : kwBare kw) : flagsPlain (pyFlags env kw) = true := by
  obtain ⟨h1, h2, h3, h4, h5, h6, h7, h8⟩ := h
  rw [flagsPlain_iff]
  simp [pyFlags, h1, h2, h3, h4, h5, h6, h7, h8]

theorem kwBare_child (env : Env) {kw : PyKw} (h : kwBare kw) {k : CompKind} (hk : k = .dict ∨ k = .list) :
    kwBare (pyChildKw kw (pyFlags env kw) k) ∧
      (pyChildKw kw (pyFlags env kw) k).iDel = (if k = .dict then kw.iDel else some true) := by
  obtain ⟨c, hc, ⟨c1, c2, c3⟩, c4⟩ := childKw_plain (flagsPlain_pyFlags env h) hk
  obtain ⟨h1, h2, h3, h4, h5, h6, h7, h8⟩ := h
  simp only [pyChildKw, hc]
  exact ⟨⟨h1, rfl, rfl, rfl, rfl, c1, c2, c3⟩, c4⟩

theorem listKeys_fromPyList (env : Env) (kw : PyKw) : ∀ (i : Nat) (xs : List Plain),
    listKeys i (fromPyList env kw i xs) = true
  | _, [] => rfl
  | i, x :: rest => by
    simp only [fromPyList, listKeys, beq_self_eq_true, Bool.true_and]
    exact listKeys_fromPyList env kw (i + 1) rest

mutual
theorem fromPy_plainT (env : Env) : ∀ (kw : PyKw) (d : Plain), kwBare kw → plainT (fromPy env kw d) = true
  | kw, .scalar _, h => by simp only [fromPy, plainT]; exact flagsPlain_pyFlags env h
  | kw, .list xs, h => by
    simp only [fromPy, plainT, flagsPlain_pyFlags env h, listKeys_fromPyList, Bool.true_and, Bool.and_true,
      beq_self_eq_true, Bool.or_true]
    exact fromPyList_plainT env _ 0 xs (kwBare_child env h (.inr rfl)).1
  | kw, .dict xs, h => by
    simp only [fromPy, plainT, flagsPlain_pyFlags env h, Bool.true_and, beq_self_eq_true, Bool.true_or]
    exact fromPyMap_plainT env _ xs (kwBare_child env h (.inl rfl)).1
theorem fromPyList_plainT (env : Env) : ∀ (kw : PyKw) (i : Nat) (xs : List Plain), kwBare kw →
    plainTList (fromPyList env kw i xs) = true
  | _, _, [], _ => rfl
  | kw, i, x :: rest, h => by
    simp only [fromPyList, plainTList, fromPy_plainT env kw x h, fromPyList_plainT env kw (i + 1) rest h, Bool.and_self]
theorem fromPyMap_plainT (env : Env) : ∀ (kw : PyKw) (xs : List (Key × Plain)), kwBare kw →
    plainTList (fromPyMap env kw xs) = true
  | _, [], _ => rfl
  | kw, (k, x) :: rest, h => by
    simp only [fromPyMap, plainTList, fromPy_plainT env kw x h, fromPyMap_plainT env kw rest h, Bool.and_self]
end

mutual
theorem fromPy_dictsLive (env : Env) : ∀ (kw : PyKw) (d : Plain), kwBare kw → kw.iDel = none →
    dictsLive (fromPy env kw d) = true
  | _, .scalar _, _, _ => rfl
  | _, .list _, _, _ => by simp [fromPy, dictsLive]
  | kw, .dict xs, h, hd => by
    have hc := kwBare_child env h (k := .dict) (.inl rfl)
    have hf : (pyFlags env kw).iDel = none := hd
    simp only [fromPy, dictsLive, beq_self_eq_true, if_true, hf, Option.isNone_none, Bool.true_and]
    exact fromPyMap_dictsLive env _ xs hc.1 (by rw [hc.2]; simpa using hd)
theorem fromPyMap_dictsLive (env : Env) : ∀ (kw : PyKw) (xs : List (Key × Plain)), kwBare kw → kw.iDel = none →
    dictsLiveList (fromPyMap env kw xs) = true
  | _, [], _, _ => rfl
  | kw, (k, x) :: rest, h, hd => by
    simp only [fromPyMap, dictsLiveList, fromPy_dictsLive env kw x h hd, fromPyMap_dictsLive env kw rest h hd, Bool.and_self]
end

theorem fromPy_plainO (env : Env) (d : Plain) : plainO (fromPy env {} d) = true :=
  (plainO_iff _).2 ⟨fromPy_plainT env {} d kwBare_empty, fromPy_dictsLive env {} d kwBare_empty rfl⟩

theorem fromPy_isDict (env : Env) (kw : PyKw) (xs : List (Key × Plain)) : (fromPy env kw (.dict xs)).isDict = true := rfl

end AY.FP
