/-
  AY.Lemmas.C08WholeDefs — whole-tree statements of C08 over ANY config tree: definitions and the
  basic lemmas.

    c08w_get / c08w_has     node / existence of a node at a path, through `get_child` (mapping keys and
                            list indices, negative spellings included)
    c08w_sub r a            every path of `r` is a path of `a`
    c08w_slot               the entry of `_children` a key addresses (`key` itself in a mapping, `int i`
                            with `i = _validate_index(key)` in a list)
    c08w_nd, c08w_doc, c08w_docL, c08w_top
                            the newer document: mappings and leaves, no deleting node (no `!del`, not below
                            a list), `implicit_allow_new` handed down consistently; priorities, `!merge`,
                            nested `!new` / `!notnew`, metadata, safety flags are free
    c08w_noAlias a b        no two keys of one mapping of `b` address the same child of `a`
    c08w_noPrio             no priority anywhere
-/
import AY.Lemmas.C08List
import AY.Lemmas.C04Filter
import AY.Lemmas.KeyInvariantsAssoc
import AY.Lemmas.KeyInvMerge
namespace AY

/-! ### paths of a node tree -/

/-- `root.ayns.get_child(k1).ayns.get_child(k2)…`: the node at a path, every component resolved by
    `get_child` (a list accepts `-len ≤ i < len`) -/
def c08w_get : Node → Path → Option Node
  | n, [] => some n
  | .leaf .., _ :: _ => none
  | .comp _ k cs, key :: rest =>
    match getChild k key cs with
    | none => none
    | some c => c08w_get c rest

/-- the path exists -/
def c08w_has (n : Node) (p : Path) : Bool := (c08w_get n p).isSome

/-- every path of `r` is a path of `a` -/
def c08w_sub (r a : Node) : Prop := ∀ p, c08w_has r p = true → c08w_has a p = true

theorem c08w_sub_refl (a : Node) : c08w_sub a a := fun _ h => h
theorem c08w_sub_trans {a b c : Node} (h1 : c08w_sub a b) (h2 : c08w_sub b c) : c08w_sub a c :=
  fun p h => h2 p (h1 p h)

@[simp] theorem c08w_has_nil (n : Node) : c08w_has n [] = true := by
  cases n <;> rfl

theorem c08w_has_leaf (f : Flags) (lk : LeafKind) (k : Key) (q : Path) :
    c08w_has (.leaf f lk) (k :: q) = false := rfl

theorem c08w_has_cons (f : Flags) (sk : CompKind) (cs : List (Key × Node)) (key : Key) (q : Path) :
    c08w_has (.comp f sk cs) (key :: q) =
      match getChild sk key cs with
      | none => false
      | some c => c08w_has c q := by
  simp only [c08w_has, c08w_get]
  cases getChild sk key cs <;> rfl

/-- a node without children has the root path only -/
theorem c08w_sub_of_no_children {n : Node} (h : n.children = []) (a : Node) : c08w_sub n a := by
  intro p hp
  cases p with
  | nil => simp
  | cons k q =>
    cases n with
    | leaf f lk => simp [c08w_has_leaf] at hp
    | comp f sk cs =>
      simp only [Node.children] at h
      subst h
      rw [c08w_has_cons] at hp
      have : getChild sk k [] = none := by
        unfold getChild
        split
        · rfl
        · split <;> rfl
      rw [this] at hp
      cases hp

/-! ### the entry a key addresses -/

/-- the key of `_children` that `get_child(key)` reads: the key itself in a mapping, `int i` for
    a valid index `i = _validate_index(key, strict=True)` in a list -/
def c08w_slot (sk : CompKind) (len : Nat) (key : Key) : Option Key :=
  if sk.isDictFam then some key else (validateIndex len true key).map (fun i => Key.int (i : Int))

theorem c08w_getChild_slot (sk : CompKind) (key : Key) (cs : List (Key × Node)) :
    getChild sk key cs = (c08w_slot sk cs.length key).bind (fun s => alookup s cs) := by
  unfold getChild c08w_slot
  split
  · rfl
  · cases validateIndex cs.length true key <;> rfl

theorem c08w_slot_of_getChild {sk : CompKind} {key : Key} {cs : List (Key × Node)} {c : Node}
    (h : getChild sk key cs = some c) : ∃ K, c08w_slot sk cs.length key = some K ∧ alookup K cs = some c := by
  rw [c08w_getChild_slot] at h
  cases hs : c08w_slot sk cs.length key with
  | none => simp [hs] at h
  | some K => simp [hs] at h; exact ⟨K, rfl, h⟩

theorem c08w_length_aset {K : Key} {v c : Node} {cs : List (Key × Node)} (h : alookup K cs = some c) :
    (aset K v cs).length = cs.length :=
  length_aset_of_some K v cs (by rw [h]; rfl)

/-- reading after writing an existing entry -/
theorem c08w_getChild_aset (sk : CompKind) (key K : Key) (v c : Node) (cs : List (Key × Node))
    (h : alookup K cs = some c) :
    getChild sk key (aset K v cs) =
      if c08w_slot sk cs.length key = some K then some v else getChild sk key cs := by
  rw [c08w_getChild_slot, c08w_getChild_slot, c08w_length_aset h]
  cases hs : c08w_slot sk cs.length key with
  | none => simp
  | some s =>
    simp only [Option.bind, alookup_aset, Option.some.injEq]
    by_cases e : s = K
    · subst e; simp
    · have : ¬ K = s := fun e' => e e'.symm
      simp [e, this]

/-- `replaceChild` / `setChild` on a key that `get_child` finds write that entry -/
theorem c08w_replaceChild_present {sk : CompKind} {k K : Key} {cs : List (Key × Node)} (v : Node)
    (hs : c08w_slot sk cs.length k = some K) : replaceChild sk k v cs = aset K v cs := by
  unfold c08w_slot at hs
  unfold replaceChild
  split
  · rename_i hd; simp [hd] at hs; rw [hs]
  · rename_i hd
    simp only [hd, Bool.false_eq_true, if_false] at hs
    cases hv : validateIndex cs.length true k with
    | none => simp [hv] at hs
    | some i => simp [hv] at hs; simp [hs]

theorem c08w_setChild_present {sf : Flags} {sk : CompKind} {k K : Key} {cs : List (Key × Node)} (v : Node)
    (hs : c08w_slot sk cs.length k = some K) :
    setChild sf sk k v cs = .ok (aset K (adopt sf sk v) cs) := by
  unfold c08w_slot at hs
  unfold setChild
  split
  · rename_i hd; simp [hd] at hs; rw [hs]
  · rename_i hd
    simp only [hd, Bool.false_eq_true, if_false] at hs
    cases hv : validateIndex cs.length true k with
    | none => simp [hv] at hs
    | some i =>
      simp [hv] at hs
      simp [validateIndex_lax_of_strict hv, hs]

/-- writing an existing entry with something that has fewer paths -/
theorem c08w_sub_aset {sk : CompKind} {K : Key} {v c : Node} {cs : List (Key × Node)}
    (hl : alookup K cs = some c) (hs : c08w_sub v c) (f f' : Flags) :
    c08w_sub (.comp f' sk (aset K v cs)) (.comp f sk cs) := by
  intro p hp
  cases p with
  | nil => simp
  | cons key q =>
    rw [c08w_has_cons] at hp ⊢
    rw [c08w_getChild_aset sk key K v c cs hl] at hp
    by_cases hk : c08w_slot sk cs.length key = some K
    · rw [if_pos hk] at hp
      have : getChild sk key cs = some c := by rw [c08w_getChild_slot, hk]; exact hl
      rw [this]
      exact hs q hp
    · rw [if_neg hk] at hp
      exact hp

/-! ### the flag bookkeeping changes no path -/

theorem c08w_length_applyKwList (kw : ChildKw) : ∀ cs : List (Key × Node), (applyKwList kw cs).length = cs.length
  | [] => rfl
  | (k, c) :: rest => by simp [applyKwList, c08w_length_applyKwList kw rest]

theorem c08w_getChild_applyKwList (kw : ChildKw) (sk : CompKind) (key : Key) (cs : List (Key × Node)) :
    getChild sk key (applyKwList kw cs) = (getChild sk key cs).map (applyKw kw) := by
  unfold getChild
  rw [c08w_length_applyKwList]
  split
  · exact alookup_applyKwList kw key cs
  · split
    · rfl
    · exact alookup_applyKwList kw _ cs

theorem c08w_has_comp_congr (f f' : Flags) {sk sk' : CompKind} (h : sk'.isDictFam = sk.isDictFam)
    (cs : List (Key × Node)) (p : Path) : c08w_has (.comp f' sk' cs) p = c08w_has (.comp f sk cs) p := by
  cases p with
  | nil => rfl
  | cons key q =>
    rw [c08w_has_cons, c08w_has_cons]
    have : getChild sk' key cs = getChild sk key cs := by unfold getChild; rw [h]
    rw [this]

theorem c08w_has_applyKw : ∀ (p : Path) (kw : ChildKw) (n : Node), c08w_has (applyKw kw n) p = c08w_has n p
  | [], _, _ => by simp
  | key :: q, kw, .leaf f lk => by simp [applyKw, c08w_has_leaf]
  | key :: q, kw, .comp f sk cs => by
    simp only [applyKw]
    split
    · split
      · exact c08w_has_comp_congr f _ rfl cs _
      · rename_i kw' _
        rw [c08w_has_cons, c08w_has_cons, c08w_getChild_applyKwList]
        cases getChild sk key cs with
        | none => rfl
        | some c => exact c08w_has_applyKw q kw' c
    · rfl

theorem c08w_has_propagate (n : Node) (p : Path) : c08w_has (propagate n) p = c08w_has n p := by
  cases n with
  | leaf f lk => rfl
  | comp f sk cs =>
    simp only [propagate]
    split
    · rfl
    · rename_i kw _
      cases p with
      | nil => rfl
      | cons key q =>
        rw [c08w_has_cons, c08w_has_cons, c08w_getChild_applyKwList]
        cases getChild sk key cs with
        | none => rfl
        | some c => exact c08w_has_applyKw q kw c

theorem c08w_has_setFlags (n : Node) (f : Flags) (p : Path) : c08w_has (n.setFlags f) p = c08w_has n p := by
  cases n with
  | leaf f' lk => cases p <;> rfl
  | comp f' sk cs => exact c08w_has_comp_congr f' f rfl cs p

theorem c08w_has_adopt (pf : Flags) (pk : CompKind) (v : Node) (p : Path) :
    c08w_has (adopt pf pk v) p = c08w_has v p := by
  unfold adopt inheritInto
  rw [c08w_has_propagate]
  cases childKw pf pk with
  | none => rfl
  | some kw => simp only; rw [c08w_has_propagate, c08w_has_setFlags]

theorem c08w_sub_adopt {v c : Node} (h : c08w_sub v c) (pf : Flags) (pk : CompKind) : c08w_sub (adopt pf pk v) c :=
  fun p hp => h p (by rwa [c08w_has_adopt] at hp)

theorem c08w_flags_propagate (n : Node) : (propagate n).flags = n.flags := by
  cases n with
  | leaf f lk => rfl
  | comp f sk cs =>
    simp only [propagate]
    split <;> rfl

/-! ### the newer document -/

/-- the node is not deleting and carries no `!del` (for a mapping or a leaf: `ayns.delete` is off) -/
def c08w_nd (f : Flags) : Bool := (f.del == some false) || (f.del.isNone && f.iDel != some true)

mutual
/-- a subtree of the newer document: mappings and leaves, no deleting node, `implicit_allow_new`
    equal to what the parent hands down (`inh`); priority, `new`, metadata, safety flags are free -/
def c08w_doc (inh : Option Bool) : Node → Bool
  | .leaf f _ => (f.iNew == inh) && c08w_nd f
  | .comp f k cs => (f.iNew == inh) && c08w_nd f && (k == .dict) && c08w_docL (f.new.or f.iNew) cs
def c08w_docL (inh : Option Bool) : List (Key × Node) → Bool
  | [] => true
  | (_, c) :: rest => c08w_doc inh c && c08w_docL inh rest
end

/-- the root of the newer document (its own inherited flag is not constrained) -/
def c08w_top (inh : Option Bool) : Node → Bool
  | .leaf f _ => c08w_nd f
  | .comp f k cs => c08w_nd f && (k == .dict) && c08w_docL inh cs

/-- content below the root: every node has `allow_new` off -/
def c08w_nnBelow : Node → Bool
  | .leaf .. => true
  | .comp _ _ cs => allNotNewList cs

theorem c08w_nd_del {f : Flags} (h : c08w_nd f = true) : f.del ≠ some true := by
  intro e; simp [c08w_nd, e] at h

theorem c08w_doc_comp {inh : Option Bool} {f : Flags} {k : CompKind} {cs : List (Key × Node)}
    (h : c08w_doc inh (.comp f k cs) = true) :
    f.iNew = inh ∧ c08w_nd f = true ∧ k = .dict ∧ c08w_docL (f.new.or f.iNew) cs = true := by
  simpa [c08w_doc, and_assoc] using h

theorem c08w_doc_leaf {inh : Option Bool} {f : Flags} {lk : LeafKind}
    (h : c08w_doc inh (.leaf f lk) = true) : f.iNew = inh ∧ c08w_nd f = true := by
  simpa [c08w_doc] using h

theorem c08w_top_comp {inh : Option Bool} {f : Flags} {k : CompKind} {cs : List (Key × Node)}
    (h : c08w_top inh (.comp f k cs) = true) : c08w_nd f = true ∧ k = .dict ∧ c08w_docL inh cs = true := by
  simpa [c08w_top, and_assoc] using h

theorem c08w_doc_flags {inh : Option Bool} {o : Node} (h : c08w_doc inh o = true) :
    o.flags.iNew = inh ∧ c08w_nd o.flags = true := by
  cases o with
  | leaf f lk => exact c08w_doc_leaf h
  | comp f k cs => exact ⟨(c08w_doc_comp h).1, (c08w_doc_comp h).2.1⟩

theorem c08w_top_of_doc {inh : Option Bool} {o : Node} (h : c08w_doc inh o = true) :
    c08w_top (o.flags.new.or o.flags.iNew) o = true := by
  cases o with
  | leaf f lk => simpa [c08w_top, Node.flags] using (c08w_doc_leaf h).2
  | comp f k cs =>
    obtain ⟨_, h2, h3, h4⟩ := c08w_doc_comp h
    simp [c08w_top, Node.flags, h2, h3, h4]

theorem c08w_top_flags {inh : Option Bool} {o : Node} (h : c08w_top inh o = true) : c08w_nd o.flags = true := by
  cases o with
  | leaf f lk => simpa [c08w_top, Node.flags] using h
  | comp f k cs => exact (c08w_top_comp h).1

theorem c08w_docL_mem {inh : Option Bool} : ∀ {cs : List (Key × Node)}, c08w_docL inh cs = true →
    ∀ kv ∈ cs, c08w_doc inh kv.2 = true
  | [], _, _, h => by cases h
  | (k, c) :: rest, hd, kv, h => by
    have hd' : c08w_doc inh c = true ∧ c08w_docL inh rest = true := by simpa [c08w_docL] using hd
    rcases List.mem_cons.1 h with e | h'
    · subst e; exact hd'.1
    · exact c08w_docL_mem hd'.2 kv h'

theorem c08w_eDel_nd_leaf {f : Flags} {lk : LeafKind} (h : c08w_nd f = true) : eDel (.leaf f lk) = false := by
  simp only [c08w_nd, Bool.or_eq_true, beq_iff_eq, Bool.and_eq_true, Option.isNone_iff_eq_none, bne_iff_ne, ne_eq] at h
  rcases h with h | ⟨h1, h2⟩
  · simp [eDel, Node.flags, h]
  · simp only [eDel, Node.flags, h1]
    cases hd : f.iDel with
    | none => simp [Node.defaultDel, Tables.defaultDeleteNode]
    | some b => cases b <;> simp_all

theorem c08w_eDel_nd_dict {f : Flags} {cs : List (Key × Node)} (h : c08w_nd f = true) :
    eDel (.comp f .dict cs) = false := by
  simp only [c08w_nd, Bool.or_eq_true, beq_iff_eq, Bool.and_eq_true, Option.isNone_iff_eq_none, bne_iff_ne, ne_eq] at h
  rcases h with h | ⟨h1, h2⟩
  · simp [eDel, Node.flags, h]
  · simp only [eDel, Node.flags, h1]
    cases hd : f.iDel with
    | none => simp [Node.defaultDel, defaultDelete, Tables.defaultDeleteDict]
    | some b => cases b <;> simp_all

theorem c08w_eDel_doc {inh : Option Bool} {o : Node} (h : c08w_doc inh o = true) : eDel o = false := by
  cases o with
  | leaf f lk => exact c08w_eDel_nd_leaf (c08w_doc_leaf h).2
  | comp f k cs =>
    obtain ⟨_, h2, h3, _⟩ := c08w_doc_comp h
    subst h3; exact c08w_eDel_nd_dict h2

theorem c08w_eDel_top {inh : Option Bool} {o : Node} (h : c08w_top inh o = true) : eDel o = false := by
  cases o with
  | leaf f lk => exact c08w_eDel_nd_leaf (by simpa [c08w_top] using h)
  | comp f k cs =>
    obtain ⟨h2, h3, _⟩ := c08w_top_comp h
    subst h3; exact c08w_eDel_nd_dict h2

/-! the list-side pre-filter (`keep_if_exists`) keeps every node of such a document -/
mutual
theorem c08w_allKept_doc (s : Node) {inh : Option Bool} : ∀ (pre : Path) (o : Node), c08w_doc inh o = true →
    allKept (keepIfExists s) pre o = true
  | pre, .leaf f lk, _ => rfl
  | pre, .comp f k cs, h => by
    simp only [allKept]
    exact c08w_allKeptList_doc s pre cs (c08w_doc_comp h).2.2.2
theorem c08w_allKeptList_doc (s : Node) {inh : Option Bool} : ∀ (pre : Path) (cs : List (Key × Node)),
    c08w_docL inh cs = true → allKeptList (keepIfExists s) pre cs = true
  | pre, [], _ => rfl
  | pre, (k, c) :: rest, h => by
    have h' : c08w_doc inh c = true ∧ c08w_docL inh rest = true := by simpa [c08w_docL] using h
    simp only [allKeptList, Bool.and_eq_true]
    refine ⟨⟨?_, c08w_allKept_doc s (pre ++ [k]) c h'.1⟩, c08w_allKeptList_doc s pre rest h'.2⟩
    simp [keepIfExists, c08w_eDel_doc h'.1]
end

theorem c08w_filter_top (s : Node) {inh : Option Bool} {o : Node} (h : c08w_top inh o = true) :
    (filterNode (keepIfExists s) [] o).1 = o := by
  apply c04_filterNode_allKept
  cases o with
  | leaf f lk => rfl
  | comp f k cs => simp only [allKept]; exact c08w_allKeptList_doc s [] cs (c08w_top_comp h).2.2

/-! ### `_require_all_new` does not see the re-propagation of consistent flags -/

theorem c08w_updFlags_iNew (kw : ChildKw) (f : Flags) : (updFlags kw f).iNew = kw.iNew := rfl
theorem c08w_updFlags_new (kw : ChildKw) (f : Flags) : (updFlags kw f).new = f.new := rfl

mutual
theorem c08w_reqNew_applyKw : ∀ (n : Node) (inh : Option Bool) (kw : ChildKw) (exc : List Path) (p : Path),
    c08w_doc inh n = true → kw.iNew = inh → reqNew exc p (applyKw kw n) = reqNew exc p n
  | .leaf f lk, inh, kw, exc, p, h, hk => by
    have hf := (c08w_doc_leaf h).1
    simp only [applyKw, reqNew, eNew, c08w_updFlags_iNew, hk, hf]
  | .comp f k cs, inh, kw, exc, p, h, hk => by
    obtain ⟨hf, _, hkd, hcs⟩ := c08w_doc_comp h
    subst hkd
    simp only [applyKw]
    split
    · have hkw : childKw (updFlags kw f) .dict = some
          { iDel := (updFlags kw f).del.or ((updFlags kw f).iDel.or (if defaultDelete .dict then some true else none)),
            iNew := (updFlags kw f).new.or (updFlags kw f).iNew,
            iSafe := if (updFlags kw f).iSafe = some false then some false else (updFlags kw f).safe.or (updFlags kw f).iSafe } := rfl
      rw [hkw]
      simp only [reqNew, eNew, c08w_updFlags_iNew, hk, hf]
      rw [c08w_reqNewList_applyKw cs (f.new.or f.iNew) _ exc p hcs (by simp [c08w_updFlags_new, hf])]
    · rfl
theorem c08w_reqNewList_applyKw : ∀ (cs : List (Key × Node)) (inh : Option Bool) (kw : ChildKw) (exc : List Path)
    (p : Path), c08w_docL inh cs = true → kw.iNew = inh → reqNewList exc p (applyKwList kw cs) = reqNewList exc p cs
  | [], _, _, _, _, _, _ => rfl
  | (k, c) :: rest, inh, kw, exc, p, h, hk => by
    have h' : c08w_doc inh c = true ∧ c08w_docL inh rest = true := by simpa [c08w_docL] using h
    simp only [applyKwList, reqNewList, c08w_reqNew_applyKw c inh kw exc (p ++ [k]) h'.1 hk,
      c08w_reqNewList_applyKw rest inh kw exc p h'.2 hk]
end

/-- the check after a mapping of the document has replaced a scalar: it is the check on the
    mapping's own children -/
theorem c08w_reqNewBelow_propagate (F : Flags) (cs : List (Key × Node))
    (h : c08w_docL (F.new.or F.iNew) cs = true) :
    reqNewBelow (propagate (.comp F .dict cs)) = reqNewList [] [] cs := by
  simp only [propagate, childKw, reqNewBelow]
  exact c08w_reqNewList_applyKw cs _ _ [] [] h rfl

theorem c08w_reqNewList_none_iff (exc : List Path) (p : Path) : ∀ cs : List (Key × Node),
    reqNewList exc p cs = none ↔ ∀ kv ∈ cs, reqNew exc (p ++ [kv.1]) kv.2 = none
  | [] => by simp [reqNewList]
  | (k, c) :: rest => by
    simp only [reqNewList, List.mem_cons, forall_eq_or_imp]
    cases h : reqNew exc (p ++ [k]) c with
    | some q => simp
    | none => simp [c08w_reqNewList_none_iff exc p rest]

/-- a failing check on the children names a node below them whose `allow_new` is off -/
theorem c08w_reqNewList_some {exc : List Path} {cs : List (Key × Node)} {r : Path}
    (h : reqNewList exc [] cs = some r) :
    ∃ key c q m, (key, c) ∈ cs ∧ r = key :: q ∧ c08_nodeAt c q m ∧ eNew m.flags = false ∧ r ∉ exc := by
  rw [c08_reqNewList_eq_find] at h
  simp only [Option.map_eq_some_iff] at h
  obtain ⟨x, hx, e⟩ := h
  have hmem := List.mem_of_find?_eq_some hx
  have hoff := List.find?_some hx
  obtain ⟨key, c, q, hkc, e2, hq⟩ := c08_nodeAt_of_mem_preorderList [] cs x hmem
  obtain ⟨h1, h2⟩ := (c08_offender_true exc x).1 hoff
  refine ⟨key, c, q, x.2, hkc, ?_, hq, h1, ?_⟩
  · rw [← e, e2]; rfl
  · rw [← e]; exact h2

/-! ### no two keys of a mapping address the same child -/

/-- the entries addressed by the keys of `ocs` in a container of class `sk` with `len` children are
    pairwise different (keys that address nothing are not compared) -/
def c08w_slotsNodup (sk : CompKind) (len : Nat) : List (Key × Node) → Bool
  | [] => true
  | (k, _) :: rest =>
    (match c08w_slot sk len k with
     | none => true
     | some s => !(rest.any (fun kv => c08w_slot sk len kv.1 == some s))) && c08w_slotsNodup sk len rest

mutual
/-- along every common path no two keys of a mapping of `b` address the same child of `a`
    (in a mapping of `a`: no duplicated key; in a list of `a`: no index spelled twice, e.g. `0` and `-len`) -/
def c08w_noAlias : Node → Node → Bool
  | .comp _ sk scs, .comp _ _ ocs => c08w_slotsNodup sk scs.length ocs && c08w_noAliasL sk scs ocs
  | _, _ => true
def c08w_noAliasL (sk : CompKind) (scs : List (Key × Node)) : List (Key × Node) → Bool
  | [] => true
  | (k, o) :: rest =>
    (match getChild sk k scs with
     | none => true
     | some c => c08w_noAlias c o) && c08w_noAliasL sk scs rest
end

mutual
/-- no priority anywhere -/
def c08w_noPrio : Node → Bool
  | .leaf f _ => f.prio.isNone
  | .comp f _ cs => f.prio.isNone && c08w_noPrioL cs
def c08w_noPrioL : List (Key × Node) → Bool
  | [] => true
  | (_, c) :: rest => c08w_noPrio c && c08w_noPrioL rest
end

theorem c08w_noPrio_flags {n : Node} (h : c08w_noPrio n = true) : n.flags.prio = none := by
  cases n with
  | leaf f lk => simpa [c08w_noPrio, Node.flags] using h
  | comp f k cs =>
    have : f.prio = none ∧ c08w_noPrioL cs = true := by simpa [c08w_noPrio] using h
    exact this.1

theorem c08w_noPrioL_mem : ∀ {cs : List (Key × Node)}, c08w_noPrioL cs = true → ∀ kv ∈ cs, c08w_noPrio kv.2 = true
  | [], _, _, h => by cases h
  | (k, c) :: rest, hd, kv, h => by
    have hd' : c08w_noPrio c = true ∧ c08w_noPrioL rest = true := by simpa [c08w_noPrioL] using hd
    rcases List.mem_cons.1 h with e | h'
    · subst e; exact hd'.1
    · exact c08w_noPrioL_mem hd'.2 kv h'

theorem c08w_noPrio_getChild {f : Flags} {sk : CompKind} {cs : List (Key × Node)} {key : Key} {c : Node}
    (h : c08w_noPrio (.comp f sk cs) = true) (hg : getChild sk key cs = some c) : c08w_noPrio c = true := by
  have h' : f.prio = none ∧ c08w_noPrioL cs = true := by simpa [c08w_noPrio] using h
  obtain ⟨K, _, hl⟩ := c08w_slot_of_getChild hg
  exact c08w_noPrioL_mem h'.2 (K, c) (c08_mem_of_alookup K cs c hl)

end AY
