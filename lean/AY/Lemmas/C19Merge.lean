/-
  AY.Lemmas.C19Merge — merging preserves `FlagsConsistent` (helper lemmas for AY.Props.C19).

  Every way `mergeF` returns ends with `propagate` on the returned node (`_replace_self` /
  `_replace_other` end with `_propagate_implicit_values`), and `propagate` makes a node whose
  children are consistent trees (`ConsistentBelow`) consistent (`propagate_cons`). So the loop
  invariant is only "every child of the accumulator is a consistent tree" (`allConsistent`):
  nothing has to be said about the children's own inherited flags while the loop runs.
-/
import AY.Lemmas.C19Lemmas
import AY.Model.Merge
namespace AY

/-! ### membership form of `consistentList` -/

/-- `kw` prescribes at most what the parent `(pf, pk)` prescribes -/
def KwLe (kw : Option ChildKw) (pf : Flags) (pk : CompKind) : Prop :=
  ∀ kw', kw = some kw' → childKw pf pk = some kw'

theorem kwLe_none (pf : Flags) (pk : CompKind) : KwLe none pf pk := fun _ e => by cases e
theorem kwLe_self (pf : Flags) (pk : CompKind) : KwLe (childKw pf pk) pf pk := fun _ e => e

theorem consistentList_iff (kw : Option ChildKw) : ∀ (cs : List (Key × Node)),
    consistentList kw cs = true ↔
      ∀ kv, kv ∈ cs → (∀ kw', kw = some kw' → childFlagsOK kw' kv.2.flags = true) ∧ FlagsConsistent kv.2 = true
  | [] => by simp [consistentList]
  | (key, c) :: rest => by
    rw [consistentList_cons, consistentList_iff kw rest]
    constructor
    · intro h kv hm
      rcases List.mem_cons.1 hm with rfl | hm
      · exact ⟨h.1, h.2.1⟩
      · exact h.2.2 kv hm
    · intro h
      exact ⟨(h (key, c) (by simp)).1, (h (key, c) (by simp)).2, fun kv hm => h kv (List.mem_cons_of_mem _ hm)⟩

theorem c19_alookup_mem {k : Key} {c : Node} : ∀ {cs : List (Key × Node)}, alookup k cs = some c → (k, c) ∈ cs
  | [], h => by simp [alookup] at h
  | (k', v) :: rest, h => by
    simp only [alookup] at h
    split at h
    · rename_i e; cases h; subst e; simp
    · exact List.mem_cons_of_mem _ (c19_alookup_mem h)

theorem c19_mem_aerase {k : Key} {x : Key × Node} : ∀ {cs : List (Key × Node)}, x ∈ aerase k cs → x ∈ cs
  | [], h => by simp [aerase] at h
  | (k', v) :: rest, h => by
    simp only [aerase] at h
    split at h
    · exact List.mem_cons_of_mem _ h
    · rcases List.mem_cons.1 h with rfl | h
      · simp
      · exact List.mem_cons_of_mem _ (c19_mem_aerase h)

theorem c19_mem_renumFrom {x : Key × Node} : ∀ {i : Nat} {xs : List Node}, x ∈ renumFrom i xs → x.2 ∈ xs
  | _, [], h => by simp [renumFrom] at h
  | i, y :: ys, h => by
    simp only [renumFrom] at h
    rcases List.mem_cons.1 h with rfl | h
    · simp
    · exact List.mem_cons_of_mem _ (c19_mem_renumFrom h)

theorem aerase_consistent {kw : Option ChildKw} (k : Key) {cs : List (Key × Node)}
    (h : consistentList kw cs = true) : consistentList kw (aerase k cs) = true := by
  rw [consistentList_iff] at h ⊢
  exact fun kv hm => h kv (c19_mem_aerase hm)

/-! ### the child mutators -/

theorem getChild_mem {sk : CompKind} {name : Key} {acc : List (Key × Node)} {child : Node}
    (h : getChild sk name acc = some child) : ∃ k, (k, child) ∈ acc := by
  unfold getChild at h
  split at h
  · exact ⟨_, c19_alookup_mem h⟩
  · split at h
    · cases h
    · exact ⟨_, c19_alookup_mem h⟩

theorem getChild_cons {sk : CompKind} {name : Key} {acc : List (Key × Node)} {child : Node}
    (hacc : allConsistent acc = true) (h : getChild sk name acc = some child) : FlagsConsistent child = true := by
  obtain ⟨k, hm⟩ := getChild_mem h
  exact ((consistentList_iff none acc).1 hacc (k, child) hm).2

theorem setChild_cons {kw : Option ChildKw} {pf : Flags} {pk : CompKind} (hle : KwLe kw pf pk) {name : Key}
    {v : Node} {cs cs' : List (Key × Node)} (hv : FlagsConsistent v = true)
    (hcs : consistentList kw cs = true) (h : setChild pf pk name v cs = .ok cs') :
    consistentList kw cs' = true := by
  have ha := adopt_cons pf pk hv
  have hk : ∀ kw', kw = some kw' → childFlagsOK kw' (adopt pf pk v).flags = true :=
    fun kw' e => ha.2 kw' (hle kw' e)
  unfold setChild at h
  split at h
  · cases h; exact aset_consistent ha.1 hk hcs
  · split at h
    · cases h
    · cases h; exact aset_consistent ha.1 hk hcs

theorem listDelAt_cons {kw : Option ChildKw} {pf : Flags} {pk : CompKind} (hle : KwLe kw pf pk) (i : Nat)
    {cs : List (Key × Node)} (hcs : consistentList kw cs = true) :
    consistentList kw (listDelAt pf pk i cs) = true := by
  rw [consistentList_iff] at hcs ⊢
  intro kv hm
  have hm2 := c19_mem_renumFrom hm
  rcases List.mem_append.1 hm2 with h1 | h1
  · obtain ⟨x, hx, e⟩ := List.mem_map.1 h1
    rw [← e]
    exact hcs x (List.mem_of_mem_take hx)
  · obtain ⟨x, hx, e⟩ := List.mem_map.1 h1
    rw [← e]
    have ha := adopt_cons pf pk (hcs x (List.mem_of_mem_drop hx)).2
    exact ⟨fun kw' e' => ha.2 kw' (hle kw' e'), ha.1⟩

theorem removeChild_cons {kw : Option ChildKw} {pf : Flags} {pk : CompKind} (hle : KwLe kw pf pk) {name : Key}
    {cs cs' : List (Key × Node)} (hcs : consistentList kw cs = true)
    (h : removeChild pf pk name cs = some cs') : consistentList kw cs' = true := by
  unfold removeChild at h
  split at h
  · split at h
    · cases h; exact aerase_consistent _ hcs
    · cases h
  · split at h
    · cases h
    · cases h; exact listDelAt_cons hle _ hcs

theorem removeChildE_cons {kw : Option ChildKw} {pf : Flags} {pk : CompKind} (hle : KwLe kw pf pk) {name : Key}
    {cs cs' : List (Key × Node)} (hcs : consistentList kw cs = true)
    (h : removeChildE pf pk name cs = .ok cs') : consistentList kw cs' = true := by
  unfold removeChildE at h
  split at h
  · rename_i cs'' hr; cases h; exact removeChild_cons hle hcs hr
  · cases h

theorem replaceChild_cons (pk : CompKind) (key : Key) {v : Node} {cs : List (Key × Node)}
    (hv : FlagsConsistent v = true) (hcs : allConsistent cs = true) :
    allConsistent (replaceChild pk key v cs) = true := by
  have hk : ∀ kw', (none : Option ChildKw) = some kw' → childFlagsOK kw' v.flags = true := fun _ e => by cases e
  unfold replaceChild
  split
  · exact aset_consistent hv hk hcs
  · split
    · exact aset_consistent hv hk hcs
    · exact hcs

theorem adoptAll_cons (pf : Flags) (pk : CompKind) : ∀ (items acc cs' : List (Key × Node)),
    allConsistent items = true → allConsistent acc = true → adoptAll pf pk items acc = .ok cs' →
    allConsistent cs' = true
  | [], acc, cs', _, hacc, h => by simp only [adoptAll] at h; cases h; exact hacc
  | (k, v) :: rest, acc, cs', hi, hacc, h => by
    rw [allConsistent_cons] at hi
    simp only [adoptAll] at h
    split at h
    · cases h
    · rename_i acc' hs
      exact adoptAll_cons pf pk rest acc' cs' hi.2 (setChild_cons (kwLe_none pf pk) hi.1 hacc hs) h

theorem removeMany_cons {kw : Option ChildKw} {pf : Flags} {pk : CompKind} (hle : KwLe kw pf pk) :
    ∀ (names : List Key) (cs : List (Key × Node)), consistentList kw cs = true →
    consistentList kw (removeMany pf pk names cs) = true
  | [], cs, h => by simpa [removeMany] using h
  | nm :: rest, cs, h => by
    simp only [removeMany]
    split
    · rename_i cs' hr
      exact removeMany_cons hle rest cs' (removeChild_cons hle h hr)
    · exact removeMany_cons hle rest cs h

/-! ### `filter_nodes` -/

theorem filterNode_flags (cond : Path → Node → Bool) (pre : Path) (n : Node) :
    (filterNode cond pre n).1.flags = n.flags := by
  cases n <;> rfl

mutual
theorem filterNode_cons (cond : Path → Node → Bool) : ∀ (pre : Path) (n : Node), FlagsConsistent n = true →
    FlagsConsistent (filterNode cond pre n).1 = true
  | _, .leaf f k, _ => rfl
  | pre, .comp f k cs, h => by
    simp only [FlagsConsistent] at h
    simp only [filterNode, FlagsConsistent]
    exact removeMany_cons (kwLe_self f k) _ _ (filterList_cons cond (childKw f k) pre cs h)
theorem filterList_cons (cond : Path → Node → Bool) (kw : Option ChildKw) : ∀ (pre : Path) (cs : List (Key × Node)),
    consistentList kw cs = true → consistentList kw (dropMarks (filterList cond pre cs).1) = true
  | _, [], _ => by simp [filterList, dropMarks, consistentList]
  | pre, (name, child) :: rest, h => by
    rw [consistentList_cons] at h
    simp only [filterList, dropMarks]
    rw [consistentList_cons]
    refine ⟨?_, filterNode_cons cond (pre ++ [name]) child h.2.1, filterList_cons cond kw pre rest h.2.2⟩
    intro kw' e
    rw [filterNode_flags]
    exact h.1 kw' e
end

/-! ### the merge algebra -/

theorem consistentBelow_setFlags' {n : Node} (f : Flags) (h : ConsistentBelow n = true) :
    ConsistentBelow (n.setFlags f) = true := by
  cases n <;> exact h

theorem leafRule_cons {s o : Node} (hs : ConsistentBelow s = true) (ho : ConsistentBelow o = true) :
    FlagsConsistent (leafRule s o).1 = true := by
  unfold leafRule
  split
  · exact propagate_cons (consistentBelow_setFlags' _ hs)
  · exact propagate_cons (consistentBelow_setFlags' _ ho)

theorem maybePromote_below {sf : Flags} {sk : CompKind} {scs : List (Key × Node)} {o r : Node} {b : Bool}
    (hscs : allConsistent scs = true) (h : maybePromote sf sk scs o = .ok (r, b)) : ConsistentBelow r = true := by
  have nil : allConsistent [] = true := nil_cons
  unfold maybePromote at h
  split at h
  · cases h; exact hscs
  · rename_i of ok ocs
    repeat' split at h
    all_goals first
      | (cases h; exact hscs)
      | (rename_i cs' ha; cases h; exact adoptAll_cons _ _ _ _ _ hscs nil ha)
      | cases h

theorem finishMerge_cons {sf : Flags} {sk : CompKind} {scs : List (Key × Node)} {o r : Node} {b : Bool}
    (hscs : allConsistent scs = true) (h : finishMerge sf sk scs o = .ok (r, b)) : FlagsConsistent r = true := by
  unfold finishMerge at h
  split at h
  · split at h
    · cases h
    · rename_i r' same hp; cases h; exact propagate_cons (maybePromote_below hscs hp)
  · split at h
    · cases h
    · rename_i r' same hp; cases h; exact propagate_cons (maybePromote_below hscs hp)

/-- what the loop needs from the recursive merge -/
def RecCons (rec : Node → Node → Except Err (Node × Bool)) : Prop :=
  ∀ a b r s, FlagsConsistent a = true → FlagsConsistent b = true → rec a b = .ok (r, s) → FlagsConsistent r = true

theorem mergeStep_cons {exc : List Path} {rec : Node → Node → Except Err (Node × Bool)} (hrec : RecCons rec) {sf : Flags}
    {sk : CompKind} {acc acc' : List (Key × Node)} {kv : Key × Node} (hacc : allConsistent acc = true)
    (hkv : FlagsConsistent kv.2 = true) (h : mergeStep rec sf sk exc acc kv = .ok acc') :
    allConsistent acc' = true := by
  have hle := kwLe_none sf sk
  unfold mergeStep at h
  split at h
  · split at h
    · cases h
    · exact setChild_cons hle hkv hacc h
  · rename_i child hg
    have hchild := getChild_cons hacc hg
    split at h
    · cases h
    · rename_i nw same hr
      have hnw := hrec _ _ _ _ hchild hkv hr
      split at h
      · split at h
        · exact removeChildE_cons hle hacc h
        · split at h
          · cases h; exact replaceChild_cons _ _ hnw hacc
          · exact setChild_cons hle hnw hacc h
      · split at h
        · cases h; exact replaceChild_cons _ _ hnw hacc
        · split at h
          · cases h
          · split at h
            · exact removeChildE_cons hle hacc h
            · exact setChild_cons hle hnw hacc h

theorem mergeLoop_cons {exc : List Path} {rec : Node → Node → Except Err (Node × Bool)} (hrec : RecCons rec) (sf : Flags)
    (sk : CompKind) : ∀ (acc ocs acc' : List (Key × Node)), allConsistent acc = true → allConsistent ocs = true →
    mergeLoop rec sf sk exc acc ocs = .ok acc' → allConsistent acc' = true
  | acc, [], acc', hacc, _, h => by simp only [mergeLoop] at h; cases h; exact hacc
  | acc, kv :: rest, acc', hacc, ho, h => by
    obtain ⟨k, v⟩ := kv
    rw [allConsistent_cons] at ho
    simp only [mergeLoop] at h
    split at h
    · cases h
    · rename_i acc1 hs
      exact mergeLoop_cons hrec sf sk acc1 rest acc' (mergeStep_cons hrec hacc ho.1 hs) ho.2 h

theorem filterNode_below (cond : Path → Node → Bool) (pre : Path) (f : Flags) (k : CompKind)
    {cs : List (Key × Node)} (h : allConsistent cs = true) :
    allConsistent (filterNode cond pre (.comp f k cs)).1.children = true := by
  simp only [filterNode, Node.children]
  exact removeMany_cons (kwLe_none f k) _ _ (filterList_cons cond none pre cs h)

theorem compMerge_cons {rec : Node → Node → Except Err (Node × Bool)} (hrec : RecCons rec) {sf : Flags}
    {sk : CompKind} {scs : List (Key × Node)} {o r : Node} {b : Bool} (hscs : allConsistent scs = true)
    (ho : FlagsConsistent o = true) (h : compMerge rec sf sk scs o = .ok (r, b)) : FlagsConsistent r = true := by
  cases o with
  | leaf of lk =>
    simp only [compMerge, Except.ok.injEq] at h
    have e1 : r = (leafRule (.comp sf sk scs) (.leaf of lk)).1 := by rw [h]
    subst e1
    exact leafRule_cons hscs rfl
  | comp of ok ocs =>
    have hocs : allConsistent ocs = true := by
      simp only [FlagsConsistent] at ho; exact consistentList_weaken ho
    simp only [compMerge] at h
    split at h
    · split at h
      · split at h
        · cases h
        · split at h
          · cases h
          · rename_i res sameAsOther hp
            cases h
            exact propagate_cons (maybePromote_below hocs hp)
      · split at h
        · cases h
        · rename_i scs' hl
          exact finishMerge_cons (mergeLoop_cons hrec sf sk _ ocs scs' (filterNode_below _ _ sf sk hscs) hocs hl) h
    · split at h
      · cases h
      · rename_i scs' hl
        exact finishMerge_cons (mergeLoop_cons hrec sf sk _ ocs scs' hscs hocs hl) h

theorem listMerge_cons {rec : Node → Node → Except Err (Node × Bool)} (hrec : RecCons rec) {sf : Flags}
    {sk : CompKind} {scs : List (Key × Node)} {o r : Node} {b : Bool} (hscs : allConsistent scs = true)
    (ho : FlagsConsistent o = true) (h : listMerge rec sf sk scs o = .ok (r, b)) : FlagsConsistent r = true := by
  cases o with
  | leaf of lk => exact compMerge_cons hrec hscs ho (by simpa only [listMerge] using h)
  | comp of ok ocs =>
    simp only [listMerge] at h
    split at h
    · cases h
    · exact compMerge_cons hrec hscs (filterNode_cons _ _ _ ho) h

theorem comp_propagate_cons (f : Flags) (k : CompKind) {cs : List (Key × Node)} (h : allConsistent cs = true) :
    FlagsConsistent (propagate (.comp f k cs)) = true :=
  propagate_cons (n := .comp f k cs) h

theorem funcMerge_cons {rec : Node → Node → Except Err (Node × Bool)} (hrec : RecCons rec) {sf : Flags}
    {sk : CompKind} {f : String} {scs : List (Key × Node)} {o r : Node} {b : Bool}
    (hscs : allConsistent scs = true) (ho : FlagsConsistent o = true)
    (h : funcMerge rec sf sk f scs o = .ok (r, b)) : FlagsConsistent r = true := by
  cases o with
  | leaf of lk =>
    simp only [funcMerge] at h
    split at h
    · split at h
      · split at h
        · cases h; exact comp_propagate_cons _ _ nil_cons
        · cases h; exact comp_propagate_cons _ _ hscs
      · cases h; exact comp_propagate_cons _ _ hscs
    · exact compMerge_cons hrec hscs ho h
  | comp of ok ocs =>
    simp only [funcMerge] at h
    split at h
    · exact compMerge_cons hrec hscs ho h
    · split at h
      · split at h
        · cases h; exact comp_propagate_cons _ _ hscs
        · refine compMerge_cons hrec ?_ ho h
          split
          · exact nil_cons
          · exact hscs
      · exact compMerge_cons hrec hscs ho h

/-- `on_merge` keeps trees consistent, at every fuel -/
theorem mergeF_cons : ∀ (fuel : Nat), RecCons (mergeF fuel)
  | 0 => fun a b r s _ _ h => by simp [mergeF] at h
  | fuel + 1 => fun a b r s ha hb h => by
    have ih := mergeF_cons fuel
    cases a with
    | leaf f k =>
      simp only [mergeF, Except.ok.injEq] at h
      have e1 : r = (leafRule (.leaf f k) b).1 := by rw [h]
      subst e1
      exact leafRule_cons rfl (consistentBelow_of_consistent hb)
    | comp sf sk scs =>
      have hscs : allConsistent scs = true := by
        simp only [FlagsConsistent] at ha; exact consistentList_weaken ha
      cases sk with
      | dict => exact compMerge_cons ih hscs hb (by simpa only [mergeF] using h)
      | call g => exact funcMerge_cons ih hscs hb (by simpa only [mergeF] using h)
      | bind g => exact funcMerge_cons ih hscs hb (by simpa only [mergeF] using h)
      | list => exact listMerge_cons ih hscs hb (by simpa only [mergeF] using h)
      | append => exact listMerge_cons ih hscs hb (by simpa only [mergeF] using h)
      | extend => exact listMerge_cons ih hscs hb (by simpa only [mergeF] using h)
      | path p => exact listMerge_cons ih hscs hb (by simpa only [mergeF] using h)
      | stream => exact listMerge_cons ih hscs hb (by simpa only [mergeF] using h)

theorem merge_cons {a b m : Node} (ha : FlagsConsistent a = true) (hb : FlagsConsistent b = true)
    (h : merge a b = .ok m) : FlagsConsistent m = true := by
  unfold merge at h
  split at h
  · cases h
  · rename_i r s hm
    cases h
    exact mergeF_cons _ a b _ s ha hb hm

end AY
