/-
  AY.Lemmas.C16Frame — consequences of the characterisation of `removeNode`: the detached node is
  the one `getNode` finds, it is gone afterwards (mapping parents), every path that leaves the
  removed path is untouched (mapping parents) / every path that leaves the parent path is untouched
  (all parents), the ancestors keep flags, class and keys; list parents: `listDelAt` on the data.
-/
import AY.Lemmas.C16Remove
import AY.Lemmas.DataTree
namespace AY

theorem c16_snoc_inj {pp pp' : Path} {key key' : Key} (h : pp ++ [key] = pp' ++ [key']) :
    pp = pp' ∧ key = key' := by
  have := List.append_inj' h rfl
  exact ⟨this.1, by simpa using this.2⟩

/-- `removeNode` on `pp ++ [key]` with the parent known -/
theorem c16_removeNode_parent {pp : Path} {key : Key} {root d root' : Node} {pf : Flags}
    {pk : CompKind} {pcs : List (Key × Node)}
    (h : removeNode root (pp ++ [key]) = some (d, root'))
    (hp : getNode root pp = some (.comp pf pk pcs)) :
    ∃ pcs', alookup key pcs = some d ∧ removeChild pf pk key pcs = some pcs' ∧
      root' = setNodeAt root pp (.comp pf pk pcs') := by
  obtain ⟨pp1, key1, pf1, pk1, pcs1, pcs', e1, e2, e3, e4, e5⟩ := c16_removeNode_char _ _ _ _ h
  obtain ⟨rfl, rfl⟩ := c16_snoc_inj e1
  rw [hp] at e2
  simp only [Option.some.injEq, Node.comp.injEq] at e2
  obtain ⟨rfl, rfl, rfl⟩ := e2
  exact ⟨pcs', e3, e4, e5⟩

theorem c16_removeNode_getNode {tp : Path} {root d root' : Node}
    (h : removeNode root tp = some (d, root')) : getNode root tp = some d := by
  obtain ⟨pp, key, pf, pk, pcs, pcs', e1, e2, e3, _, _⟩ := c16_removeNode_char _ _ _ _ h
  subst e1
  rw [c16_getNode_snoc, e2]
  simpa using e3

/-! ### mapping parents -/

theorem c16_alookup_aerase_self {α : Type} (key : Key) : ∀ cs : List (Key × α),
    keysNodup cs = true → alookup key (aerase key cs) = none
  | [], _ => rfl
  | (k', v) :: rest, h => by
    have h' : (akeys rest).contains k' = false ∧ keysNodup rest = true := by
      simpa [keysNodup] using h
    by_cases hk : k' = key
    · subst hk
      simp only [aerase, if_true]
      exact (alookup_none_iff k' rest).2 h'.1
    · simp only [aerase, hk, if_false, alookup]
      exact c16_alookup_aerase_self key rest h'.2

theorem c16_removeChild_dict {pf : Flags} {pk : CompKind} {key : Key} {pcs pcs' : List (Key × Node)}
    (hk : pk.isDictFam = true) (h : removeChild pf pk key pcs = some pcs') : pcs' = aerase key pcs := by
  simp only [removeChild, hk, if_true] at h
  split at h
  · injection h with h; exact h.symm
  · cases h

theorem c16_removed_dict {pp : Path} {key : Key} {root d root' : Node} {pf : Flags}
    {pk : CompKind} {pcs : List (Key × Node)}
    (h : removeNode root (pp ++ [key]) = some (d, root'))
    (hp : getNode root pp = some (.comp pf pk pcs)) (hk : pk.isDictFam = true)
    (hnd : keysNodup pcs = true) : getNode root' (pp ++ [key]) = none := by
  obtain ⟨pcs', _, e4, e5⟩ := c16_removeNode_parent h hp
  have := c16_removeChild_dict hk e4
  subst this
  rw [e5, c16_getNode_setNodeAt_below pp [key] root _ _ hp]
  simp [getNode, c16_alookup_aerase_self key pcs hnd]

/-- all parents: what leaves the path of the parent container is untouched -/
theorem c16_frame_outside_parent {pp : Path} {key : Key} {root d root' : Node}
    (h : removeNode root (pp ++ [key]) = some (d, root')) (q : Path)
    (h1 : ¬ pp <+: q) (h2 : ¬ q <+: pp) : getNode root' q = getNode root q := by
  obtain ⟨pp1, key1, pf, pk, pcs, pcs', e1, _, _, _, e5⟩ := c16_removeNode_char _ _ _ _ h
  obtain ⟨rfl, rfl⟩ := c16_snoc_inj e1
  rw [e5]
  exact c16_getNode_setNodeAt_disjoint pp q root _ h1 h2

/-- mapping parents: what leaves the removed path is untouched -/
theorem c16_frame_dict {pp : Path} {key : Key} {root d root' : Node} {pf : Flags}
    {pk : CompKind} {pcs : List (Key × Node)}
    (h : removeNode root (pp ++ [key]) = some (d, root'))
    (hp : getNode root pp = some (.comp pf pk pcs)) (hk : pk.isDictFam = true) (q : Path)
    (h1 : ¬ (pp ++ [key]) <+: q) (h2 : ¬ q <+: (pp ++ [key])) :
    getNode root' q = getNode root q := by
  by_cases hpre : pp <+: q
  · obtain ⟨r, rfl⟩ := hpre
    obtain ⟨pcs', _, e4, e5⟩ := c16_removeNode_parent h hp
    have := c16_removeChild_dict hk e4
    subst this
    cases r with
    | nil => exact absurd (by simp) h2
    | cons k' r' =>
      have hne : key ≠ k' := by
        intro e; subst e
        exact h1 ((List.prefix_append_right_inj pp).2 (by simp))
      rw [e5, c16_getNode_setNodeAt_below pp _ root _ _ hp, c16_getNode_append, hp]
      simp only [Option.bind_some, getNode, alookup_aerase k' key hne]
  · have h2' : ¬ q <+: pp := fun hq => h2 (hq.trans (List.prefix_append _ _))
    exact c16_frame_outside_parent h q hpre h2'

/-- the containers above the removed node keep their flags, class and keys (the parent loses
    one entry: see `c16_removeNode_parent`) -/
theorem c16_ancestor {q r : Path} {root d root' : Node} {f : Flags} {k : CompKind}
    {cs : List (Key × Node)} (h : removeNode root (q ++ r) = some (d, root'))
    (hq : getNode root q = some (.comp f k cs)) (hr : r ≠ []) :
    ∃ cs', getNode root' q = some (.comp f k cs') ∧
      (r.length ≠ 1 → akeys cs' = akeys cs) := by
  obtain ⟨pp, key, pf, pk, pcs, pcs', e1, e2, e3, e4, e5⟩ := c16_removeNode_char _ _ _ _ h
  -- r = r0 ++ [key], pp = q ++ r0
  have hr' : ∃ r0, r = r0 ++ [key] ∧ pp = q ++ r0 := by
    have hne : r ≠ [] := hr
    have hd : r = r.dropLast ++ [r.getLast hne] := (List.dropLast_concat_getLast hne).symm
    rw [hd, ← List.append_assoc] at e1
    obtain ⟨a, b⟩ := c16_snoc_inj e1
    exact ⟨r.dropLast, by rw [← b]; exact hd, a.symm⟩
  obtain ⟨r0, rfl, rfl⟩ := hr'
  cases r0 with
  | nil =>
    simp only [List.append_nil] at e2 e5
    rw [hq] at e2
    simp only [Option.some.injEq, Node.comp.injEq] at e2
    obtain ⟨rfl, rfl, rfl⟩ := e2
    rw [e5, c16_getNode_setNodeAt_self q root _ _ hq]
    exact ⟨pcs', rfl, by simp⟩
  | cons k1 r1 =>
    obtain ⟨cs', hc, hk⟩ := c16_getNode_setNodeAt_above q (k1 :: r1) root (.comp pf pk pcs') _ f k cs
      (by simp) e2 hq
    rw [e5]
    exact ⟨cs', hc, fun _ => hk⟩

/-! ### list parents -/

theorem c16_validateIndex_lt {len : Nat} {key : Key} {i : Nat}
    (h : validateIndex len true key = some i) : i < len := by
  cases key with
  | int j =>
    simp only [validateIndex, Bool.and_true] at h
    split at h
    · cases h
    · rename_i hc
      simp only [Bool.or_eq_true, decide_eq_true_eq, not_or] at hc
      injection h with h
      subst h
      split <;> omega
  | str s => simp [validateIndex] at h
  | float s => simp [validateIndex] at h

theorem c16_validateIndex_nonneg {len : Nat} {i : Nat} (h : i < len) :
    validateIndex len true (.int (i : Int)) = some i := by
  simp only [validateIndex, Bool.and_true]
  split
  · rename_i hc
    simp only [Bool.or_eq_true, decide_eq_true_eq] at hc
    omega
  · have : ¬ ((i : Int) < 0) := by omega
    simp [this]; omega

theorem c16_removeChild_list {pf : Flags} {pk : CompKind} {key : Key} {pcs pcs' : List (Key × Node)}
    (hk : pk.isListFam = true) (h : removeChild pf pk key pcs = some pcs') :
    ∃ i, validateIndex pcs.length true key = some i ∧ i < pcs.length ∧ pcs' = listDelAt pf pk i pcs := by
  have hd : pk.isDictFam = false := by simpa [CompKind.isListFam] using hk
  simp only [removeChild, hd] at h
  cases hv : validateIndex pcs.length true key with
  | none => simp [hv] at h
  | some i =>
    simp only [hv] at h
    injection h with h
    exact ⟨i, rfl, c16_validateIndex_lt hv, h.symm⟩

theorem c16_nativeVals_listDelAt (pf : Flags) (pk : CompKind) (i : Nat) (cs : List (Key × Node)) :
    nativeVals (listDelAt pf pk i cs) = (nativeVals cs).eraseIdx i := by
  rw [listDelAt, c16_nativeVals_renum, c16_nativeVals_eq_map, List.eraseIdx_eq_take_drop_succ]
  simp only [List.map_append, List.map_map, List.map_take, List.map_drop]
  congr 2
  apply List.map_congr_left
  intro kv _
  simp [native_adopt]

theorem c16_listKeys_renumFrom : ∀ (i : Nat) (xs : List Node), listKeys i (renumFrom i xs) = true
  | _, [] => rfl
  | i, x :: xs => by simp [renumFrom, listKeys, c16_listKeys_renumFrom (i + 1) xs]

theorem c16_listKeys_listDelAt (pf : Flags) (pk : CompKind) (i : Nat) (cs : List (Key × Node)) :
    listKeys 0 (listDelAt pf pk i cs) = true := c16_listKeys_renumFrom 0 _

theorem c16_length_listDelAt (pf : Flags) (pk : CompKind) (i : Nat) (cs : List (Key × Node))
    (h : i < cs.length) : (listDelAt pf pk i cs).length = cs.length - 1 := by
  simp only [listDelAt, renum, length_renumFrom, List.length_append, List.length_map,
    List.length_take, List.length_drop]
  omega

/-- in a numbered list `alookup (int j)` is positional -/
theorem c16_alookup_listKeys : ∀ (s : Nat) (cs : List (Key × Node)) (key : Key) (d : Node),
    listKeys s cs = true → alookup key cs = some d →
    ∃ j : Nat, key = .int ((s + j : Nat) : Int) ∧ j < cs.length ∧ (cs.map (·.2))[j]? = some d
  | _, [], _, _, _, h => by simp [alookup] at h
  | s, (k', c) :: rest, key, d, hl, h => by
    have hl' : k' = Key.int (s : Int) ∧ listKeys (s + 1) rest = true := by simpa [listKeys] using hl
    by_cases hk : k' = key
    · simp only [alookup, hk, if_true, Option.some.injEq] at h
      exact ⟨0, by rw [← hk, hl'.1]; rfl, by simp, by simp [h]⟩
    · simp only [alookup, hk, if_false] at h
      obtain ⟨j, e1, e2, e3⟩ := c16_alookup_listKeys (s + 1) rest key d hl'.2 h
      refine ⟨j + 1, ?_, by simp; omega, by simpa using e3⟩
      rw [e1]; congr 2; omega

end AY
