/-
  AY.Lemmas.EvalLemmas — structural lemmas about the evaluator model (AY/Model/Eval.lean) shared
  by the property files C07 / C09 / C10 / C11.

  * `bump` / `enter` / `finish`: the three state changes `evalNodeF` makes around `evalImpl`
    (`evalNodeF_succ` is the definitional unfolding, `evalNodeF_ok_inv` the inversion of a
    successful run).
  * `Calls`: the recursive calls `evalImpl` can make for a node; `evalImpl_lift` lifts any
    invariant/preorder pair through `evalImpl` (one case analysis for all properties).
  * `Placed`: "node `n` sits at path `p` of `root`".
-/
import AY.Model.Eval
namespace AY

/-! ### `plookup` / `contains` -/

theorem contains_path_iff (p : Path) (l : List Path) : l.contains p = true ↔ p ∈ l := by
  simp

theorem plookup_cons (p q : Path) (v : Val) (c : List (Path × Val)) :
    plookup p ((q, v) :: c) = if q = p then some v else plookup p c := rfl

/-! ### the phases of `evalNodeF` -/

/-- visiting an unsafe node bumps the counter -/
def bump (n : Node) (st : EvSt) : EvSt :=
  if !eSafe n.flags then { st with unsafeSeen := st.unsafeSeen + 1 } else st

/-- entering the evaluation of `path` -/
def enter (path : Path) (st0 : EvSt) : EvSt :=
  { st0 with
    inProgress := path :: st0.inProgress,
    touched := match path with
      | k :: _ :: _ => if st0.touched.contains k then st0.touched else k :: st0.touched
      | _ => st0.touched }

/-- memoising the result, tainting it when an unsafe node was visited meanwhile -/
def finish (n : Node) (path : Path) (v : Val) (seen0 : Nat) (st2 : EvSt) : EvSt :=
  { st2 with
    cache := (path, v) :: st2.cache,
    tainted := if (st2.unsafeSeen != seen0 || !eSafe n.flags) then path :: st2.tainted else st2.tainted,
    inProgress := st2.inProgress.erase path }

/-- reading a tainted memo entry in non-strict mode: the consumer has now seen unsafe content -/
def seeTaint (st : EvSt) : EvSt := { st with unsafeSeen := st.unsafeSeen + 1 }

/-- the state after a memo hit on `path` -/
def hit (n : Node) (path : Path) (st : EvSt) : EvSt :=
  if st.tainted.contains path then seeTaint (bump n st) else bump n st

@[simp] theorem seeTaint_cache (st : EvSt) : (seeTaint st).cache = st.cache := rfl
@[simp] theorem seeTaint_tainted (st : EvSt) : (seeTaint st).tainted = st.tainted := rfl
@[simp] theorem seeTaint_inProgress (st : EvSt) : (seeTaint st).inProgress = st.inProgress := rfl
@[simp] theorem seeTaint_touched (st : EvSt) : (seeTaint st).touched = st.touched := rfl
@[simp] theorem seeTaint_log (st : EvSt) : (seeTaint st).log = st.log := rfl
@[simp] theorem seeTaint_unsafeSeen (st : EvSt) : (seeTaint st).unsafeSeen = st.unsafeSeen + 1 := rfl

@[simp] theorem bump_cache (n : Node) (st : EvSt) : (bump n st).cache = st.cache := by
  unfold bump; split <;> rfl
@[simp] theorem bump_tainted (n : Node) (st : EvSt) : (bump n st).tainted = st.tainted := by
  unfold bump; split <;> rfl
@[simp] theorem bump_inProgress (n : Node) (st : EvSt) : (bump n st).inProgress = st.inProgress := by
  unfold bump; split <;> rfl
@[simp] theorem bump_touched (n : Node) (st : EvSt) : (bump n st).touched = st.touched := by
  unfold bump; split <;> rfl
@[simp] theorem bump_log (n : Node) (st : EvSt) : (bump n st).log = st.log := by
  unfold bump; split <;> rfl
theorem bump_unsafeSeen (n : Node) (st : EvSt) :
    (bump n st).unsafeSeen = if eSafe n.flags then st.unsafeSeen else st.unsafeSeen + 1 := by
  unfold bump; cases eSafe n.flags <;> rfl
theorem bump_safe {n : Node} (h : eSafe n.flags = true) (st : EvSt) : bump n st = st := by
  simp [bump, h]

@[simp] theorem hit_cache (n : Node) (p : Path) (st : EvSt) : (hit n p st).cache = st.cache := by
  unfold hit; split <;> simp
@[simp] theorem hit_tainted (n : Node) (p : Path) (st : EvSt) : (hit n p st).tainted = st.tainted := by
  unfold hit; split <;> simp
@[simp] theorem hit_inProgress (n : Node) (p : Path) (st : EvSt) : (hit n p st).inProgress = st.inProgress := by
  unfold hit; split <;> simp
@[simp] theorem hit_touched (n : Node) (p : Path) (st : EvSt) : (hit n p st).touched = st.touched := by
  unfold hit; split <;> simp
@[simp] theorem hit_log (n : Node) (p : Path) (st : EvSt) : (hit n p st).log = st.log := by
  unfold hit; split <;> simp
theorem hit_unsafeSeen (n : Node) (p : Path) (st : EvSt) :
    (hit n p st).unsafeSeen = (bump n st).unsafeSeen + (if p ∈ st.tainted then 1 else 0) := by
  unfold hit; by_cases h : p ∈ st.tainted <;> simp [h]
theorem hit_untainted {n : Node} {p : Path} {st : EvSt} (h : p ∉ st.tainted) : hit n p st = bump n st := by
  simp [hit, h]
theorem le_bump_unsafeSeen (n : Node) (st : EvSt) : st.unsafeSeen ≤ (bump n st).unsafeSeen := by
  rw [bump_unsafeSeen]; split <;> omega
theorem le_hit_unsafeSeen (n : Node) (p : Path) (st : EvSt) : st.unsafeSeen ≤ (hit n p st).unsafeSeen := by
  have := le_bump_unsafeSeen n st
  rw [hit_unsafeSeen]; omega

@[simp] theorem enter_cache (p : Path) (st : EvSt) : (enter p st).cache = st.cache := rfl
@[simp] theorem enter_tainted (p : Path) (st : EvSt) : (enter p st).tainted = st.tainted := rfl
@[simp] theorem enter_unsafeSeen (p : Path) (st : EvSt) : (enter p st).unsafeSeen = st.unsafeSeen := rfl
@[simp] theorem enter_inProgress (p : Path) (st : EvSt) : (enter p st).inProgress = p :: st.inProgress := rfl
@[simp] theorem enter_log (p : Path) (st : EvSt) : (enter p st).log = st.log := rfl

@[simp] theorem finish_cache (n : Node) (p : Path) (v : Val) (s : Nat) (st : EvSt) :
    (finish n p v s st).cache = (p, v) :: st.cache := rfl
@[simp] theorem finish_unsafeSeen (n : Node) (p : Path) (v : Val) (s : Nat) (st : EvSt) :
    (finish n p v s st).unsafeSeen = st.unsafeSeen := rfl
@[simp] theorem finish_inProgress (n : Node) (p : Path) (v : Val) (s : Nat) (st : EvSt) :
    (finish n p v s st).inProgress = st.inProgress.erase p := rfl
@[simp] theorem finish_log (n : Node) (p : Path) (v : Val) (s : Nat) (st : EvSt) :
    (finish n p v s st).log = st.log := rfl
@[simp] theorem finish_touched (n : Node) (p : Path) (v : Val) (s : Nat) (st : EvSt) :
    (finish n p v s st).touched = st.touched := rfl
theorem finish_tainted (n : Node) (p : Path) (v : Val) (s : Nat) (st : EvSt) :
    (finish n p v s st).tainted =
      if (st.unsafeSeen != s || !eSafe n.flags) then p :: st.tainted else st.tainted := rfl

/-- definitional unfolding of one step of `evalNodeF` in terms of the phases -/
theorem evalNodeF_succ (root : Node) (w : World) (fuel : Nat) (rs : Bool) (n : Node) (path : Path)
    (st : EvSt) :
    evalNodeF root w (fuel + 1) rs n path st =
      if rs && !eSafe n.flags then .error .unsafeE
      else
        match plookup path (bump n st).cache with
        | some v =>
          if (bump n st).tainted.contains path then
            if rs then .error .unsafeE else .ok (v, seeTaint (bump n st))
          else .ok (v, bump n st)
        | none =>
          if (bump n st).inProgress.contains path then .error .recursion
          else
            match evalImpl (evalNodeF root w fuel) root w rs n path (enter path (bump n st)) with
            | .error e => .error e
            | .ok (v, st2) => .ok (v, finish n path v (bump n st).unsafeSeen st2) := rfl

theorem evalNodeF_zero (root : Node) (w : World) (rs : Bool) (n : Node) (path : Path) (st : EvSt) :
    evalNodeF root w 0 rs n path st = .error .unsupported := rfl

/-- inversion of a successful `evalNodeF`: a cache hit or a fresh evaluation -/
theorem evalNodeF_ok_inv {root : Node} {w : World} {fuel : Nat} {rs : Bool} {n : Node} {path : Path}
    {st st' : EvSt} {v : Val}
    (h : evalNodeF root w (fuel + 1) rs n path st = .ok (v, st')) :
    (rs = true → eSafe n.flags = true) ∧
    ((plookup path st.cache = some v ∧ (rs = true → path ∉ st.tainted) ∧ st' = hit n path st) ∨
     (plookup path st.cache = none ∧ path ∉ st.inProgress ∧
      ∃ st2, evalImpl (evalNodeF root w fuel) root w rs n path (enter path (bump n st)) = .ok (v, st2) ∧
        st' = finish n path v (bump n st).unsafeSeen st2)) := by
  rw [evalNodeF_succ] at h
  split at h
  · cases h
  · rename_i hg
    refine ⟨?_, ?_⟩
    · intro hrs
      cases hs : eSafe n.flags
      · simp [hrs, hs] at hg
      · rfl
    · split at h
      · rename_i v' hv
        left
        split at h
        · rename_i ht
          have ht' : path ∈ st.tainted := by simpa using ht
          split at h
          · cases h
          · rename_i hrs
            cases h
            refine ⟨by simpa using hv, fun h' => absurd h' hrs, by simp [hit, ht']⟩
        · rename_i ht
          have ht' : path ∉ st.tainted := by simpa using ht
          cases h
          exact ⟨by simpa using hv, fun _ => ht', by simp [hit, ht']⟩
      · rename_i hv
        split at h
        · cases h
        · rename_i hip
          right
          refine ⟨by simpa using hv, by simpa using hip, ?_⟩
          split at h
          · cases h
          · rename_i v2 st2 he
            cases h
            exact ⟨st2, he, rfl⟩

/-! ### node placement -/

/-- `n` sits at path `p` of the tree `root` (following list membership, so that trees with repeated
    keys are covered too) -/
inductive Placed (root : Node) : Node → Path → Prop
  | root : Placed root root []
  | child {f : Flags} {k : CompKind} {cs : List (Key × Node)} {p : Path} {key : Key} {c : Node} :
      Placed root (.comp f k cs) p → (key, c) ∈ cs → Placed root c (p ++ [key])

theorem alookup_mem {α : Type} {k : Key} {v : α} : ∀ {l : List (Key × α)}, alookup k l = some v → (k, v) ∈ l
  | [], h => by simp [alookup] at h
  | (k', v') :: rest, h => by
    unfold alookup at h
    split at h
    · rename_i hk
      cases h; subst hk; exact List.mem_cons_self
    · exact List.mem_cons_of_mem _ (alookup_mem h)

theorem Placed.of_getNode_aux {root : Node} : ∀ (q : Path) (m : Node) (p : Path) (n : Node),
    Placed root m p → getNode m q = some n → Placed root n (p ++ q)
  | [], m, p, n, hp, h => by
    simp [getNode] at h; subst h; simpa using hp
  | key :: rest, .leaf .., p, n, hp, h => by simp [getNode] at h
  | key :: rest, .comp f k cs, p, n, hp, h => by
    unfold getNode at h
    split at h
    · cases h
    · rename_i c hc
      have := Placed.of_getNode_aux rest c (p ++ [key]) n (Placed.child hp (alookup_mem hc)) h
      simpa using this

/-- the node `get_node` finds is placed at that path -/
theorem Placed.of_getNode {root n : Node} {p : Path} (h : getNode root p = some n) : Placed root n p := by
  simpa using Placed.of_getNode_aux p root [] n Placed.root h

/-! ### dynamic nodes -/

/-- the log label of a node that executes something -/
def dynWhat : Node → Option String
  | .leaf _ (.imp m) => some ("import:" ++ m)
  | .leaf _ (.eval _) => some "eval"
  | .comp _ (.call fn) _ => some ("call:" ++ fn)
  | .comp _ (.bind fn) _ => some ("bind:" ++ fn)
  | _ => none

/-- `n` is a dynamic node (`!call`, `!bind`, `!eval`, `!import`) with label `what` and it is safe -/
def DynSafe (n : Node) (what : String) : Prop := eSafe n.flags = true ∧ dynWhat n = some what

/-! ### the recursive calls of `evalImpl` -/

/-- `Calls root rs n path rs' m p`: evaluating `n` at `path` under `rs` may call the recursive
    evaluator on `(rs', m, p)`: the children (arguments of a call/bind with `rs' = true`), the
    node a cross-reference chain ends in, the top-level entries named by `!eval` code. -/
inductive Calls (root : Node) (rs : Bool) : Node → Path → Bool → Node → Path → Prop
  | item {f : Flags} {k : CompKind} {cs : List (Key × Node)} {path : Path} {key : Key} {c : Node} :
      (key, c) ∈ cs → Calls root rs (.comp f k cs) path (rs || k.isFunc) c (path ++ [key])
  | target {f : Flags} {t : String} {path tp : Path} {m : Node} :
      getNode root tp = some m → Calls root rs (.leaf f (.xref t)) path rs m tp
  | name {f : Flags} {code nm : String} {path : Path} {m : Node} :
      getNode root [Key.str nm] = some m → Calls root rs (.leaf f (.eval code)) path true m [Key.str nm]

theorem Calls.placed {root : Node} {rs rs' : Bool} {n m : Node} {path p : Path}
    (h : Calls root rs n path rs' m p) (hp : Placed root n path) : Placed root m p := by
  cases h with
  | item hm => exact Placed.child hp hm
  | target hg => exact Placed.of_getNode hg
  | name hg => exact Placed.of_getNode hg

theorem Calls.rs_mono {root : Node} {rs rs' : Bool} {n m : Node} {path p : Path}
    (h : Calls root rs n path rs' m p) (hrs : rs = true) : rs' = true := by
  cases h <;> simp [hrs]

/-- inversion of `ctx.get_node`: an untainted memo hit, a tainted memo hit in non-strict mode (which
    bumps the counter), or a node of the tree -/
theorem ctxGetNode_ok_inv {root : Node} {rs : Bool} {p : Path} {st st1 : EvSt} {g : Got}
    (h : ctxGetNode root rs p st = .ok (g, st1)) :
    (∃ v, g = .value v ∧ plookup p st.cache = some v ∧
        ((p ∉ st.tainted ∧ st1 = st) ∨ (p ∈ st.tainted ∧ rs = false ∧ st1 = seeTaint st))) ∨
    (∃ n, g = .node n ∧ plookup p st.cache = none ∧ getNode root p = some n ∧ st1 = st) := by
  unfold ctxGetNode at h
  split at h
  · rename_i v hv
    left
    split at h
    · rename_i ht
      split at h
      · cases h
      · rename_i hrs
        cases h
        exact ⟨v, rfl, hv, .inr ⟨by simpa using ht, by simpa using hrs, rfl⟩⟩
    · rename_i ht
      cases h
      exact ⟨v, rfl, hv, .inl ⟨by simpa using ht, rfl⟩⟩
  · rename_i hv
    right
    split at h
    · cases h
    · rename_i n hn
      cases h
      exact ⟨n, rfl, hv, hn, rfl⟩

/-- in strict mode `ctx.get_node` never changes the state -/
theorem ctxGetNode_strict {root : Node} {p : Path} {st st1 : EvSt} {g : Got}
    (h : ctxGetNode root true p st = .ok (g, st1)) : st1 = st := by
  rcases ctxGetNode_ok_inv h with ⟨_, _, _, ⟨_, e⟩ | ⟨_, hrs, _⟩⟩ | ⟨_, _, _, _, e⟩
  · exact e
  · cases hrs
  · exact e

section lift
variable {I : EvSt → Prop} {R : EvSt → EvSt → Prop}

theorem evalItems_lift (hrefl : ∀ s, R s s) (htrans : ∀ a b c, R a b → R b c → R a c)
    {rec : Rec} {rs : Bool} {path : Path} :
    ∀ (cs : List (Key × Node)) (st : EvSt) (items : List (Key × Val)) (st' : EvSt),
    (∀ key c s v s', (key, c) ∈ cs → I s → rec rs c (path ++ [key]) s = .ok (v, s') → I s' ∧ R s s') →
    I st → evalItems rec rs path cs st = .ok (items, st') → I st' ∧ R st st'
  | [], st, items, st', _, hI, h => by
    simp [evalItems] at h
    obtain ⟨_, rfl⟩ := h
    exact ⟨hI, hrefl _⟩
  | (k, c) :: rest, st, items, st', hrec, hI, h => by
    unfold evalItems at h
    split at h
    · cases h
    · rename_i v st1 h1
      split at h
      · cases h
      · rename_i vs st2 h2
        cases h
        have ⟨hI1, hR1⟩ := hrec k c st v st1 List.mem_cons_self hI h1
        have ⟨hI2, hR2⟩ := evalItems_lift hrefl htrans rest st1 vs st'
          (fun key c s v s' hm => hrec key c s v s' (List.mem_cons_of_mem _ hm)) hI1 h2
        exact ⟨hI2, htrans _ _ _ hR1 hR2⟩

theorem xrefLoop_lift (hrefl : ∀ s, R s s) (htrans : ∀ a b c, R a b → R b c → R a c)
    {rec : Rec} {root : Node} {rs : Bool} {self : Path}
    (hsee : rs = false → ∀ s, I s → I (seeTaint s) ∧ R s (seeTaint s))
    (hrec : ∀ m tp s v s', getNode root tp = some m → I s → rec rs m tp s = .ok (v, s') → I s' ∧ R s s') :
    ∀ (fuel : Nat) (cur : String) (chain : List String) (st : EvSt) (v : Val) (st' : EvSt),
    I st → xrefLoop rec root rs self fuel cur chain st = .ok (v, st') → I st' ∧ R st st'
  | 0, cur, chain, st, v, st', hI, h => by simp [xrefLoop] at h
  | fuel + 1, cur, chain, st, v, st', hI, h => by
    unfold xrefLoop at h
    split at h
    · cases h
    · rename_i tp htp
      split at h
      · cases h
      · rename_i v0 st1 hg
        split at h
        · cases h
        · cases h
          rcases ctxGetNode_ok_inv hg with ⟨_, _, _, ⟨_, rfl⟩ | ⟨_, hrs, rfl⟩⟩ | ⟨_, hn, _⟩
          · exact ⟨hI, hrefl _⟩
          · exact hsee hrs _ hI
          · cases hn
      · rename_i n st1 hg
        split at h
        · cases h
        · rcases ctxGetNode_ok_inv hg with ⟨_, hn, _⟩ | ⟨n', hn, _, hgn, rfl⟩
          · cases hn
          · cases hn
            split at h
            · split at h
              · split at h
                · cases h
                · rename_i hrs
                  have hs := hsee (by simpa using hrs) _ hI
                  have := xrefLoop_lift hrefl htrans hsee hrec fuel _ _ _ v st' hs.1 h
                  exact ⟨this.1, htrans _ _ _ hs.2 this.2⟩
              · exact xrefLoop_lift hrefl htrans hsee hrec fuel _ _ _ v st' hI h
            · exact hrec _ _ _ _ _ hgn hI h

theorem ecfgLookup_lift (hrefl : ∀ s, R s s)
    {rec : Rec} {root : Node} {nm : String} {st st' : EvSt} {v : Val}
    (hrec : ∀ m s v s', getNode root [Key.str nm] = some m → I s →
      rec true m [Key.str nm] s = .ok (v, s') → I s' ∧ R s s')
    (hI : I st) (h : ecfgLookup rec root nm st = .ok (v, st')) : I st' ∧ R st st' := by
  unfold ecfgLookup at h
  simp only at h
  split at h
  · split at h
    · cases h
    · cases h; exact ⟨hI, hrefl _⟩
  · split at h
    · cases h
    · split at h
      · cases h
      · rename_i n hn
        exact hrec _ _ _ _ hn hI h

theorem resolveNames_lift (hrefl : ∀ s, R s s) (htrans : ∀ a b c, R a b → R b c → R a c)
    {rec : Rec} {root : Node} {w : World}
    (hrec : ∀ nm m s v s', getNode root [Key.str nm] = some m → I s →
      rec true m [Key.str nm] s = .ok (v, s') → I s' ∧ R s s') :
    ∀ (names : List String) (st : EvSt) (vs : List Val) (st' : EvSt),
    I st → resolveNames rec root w names st = .ok (vs, st') → I st' ∧ R st st'
  | [], st, vs, st', hI, h => by
    simp [resolveNames] at h
    obtain ⟨_, rfl⟩ := h
    exact ⟨hI, hrefl _⟩
  | nm :: rest, st, vs, st', hI, h => by
    unfold resolveNames at h
    simp only at h
    split at h
    · cases h
    · rename_i v st1 h1
      split at h
      · cases h
      · rename_i vs2 st2 h2
        cases h
        have hstep : I st1 ∧ R st st1 := by
          split at h1
          · cases h1; exact ⟨hI, hrefl _⟩
          · split at h1
            · exact ecfgLookup_lift hrefl (hrec nm) hI h1
            · split at h1
              · cases h1; exact ⟨hI, hrefl _⟩
              · cases h1
        have ⟨hI2, hR2⟩ := resolveNames_lift hrefl htrans hrec rest st1 vs2 st' hstep.1 h2
        exact ⟨hI2, htrans _ _ _ hstep.2 hR2⟩

/-- The generic step lemma: an invariant `I` and a preorder `R` that every recursive call
    respects are respected by `evalImpl` up to its own log entry, which is only written for a safe
    dynamic node. -/
theorem evalImpl_lift (hrefl : ∀ s, R s s) (htrans : ∀ a b c, R a b → R b c → R a c)
    {rec : Rec} {root : Node} {w : World} {rs : Bool} {n : Node} {path : Path} {st st' : EvSt} {v : Val}
    (hsee : rs = false → ∀ s, I s → I (seeTaint s) ∧ R s (seeTaint s))
    (hrec : ∀ rs' m p s v s', Calls root rs n path rs' m p → I s → rec rs' m p s = .ok (v, s') → I s' ∧ R s s')
    (hI : I st) (h : evalImpl rec root w rs n path st = .ok (v, st')) :
    ∃ st1, I st1 ∧ R st st1 ∧
      (st' = st1 ∨ ∃ what, DynSafe n what ∧ st' = { st1 with log := st1.log ++ [{ path := path, what := what }] }) := by
  have items : ∀ {f k cs rs' items st1}, n = .comp f k cs → rs' = (rs || k.isFunc) →
      evalItems rec rs' path cs st = .ok (items, st1) → I st1 ∧ R st st1 := by
    intro f k cs rs' items st1 hn hrs' he
    subst hn; subst hrs'
    exact evalItems_lift hrefl htrans cs st items st1
      (fun key c s v s' hm => hrec _ _ _ _ _ _ (Calls.item hm)) hI he
  unfold evalImpl at h
  split at h
  · -- leaf
    rename_i f lk
    split at h
    · cases h; exact ⟨st, hI, hrefl _, .inl rfl⟩
    · cases h; exact ⟨st, hI, hrefl _, .inl rfl⟩
    · rename_i target
      have := xrefLoop_lift (I := I) (R := R) hrefl htrans hsee
        (fun m tp s v s' hg => hrec _ _ _ _ _ _ (Calls.target hg)) _ _ _ _ _ _ hI h
      exact ⟨st', this.1, this.2, .inl rfl⟩
    · cases h
    · cases h
    · cases h; exact ⟨st, hI, hrefl _, .inl rfl⟩
    · rename_i m
      split at h
      · cases h
      · rename_i hs
        split at h
        · cases h
          exact ⟨st, hI, hrefl _, .inr ⟨_, ⟨by simpa [Node.flags] using hs, rfl⟩, rfl⟩⟩
        · cases h
    · rename_i code
      split at h
      · cases h
      · rename_i hs
        split at h
        · cases h
        · rename_i names _
          split at h
          · cases h
          · cases h
          · rename_i vs st1 hr
            cases h
            have := resolveNames_lift (I := I) (R := R) hrefl htrans
              (fun nm m s v s' hg => hrec _ _ _ _ _ _ (Calls.name hg)) _ _ _ _ hI hr
            exact ⟨st1, this.1, this.2, .inr ⟨_, ⟨by simpa [Node.flags] using hs, rfl⟩, rfl⟩⟩
    · cases h
  · -- composed
    rename_i f k cs
    split at h
    · split at h
      · cases h
      · rename_i its st1 he
        cases h
        have := items rfl (by simp [CompKind.isFunc]) he
        exact ⟨_, this.1, this.2, .inl rfl⟩
    iterate 4
      · split at h
        · cases h
        · rename_i its st1 he
          cases h
          have := items rfl (by simp [CompKind.isFunc]) he
          exact ⟨_, this.1, this.2, .inl rfl⟩
    · split at h
      · cases h
      · rename_i its st1 he
        have := items rfl (by simp [CompKind.isFunc]) he
        split at h
        · cases h
        · split at h
          · cases h
          · cases h
            exact ⟨_, this.1, this.2, .inl rfl⟩
    · rename_i fn
      split at h
      · cases h
      · rename_i hs
        split at h
        · split at h
          · split at h <;> cases h
          · cases h
        · split at h
          · cases h
          · rename_i its st1 he
            have := items rfl (by simp [CompKind.isFunc]) he
            split at h
            · cases h
            · split at h
              · cases h
              · cases h
                exact ⟨st1, this.1, this.2, .inr ⟨_, ⟨by simpa [Node.flags] using hs, rfl⟩, rfl⟩⟩
    · rename_i fn
      split at h
      · cases h
      · rename_i hs
        split at h
        · split at h
          · split at h <;> cases h
          · cases h
        · split at h
          · cases h
          · rename_i its st1 he
            have := items rfl (by simp [CompKind.isFunc]) he
            split at h
            · cases h
            · split at h
              · cases h
              · cases h
                exact ⟨st1, this.1, this.2, .inr ⟨_, ⟨by simpa [Node.flags] using hs, rfl⟩, rfl⟩⟩

/-- `evalImpl_lift` with the log entry expressed as a (possibly empty) suffix -/
theorem evalImpl_lift' (hrefl : ∀ s, R s s) (htrans : ∀ a b c, R a b → R b c → R a c)
    {rec : Rec} {root : Node} {w : World} {rs : Bool} {n : Node} {path : Path} {st st' : EvSt} {v : Val}
    (hsee : rs = false → ∀ s, I s → I (seeTaint s) ∧ R s (seeTaint s))
    (hrec : ∀ rs' m p s v s', Calls root rs n path rs' m p → I s → rec rs' m p s = .ok (v, s') → I s' ∧ R s s')
    (hI : I st) (h : evalImpl rec root w rs n path st = .ok (v, st')) :
    ∃ st1 extra, I st1 ∧ R st st1 ∧ st' = { st1 with log := st1.log ++ extra } ∧
      (extra = [] ∨ ∃ what, DynSafe n what ∧ extra = [{ path := path, what := what }]) := by
  obtain ⟨st1, hI1, hR1, hd⟩ := evalImpl_lift hrefl htrans hsee hrec hI h
  rcases hd with rfl | ⟨what, hw, rfl⟩
  · exact ⟨st', [], hI1, hR1, by simp, .inl rfl⟩
  · exact ⟨st1, _, hI1, hR1, rfl, .inr ⟨what, hw, rfl⟩⟩

end lift

/-- a dynamic node that evaluates successfully writes its log entry last -/
theorem evalImpl_dyn_logs {rec : Rec} {root : Node} {w : World} {rs : Bool} {n : Node} {path : Path}
    {st st' : EvSt} {v : Val} {what : String} (hd : dynWhat n = some what)
    (h : evalImpl rec root w rs n path st = .ok (v, st')) :
    ∃ st1 : EvSt, st' = { st1 with log := st1.log ++ [{ path := path, what := what }] } := by
  cases n with
  | leaf f lk =>
    cases lk with
    | imp m =>
      simp only [dynWhat, Option.some.injEq] at hd; subst hd
      simp only [evalImpl] at h
      split at h
      · cases h
      · split at h
        · cases h; exact ⟨_, rfl⟩
        · cases h
    | eval code =>
      simp only [dynWhat, Option.some.injEq] at hd; subst hd
      simp only [evalImpl] at h
      split at h
      · cases h
      · split at h
        · cases h
        · split at h
          · cases h
          · cases h
          · cases h; exact ⟨_, rfl⟩
    | _ => simp [dynWhat] at hd
  | comp f k cs =>
    cases k with
    | call fn =>
      simp only [dynWhat, Option.some.injEq] at hd; subst hd
      simp only [evalImpl] at h
      split at h
      · cases h
      · split at h
        · split at h
          · split at h <;> cases h
          · cases h
        · split at h
          · cases h
          · split at h
            · cases h
            · split at h
              · cases h
              · cases h; exact ⟨_, rfl⟩
    | bind fn =>
      simp only [dynWhat, Option.some.injEq] at hd; subst hd
      simp only [evalImpl] at h
      split at h
      · cases h
      · split at h
        · split at h
          · split at h <;> cases h
          · cases h
        · split at h
          · cases h
          · split at h
            · cases h
            · split at h
              · cases h
              · cases h; exact ⟨_, rfl⟩
    | _ => simp [dynWhat] at hd

/-! ### the state invariant of the evaluator and the extension preorder -/

/-- Invariant of the evaluator state at every call of `evalNodeF`. -/
structure WF (st : EvSt) : Prop where
  /-- a path under evaluation is not memoised yet -/
  prog : ∀ p, p ∈ st.inProgress → plookup p st.cache = none
  /-- tainted paths are memoised paths -/
  taint : ∀ p, p ∈ st.tainted → plookup p st.cache ≠ none
  /-- every execution that was logged belongs to a memoised path -/
  logged : ∀ e, e ∈ st.log → plookup e.path st.cache ≠ none
  /-- no path was executed twice -/
  nodup : (st.log.map (·.path)).Nodup

theorem WF.init : WF {} :=
  ⟨(by intro p h; cases h), (by intro p h; cases h), (by intro e h; cases h), List.nodup_nil⟩

/-- `Ext s s'`: `s'` is a later state of the same evaluation. -/
structure Ext (s s' : EvSt) : Prop where
  prog : s'.inProgress = s.inProgress
  cache : ∀ p v, plookup p s.cache = some v → plookup p s'.cache = some v
  taint : ∀ p, p ∈ s.tainted → p ∈ s'.tainted
  taintNew : ∀ p, p ∈ s'.tainted → p ∈ s.tainted ∨ plookup p s.cache = none
  seen : s.unsafeSeen ≤ s'.unsafeSeen
  log : ∃ new, s'.log = s.log ++ new

theorem Ext.refl (s : EvSt) : Ext s s :=
  ⟨rfl, fun _ _ h => h, fun _ h => h, fun _ h => .inl h, Nat.le_refl _, ⟨[], by simp⟩⟩

theorem Ext.trans (a b c : EvSt) (h1 : Ext a b) (h2 : Ext b c) : Ext a c := by
  refine ⟨h2.prog.trans h1.prog, fun p v h => h2.cache p v (h1.cache p v h),
    fun p h => h2.taint p (h1.taint p h), ?_, Nat.le_trans h1.seen h2.seen, ?_⟩
  · intro p h
    rcases h2.taintNew p h with h | h
    · exact h1.taintNew p h
    · right
      cases hc : plookup p a.cache with
      | none => rfl
      | some v => rw [h1.cache p v hc] at h; cases h
  · obtain ⟨n1, e1⟩ := h1.log
    obtain ⟨n2, e2⟩ := h2.log
    exact ⟨n1 ++ n2, by rw [e2, e1, List.append_assoc]⟩

theorem WF.seeTaint {st : EvSt} (h : WF st) : WF (seeTaint st) :=
  ⟨h.prog, h.taint, h.logged, h.nodup⟩

theorem Ext.seeTaint (st : EvSt) : Ext st (seeTaint st) :=
  ⟨rfl, fun _ _ h => h, fun _ h => h, fun _ h => .inl h, Nat.le_succ _, ⟨[], by simp⟩⟩

/-- Main state lemma: a successful `evalNodeF` keeps the invariant and only extends the state. -/
theorem evalNodeF_wf (root : Node) (w : World) :
    ∀ (fuel : Nat) (rs : Bool) (n : Node) (path : Path) (st : EvSt) (v : Val) (st' : EvSt),
    WF st → evalNodeF root w fuel rs n path st = .ok (v, st') → WF st' ∧ Ext st st'
  | 0, rs, n, path, st, v, st', _, h => by simp [evalNodeF] at h
  | fuel + 1, rs, n, path, st, v, st', hwf, h => by
    obtain ⟨_, hcase⟩ := evalNodeF_ok_inv h
    rcases hcase with ⟨_, _, rfl⟩ | ⟨hnone, hnip, st2, himpl, rfl⟩
    · refine ⟨⟨(by simpa using hwf.prog), (by simpa using hwf.taint), (by simpa using hwf.logged),
        (by simpa using hwf.nodup)⟩, ⟨(by simp), (by simp), (by simp), (by simp; intro p hp; exact .inl hp), ?_, ⟨[], (by simp)⟩⟩⟩
      exact le_hit_unsafeSeen n path st
    · have hwf1 : WF (enter path (bump n st)) := by
        refine ⟨?_, (by simpa using hwf.taint), (by simpa using hwf.logged), (by simpa using hwf.nodup)⟩
        intro p hp
        simp only [enter_inProgress, bump_inProgress, List.mem_cons] at hp
        simp only [enter_cache, bump_cache]
        rcases hp with rfl | hp
        · exact hnone
        · exact hwf.prog p hp
      obtain ⟨s1, extra, hwf1', hext, rfl, hextra⟩ :=
        evalImpl_lift' (I := WF) (R := Ext) Ext.refl Ext.trans
          (fun _ s hs => ⟨hs.seeTaint, Ext.seeTaint s⟩)
          (fun rs' m p s v s' _ hI hr => evalNodeF_wf root w fuel rs' m p s v s' hI hr) hwf1 himpl
      have hprog : s1.inProgress = path :: st.inProgress := by simpa using hext.prog
      have hpathnone : plookup path s1.cache = none := hwf1'.prog path (by simp [hprog])
      refine ⟨⟨?_, ?_, ?_, ?_⟩, ⟨?_, ?_, ?_, ?_, ?_, ?_⟩⟩
      · intro p hp
        simp only [finish_inProgress, hprog, List.erase_cons_head] at hp
        have hne : path ≠ p := fun e => hnip (e ▸ hp)
        simp only [finish_cache, plookup_cons, hne, if_false]
        exact hwf1'.prog p (by simp [hprog, hp])
      · intro p hp
        simp only [finish_cache, plookup_cons]
        split
        · simp
        · rw [finish_tainted] at hp
          split at hp
          · rcases List.mem_cons.1 hp with rfl | hp
            · contradiction
            · exact hwf1'.taint p hp
          · exact hwf1'.taint p hp
      · intro e he
        simp only [finish_cache, plookup_cons]
        split
        · simp
        · rename_i hne
          simp only [finish_log, List.mem_append] at he
          rcases he with he | he
          · exact hwf1'.logged e he
          · rcases hextra with rfl | ⟨what, _, rfl⟩
            · cases he
            · simp at he; subst he; exact absurd rfl hne
      · simp only [finish_log, List.map_append]
        rcases hextra with rfl | ⟨what, _, rfl⟩
        · simpa using hwf1'.nodup
        · rw [List.nodup_append]
          refine ⟨hwf1'.nodup, by simp, ?_⟩
          intro a ha b hb
          simp at hb; subst hb
          obtain ⟨e, he, rfl⟩ := List.mem_map.1 ha
          intro heq
          exact hwf1'.logged e he (heq ▸ hpathnone)
      · simp [hprog]
      · intro p v0 hp
        have h1 := hext.cache p v0 (by simpa using hp)
        have hne : path ≠ p := by
          intro e; subst e; rw [hnone] at hp; cases hp
        simp only [finish_cache, plookup_cons, hne, if_false]
        exact h1
      · intro p hp
        have h1 := hext.taint p (by simpa using hp)
        rw [finish_tainted]
        split
        · exact List.mem_cons_of_mem _ h1
        · exact h1
      · intro p hp
        rw [finish_tainted] at hp
        have hold : p ∈ s1.tainted → p ∈ st.tainted ∨ plookup p st.cache = none := by
          intro hp; simpa using hext.taintNew p hp
        split at hp
        · rcases List.mem_cons.1 hp with rfl | hp
          · exact .inr hnone
          · exact hold hp
        · exact hold hp
      · have h1 := hext.seen
        have h2 : st.unsafeSeen ≤ (bump n st).unsafeSeen := by rw [bump_unsafeSeen]; split <;> omega
        simp only [enter_unsafeSeen] at h1
        simp only [finish_unsafeSeen]
        omega
      · obtain ⟨new, hnew⟩ := hext.log
        refine ⟨new ++ extra, ?_⟩
        simp only [finish_log, hnew, enter_log, bump_log, List.append_assoc]

/-! ### every log entry is written for a safe dynamic node of the tree -/

/-- the entry was written for a safe `!call` / `!bind` / `!eval` / `!import` node of `root`
    sitting at the logged path, and carries that node's label -/
def GoodEntry (root : Node) (e : LogEntry) : Prop := ∃ m, Placed root m e.path ∧ DynSafe m e.what

/-- the log grew by good entries only -/
def LogExt (root : Node) (s s' : EvSt) : Prop :=
  ∃ new, s'.log = s.log ++ new ∧ ∀ e, e ∈ new → GoodEntry root e

theorem LogExt.refl (root : Node) (s : EvSt) : LogExt root s s := ⟨[], by simp, by simp⟩

theorem LogExt.trans (root : Node) (a b c : EvSt) (h1 : LogExt root a b) (h2 : LogExt root b c) :
    LogExt root a c := by
  obtain ⟨n1, e1, g1⟩ := h1
  obtain ⟨n2, e2, g2⟩ := h2
  refine ⟨n1 ++ n2, by rw [e2, e1, List.append_assoc], ?_⟩
  intro e he
  rcases List.mem_append.1 he with he | he
  · exact g1 e he
  · exact g2 e he

theorem evalNodeF_logExt (root : Node) (w : World) :
    ∀ (fuel : Nat) (rs : Bool) (n : Node) (path : Path) (st : EvSt) (v : Val) (st' : EvSt),
    Placed root n path → evalNodeF root w fuel rs n path st = .ok (v, st') → LogExt root st st'
  | 0, rs, n, path, st, v, st', _, h => by simp [evalNodeF] at h
  | fuel + 1, rs, n, path, st, v, st', hp, h => by
    obtain ⟨_, hcase⟩ := evalNodeF_ok_inv h
    rcases hcase with ⟨_, _, rfl⟩ | ⟨_, _, st2, himpl, rfl⟩
    · exact ⟨[], by simp, by simp⟩
    · obtain ⟨s1, extra, _, ⟨new, hnew, hgood⟩, rfl, hextra⟩ :=
        evalImpl_lift' (I := fun _ => True) (R := LogExt root) (LogExt.refl root) (LogExt.trans root)
          (fun _ s _ => ⟨trivial, LogExt.refl root s⟩)
          (fun rs' m p s v s' hc _ hr =>
            ⟨trivial, evalNodeF_logExt root w fuel rs' m p s v s' (hc.placed hp) hr⟩) trivial himpl
      refine ⟨new ++ extra, ?_, ?_⟩
      · simp only [finish_log, hnew, enter_log, bump_log, List.append_assoc]
      · intro e he
        rcases List.mem_append.1 he with he | he
        · exact hgood e he
        · rcases hextra with rfl | ⟨what, hw, rfl⟩
          · cases he
          · simp at he; subst he; exact ⟨n, hp, hw⟩

/-! ### evaluation under `require_all_safe` -/

/-- Under `require_all_safe` no unsafe node is visited: the counter does not move. -/
theorem evalNodeF_rs_seen (root : Node) (w : World) :
    ∀ (fuel : Nat) (n : Node) (path : Path) (st : EvSt) (v : Val) (st' : EvSt),
    evalNodeF root w fuel true n path st = .ok (v, st') → st'.unsafeSeen = st.unsafeSeen
  | 0, n, path, st, v, st', h => by simp [evalNodeF] at h
  | fuel + 1, n, path, st, v, st', h => by
    obtain ⟨hs, hcase⟩ := evalNodeF_ok_inv h
    have hb : bump n st = st := bump_safe (hs rfl) st
    rcases hcase with ⟨_, ht, rfl⟩ | ⟨_, _, st2, himpl, rfl⟩
    · rw [hit_untainted (ht rfl), hb]
    · obtain ⟨s1, extra, _, hR, rfl, _⟩ :=
        evalImpl_lift' (I := fun _ => True) (R := fun s s' => s'.unsafeSeen = s.unsafeSeen)
          (fun _ => rfl) (fun _ _ _ h1 h2 => h2.trans h1)
          (fun hrs => by cases hrs)
          (fun rs' m p s v s' hc _ hr => by
            have := hc.rs_mono rfl; subst this
            exact ⟨trivial, evalNodeF_rs_seen root w fuel m p s v s' hr⟩) trivial himpl
      simpa [hb] using hR

/-- the preorder used for strict evaluation: extension without visiting an unsafe node -/
def ExtS (s s' : EvSt) : Prop := Ext s s' ∧ s'.unsafeSeen = s.unsafeSeen

theorem ExtS.refl (s : EvSt) : ExtS s s := ⟨Ext.refl s, rfl⟩
theorem ExtS.trans (a b c : EvSt) (h1 : ExtS a b) (h2 : ExtS b c) : ExtS a c :=
  ⟨Ext.trans a b c h1.1 h2.1, h2.2.trans h1.2⟩

theorem evalNodeF_rs_extS {root : Node} {w : World} {fuel : Nat} {n : Node} {path : Path}
    {st st' : EvSt} {v : Val} (hwf : WF st)
    (h : evalNodeF root w fuel true n path st = .ok (v, st')) : WF st' ∧ ExtS st st' :=
  have h1 := evalNodeF_wf root w fuel true n path st v st' hwf h
  ⟨h1.1, h1.2, evalNodeF_rs_seen root w fuel n path st v st' h⟩

/-- the result of a successful evaluation is memoised under its path -/
theorem evalNodeF_cached {root : Node} {w : World} {fuel : Nat} {rs : Bool} {n : Node} {path : Path}
    {st st' : EvSt} {v : Val} (h : evalNodeF root w fuel rs n path st = .ok (v, st')) :
    plookup path st'.cache = some v := by
  cases fuel with
  | zero => simp [evalNodeF] at h
  | succ fuel =>
    obtain ⟨_, hcase⟩ := evalNodeF_ok_inv h
    rcases hcase with ⟨hv, _, rfl⟩ | ⟨_, _, st2, _, rfl⟩
    · simpa using hv
    · simp [plookup_cons]

/-- Under `require_all_safe` the evaluated node is safe and its memoised value is not tainted. -/
theorem evalNodeF_rs_untainted {root : Node} {w : World} {fuel : Nat} {n : Node} {path : Path}
    {st st' : EvSt} {v : Val} (hwf : WF st)
    (h : evalNodeF root w fuel true n path st = .ok (v, st')) :
    eSafe n.flags = true ∧ path ∉ st'.tainted := by
  cases fuel with
  | zero => simp [evalNodeF] at h
  | succ fuel =>
    obtain ⟨hs, hcase⟩ := evalNodeF_ok_inv h
    refine ⟨hs rfl, ?_⟩
    have hb : bump n st = st := bump_safe (hs rfl) st
    rcases hcase with ⟨_, ht, rfl⟩ | ⟨hnone, hnip, st2, himpl, rfl⟩
    · rw [hit_tainted]; exact ht rfl
    · have hwf1 : WF (enter path st) := by
        refine ⟨?_, (by simpa using hwf.taint), (by simpa using hwf.logged), (by simpa using hwf.nodup)⟩
        intro p hp
        simp only [enter_inProgress, List.mem_cons] at hp
        rcases hp with rfl | hp
        · exact hnone
        · exact hwf.prog p hp
      rw [hb] at himpl
      obtain ⟨s1, extra, hwf1', hR, rfl, _⟩ :=
        evalImpl_lift' (I := WF) (R := ExtS) ExtS.refl ExtS.trans
          (fun hrs => by cases hrs)
          (fun rs' m p s v s' hc hI hr => by
            have := hc.rs_mono rfl; subst this
            exact evalNodeF_rs_extS hI hr) hwf1 himpl
      have hprog : path ∈ s1.inProgress := by rw [hR.1.prog]; simp
      have hnc : plookup path s1.cache = none := hwf1'.prog path hprog
      have hnt : path ∉ s1.tainted := fun hm => hwf1'.taint path hm hnc
      have hseen : s1.unsafeSeen = st.unsafeSeen := by simpa using hR.2
      rw [finish_tainted, hb]
      simp [hseen, hs rfl, hnt]

/-- Arguments of a call / bind, names of an eval: a successful strict evaluation of the children
    visits no unsafe node, every child is safe and every value handed over is the memoised value
    of an untainted path. -/
theorem evalItems_rs {root : Node} {w : World} {fuel : Nat} {path : Path} :
    ∀ (cs : List (Key × Node)) (st : EvSt) (items : List (Key × Val)) (st' : EvSt),
    WF st → evalItems (evalNodeF root w fuel) true path cs st = .ok (items, st') →
    WF st' ∧ ExtS st st' ∧ items.map (·.1) = cs.map (·.1) ∧
      (∀ key c, (key, c) ∈ cs → eSafe c.flags = true) ∧
      (∀ key v, (key, v) ∈ items → plookup (path ++ [key]) st'.cache = some v ∧ path ++ [key] ∉ st'.tainted)
  | [], st, items, st', hwf, h => by
    simp [evalItems] at h
    obtain ⟨rfl, rfl⟩ := h
    exact ⟨hwf, ExtS.refl _, rfl, by simp, by simp⟩
  | (k, c) :: rest, st, items, st', hwf, h => by
    unfold evalItems at h
    split at h
    · cases h
    · rename_i v st1 h1
      split at h
      · cases h
      · rename_i vs st2 h2
        cases h
        have ⟨hwf1, hR1⟩ := evalNodeF_rs_extS hwf h1
        have ⟨hs, hnt⟩ := evalNodeF_rs_untainted hwf h1
        have hc1 := evalNodeF_cached h1
        have ⟨hwf2, hR2, hkeys, hsafe, hvals⟩ := evalItems_rs rest st1 vs st' hwf1 h2
        refine ⟨hwf2, ExtS.trans _ _ _ hR1 hR2, by simp [hkeys], ?_, ?_⟩
        · intro key c' hm
          rcases List.mem_cons.1 hm with heq | hm
          · cases heq; exact hs
          · exact hsafe key c' hm
        · intro key v' hm
          rcases List.mem_cons.1 hm with heq | hm
          · cases heq
            refine ⟨hR2.1.cache _ _ hc1, ?_⟩
            intro ht
            rcases hR2.1.taintNew _ ht with ht | ht
            · exact hnt ht
            · rw [hc1] at ht; cases ht
          · exact hvals key v' hm

end AY
