/-
  AY.Lemmas.RefExactDefs — trees made of plain data and references, and their dependency graph
  (C09, exactness of the reference errors). All definitions are executable.

  * `refTree t`: every leaf is a scalar or an `!xref`, every container a `.dict` or a `.list`. (The
    flags are arbitrary: in such a tree nothing is evaluated under `require_all_safe`, so `safe` marks
    only decide what is tainted, not whether the build succeeds.)
  * `resolves t`: the text of every `!xref` of `t` parses (`splitPath`) to a path that names a node
    of `t`.
  * `deps n p`: the paths the node `n` at path `p` depends on — a reference on the path its text
    names, a container on each of its children. `Dep t p q` / `DepPlus t p q`: one / at least one
    dependency step between nodes of `t`.
  * `depthOk t fuel p`: every dependency walk that starts at `p` visits fewer than `fuel` nodes
    (fuel-bounded depth-first search). `acyclicDeps t := depthOk t (t.size + 1) []`: every walk from the
    root visits at most `t.size` nodes — as many as the tree has. `acyclicDeps_iff`
    (AY.Lemmas.RefExact): this holds iff no node of `t` reaches itself (`DepPlus t p p`).
  * `chainEnd t text`: the path a chain of references starting with `text` ends in — follow the
    references through the tree (`xrefResolve`) with fuel `t.size`.
-/
import AY.Lemmas.OutcomeComplete
namespace AY

mutual
def refTree : Node → Bool
  | .leaf _ (.scalar _) => true
  | .leaf _ (.xref _) => true
  | .leaf .. => false
  | .comp _ .dict cs => refTreeList cs
  | .comp _ .list cs => refTreeList cs
  | .comp .. => false
def refTreeList : List (Key × Node) → Bool
  | [] => true
  | (_, c) :: rest => refTree c && refTreeList rest
end

mutual
def resolvesIn (root : Node) : Node → Bool
  | .leaf _ (.xref text) =>
    match splitPath text with
    | some tp => (getNode root tp).isSome
    | none => false
  | .leaf .. => true
  | .comp _ _ cs => resolvesList root cs
def resolvesList (root : Node) : List (Key × Node) → Bool
  | [] => true
  | (_, c) :: rest => resolvesIn root c && resolvesList root rest
end

/-- the text of every reference names a node of the tree -/
def resolves (t : Node) : Bool := resolvesIn t t

/-- the paths the node `n` at path `p` depends on -/
def deps (n : Node) (p : Path) : List Path :=
  match n with
  | .leaf _ (.xref text) =>
    match splitPath text with
    | some tp => [tp]
    | none => []
  | .leaf .. => []
  | .comp _ _ cs => cs.map (fun kc => p ++ [kc.1])

/-- one dependency step between nodes of `t` -/
def Dep (t : Node) (p q : Path) : Prop := ∃ n, getNode t p = some n ∧ q ∈ deps n p

inductive DepPlus (t : Node) : Path → Path → Prop
  | single {p q : Path} : Dep t p q → DepPlus t p q
  | tail {p q r : Path} : DepPlus t p q → Dep t q r → DepPlus t p r

/-- every dependency walk starting at `p` visits fewer than `fuel` nodes -/
def depthOk (t : Node) : Nat → Path → Bool
  | 0, _ => false
  | fuel + 1, p =>
    match getNode t p with
    | none => true
    | some n => (deps n p).all (depthOk t fuel)

/-- no dependency walk from the root visits more nodes than the tree has -/
def acyclicDeps (t : Node) : Bool := depthOk t (t.size + 1) []

/-- the path a chain of references starting with the text `text` ends in -/
def chainEnd (t : Node) (text : String) : Option Path := xrefResolve t t.size text

end AY
