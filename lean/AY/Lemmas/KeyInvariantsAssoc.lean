/-
  AY.Lemmas.KeyInvariantsAssoc — the second half of AY.Lemmas.KeyInvariants: the key predicates of the
  files that import Lemmas/Assoc.lean (whose `AY.keysNodup` clashes with Model/Copy.lean, so `WellKeyed`
  itself cannot be named here; `KI.Keyed` is the same predicate — `keyed_eq_wellKeyed` in
  Lemmas/KeyInvariants.lean).

    wfKeys          Lemmas/C04Filter (C04)     list-family containers numbered 0..n-1
    c16_numbered    Lemmas/C16Ops (C16)        the same predicate
    keysNodup       Lemmas/Assoc               distinct keys of ONE children list
    c08_keysNodupH  Lemmas/C08Req (C08)        distinct keys, every container

  `KI.Keyed` implies all of them; with the loader / merge / flatten theorems of Lemmas/KeyInv*.lean every
  tree a Builder produces from documents without duplicate sibling keys satisfies them.
-/
import AY.Lemmas.KeyInvConstruct
import AY.Lemmas.KeyInvFlatten
import AY.Lemmas.C04Filter
import AY.Lemmas.C16Ops
import AY.Lemmas.C08Req
namespace AY

theorem ki_listKeys : ∀ (i : Nat) (cs : List (Key × Node)), listKeys i cs = KI.numK i (KI.keysOf cs)
  | _, [] => rfl
  | i, (k, v) :: rest => by
    simp only [listKeys, KI.keysOf_cons, KI.numK, ki_listKeys (i + 1) rest]

theorem ki_akeys : ∀ (cs : List (Key × Node)), akeys cs = KI.keysOf cs
  | [] => rfl
  | (k, v) :: rest => by simp only [akeys, KI.keysOf_cons, ki_akeys rest]

/-- `keysNodup` of Lemmas/Assoc.lean is "the key list has no duplicates" -/
theorem ki_keysNodup_assoc : ∀ (cs : List (Key × Node)), keysNodup cs = KI.ndK (KI.keysOf cs)
  | [] => rfl
  | (k, v) :: rest => by
    simp only [keysNodup, KI.keysOf_cons, KI.ndK, ki_akeys, ki_keysNodup_assoc rest]

theorem ki_topOK_wf {k : CompKind} {cs : List (Key × Node)} (h : KI.topOK k (KI.keysOf cs) = true) :
    (k.isDictFam || listKeys 0 cs) = true := by
  unfold KI.topOK at h
  split at h
  · rename_i hd; simp [hd]
  · rw [ki_listKeys, h]; simp

theorem ki_topOK_ndK' {k : CompKind} {ks : List Key} (h : KI.topOK k ks = true) : KI.ndK ks = true := by
  unfold KI.topOK at h
  split at h
  · exact h
  · exact KI.ndK_of_numK h

mutual
theorem keyed_wfKeys : ∀ (n : Node), KI.Keyed n = true → wfKeys n = true
  | .leaf f k, _ => rfl
  | .comp f k cs, h => by
    rw [KI.keyed_comp] at h
    simp only [wfKeys, Bool.and_eq_true]
    exact ⟨ki_topOK_wf h.1, keyedL_wfKeysList cs h.2⟩
theorem keyedL_wfKeysList : ∀ (cs : List (Key × Node)), KI.KeyedL cs = true → wfKeysList cs = true
  | [], _ => rfl
  | (k, c) :: rest, hk => by
    rw [KI.KeyedL_cons] at hk
    simp only [wfKeysList, Bool.and_eq_true]
    exact ⟨keyed_wfKeys c hk.1, keyedL_wfKeysList rest hk.2⟩
end

mutual
theorem keyed_c16_numbered : ∀ (n : Node), KI.Keyed n = true → c16_numbered n = true
  | .leaf f k, _ => rfl
  | .comp f k cs, h => by
    rw [KI.keyed_comp] at h
    simp only [c16_numbered, Bool.and_eq_true]
    exact ⟨ki_topOK_wf h.1, keyedL_c16_numberedList cs h.2⟩
theorem keyedL_c16_numberedList : ∀ (cs : List (Key × Node)), KI.KeyedL cs = true → c16_numberedList cs = true
  | [], _ => rfl
  | (k, c) :: rest, hk => by
    rw [KI.KeyedL_cons] at hk
    simp only [c16_numberedList, Bool.and_eq_true]
    exact ⟨keyed_c16_numbered c hk.1, keyedL_c16_numberedList rest hk.2⟩
end

/-! `wfKeys` (C04) and `c16_numbered` (C16) are the same predicate -/
mutual
theorem wfKeys_eq_c16_numbered : ∀ (n : Node), wfKeys n = c16_numbered n
  | .leaf f k => rfl
  | .comp f k cs => by simp only [wfKeys, c16_numbered, wfKeysList_eq_c16_numberedList cs]
theorem wfKeysList_eq_c16_numberedList : ∀ (cs : List (Key × Node)), wfKeysList cs = c16_numberedList cs
  | [] => rfl
  | (k, c) :: rest => by
    simp only [wfKeysList, c16_numberedList, wfKeys_eq_c16_numbered c, wfKeysList_eq_c16_numberedList rest]
end

mutual
theorem keyed_c08_keysNodupH : ∀ (n : Node), KI.Keyed n = true → c08_keysNodupH n = true
  | .leaf f k, _ => rfl
  | .comp f k cs, h => by
    rw [KI.keyed_comp] at h
    simp only [c08_keysNodupH, Bool.and_eq_true, ki_keysNodup_assoc]
    exact ⟨ki_topOK_ndK' h.1, keyedL_c08_keysNodupHList cs h.2⟩
theorem keyedL_c08_keysNodupHList : ∀ (cs : List (Key × Node)), KI.KeyedL cs = true → c08_keysNodupHList cs = true
  | [], _ => rfl
  | (k, c) :: rest, hk => by
    rw [KI.KeyedL_cons] at hk
    simp only [c08_keysNodupHList, Bool.and_eq_true]
    exact ⟨keyed_c08_keysNodupH c hk.1, keyedL_c08_keysNodupHList rest hk.2⟩
end

/-- the children list of every container of a well-keyed tree has distinct keys (`keysNodup`) -/
theorem keyed_children_keysNodup {f : Flags} {k : CompKind} {cs : List (Key × Node)}
    (h : KI.Keyed (.comp f k cs) = true) : keysNodup cs = true := by
  rw [KI.keyed_comp] at h
  rw [ki_keysNodup_assoc]; exact ki_topOK_ndK' h.1

/-! ### every tree the library builds satisfies them -/

/-- the stages come from the loader, from documents without duplicate sibling keys -/
def KI.BuiltFrom (stages : List Node) : Prop :=
  ∀ s, s ∈ stages → ∃ env raw, KI.rawKeyed raw = true ∧ construct env raw = .ok s

theorem KI.built_keyed {stages : List Node} {r : Node} (hs : KI.BuiltFrom stages) (h : flatten stages = .ok r) :
    KI.Keyed r = true :=
  KI.flatten_keyed stages r
    (fun s hm => by obtain ⟨env, raw, hr, e⟩ := hs s hm; exact KI.construct_keyed env raw s hr e) h

theorem construct_wfKeys (env : Env) (r : Raw) (n : Node) (hr : KI.rawKeyed r = true)
    (h : construct env r = .ok n) : wfKeys n = true ∧ c16_numbered n = true ∧ c08_keysNodupH n = true :=
  have hk := KI.construct_keyed env r n hr h
  ⟨keyed_wfKeys n hk, keyed_c16_numbered n hk, keyed_c08_keysNodupH n hk⟩

theorem built_wfKeys {stages : List Node} {r : Node} (hs : KI.BuiltFrom stages) (h : flatten stages = .ok r) :
    wfKeys r = true ∧ c16_numbered r = true ∧ c08_keysNodupH r = true :=
  have hk := KI.built_keyed hs h
  ⟨keyed_wfKeys r hk, keyed_c16_numbered r hk, keyed_c08_keysNodupH r hk⟩

end AY
